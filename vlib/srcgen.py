"""Regeneration of Coq fragments from /repo's current source (fails closed).

Only regular, declarative fragments are translated: numeric constants (with simple constant
expressions), string/byte-string constants, and match tables of literal arms. Every extractor
raises SrcgenError when the shape it expects is not found, so a stale file is never used.
"""
import os
import re

from .core import REPO, COQ


class SrcgenError(Exception):
    pass


def read(rel):
    p = os.path.join(REPO, rel)
    if not os.path.exists(p):
        raise SrcgenError("source file missing: " + rel)
    return open(p).read()


_INT_TYPES = r"(?:u8|u16|u32|u64|u128|usize|i8|i16|i32|i64|i128|isize)"


def _eval_int(expr, env, where):
    e = expr.strip()
    e = re.sub(r"\bas\s+" + _INT_TYPES + r"\b", "", e)
    e = re.sub(r"(?<=[0-9a-fA-Fx_])" + _INT_TYPES + r"\b", "", e)      # literal suffix 10u64
    e = re.sub(r"\b" + _INT_TYPES + r"::from\(", "(", e)
    e = re.sub(r"\b(?:u32|u64|i64|usize)::MAX\b", lambda m: str({"u32": 2**32 - 1, "u64": 2**64 - 1, "i64": 2**63 - 1, "usize": 2**64 - 1}[m.group(0).split(":")[0]]), e)
    e = re.sub(r"(?<=\d)_(?=\d)", "", e)
    e = re.sub(r"\.pow\((\d+)\)", r"**\1", e)
    e = e.replace("/", "//")
    if not re.fullmatch(r"[0-9A-Za-z_x\s+\-*()<>/]*", e):
        raise SrcgenError("constant expression outside the supported fragment at %s: %r" % (where, expr))
    names = set(re.findall(r"\b[A-Za-z_][A-Za-z0-9_]*\b", e)) - {"x"}
    names = {n for n in names if not re.fullmatch(r"0x[0-9a-fA-F]+|x[0-9a-fA-F]+", n)}
    scope = {}
    for n in names:
        if n in env:
            scope[n] = env[n]
        elif re.fullmatch(r"[0-9a-fA-Fx]+", n):
            continue
        else:
            raise SrcgenError("constant %s used at %s is not extracted" % (n, where))
    try:
        v = eval(e, {"__builtins__": {}}, scope)
    except Exception as ex:
        raise SrcgenError("cannot evaluate %r at %s: %s" % (expr, where, ex))
    if not isinstance(v, int):
        raise SrcgenError("non-integer constant at %s" % where)
    return v


def int_const(rel, name, env=None):
    """`[pub] const NAME: T = <expr>;` anywhere in file `rel`."""
    src = read(rel)
    m = re.search(r"\bconst\s+" + re.escape(name) + r"\s*:\s*[A-Za-z0-9_:<>]+\s*=\s*([^;]+);", src)
    if not m:
        raise SrcgenError("const %s not found in %s" % (name, rel))
    return _eval_int(m.group(1), env or {}, "%s:%s" % (rel, name))


def str_const(rel, name):
    src = read(rel)
    m = re.search(r"\bconst\s+" + re.escape(name) + r"\s*:\s*&(?:'static\s+)?(?:str|\[u8(?:;\s*\d+)?\])\s*=\s*b?\"((?:[^\"\\]|\\.)*)\"\s*;", src)
    if not m:
        raise SrcgenError("string const %s not found in %s" % (name, rel))
    return m.group(1)


def write_gen(name, body):
    """Write coq/Gen/<name>.v only when its content changed (keeps make incremental)."""
    d = os.path.join(COQ, "Gen")
    os.makedirs(d, exist_ok=True)
    p = os.path.join(d, name + ".v")
    txt = "(* GENERATED from /repo by vlib/srcgen.py on every run. Do not edit. *)\n" + body
    if not os.path.exists(p) or open(p).read() != txt:
        open(p, "w").write(txt)
    return p


def z_defs(pairs):
    out = ["From Coq Require Import ZArith.", "Local Open Scope Z_scope."]
    for n, v in pairs:
        out.append("Definition %s : Z := %s." % (n, v if v >= 0 else "(%d)" % v))
    return "\n".join(out) + "\n"
