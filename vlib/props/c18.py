import re

from .. import srcgen
from ..srcgen import SrcgenError
from ..runner import Config

SCHED = "zcash_pool_migration/src/scheduling.rs"
ZIP318 = "components/zcash_protocol/src/zip318.rs"
STATE = "zcash_pool_migration/src/state.rs"
STORE = "zcash_client_sqlite/src/pool_migration/store.rs"
OI = "zcash_client_sqlite/src/pool_migration/orchard_ironwood.rs"

# the columns of the normalised tables, as coq/C18/Store.v models them (payload columns the
# model omits are listed too: a column that appears, disappears or moves fails the run)
TX_COLUMNS = ["migration_id", "transfer_id", "kind", "kind_layer", "kind_index", "kind_crossing", "pczt",
              "scheduled_height", "expiry_height", "anchor_boundary", "state", "txid", "mined_height",
              "lock_owner", "unsatisfiable_at", "unsatisfiable_kind", "broadcast_failure_at"]
DEP_COLUMNS = ["migration_id", "transfer_id", "ordinal", "depends_on_transfer_id"]
MIG_COLUMNS = ["id", "account_id", "status", "note_split_fee_buffer", "note_split_change", "note_split_prep_fees",
               "note_split_total_input", "note_split_total_migratable", "anchor_bucket_interval", "replan_threshold",
               "uuid", "committed_height"]


TABLE_KEYS = ("migrations", "transactions", "transaction_deps", "crossing_values", "prep_inputs", "prep_outputs",
              "prep_direct_funding", "spend_nullifiers")
OTHER_COLUMNS = {
    "create_crossing_values_sql": ["migration_id", "ordinal", "value"],
    "create_prep_inputs_sql": ["migration_id", "layer", "tx_index", "ordinal", "source", "wallet_index", "prior_layer",
                               "prior_transaction", "prior_output", "value"],
    "create_prep_outputs_sql": ["migration_id", "layer", "tx_index", "ordinal", "role", "value"],
    "create_prep_direct_funding_sql": ["migration_id", "ordinal", "wallet_index", "value"],
    "create_spend_nullifiers_sql": ["migration_id", "transfer_id", "ordinal", "nullifier"],
}


def _table_columns(fn):
    """column names of the CREATE TABLE statement built by `fn` in store.rs"""
    body = _fn_body(STORE, fn)
    m = re.search(r"CREATE TABLE IF NOT EXISTS \{\}\s*\((.*?)\)\"\s*,", body, flags=re.S)
    if not m:
        raise SrcgenError("store.rs %s: CREATE TABLE statement not found" % fn)
    cols = []
    depth = 0
    for line in m.group(1).split("\n"):
        l = line.strip()
        if not l:
            continue
        if depth == 0 and not re.match(r"(PRIMARY KEY|FOREIGN KEY|REFERENCES|UNIQUE|CHECK|CONSTRAINT)\b", l):
            w = re.match(r"([a-z_]+)\s+(INTEGER|TEXT|BLOB)\b", l)
            if not w:
                raise SrcgenError("store.rs %s: unexpected column line %r" % (fn, l))
            cols.append(w.group(1))
        depth += l.count("(") - l.count(")")
    return cols


def _table_names():
    src = srcgen.read(OI)
    m = re.search(r"static TABLES: Tables = Tables \{(.*?)\};", src, flags=re.S)
    if not m:
        raise SrcgenError("orchard_ironwood.rs: TABLES not found")
    names = dict(re.findall(r"(\w+):\s*\"([A-Za-z0-9_]+)\"", m.group(1)))
    for k in TABLE_KEYS:
        if k not in names:
            raise SrcgenError("orchard_ironwood.rs TABLES: %s missing" % k)
    return names

ENGINE = "zcash_pool_migration/src/engine.rs"


def _nonzero_const(rel, name):
    src = srcgen.read(rel)
    m = re.search(r"\bconst\s+" + name + r"\s*:\s*(?:Self|NonZeroU32)\s*=\s*(?:Self\()?NonZeroU32::new\((\d[\d_]*)\)", src)
    if not m:
        raise SrcgenError("NonZeroU32 const %s not found in %s" % (name, rel))
    return int(m.group(1).replace("_", ""))


def _fn_body(rel, name):
    src = srcgen.read(rel)
    m = re.search(r"\bfn\s+" + name + r"\b", src)
    if not m:
        raise SrcgenError("fn %s not found in %s" % (name, rel))
    i = src.index("{", src.index(")", m.end()))
    depth, j = 0, i
    while j < len(src):
        if src[j] == "{":
            depth += 1
        elif src[j] == "}":
            depth -= 1
            if depth == 0:
                break
        j += 1
    body = src[i:j + 1]
    return re.sub(r"//[^\n]*", "", body)


def _order(body, names, where):
    last = 0
    for n in names:
        k = body.find(n, last)
        if k < 0:
            raise SrcgenError("%s: expected %s (in this order: %s) not found" % (where, n, names))
        last = k + len(n)


class C18(Config):
    pid = "C18"
    proof_targets = ["C18/Properties.vo"]
    corr_targets = ["C18/Corr.vo", "C18/Wf.vo"]
    audit_dirs = ["Lib", "Gen", "C18"]
    header = ("From V.Lib Require Import Base.\n"
              "From V.C18 Require Import Model Spec Store StoreFull Corr Wf.\n"
              "Local Open Scope Z_scope.")
    bin = "c18"
    release_too = False
    n_tags = 108          # 49 path tags x {pure, persisted}; 44/46 (shift + Reevaluate/Complete) and 1 (no-op, pure) are unreachable
    shard_size = 400
    classes = {}          # both classes were repaired in /repo (known_findings.d/C18.json, kind "fixed")
    rule = ("one case per executed public API call on a MigrationState (store_proved_transaction, apply_signature, rebuild_expired_transfer[_unsigned], "
            "advance_migration against a scripted store oracle, mark_broadcast, mark_mined, truncate_to_height, "
            "report_broadcast_failure, record_satisfiability, mark_cancelled, mark_superseded, recompute_status) inside "
            "event sequences over generated states (crate proptest strategies re-keyed + own DAG generator); each line "
            "carries the canonical state before, the event with its oracle tables, the canonical state after, the "
            "returned step, and the SQLite save/load verdicts; distinct = distinct lines")
    trusted_base = [
        "Coq 8.16.1 kernel, vm_compute (no native_compute)",
        "axioms: none",
        "vlib/props/c18.py extractors (constants of scheduling.rs / zip318.rs, shape checks of next_step, next_broadcastable, is_terminal, advance_migration)",
        "harness/wallet/src/bin/c18.rs: state printers, scripted PoolMigrationWrite store (oracle tables), scripted RNG, SQLite round-trip comparison by Rust PartialEq",
        "the state-machine model (Model.v) omits PCZT bytes, lock owners and nullifier caches (opaque payloads no decision reads); the store model (StoreFull.v) carries them as tokens",
        "coq/C18/Store.v and StoreFull.v: row-level model of store.rs; tied to the code by regenerated table names / column lists (fail closed), by full-row dumps of every table compared with the model's save output at each persisted step, and by the load-back verdicts (SQLite and the in-memory backend)",
    ]
    assumptions = [
        "transaction ids unique within a migration (the store keys rows by id; with duplicate ids the code's drive loop itself need not terminate)",
        "served targets fit u32 (they are BlockHeights)",
        "the store oracle is a pure function of the queried transaction row within one advance_migration call",
        "rebuild: the wallet/crypto half of rebuild_expired_transfer (funding note, anchor draw, PCZT build, signing) is an oracle bit plus the observed new schedule / anchor / txid",
    ]
    partial_clauses = [
        "byte strings in the store model (PCZT, lock owner, nullifier) are opaque (length, FNV-1a-64) tokens; the model's save output is compared with plain SELECT dumps of ALL normalised tables at every persisted step",
        "sync_wakeup_schedule (C17's) is not modelled; the outlook (Advance::next) is modelled and compared on every advance call, with one theorem about its per-row floor",
    ]

    def harness_args(self, tier, seed, search=False):
        a = Config.harness_args(self, tier, seed, search)
        try:
            n = _table_names()
            a += ["--tables", ",".join(n[k] for k in TABLE_KEYS)]
        except SrcgenError:
            pass            # reported by gen(); the harness falls back to its built-in names
        return a

    @staticmethod
    def gen():
        names = _table_names()
        for fn, want in [("create_transactions_sql", TX_COLUMNS), ("create_transaction_deps_sql", DEP_COLUMNS),
                         ("create_migrations_sql", MIG_COLUMNS)] + sorted(OTHER_COLUMNS.items()):
            got = _table_columns(fn)
            if got != want:
                raise SrcgenError("store.rs %s: columns %s differ from the modelled %s" % (fn, got, want))
        _order(_fn_body(STORE, "read_transactions"), ["ORDER BY transfer_id", "MigrationTxKind::from_stored(", "MigrationTxState::from_stored(",
                                                      "read_deps(", "unsatisfiable_at / unsatisfiable_kind disagree"], "store.rs read_transactions")
        _order(_fn_body(STORE, "read_preparation"), ["UNION", "ORDER BY layer, tx_index", "layer == layers.len() && tx_index == 0",
                                                     "layer + 1 == layers.len() && tx_index == layers[layer].len()", "non-contiguous",
                                                     "read_prep_inputs(", "read_prep_outputs(", "ORDER BY ordinal"], "store.rs read_preparation")
        _order(_fn_body(STORE, "read_spend_nullifiers"), ["ORDER BY ordinal"], "store.rs read_spend_nullifiers")
        _order(_fn_body(STORE, "read_deps"), ["SELECT depends_on_transfer_id", "ORDER BY ordinal"], "store.rs read_deps")
        _order(_fn_body(STORE, "resolve_migration_id"), ["status NOT IN", "terminal_status_sql_list()"], "store.rs resolve_migration_id")
        q = lambda l: "[" + "; ".join('"%s"' % c for c in l) + "]"
        body = "From Coq Require Import String List.\nImport ListNotations.\nLocal Open Scope string_scope.\n"
        body += "Definition TX_COLUMNS : list string := %s.\n" % q(_table_columns("create_transactions_sql"))
        body += "Definition DEP_COLUMNS : list string := %s.\n" % q(_table_columns("create_transaction_deps_sql"))
        body += "Definition MIGRATIONS_COLUMNS : list string := %s.\n" % q(_table_columns("create_migrations_sql"))
        for fn in sorted(OTHER_COLUMNS):
            body += "Definition %s_COLUMNS : list string := %s.\n" % (fn.replace("create_", "").replace("_sql", "").upper(), q(_table_columns(fn)))
        for k in TABLE_KEYS:
            body += "Definition TABLE_%s : string := \"%s\".\n" % (k.upper(), names[k])
        srcgen.write_gen("C18Store", body)
        depth = srcgen.int_const(SCHED, "PROVABLE_ANCHOR_DEPTH")
        cap = srcgen.int_const(ZIP318, "ANCHOR_AGE_CAP")
        mean = _nonzero_const(ZIP318, "TRANSFER_DELAY_MEAN")
        ivl = _nonzero_const(ZIP318, "ZIP_318")
        # shape ties: the priority order of next_step, the terminal set, the drive loop phases
        _order(_fn_body(STATE, "next_step"),
               ["is_terminal()", "dead_set(", "next_broadcastable(", "replan_required()", "provable_targets(",
                "next_rebuildable(", "dead.is_empty()", "AdvanceStep::Complete", "AdvanceStep::Waiting"],
               "state.rs next_step")
        _order(_fn_body(STATE, "next_broadcastable"),
               ["MigrationTxState::Proved", "scheduled_height <= targets.effective()", "!dead.contains",
                "!set_aside.contains", "broadcast_failure_at.is_none()", "deps_mined(", "!Self::is_expired(t, targets.effective())"],
               "state.rs next_broadcastable")
        body = _fn_body(ENGINE, "is_terminal")
        m = re.search(r"=>\s*false,(.*?)=>\s*true", body, flags=re.S)
        if not m:
            raise SrcgenError("engine.rs MigrationStatus::is_terminal: unexpected shape")
        term = sorted(re.findall(r"MigrationStatus::(\w+)", m.group(1)))
        if term != ["Cancelled", "Complete", "Failed", "Superseded"]:
            raise SrcgenError("engine.rs: terminal status set changed: %s" % term)
        _order(_fn_body("zcash_pool_migration/src/satisfiability.rs", "advance_migration"),
               ["store.mined_height(", "state.mark_broadcast(id)", "state.mark_mined(id, height)", "record_satisfiability(targets, &findings)",
                "broadcast_failure_at()", "clear_broadcast_failure(", "AdvanceStep::Reevaluate", "overdue_shift_tolerance(",
                "state.next_step(targets, &set_aside)", "state.shift_schedule(", "broaden_after_discovery(", "store.replace_migration(state)"],
               "satisfiability.rs advance_migration")
        emod = srcgen.int_const(ZIP318, "EXPIRY_MODULUS")
        ewin = srcgen.int_const(ZIP318, "EXPIRY_WINDOW", {"EXPIRY_MODULUS": emod})
        body = _fn_body(ZIP318, "expiry_height")
        if not re.search(r"h\s*-\s*\(h\s*%\s*EXPIRY_MODULUS\)\)\s*\+\s*EXPIRY_WINDOW", body):
            raise SrcgenError("zip318.rs expiry_height: unexpected shape")
        _order(_fn_body(ENGINE, "rebuild_expired_transfer_inner"),
               ["AnchorIntervalMismatch", "chain_tip_height()", "UnknownTransaction", "NotATransfer", "RebuildError::Unsatisfiable",
                "RebuildError::NotExpired", "chain_base", ".max(target_height)", "transfer_delay().draw(", "scheduling::expiry_height(scheduled_height)",
                "tx.scheduled_height = scheduled_height", "tx.expiry_height = expiry_height", "tx.anchor_boundary = Some(anchor_boundary)",
                "tx.txid = txid", "tx.state = new_state"],
               "engine.rs rebuild_expired_transfer_inner")
        srcgen.write_gen("C18Consts", srcgen.z_defs([
            ("PROVABLE_ANCHOR_DEPTH", depth), ("ANCHOR_AGE_CAP", cap),
            ("TRANSFER_DELAY_MEAN", mean), ("ZIP318_INTERVAL", ivl),
            ("EXPIRY_MODULUS", emod), ("EXPIRY_WINDOW", ewin)]))


CONFIG = C18()
