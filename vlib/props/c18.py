import re

from .. import srcgen
from ..srcgen import SrcgenError
from ..runner import Config

SCHED = "zcash_pool_migration/src/scheduling.rs"
ZIP318 = "components/zcash_protocol/src/zip318.rs"
STATE = "zcash_pool_migration/src/state.rs"
ENGINE = "zcash_pool_migration/src/engine.rs"


def _nonzero_const(rel, name):
    src = srcgen.read(rel)
    m = re.search(r"\bconst\s+" + name + r"\s*:\s*(?:Self|NonZeroU32)\s*=\s*(?:Self\()?NonZeroU32::new\((\d[\d_]*)\)", src)
    if not m:
        raise SrcgenError("NonZeroU32 const %s not found in %s" % (name, rel))
    return int(m.group(1).replace("_", ""))


def _fn_body(rel, name):
    src = srcgen.read(rel)
    m = re.search(r"\bfn\s+" + name + r"\b", src)
    if not m:
        raise SrcgenError("fn %s not found in %s" % (name, rel))
    i = src.index("{", src.index(")", m.end()))
    depth, j = 0, i
    while j < len(src):
        if src[j] == "{":
            depth += 1
        elif src[j] == "}":
            depth -= 1
            if depth == 0:
                break
        j += 1
    body = src[i:j + 1]
    return re.sub(r"//[^\n]*", "", body)


def _order(body, names, where):
    last = 0
    for n in names:
        k = body.find(n, last)
        if k < 0:
            raise SrcgenError("%s: expected %s (in this order: %s) not found" % (where, n, names))
        last = k + len(n)


class C18(Config):
    pid = "C18"
    proof_targets = ["C18/Properties.vo"]
    corr_targets = ["C18/Corr.vo", "C18/Wf.vo"]
    audit_dirs = ["Lib", "Gen", "C18"]
    header = ("From V.Lib Require Import Base.\n"
              "From V.C18 Require Import Model Spec Corr Wf.\n"
              "Local Open Scope Z_scope.")
    bin = "c18"
    release_too = False
    n_tags = 84           # 42 path tags x {pure, persisted}; 44/46 (shift + Reevaluate/Complete) and 1 (no-op, pure) are unreachable
    shard_size = 400
    classes = {}          # both classes were repaired in /repo (known_findings.d/C18.json, kind "fixed")
    rule = ("one case per executed public API call on a MigrationState (store_proved_transaction, apply_signature, "
            "advance_migration against a scripted store oracle, mark_broadcast, mark_mined, truncate_to_height, "
            "report_broadcast_failure, record_satisfiability, mark_cancelled, mark_superseded, recompute_status) inside "
            "event sequences over generated states (crate proptest strategies re-keyed + own DAG generator); each line "
            "carries the canonical state before, the event with its oracle tables, the canonical state after, the "
            "returned step, and the SQLite save/load verdicts; distinct = distinct lines")
    trusted_base = [
        "Coq 8.16.1 kernel, vm_compute (no native_compute)",
        "axioms: none",
        "vlib/props/c18.py extractors (constants of scheduling.rs / zip318.rs, shape checks of next_step, next_broadcastable, is_terminal, advance_migration)",
        "harness/wallet/src/bin/c18.rs: state printers, scripted PoolMigrationWrite store (oracle tables), scripted RNG, SQLite round-trip comparison by Rust PartialEq",
        "the model omits PCZT bytes, lock owners, nullifier caches and the advisory outlook (Advance::next)",
        "coq/C18/Store.v is a row-level model of store.rs written by reading; it is tied to the code only through the SQLite verdicts of the persistence stream (replace_migration / latest_migration / get_migration / list_migrations on a real wallet database at every step)",
    ]
    assumptions = [
        "transaction ids unique within a migration (the store keys rows by id)",
        "anchor boundaries below 2^32-11 (prove_ready / overdue test use plain u32 addition)",
        "the store oracle is a pure function of the queried transaction row within one advance_migration call",
        "drive-loop termination is not proved: theorems about advance hold for every call that returns (model fuel 4n+8; every generated call returned within it)",
    ]
    partial_clauses = [
        "termination of the advance_migration drive loop is not proved (fuelled model; every theorem about advance is for calls that return)",
        "no-silent-stranding at the drive API is proved for stores that never answer NotYetSatisfiable within the call (a deferral makes Waiting the documented report); at the kernel it is unconditional",
        "rebuild_expired_transfer (engine.rs), which replaces an expired transfer by a new Signed/AwaitingSignature transaction under the same id, is outside the modelled events",
        "store_roundtrip is proved on the row model for the transaction and dependency tables; denomination / preparation-plan / nullifier / PCZT columns are covered by the SQLite round trips only",
    ]

    @staticmethod
    def gen():
        depth = srcgen.int_const(SCHED, "PROVABLE_ANCHOR_DEPTH")
        cap = srcgen.int_const(ZIP318, "ANCHOR_AGE_CAP")
        mean = _nonzero_const(ZIP318, "TRANSFER_DELAY_MEAN")
        ivl = _nonzero_const(ZIP318, "ZIP_318")
        # shape ties: the priority order of next_step, the terminal set, the drive loop phases
        _order(_fn_body(STATE, "next_step"),
               ["is_terminal()", "dead_set(", "next_broadcastable(", "replan_required()", "provable_targets(",
                "next_rebuildable(", "dead.is_empty()", "AdvanceStep::Complete", "AdvanceStep::Waiting"],
               "state.rs next_step")
        _order(_fn_body(STATE, "next_broadcastable"),
               ["MigrationTxState::Proved", "scheduled_height <= targets.effective()", "!dead.contains",
                "!set_aside.contains", "broadcast_failure_at.is_none()", "deps_mined(", "!Self::is_expired(t, targets.effective())"],
               "state.rs next_broadcastable")
        body = _fn_body(ENGINE, "is_terminal")
        m = re.search(r"=>\s*false,(.*?)=>\s*true", body, flags=re.S)
        if not m:
            raise SrcgenError("engine.rs MigrationStatus::is_terminal: unexpected shape")
        term = sorted(re.findall(r"MigrationStatus::(\w+)", m.group(1)))
        if term != ["Cancelled", "Complete", "Failed", "Superseded"]:
            raise SrcgenError("engine.rs: terminal status set changed: %s" % term)
        _order(_fn_body("zcash_pool_migration/src/satisfiability.rs", "advance_migration"),
               ["store.mined_height(", "state.mark_broadcast(id)", "state.mark_mined(id, height)", "record_satisfiability(targets, &findings)",
                "broadcast_failure_at()", "clear_broadcast_failure(", "AdvanceStep::Reevaluate", "overdue_shift_tolerance(",
                "state.next_step(targets, &set_aside)", "state.shift_schedule(", "broaden_after_discovery(", "store.replace_migration(state)"],
               "satisfiability.rs advance_migration")
        srcgen.write_gen("C18Consts", srcgen.z_defs([
            ("PROVABLE_ANCHOR_DEPTH", depth), ("ANCHOR_AGE_CAP", cap),
            ("TRANSFER_DELAY_MEAN", mean), ("ZIP318_INTERVAL", ivl)]))


CONFIG = C18()
