from .. import srcgen
from ..runner import Config


class C05(Config):
    pid = "C05"
    proof_targets = ["C05/Properties.vo"]
    corr_targets = ["C05/Corr.vo", "C05/Wf.vo"]
    audit_dirs = ["Lib", "Gen", "C05"]
    header = ("From V.Lib Require Import Base.\n"
              "From V.C05 Require Import Model Spec Corr Wf.\n"
              "Local Open Scope N_scope.")
    bin = "c05"
    release_too = False
    n_tags = None
    shard_size = 120
    classes = {1: "C05-height-u32-panic", 2: "C05-blockhash-length-panic", 3: "C05-txid-length-panic",
               4: "C05-dup-txid-batched-miss"}
    rule = ("one Scan case per compact block scanned and one Upd case per Nullifiers::update_with between consecutive blocks: chains of 1-5 fabricated blocks (notes received in block i are spent in later blocks of the same chain, all three pools; block headers present/absent/inconsistent with the raw fields) (real Sapling/Orchard/Ironwood notes to "
            "tracked accounts x {external,internal}, untracked and foreign keys, near-miss outputs, spends of tracked and "
            "untracked nullifiers, arbitrary per-transaction arrangement), a corruption stream on continuity metadata and "
            "field lengths, and multi-corruption single blocks; each chain is scanned inline (scan_block) and batched "
            "(scan_cached_blocks, BatchRunner threshold 100; chains below and above the threshold) under rayon pools of "
            "16, 1, 2 and 7 threads; distinct = distinct case lines; non-trivial = every line is an executed scan with its outcome")
    trusted_base = [
        "Coq 8.16.1 kernel, vm_compute (no native_compute)",
        "axioms: none (every theorem is closed under the global context)",
        "trial decryption and nullifier derivation are Section variables; for case evaluation they are the block generator's "
        "ground-truth table (harness/wallet/src/bin/c05.rs), never the code under test",
        "harness printers, per-case interning of opaque 32-byte values (equality-preserving), catch_unwind wrappers, "
        "the recording WalletWrite (harness/wallet/src/c05gen/spy.rs, derived from MockWalletDb); vlib case-file generator",
        "canonical-encoding flags of field elements are computed by the harness by comparing with the field moduli",
        "ZIP 212: the model decides from the block's claimed height, the Canopy activation height and ZIP212_GRACE_PERIOD (regenerated from consensus.rs) whether a Sapling plaintext with lead byte 0x01/0x02 is accepted; the generator only reports the lead byte it encrypted with",
        "external crates: sapling-crypto, orchard, zcash_note_encryption (decryption correctness), rayon, flume, prost",
    ]
    assumptions = [
        "each output decrypts under at most one of the scanning keys (distinct viewing keys); key order is a HashMap order in the code, a list in the model",
        "debug profile (overflow checks on); usize is 64 bits",
        "the prior block's height is below u32::MAX (BlockHeight + 1 saturates)",
        "block hashes are unique across the blocks handed to one BatchRunner (keys of its result map); duplicate txids within a block are known finding C05-dup-txid-batched-miss",
    ]
    partial_clauses = [
        "schedule independence of the batched decryptor is sampled (rayon pools of 1, 2, 7, 16 threads; batches below and above "
        "the threshold of 100 outputs), not proved: task interleavings are runtime behaviour outside the model",
        "correctness of real trial decryption is the external crates'; the model takes it as an oracle and the correspondence "
        "compares the real decryption against the generator's ground truth",
        "the bridge (C05_bridge / C05_scan_correct) makes agreement with the model imply the property for the inline path; for the batched path Batched.v proves that the result is a function of the per-(block hash, txid) decryption results for every arrival order and map layout under pairwise distinct keys, but rayon scheduling itself and BatchRunner's channel plumbing are tied to that model only by sampling",
        "for blocks with several simultaneous defects the batched path may report a different error than the inline path "
        "(add_block validates every output of every block before continuity is checked); only 'rejected' is compared there",
    ]

    @staticmethod
    def gen():
        g = srcgen.int_const("components/zcash_protocol/src/consensus.rs", "ZIP212_GRACE_PERIOD")
        srcgen.write_gen("C05Consts", srcgen.z_defs([("ZIP212_GRACE_PERIOD", g)]))


CONFIG = C05()
