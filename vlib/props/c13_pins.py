"""Hashes of the hand-modelled Rust text (see c13.py); update only after re-deriving coq/C13/Model.v."""
PINS = {'global': 'b61761b84fe24414', 'transparent': '10f2809be2a29526', 'sapling': '43ea73fa620dba92', 'orchard': '96700ed402560008', 'combiner': '8dc97a35d7d8351d65627d6dc44d4d4d', 'merge_optional': '96a9f31244c9ac55', 'merge_map': '9a2d53c201fb1dab', 'serialize': '96f3c8ca9826cf86'}
