import hashlib
import re
import struct

from .. import srcgen
from ..runner import Config


class C20(Config):
    pid = "C20"
    proof_targets = ["C20/Properties.vo"]
    corr_targets = ["C20/Corr.vo", "C20/Wf.vo", "C20/RealHash.vo"]
    audit_dirs = ["Lib", "C20"]
    header = ("From V.Lib Require Import Base MachInt Hex.\n"
              "From V.C20 Require Import Model Spec Corr Wf.\n"
              "Local Open Scope Z_scope.")
    bin = "c20"
    release_too = True
    n_tags = None
    shard_size = 230
    classes = {1: "C20-combine-overflow"}
    rule = ("CompactSize / node / entry codecs on the boundary lattice and mutated encodings; Version::combine incl. the "
            "overflow boundary; Tree histories (V1, V2, V3) from one leaf through appends and truncations, and partial "
            "views loaded from the array representation for every tree size; every random choice from one ChaCha8 "
            "stream; distinct = distinct case lines; non-trivial = every line is one or more executed API calls with "
            "their observed outcomes")
    trusted_base = [
        "Coq 8.16.1 kernel, vm_compute (no native_compute)",
        "axioms: none (every theorem is closed under the global context)",
        "BLAKE2b-256 is a Section variable H in all theorems; in the correspondence run H is the table of the "
        "(branch, pre-image, digest) triples found in the implementation's nodes, each triple re-verified by "
        "Python hashlib.blake2b (person = 'ZcashHistory' || branch_le) in vlib/props/c20.py, and recomputed inside "
        "Coq with the Gallina BLAKE2b of coq/Lib/Blake2b.v (coq/C20/RealHash.v: all tables in the thorough tier, a "
        "sample in the quick tier; there the model is also run with that hash directly)",
        "harness/pure/src/bin/c20.rs printers, catch_unwind wrappers and its bookkeeping of the array representation; "
        "vlib case-file generator",
        "model of u32/u64/U256 arithmetic in coq/C20/Model.v (overflow-check flag carried by each case)",
    ]
    assumptions = ["usize is 64 bits (the harness target)",
                   "leaves of one chain: equal branch ids, heights h0, h0+1, ... with start = end (Entry::leaf_count derives "
                   "the number of leaves from the height range)",
                   "per-pool transaction totals <= u64::MAX and total work <= U256::MAX (sums_fit; outside it combine "
                   "panics or wraps: known finding C20-combine-overflow)",
                   "array length < 2^32 (u32 indices)"]
    partial_clauses = [
        "bridge theorem (agreement with the model => property checker) covers all codec / combine cases and all "
        "full-tree histories; partial-view cases are evaluated by prop_case only (the view theorems C20_view_* / "
        "C20_partial_view_refines_* / C20_tree_new_view are proved, but not tied to the boolean checker)",
        "the bridge concludes prop_main = prop_case without the harness-side flag hok (root commitment recomputed "
        "by the harness); hok is evaluated on every case, and the commitments are also compared through the hash "
        "tables (hashlib; Gallina BLAKE2b in the thorough tier)",
        "BLAKE2b is an arbitrary function H in all theorems",
        "long histories: prop_case rebuilds from scratch at a deterministic subset of steps (returned links, counts "
        "and lengths at all steps)",
        "release profile (wrapping counters) is modelled (oc = false) and exercised in the thorough tier only",
    ]

    @staticmethod
    def gen():
        # constants the model hard-codes: fail closed when the source changes them
        enc = "components/zcash_encoding/src/lib.rs"
        src = srcgen.read(enc)
        for pat in (r"if flag < 253", r"n if n < 253 =>", r"n if n < 0x10000 =>", r"n if n < 0x100000000 =>",
                    r"n if n <= 0xFFFF =>", r"n if n <= 0xFFFFFFFF =>"):
            if not re.search(pat, src):
                raise srcgen.SrcgenError("CompactSize shape changed: %r not found in %s" % (pat, enc))
        ver = srcgen.read("zcash_history/src/version.rs")
        if 'b"ZcashHistory"' not in ver or "hash_length(32)" not in ver:
            raise srcgen.SrcgenError("personalisation / digest length changed in version.rs")

    def extra(self, ctx):
        """Verify every (branch, pre-image, digest) triple printed in the cases with hashlib."""
        bad, n = [], 0
        seen = set()
        pat = re.compile(r'\((\d+), \(hz "([0-9a-f]*)"%string\), \(hz "([0-9a-f]*)"%string\)\)')
        for c, _rel in ctx.get("cases") or []:
            if not (c.startswith("CTree") or c.startswith("CCombine")):
                continue
            for m in pat.finditer(c):
                key = m.group(0)
                if key in seen:
                    continue
                seen.add(key)
                n += 1
                bid, pre, dg = int(m.group(1)), bytes.fromhex(m.group(2)), m.group(3)
                h = hashlib.blake2b(pre, digest_size=32, person=b"ZcashHistory" + struct.pack("<I", bid)).hexdigest()
                if h != dg:
                    bad.append(key[:200])
        ctx.setdefault("extra_evidence", {})["hash_triples_verified"] = n
        if bad:
            ctx["violations"].append({"case": bad[0], "profile": "debug", "clause": "subtree-commitment",
                                      "detail": "a node's commitment is not BLAKE2b-256(ZcashHistory||branch, left||right): %d triple(s)" % len(bad)})
        self.real_hash(ctx, pat)

    def real_hash(self, ctx, pat):
        """Commitments inside Coq: the abstract hash instantiated with the Gallina BLAKE2b of V.Lib.Blake2b
        (coq/C20/RealHash.v).  `hashes_real`: every triple of the case's table is recomputed in Coq;
        `run_case_real`: the model is run with the real hash instead of the table.  Thorough: every case that
        carries a table; quick: a small sample (about one second of Coq time)."""
        import os
        import shutil
        from concurrent.futures import ThreadPoolExecutor
        from .. import core
        ok, out = core.coq_make(["C20/RealHash.vo"])
        if not ok:
            ctx["problems"].append({"kind": "model", "what": "coq/C20/RealHash.v no longer compiles", "log": out[-3000:]})
            return
        lines = [c for c, _rel in (ctx.get("cases") or []) if (c.startswith("CTree") or c.startswith("CCombine")) and pat.search(c)]
        if ctx.get("tier") != "thorough":
            lines = sorted(lines, key=len)[:24]
        if not lines:
            return
        header = ("From V.Lib Require Import Base MachInt Hex.\n"
                  "From V.C20 Require Import Model Spec Corr Wf RealHash.\n"
                  "Local Open Scope Z_scope.")
        fns = dict(run="run_case_real", prop="hashes_real", wf="wf_case", cls="known_class", tag="tag_case")
        wd = os.path.join(core.CACHE, "run", "C20real")
        shutil.rmtree(wd, ignore_errors=True)
        os.makedirs(wd)
        size = 24
        shards = [lines[i:i + size] for i in range(0, len(lines), size)]
        bad_run, bad_tbl, errs = [], [], []
        with ThreadPoolExecutor(max_workers=16) as ex:
            futs = [ex.submit(core.eval_shard, "C20", header, fns, sh, i, wd, 1800) for i, sh in enumerate(shards)]
            for i, f in enumerate(futs):
                r = f.result()
                if "error" in r:
                    errs.append(r["error"])
                    continue
                bad_run += [shards[i][j] for j in r["run"]]
                bad_tbl += [shards[i][j] for j in r["prop"]]
        ev = ctx.setdefault("extra_evidence", {})
        ev["real_hash_cases_in_coq"] = len(lines)
        if errs:
            ctx["problems"].append({"kind": "corr-eval", "what": "coqc failed on the real-hash evaluation", "log": errs[0][-2000:]})
        if bad_tbl:
            ctx["violations"].append({"case": min(bad_tbl, key=len), "profile": "debug", "clause": "subtree-commitment (Gallina BLAKE2b)",
                                      "detail": "a stored commitment differs from BLAKE2b-256 computed in Coq on %d case(s)" % len(bad_tbl)})
        elif bad_run:
            ctx["problems"].append({"kind": "correspondence", "what": "model run with the Gallina BLAKE2b disagrees with the implementation on %d case(s)" % len(bad_run),
                                    "minimal": min(bad_run, key=len)})


CONFIG = C20()
