import hashlib
import re
import struct

from .. import srcgen
from ..runner import Config


class C20(Config):
    pid = "C20"
    proof_targets = ["C20/Properties.vo"]
    corr_targets = ["C20/Corr.vo", "C20/Wf.vo"]
    audit_dirs = ["Lib", "C20"]
    header = ("From V.Lib Require Import Base MachInt Hex.\n"
              "From V.C20 Require Import Model Spec Corr Wf.\n"
              "Local Open Scope Z_scope.")
    bin = "c20"
    release_too = True
    n_tags = None
    shard_size = 230
    classes = {1: "C20-combine-overflow"}
    rule = ("CompactSize / node / entry codecs on the boundary lattice and mutated encodings; Version::combine incl. the "
            "overflow boundary; Tree histories (V1, V2, V3) from one leaf through appends and truncations, and partial "
            "views loaded from the array representation for every tree size; every random choice from one ChaCha8 "
            "stream; distinct = distinct case lines; non-trivial = every line is one or more executed API calls with "
            "their observed outcomes")
    trusted_base = [
        "Coq 8.16.1 kernel, vm_compute (no native_compute)",
        "axioms: none (every theorem is closed under the global context)",
        "BLAKE2b-256 is a Section variable H in all theorems; in the correspondence run H is the table of the "
        "(branch, pre-image, digest) triples found in the implementation's nodes, each triple re-verified by "
        "Python hashlib.blake2b (person = 'ZcashHistory' || branch_le) in vlib/props/c20.py",
        "harness/pure/src/bin/c20.rs printers, catch_unwind wrappers and its bookkeeping of the array representation; "
        "vlib case-file generator",
        "model of u32/u64/U256 arithmetic in coq/C20/Model.v (overflow-check flag carried by each case)",
    ]
    assumptions = ["usize is 64 bits (the harness target)",
                   "leaves of one chain: equal branch ids, heights h0, h0+1, ... with start = end (Entry::leaf_count derives "
                   "the number of leaves from the height range)",
                   "per-pool transaction totals <= u64::MAX and total work <= U256::MAX (sums_fit; outside it combine "
                   "panics or wraps: known finding C20-combine-overflow)",
                   "array length < 2^32 (u32 indices)"]
    partial_clauses = [
        "partial views (Tree::new(length, peaks, extra) with several peaks, then an operation): correspondence + "
        "from-scratch property check only (every tree size 1..33 quick / 1..130 thorough, all three versions); "
        "no partial_view_refines theorem",
        "node/entry canonicity (accepted bytes = canonical encoding) is a theorem for CompactSize only; for whole "
        "node/entry records it is evaluated by prop_case on mutated encodings, the theorem proved is the round trip",
        "subtree commitments: H is an arbitrary function in the theorems; BLAKE2b itself is checked per recorded "
        "triple with hashlib, not modelled",
        "no bridge theorem run_case => prop_case; prop_case is evaluated independently on every case (long "
        "histories: from-scratch rebuild at a deterministic subset of steps, returned links/counts/lengths at all)",
        "release profile (wrapping counters) is modelled (oc = false) and exercised in the thorough tier only",
    ]

    @staticmethod
    def gen():
        # constants the model hard-codes: fail closed when the source changes them
        enc = "components/zcash_encoding/src/lib.rs"
        src = srcgen.read(enc)
        for pat in (r"if flag < 253", r"n if n < 253 =>", r"n if n < 0x10000 =>", r"n if n < 0x100000000 =>",
                    r"n if n <= 0xFFFF =>", r"n if n <= 0xFFFFFFFF =>"):
            if not re.search(pat, src):
                raise srcgen.SrcgenError("CompactSize shape changed: %r not found in %s" % (pat, enc))
        ver = srcgen.read("zcash_history/src/version.rs")
        if 'b"ZcashHistory"' not in ver or "hash_length(32)" not in ver:
            raise srcgen.SrcgenError("personalisation / digest length changed in version.rs")

    def extra(self, ctx):
        """Verify every (branch, pre-image, digest) triple printed in the cases with hashlib."""
        bad, n = [], 0
        seen = set()
        pat = re.compile(r'\((\d+), \(hz "([0-9a-f]*)"%string\), \(hz "([0-9a-f]*)"%string\)\)')
        for c, _rel in ctx.get("cases") or []:
            if not (c.startswith("CTree") or c.startswith("CCombine")):
                continue
            for m in pat.finditer(c):
                key = m.group(0)
                if key in seen:
                    continue
                seen.add(key)
                n += 1
                bid, pre, dg = int(m.group(1)), bytes.fromhex(m.group(2)), m.group(3)
                h = hashlib.blake2b(pre, digest_size=32, person=b"ZcashHistory" + struct.pack("<I", bid)).hexdigest()
                if h != dg:
                    bad.append(key[:200])
        ctx.setdefault("extra_evidence", {})["hash_triples_verified"] = n
        if bad:
            ctx["violations"].append({"case": bad[0], "profile": "debug", "clause": "subtree-commitment",
                                      "detail": "a node's commitment is not BLAKE2b-256(ZcashHistory||branch, left||right): %d triple(s)" % len(bad)})


CONFIG = C20()
