import glob
import os
import re

from .. import srcgen
from ..srcgen import SrcgenError
from ..runner import Config

Z317 = "zcash_primitives/src/transaction/fees/zip317.rs"
Z318 = "components/zcash_protocol/src/zip318.rs"
VALUE = "components/zcash_protocol/src/value.rs"
CONS = "components/zcash_protocol/src/consensus.rs"
FEES = "zcash_client_backend/src/fees.rs"


def zat_const(rel, name, env=None):
    """`pub const NAME: Zatoshis = Zatoshis::const_from_u64(<expr>);`"""
    src = srcgen.read(rel)
    m = re.search(r"\bconst\s+" + re.escape(name) + r"\s*:\s*Zatoshis\s*=\s*Zatoshis::const_from_u64\(([^;]+)\)\s*;", src)
    if not m:
        raise SrcgenError("Zatoshis const %s not found in %s" % (name, rel))
    return srcgen._eval_int(m.group(1), env or {}, "%s:%s" % (rel, name))


def activation(impl, nu):
    """`NetworkUpgrade::<nu> => Some(BlockHeight(N))` inside `impl Parameters for <impl>`."""
    src = srcgen.read(CONS)
    i = src.find("impl Parameters for %s" % impl)
    if i < 0:
        raise SrcgenError("impl Parameters for %s not found" % impl)
    j = src.find("\nimpl ", i + 10)
    blk = src[i:j if j > 0 else len(src)]
    m = re.search(r"NetworkUpgrade::" + nu + r"\s*=>\s*Some\(BlockHeight\(([0-9_]+)\)\)", blk)
    if not m:
        raise SrcgenError("activation height of %s for %s not found" % (nu, impl))
    return int(m.group(1).replace("_", ""))


def registry(crate, rel):
    c = sorted(glob.glob(os.path.expanduser("~/.cargo/registry/src/*/%s/%s" % (crate, rel))))
    if not c:
        raise SrcgenError("vendored source %s/%s not found" % (crate, rel))
    return c[0]


def int_array(rel, name):
    src = srcgen.read(rel)
    m = re.search(r"\bconst\s+" + re.escape(name) + r"\s*:\s*\[u64;\s*(\d+)\]\s*=\s*\[([^\]]*)\]\s*;", src)
    if not m:
        raise SrcgenError("array const %s not found in %s" % (name, rel))
    xs = [int(x.strip().replace("_", "")) for x in m.group(2).split(",") if x.strip()]
    if len(xs) != int(m.group(1)):
        raise SrcgenError("array const %s has unexpected shape" % name)
    return xs


class C07(Config):
    pid = "C07"
    proof_targets = ["C07/Properties.vo"]
    corr_targets = ["C07/Corr.vo", "C07/Wf.vo"]
    audit_dirs = ["Lib", "Gen", "C07"]
    header = ("From V.Lib Require Import Base MachInt.\n"
              "From V.C07 Require Import Model Spec Corr Wf.\n"
              "Local Open Scope Z_scope.")
    bin = "c07"
    release_too = True
    n_tags = None
    classes = {1: "C07-split-change-below-dust-threshold"}
    shard_size = 400
    rule = ("FeeRule::fee_required (prim zip317 and StandardFeeRule) and ChangeStrategy::compute_balance for "
            "Single/MultiOutputChangeStrategy on generated per-pool value lists, script sizes, dust policies, split "
            "policies, fallback pools, memos, ephemeral balances, heights around NU6.3 and anchors on/off the grid; "
            "distinct = distinct (inputs, outcome) lines; every line is an executed API call with its observed outcome")
    trusted_base = [
        "Coq 8.16.1 kernel, vm_compute (no native_compute)",
        "vlib/props/c07.py constant extractors (ZIP 317 / ZIP 318 constants, NU6.3 heights, padding minima of the vendored orchard / sapling-crypto crates)",
        "harness/wallet/src/bin/c07.rs printers, its InputView/OutputView/BundleView adaptors and catch_unwind wrappers; vlib case-file generator",
        "re-modelled external code: sapling BundleType::{num_spends,num_outputs}, orchard BundleType::num_actions, BundleVersion::default_flags (30 lines, Model.v)",
        "amount algebra of C09 (imported, proved there)",
    ]
    assumptions = ["usize is 64 bits (the harness target)",
                   "slice lengths, note counts, heights and transparent script sizes are at most 2^31 (no usize overflow in the action count)",
                   "wallet metadata pool totals sum to at most MAX_MONEY (AccountMeta::total_value otherwise panics by its own expect)"]
    partial_clauses = [
        "per-output dust clause under Reject is proved outside known-finding class 1 only (split minimum below the dust threshold with a target above one note); inside the class it is refuted by a witness (C07_no_dust_change_each_refuted) and reported as KNOWN-FINDING",
        "usize overflow: the model has overflow-checked (debug) semantics; the five fee_required inputs whose action count overflows usize are run in the debug profile only; length arithmetic inside compute_balance is proved not to overflow for lengths/sizes/counts <= 2^31",
        "the turnstile clause speaks about change only: a caller that requests Orchard payments after NU6.3 is outside it",
    ]

    @staticmethod
    def gen():
        coin = srcgen.int_const(VALUE, "COIN")
        mm = srcgen.int_const(VALUE, "MAX_MONEY", {"COIN": coin})
        env = {"COIN": coin, "MAX_MONEY": mm}
        pairs = [("COIN", coin), ("MAX_MONEY", mm)]
        pairs.append(("MARGINAL_FEE", zat_const(Z317, "MARGINAL_FEE")))
        for n in ("GRACE_ACTIONS", "P2PKH_STANDARD_INPUT_SIZE", "P2PKH_STANDARD_OUTPUT_SIZE"):
            pairs.append((n, srcgen.int_const(Z317, n)))
        pairs.append(("MINIMUM_FEE", zat_const(Z317, "MINIMUM_FEE")))
        pairs.append(("DENOM_CAP", zat_const(Z318, "DENOM_CAP", env)))
        pairs.append(("MAX_RESIDUAL_VALUE", zat_const(Z318, "MAX_RESIDUAL_VALUE", env)))
        pairs.append(("DENOMINATION_RADIX", srcgen.int_const(Z318, "DENOMINATION_RADIX")))
        otf = int_array(Z318, "ONE_TWO_FIVE_DESCENDING")
        if len(otf) != 3:
            raise SrcgenError("ONE_TWO_FIVE_DESCENDING is not a 3-element series")
        pairs += [("DENOM_A", otf[0]), ("DENOM_B", otf[1]), ("DENOM_C", otf[2])]
        pairs.append(("ZIP318_INTERVAL", _zip318_interval()))
        pairs.append(("MIN_NOTE_VALUE", _min_note_value()))
        pairs.append(("MAIN_NU6_3", activation("MainNetwork", "Nu6_3")))
        pairs.append(("TEST_NU6_3", activation("TestNetwork", "Nu6_3")))
        pairs.append(("SAPLING_MIN_SHIELDED_OUTPUTS",
                      srcgen.int_const(registry("sapling-crypto-0.7.0", "src/builder.rs"), "MIN_SHIELDED_OUTPUTS")))
        pairs.append(("ORCHARD_DEFAULT_MIN_ACTIONS",
                      srcgen.int_const(registry("orchard-0.15.3", "src/builder.rs"), "DEFAULT_MIN_ACTIONS")))
        # the dust-to-fee sanity multiple: `(MINIMUM_FEE * 10u64)` in fees/common.rs
        src = srcgen.read("zcash_client_backend/src/fees/common.rs")
        m = re.search(r"\(MINIMUM_FEE\s*\*\s*(\d+)u64\)", src)
        if not m:
            raise SrcgenError("reasonable-fee multiple (MINIMUM_FEE * k) not found in fees/common.rs")
        pairs.append(("REASONABLE_FEE_MULTIPLE", int(m.group(1))))
        srcgen.write_gen("C07Consts", srcgen.z_defs(pairs))


def _zip318_interval():
    src = srcgen.read(Z318)
    m = re.search(r"pub const ZIP_318: Self = Self\(NonZeroU32::new\((\d+)\)", src)
    if not m:
        raise SrcgenError("AnchorBucketInterval::ZIP_318 not found")
    return int(m.group(1))


def _min_note_value():
    src = srcgen.read(FEES)
    m = re.search(r"const MIN_NOTE_VALUE: Zatoshis = Zatoshis::const_from_u64\(([0-9_]+)\)", src)
    if not m:
        raise SrcgenError("SplitPolicy::MIN_NOTE_VALUE not found")
    return int(m.group(1).replace("_", ""))


CONFIG = C07()
