import re

from .. import srcgen
from ..runner import Config
from ..srcgen import SrcgenError

V = "components/zcash_protocol/src/value.rs"
Z321 = "components/zip321/src/lib.rs"

_ESC = {"\\\\": 92, "\\'": 39, "\\\"": 34, "\\n": 10, "\\r": 13, "\\t": 9, "\\0": 0}


def qchar_encode_added():
    """`pub const QCHAR_ENCODE: &AsciiSet = &CONTROLS .add(b'x') ... ;` -> list of byte values."""
    src = srcgen.read(Z321)
    m = re.search(r"pub\s+const\s+QCHAR_ENCODE\s*:\s*&AsciiSet\s*=\s*&CONTROLS((?:\s*\.add\(b'(?:\\.|[^'\\])'\))*)\s*;", src)
    if not m:
        raise SrcgenError("QCHAR_ENCODE is no longer `&CONTROLS.add(b'..')...` in " + Z321)
    out = []
    for lit in re.findall(r"\.add\(b'((?:\\.|[^'\\]))'\)", m.group(1)):
        if lit in _ESC:
            out.append(_ESC[lit])
        elif len(lit) == 1 and ord(lit) < 128:
            out.append(ord(lit))
        else:
            raise SrcgenError("unsupported byte literal b'%s' in QCHAR_ENCODE" % lit)
    if not out:
        raise SrcgenError("QCHAR_ENCODE has no .add(..) entries")
    return out


def qchars_allowed():
    """The literal of `qchars`: alphanum_or("...")."""
    src = srcgen.read(Z321)
    m = re.search(r"pub\s+fn\s+qchars\s*\([^)]*\)[^{]*\{\s*alphanum_or\(\"((?:[^\"\\]|\\.)*)\"\)\(input\)\s*\}", src)
    if not m:
        raise SrcgenError("parse::qchars is no longer `alphanum_or(\"..\")(input)` in " + Z321)
    s = m.group(1)
    if "\\" in s or any(ord(c) > 127 for c in s):
        raise SrcgenError("unsupported character in the qchars literal")
    return [ord(c) for c in s]


class C12(Config):
    pid = "C12"
    proof_targets = ["C12/Properties.vo"]
    corr_targets = ["C12/Corr.vo", "C12/Wf.vo", "C12/Lit.vo"]
    audit_dirs = ["Lib", "Gen", "C12", "C10"]
    header = ("From Coq Require Import Uint63.\n"
              "From V.Lib Require Import Base MachInt Hex.\n"
              "From V.C12 Require Import Model Spec Lit Corr Wf.\n"
              "Local Open Scope Z_scope.")
    bin = "c12"
    n_tags = 95
    classes = {}
    shard_size = 400
    rule = ("TransactionRequest::{from_uri,to_uri,new,from_indexed,total}, Payment::new, memo_{to,from}_base64 "
            "run on generated requests (crate strategy arb_zip321_request plus own generator: 0..6 payments at "
            "arbitrary indices, every address kind x network, Unicode labels over every ASCII class, amounts from a "
            "boundary lattice, 0..512-byte memos, reserved / indexed / malformed other_params names) and on URI "
            "strings (rendered, grammar-mutated, hand-written ZIP 321 examples, random; exhaustively every ordering of one "
            "payment's parameters - address last, amount/memo before the address - for transparent, TEX, Sapling and unified "
            "recipients at index 0 and later indices with zero/non-zero amounts and memos; long malformed URIs with raw "
            "multi-byte UTF-8 of width 2/3/4 at every offset around byte 96 of every possible unparsed remainder); the model receives the "
            "strings and a per-case table giving, for every address string, its canonical encoding and shape (kind, receiver "
            "typecodes, read through the conversion API); the memo / transparent-only flags are computed by the model. Unified "
            "recipients of the receiver shapes {P2PKH,Unknown} {P2SH,Unknown,Unknown} {P2PKH,Sapling} {Orchard,Unknown} and others "
            "on every network with amounts 0 / 1 zat / 1 ZEC, memo present/absent, in Payment::new, from_uri and new; the real "
            "can_receive_memo / is_transparent_only compared with the model's on every pooled address (AddrFlags)")
    trusted_base = [
        "Coq 8.16.1 kernel, vm_compute (no native_compute)",
        "axioms: none (every theorem is closed under the global context)",
        "vlib/props/c12.py extractors (COIN, MAX_MONEY, QCHAR_ENCODE additions, qchars literal)",
        "harness/pure/src/bin/c12.rs printers, address-table builder and catch_unwind wrappers; vlib case-file generator",
        "address oracle: ZcashAddress::{try_from_encoded,encode,can_receive_memo,is_transparent_only} are Section "
        "parameters; hypotheses per occurring address: decode(encode a) = a, `encode a` non-empty alphanumeric (checked on "
        "every table entry by wf_case; proved sufficient by the bridge theorem; C10 is the property about the codec itself)",
        "models (validated by the correspondence, not verified against their crates' sources) of nom 7.1.3 "
        "combinators, percent-encoding 2.3.1, base64 0.22.1 URL_SAFE_NO_PAD, str::from_utf8, u64 Display/FromStr",
    ]
    assumptions = ["usize is 64 bits (the harness target)",
                   "Rust String/&str values are valid UTF-8, Zatoshis <= MAX_MONEY, MemoBytes is 512 bytes, BTreeMap keys "
                   "strictly increasing (type invariants; stated as wf_request in the theorems)"]
    partial_clauses = [
        "address codec: discharged for the C10 Gallina model of zcash_address (C12_concrete_*: decode(encode a) = a, "
        "encodings non-empty alphanumeric are theorems; guards: well-formed, network normalised, encodes, Base58Check string "
        "not accidentally Bech32). The C10 model itself is tied to the Rust codec by C10's own correspondence, and the F4Jumble "
        "hashes H, G are arbitrary byte-valued functions. can_receive_memo / is_transparent_only stay arbitrary functions "
        "(their values reach the model through the per-case table classified by the real zcash_address). For Rust's "
        "structural ZcashAddress equality decode(encode a) = a fails on regtest transparent/Sprout addresses (norm_addr "
        "guard); the harness compares addresses by canonical encoding",
    ]

    @staticmethod
    def gen():
        coin = srcgen.int_const(V, "COIN")
        mm = srcgen.int_const(V, "MAX_MONEY", {"COIN": coin})
        added = qchar_encode_added()
        qc = qchars_allowed()
        body = srcgen.z_defs([("COIN", coin), ("MAX_MONEY", mm)])
        body += "From Coq Require Import List.\nImport ListNotations.\n"
        body += "Definition QCHAR_ENCODE_ADDED : list Z := [%s].\n" % "; ".join(str(x) for x in added)
        body += "Definition QCHARS_ALLOWED : list Z := [%s].\n" % "; ".join(str(x) for x in qc)
        srcgen.write_gen("C12Consts", body)
        # the concrete address instance imports the C10 model, whose constants are regenerated too
        from . import c10
        c10.CONFIG.gen()


CONFIG = C12()
