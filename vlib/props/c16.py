import re

from .. import srcgen
from ..runner import Config
from ..srcgen import SrcgenError

VAL = "components/zcash_protocol/src/value.rs"
Z318 = "components/zcash_protocol/src/zip318.rs"
PREP = "zcash_pool_migration/src/preparation.rs"
DEN = "zcash_pool_migration/src/denomination.rs"


def _zat_const(rel, name, env):
    """`pub const NAME: Zatoshis = Zatoshis::const_from_u64(<expr>);`"""
    src = srcgen.read(rel)
    m = re.search(r"\bconst\s+" + name + r"\s*:\s*Zatoshis\s*=\s*Zatoshis::const_from_u64\(([^;]+)\)\s*;", src)
    if not m:
        raise SrcgenError("Zatoshis const %s not found in %s" % (name, rel))
    return srcgen._eval_int(m.group(1), env, "%s:%s" % (rel, name))


def _u64_array(rel, name):
    """`const NAME: [u64; N] = [a, b, c];`"""
    src = srcgen.read(rel)
    m = re.search(r"\bconst\s+" + name + r"\s*:\s*\[u64;\s*(\d+)\]\s*=\s*\[([0-9_,\s]+)\]\s*;", src)
    if not m:
        raise SrcgenError("array const %s not found in %s" % (name, rel))
    xs = [int(x.strip().replace("_", "")) for x in m.group(2).split(",") if x.strip()]
    if len(xs) != int(m.group(1)):
        raise SrcgenError("array const %s: length mismatch" % name)
    return xs


def _nonzero_usize(rel, name):
    """`pub const NAME: NonZeroUsize = match NonZeroUsize::new(50) {`"""
    src = srcgen.read(rel)
    m = re.search(r"\bconst\s+" + name + r"\s*:\s*NonZeroUsize\s*=\s*match\s+NonZeroUsize::new\((\d+)\)", src)
    if not m:
        raise SrcgenError("NonZeroUsize const %s not found in %s" % (name, rel))
    return int(m.group(1))


def _reexported(rel, names, frm):
    """the planner must take its bounds from zip318.rs (a `pub use` re-export, not a local const)"""
    src = srcgen.read(rel)
    m = re.search(r"pub use " + re.escape(frm) + r"::\{([^}]*)\};", src)
    if not m or not all(n in [x.strip() for x in m.group(1).split(",")] for n in names):
        raise SrcgenError("%s no longer re-exports %s from %s" % (rel, names, frm))


class C16(Config):
    pid = "C16"
    proof_targets = ["C16/Properties.vo"]
    corr_targets = ["C16/Corr.vo", "C16/Wf.vo"]
    audit_dirs = ["Lib", "Gen", "C16"]
    header = ("From V.Lib Require Import Base MachInt.\n"
              "From V.C16 Require Import Model Spec Corr Wf.\n"
              "Local Open Scope Z_scope.")
    bin = "c16"
    release_too = True
    n_tags = 34
    classes = {}
    shard_size = 500
    rule = ("plan_denominations on an exhaustive lattice around every 1-2-5 denomination (+-1, +buffer, +fee) and on "
            "structured/random balances in [0, MAX_MONEY], caps 1..64, note counts {0,1,2,3,50,usize::MAX}, buffers and fees "
            "from a boundary set, under 7 oracle families (stub, constant/refusing, refuse-above-k, affine over-charge, "
            "by-length table, stateful by-call table, value-dependent) incl. answers up to usize::MAX; every case planned "
            "under two RNG seeds; the same lattice around every 1-2-5 value OUTSIDE [0.01, 10 000] ZEC up to MAX_MONEY; "
            "CanonicalOneTwoFive::new with power-of-ten minimum 10^0..10^15, arbitrary maximum (also below the minimum, "
            "non-1-2-5), caps 0..64 on a lattice of every 1-2-5 balance and random/structured balances; "
            "engine::plan_migration_with over ~650 wallets (exact-funding notes, fragmented, whale, dust) with the real "
            "preparation planner as oracle; plus largest_one_two_five, is_canonical_denomination and from_stored_parts lattices. "
            "distinct = distinct case lines; non-trivial = every line is an executed public API call with its outcome")
    trusted_base = [
        "Coq 8.16.1 kernel, vm_compute (no native_compute)",
        "axioms: none (every theorem is closed under the global context)",
        "vlib/srcgen.py + extractors in vlib/props/c16.py (COIN, MAX_MONEY, DENOM_CAP, MAX_RESIDUAL_VALUE, radix, {5,2,1}, PREP_TX_ACTIONS, FUNDING_OUTPUTS_PER_TX, default note cap)",
        "harness/wallet/src/bin/c16.rs: oracle family interpreter (mirrors eval_oracle in coq/C16/Corr.v), printers, catch_unwind; vlib case-file generator",
        "model of u64 arithmetic in coq/Lib/MachInt.v + coq/C16/Model.v (debug-profile semantics; the no-panic theorem makes debug = release; release profile exercised in thorough)",
    ]
    assumptions = [
        "usize is 64 bits (the harness target)",
        "amounts reach the planner as Zatoshis (0..=MAX_MONEY), as the public signatures enforce",
        "the oracle is a deterministic function of (number of earlier questions, note values asked about); it may refuse, over-charge or be inconsistent",
        "RNG independence is tied by running every case under two ChaCha8 seeds (the model has no RNG argument at all)",
    ]
    partial_clauses = [
        "engine::plan_migration_with is driven (MockBackend wallets, default portfolio) but the real preparation planner is not modelled: its outcomes are compared with the model under the oracle that refuses every layout except the kept one; scheduling/anchor parts of the MigrationPlan belong to C17",
        "CanonicalOneTwoFive::new is covered for power-of-ten minimum denominations (the constructor's documented MUST); a minimum that is not a power of ten (or 0, for which largest_one_two_five does not terminate) is outside theorems and harness",
    ]

    @staticmethod
    def gen():
        coin = srcgen.int_const(VAL, "COIN")
        mm = srcgen.int_const(VAL, "MAX_MONEY", {"COIN": coin})
        env = {"COIN": coin, "MAX_MONEY": mm}
        cap = _zat_const(Z318, "DENOM_CAP", env)
        mrv = _zat_const(Z318, "MAX_RESIDUAL_VALUE", env)
        radix = srcgen.int_const(Z318, "DENOMINATION_RADIX")
        otf = _u64_array(Z318, "ONE_TWO_FIVE_DESCENDING")
        pta = srcgen.int_const(Z318, "PREP_TX_ACTIONS")
        fo = srcgen.int_const(PREP, "FUNDING_OUTPUTS_PER_TX", {"PREP_TX_ACTIONS": pta})
        _reexported(DEN, ["DENOM_CAP", "MAX_RESIDUAL_VALUE"], "zcash_protocol::zip318")
        dflt = _nonzero_usize(DEN, "MIGRATION_MAX_PREPARED_NOTES_PER_RUN")
        body = srcgen.z_defs([("COIN", coin), ("MAX_MONEY", mm), ("DENOM_CAP", cap), ("MAX_RESIDUAL_VALUE", mrv),
                              ("DENOMINATION_RADIX", radix), ("PREP_TX_ACTIONS", pta),
                              ("FUNDING_OUTPUTS_PER_TX", fo), ("MIGRATION_MAX_PREPARED_NOTES_PER_RUN", dflt)])
        body += "Definition ONE_TWO_FIVE_DESCENDING : list Z := (%s)%%list.\n" % " :: ".join([str(x) for x in otf] + ["nil"])
        srcgen.write_gen("C16Consts", body)


CONFIG = C16()
