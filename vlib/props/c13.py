"""C13 — PCZT encoding, combination and roles.

gen() regenerates coq/Gen/C13Schema.v from the Rust source on every run:
  * struct declarations (field order) of Pczt, Global and the transparent / Sapling / Orchard bundle,
    input, output, spend and action records;
  * for every record merged field by field inside a `fn merge` body: how each field is combined
    (`lhs.f != f` guard => SEq, `merge_optional` => SOpt, `merge_map` => SMap); the destructuring
    pattern must name every declared field and every bound variable must be used in exactly one
    recognised way (fails closed otherwise);
  * the bundle-level part of the three `Bundle::merge` functions, `Global::merge` and the combiner's
    `merge` (vector extension under the modifiable flags, `bsk` / `value_sum` rules, the bitmap) is
    hand-modelled in coq/C13/Model.v; its normalised text is pinned here, so any edit to it makes
    the check fail until the model is re-derived.
"""
import hashlib
import re

from .. import srcgen
from ..runner import Config
from ..srcgen import SrcgenError

F_LIB = "pczt/src/lib.rs"
F_COMMON = "pczt/src/common.rs"
F_T = "pczt/src/transparent.rs"
F_S = "pczt/src/sapling.rs"
F_O = "pczt/src/orchard.rs"
F_COMB = "pczt/src/roles/combiner/mod.rs"


def _strip(src):
    src = re.sub(r"//[^\n]*", "", src)
    src = re.sub(r"/\*.*?\*/", "", src, flags=re.S)
    return src


def _balanced(src, start, open_c="{", close_c="}"):
    """src[start] == open_c; returns index just after the matching close."""
    assert src[start] == open_c
    d = 0
    for i in range(start, len(src)):
        if src[i] == open_c:
            d += 1
        elif src[i] == close_c:
            d -= 1
            if d == 0:
                return i + 1
    raise SrcgenError("unbalanced braces")


def struct_fields(rel, name, nth=0):
    """Field names (declaration order) of the nth top-level `pub struct name {` in file rel."""
    src = _strip(srcgen.read(rel))
    ms = [m for m in re.finditer(r"^pub(?:\(crate\))? struct " + re.escape(name) + r"\s*\{", src, flags=re.M)]
    if len(ms) <= nth:
        raise SrcgenError("struct %s not found in %s" % (name, rel))
    st = ms[nth].end() - 1
    body = src[st + 1:_balanced(src, st) - 1]
    while True:
        k = body.find("#[")
        if k < 0:
            break
        body = body[:k] + body[_balanced(body, k + 1, "[", "]"):]
    fields = []
    depth = 0
    cur = ""
    for ch in body:
        if ch in "<([{":
            depth += 1
        elif ch in ">)]}":
            depth -= 1
        if ch == "," and depth == 0:
            fields.append(cur)
            cur = ""
        else:
            cur += ch
    if cur.strip():
        fields.append(cur)
    out = []
    for f in fields:
        m = re.match(r"\s*(?:pub(?:\([a-z]+\))?\s+)?([a-z_0-9]+)\s*:\s*(.+?)\s*$", f, flags=re.S)
        if not m:
            raise SrcgenError("cannot read a field of struct %s in %s: %r" % (name, rel, f.strip()[:60]))
        out.append((m.group(1), re.sub(r"\s+", "", m.group(2))))
    return out


def fn_body(rel, header_re):
    src = _strip(srcgen.read(rel))
    m = re.search(header_re, src)
    if not m:
        raise SrcgenError("function %s not found in %s" % (header_re, rel))
    i = src.index("{", m.end() - 1) if src[m.end() - 1] != "{" else m.end() - 1
    # skip to the body brace: after the return type
    j = src.index("{", m.end())
    return src[j:_balanced(src, j)]


def _parse_pattern(pat):
    """`Name { a, b: c, d: Inner { .. }, mut e }` -> (Name, [(field, var | nested)])."""
    pat = pat.strip()
    m = re.match(r"([A-Za-z_]+)\s*\{(.*)\}\s*$", pat, flags=re.S)
    if not m:
        raise SrcgenError("unrecognised destructuring pattern: %r" % pat[:80])
    name, body = m.group(1), m.group(2)
    items, depth, cur = [], 0, ""
    for ch in body:
        if ch == "{":
            depth += 1
        elif ch == "}":
            depth -= 1
        if ch == "," and depth == 0:
            items.append(cur)
            cur = ""
        else:
            cur += ch
    if cur.strip():
        items.append(cur)
    out = []
    for it in items:
        it = it.strip()
        if it == "..":
            raise SrcgenError("destructuring of %s uses `..`: a field could be dropped silently" % name)
        m2 = re.match(r"([a-z_0-9]+)\s*:\s*(.+)$", it, flags=re.S)
        if m2:
            rhs = m2.group(2).strip()
            if "{" in rhs:
                out.append((m2.group(1), _parse_pattern(rhs)))
            else:
                if rhs == "_":
                    raise SrcgenError("field %s.%s is bound to `_` (dropped)" % (name, m2.group(1)))
                out.append((m2.group(1), rhs))
        else:
            v = re.sub(r"^mut\s+", "", it)
            if not re.fullmatch(r"[a-z_0-9]+", v):
                raise SrcgenError("unrecognised pattern item %r in %s" % (it, name))
            out.append((v, v))
    return name, out


def _flatten(pat, prefix=""):
    """[(path 'spend.nullifier', var)]"""
    name, items = pat
    out = []
    for f, v in items:
        if isinstance(v, tuple):
            out += _flatten(v, prefix + f + ".")
        else:
            out.append((prefix + f, v))
    return out


def element_kinds(body, struct_name, rhs_var, decl):
    """Kinds of the fields of a record merged in a `for (lhs, rhs) in ..zip(..)` loop.
    decl: nested declaration {field: type | (name, subdecl)} in order. Returns nested list
    [(field, kind | [...])]."""
    m = re.search(r"let\s+(" + re.escape(struct_name) + r"\s*\{)", body)
    if not m:
        raise SrcgenError("no destructuring of %s in merge body" % struct_name)
    st = m.start(1)
    br = body.index("{", st)
    end = _balanced(body, br)
    tail = body[end:]
    m2 = re.match(r"\s*=\s*" + rhs_var + r"\s*;", tail)
    if not m2:
        raise SrcgenError("destructuring of %s is not of `%s`" % (struct_name, rhs_var))
    pat = _parse_pattern(body[st:end])
    flat = _flatten(pat)
    # the loop body following the destructuring, up to the end of the enclosing `for`
    rest = tail[m2.end():]
    nxt = re.search(r"\n\s*for\s*\(lhs,\s*rhs\)", rest)
    scope = rest[:nxt.start()] if nxt else rest
    kinds = {}
    for path, var in flat:
        uses = len(re.findall(r"(?<![.\w])" + re.escape(var) + r"\b", scope))
        lhs = r"lhs\." + re.escape(path)
        if re.search(lhs + r"\s*!=\s*" + re.escape(var) + r"\b", scope):
            k = "SEq"
            n_expected = 1
        elif re.search(r"merge_optional\(\s*&mut\s+" + lhs + r"\s*,\s*" + re.escape(var) + r"\s*,?\s*\)", scope):
            k = "SOpt"
            n_expected = 1
        elif re.search(r"merge_map\(\s*&mut\s+" + lhs + r"\s*,\s*" + re.escape(var) + r"\s*,?\s*\)", scope):
            k = "SMap"
            n_expected = 1
        else:
            raise SrcgenError("field %s.%s (variable %s) is not combined in a recognised way" % (struct_name, path, var))
        if uses != n_expected:
            raise SrcgenError("variable %s of %s.%s is used %d times in the merge loop (expected once)" % (var, struct_name, path, uses))
        kinds[path] = k
    # every `!=` guard must end in `return None`, every merge_* chain must be negated into `return None`
    if not re.search(r"\{\s*return None;\s*\}", scope):
        raise SrcgenError("merge loop of %s does not return None on mismatch" % struct_name)
    if re.search(r"merge_(?:optional|map)\(", scope) and not re.search(r"if\s*!\s*\(\s*merge_", scope):
        raise SrcgenError("merge_optional/merge_map results of %s are not checked by `if !(..)`" % struct_name)

    def build(decl, prefix=""):
        out = []
        for f, t in decl:
            if isinstance(t, tuple):
                out.append((f, build(t[1], prefix + f + ".")))
            else:
                if prefix + f not in kinds:
                    raise SrcgenError("declared field %s.%s%s is not handled in merge" % (struct_name, prefix, f))
                out.append((f, kinds[prefix + f]))
        declared = {p for p, _ in _flatten((struct_name, [(f, (f, t[1]) if isinstance(t, tuple) else f) for f, t in decl]))} if False else None
        return out
    res = build(decl)
    n_decl = len(_flatten(("x", [(f, ("y", [(g, g) for g, _ in t[1]]) if isinstance(t, tuple) else f) for f, t in decl])))
    if n_decl != len(flat):
        raise SrcgenError("destructuring of %s binds %d fields, declaration has %d" % (struct_name, len(flat), n_decl))
    return res


def norm_text(s):
    return re.sub(r"\s+", " ", s).strip()


def bundle_level(body):
    """The part of a Bundle::merge body before the first element loop (without comments)."""
    m = re.search(r"for\s*\(lhs,\s*rhs\)", body)
    if not m:
        raise SrcgenError("no element loop in Bundle::merge")
    return norm_text(body[:m.start()])


def sha(s):
    return hashlib.sha256(s.encode()).hexdigest()[:16]


# Pinned texts of the hand-modelled parts (sha256 of the comment-free, whitespace-normalised source).
PINS = {
    "global": None,
    "transparent": None,
    "sapling": None,
    "orchard": None,
    "combiner": None,
    "merge_optional": None,
    "merge_map": None,
    "serialize": None,
    "memo_check": None,
}
try:
    from . import c13_pins
    PINS.update(c13_pins.PINS)
except Exception:
    pass


def coq_str(s):
    return '"%s"' % s


def coq_skind(k, indent="  "):
    if isinstance(k, str):
        return k
    if isinstance(k, tuple) and k[0] == "vec":
        return "(SVec %d %s)" % (k[1], coq_skind(k[2], indent))
    return "(SRec [" + "; ".join("(%s, %s)" % (coq_str(f), coq_skind(v, indent)) for f, v in k) + "])"


def names_of(k, path, out, sname):
    """shape table entries: (path, struct name, fields)."""
    return out


def compute():
    pins = {}
    # --- declarations
    d_pczt = struct_fields(F_LIB, "Pczt", 0)
    d_global = struct_fields(F_COMMON, "Global")
    d_tb = struct_fields(F_T, "Bundle")
    d_tin = struct_fields(F_T, "Input")
    d_tout = struct_fields(F_T, "Output")
    d_sb = struct_fields(F_S, "Bundle")
    d_ssp = struct_fields(F_S, "Spend")
    d_sout = struct_fields(F_S, "Output")
    d_ob = struct_fields(F_O, "Bundle")
    d_oact = struct_fields(F_O, "Action")
    d_osp = struct_fields(F_O, "Spend")
    d_oout = struct_fields(F_O, "Output")

    if [f for f, _ in d_pczt] != ["global", "transparent", "sapling", "orchard", "ironwood"]:
        raise SrcgenError("Pczt fields changed: %s" % [f for f, _ in d_pczt])
    if [f for f, _ in d_tb] != ["inputs", "outputs"]:
        raise SrcgenError("transparent::Bundle fields changed")
    if [f for f, _ in d_sb] != ["spends", "outputs", "value_sum", "anchor", "bsk"]:
        raise SrcgenError("sapling::Bundle fields changed (hand model of the bundle-level merge assumes them)")
    if [f for f, _ in d_ob] != ["actions", "flags", "value_sum", "anchor", "note_version", "zkproof", "bsk"]:
        raise SrcgenError("orchard::Bundle fields changed (hand model of the bundle-level merge assumes them)")
    if [f for f, _ in d_oact] != ["cv_net", "spend", "output", "rcv"]:
        raise SrcgenError("orchard::Action fields changed")
    if [f for f, _ in d_global][6] != "tx_modifiable":
        raise SrcgenError("Global.tx_modifiable is no longer the 7th field")

    # --- Global::merge
    gbody = fn_body(F_COMMON, r"pub\(crate\) fn merge\(mut self, other: Self\)")
    pins["global"] = sha(norm_text(gbody))
    m = re.search(r"let Self\s*\{([^}]*)\}\s*=\s*other;", gbody)
    if not m:
        raise SrcgenError("Global::merge: destructuring of `other` not found")
    gvars = [v.strip() for v in m.group(1).split(",") if v.strip()]
    if gvars != [f for f, _ in d_global]:
        raise SrcgenError("Global::merge destructures %s, declaration is %s" % (gvars, [f for f, _ in d_global]))
    gk = []
    guard = re.search(r"if\s+(self\.[^{]*)\{\s*return None;\s*\}", gbody)
    if not guard:
        raise SrcgenError("Global::merge: equality guard not found")
    eqs = set(re.findall(r"self\.([a-z_0-9]+)\s*!=\s*\1\b", guard.group(1)))
    for f, _ in d_global:
        if f in eqs:
            gk.append((f, "SEq"))
        elif f == "tx_modifiable":
            gk.append((f, "SBits"))
        elif re.search(r"merge_map\(&mut self\." + f + r",\s*" + f + r"\)", gbody):
            gk.append((f, "SMap"))
        else:
            raise SrcgenError("Global.%s is not combined in a recognised way" % f)

    # --- transparent
    tbody = fn_body(F_T, r"pub\(crate\) fn merge\(")
    pins["transparent"] = sha(bundle_level(tbody))
    k_tin = element_kinds(tbody, "Input", "rhs", d_tin)
    k_tout = element_kinds(tbody, "Output", "rhs", d_tout)
    # --- sapling
    sbody = fn_body(F_S, r"pub\(crate\) fn merge\(")
    pins["sapling"] = sha(bundle_level(sbody))
    k_ssp = element_kinds(sbody, "Spend", "rhs", d_ssp)
    k_sout = element_kinds(sbody, "Output", "rhs", d_sout)
    # --- orchard
    obody = fn_body(F_O, r"pub\(crate\) fn merge\(")
    pins["orchard"] = sha(bundle_level(obody))
    d_act_nested = [(f, ("Spend", d_osp) if f == "spend" else ("Output", d_oout) if f == "output" else t) for f, t in d_oact]
    k_oact = element_kinds(obody, "Action", "rhs", d_act_nested)
    # --- combiner
    comb = _strip(srcgen.read(F_COMB))
    for nm, rx in (("combiner", r"fn merge\(lhs: Pczt, rhs: Pczt\)"), ("merge_optional", r"pub\(crate\) fn merge_optional<"),
                   ("merge_map", r"pub\(crate\) fn merge_map<")):
        mm = re.search(rx, comb)
        if not mm:
            raise SrcgenError("combiner: %s not found" % nm)
        j = comb.index("{", mm.end())
        pins[nm] = sha(norm_text(comb[j:_balanced(comb, j)]))
    cm = re.search(r"pub fn combine\(self\)", comb)
    j = comb.index("{", cm.end())
    pins["combiner"] += sha(norm_text(comb[j:_balanced(comb, j)]))
    # --- serialisation
    lib = _strip(srcgen.read(F_LIB))
    sm = re.search(r"pub fn serialize\(self\) -> Result<Vec<u8>, EncodingError>", lib)
    if not sm:
        raise SrcgenError("Pczt::serialize not found")
    j = lib.index("{", sm.end())
    ser_txt = norm_text(lib[j:_balanced(lib, j)])
    for rel, rx in ((F_LIB, r"impl TryFrom<super::Pczt> for Pczt"), (F_S, r"impl TryFrom<super::Bundle> for Bundle"),
                    (F_S, r"impl From<Bundle> for super::Bundle"), (F_S, r"fn is_default_empty\("),
                    (F_O, r"impl TryFrom<super::Bundle> for Bundle"), (F_O, r"impl From<Bundle> for super::Bundle"),
                    (F_O, r"fn is_default_empty\("), (F_O, r"impl TryFrom<super::Action> for Action"),
                    (F_O, r"impl TryFrom<super::Output> for Output")):
        src = _strip(srcgen.read(rel))
        for mm in re.finditer(rx, src):
            j = src.index("{", mm.end())
            ser_txt += norm_text(src[j:_balanced(src, j)])
    pins["serialize"] = sha(ser_txt)
    osrc = _strip(srcgen.read(F_O))
    mm = re.search(r"fn from_stripped_bytes\(", osrc)
    if not mm:
        raise SrcgenError("MemoPlaintext::from_stripped_bytes not found")
    j = osrc.index("{", mm.end())
    pins["memo_check"] = sha(norm_text(osrc[j:_balanced(osrc, j)]) + str(srcgen.int_const(F_O, "MEMO_SIZE")))

    schema = {
        "S_global": gk,
        "S_t_input": k_tin, "S_t_output": k_tout,
        "S_s_spend": k_ssp, "S_s_output": k_sout,
        "S_o_action": k_oact,
    }
    shapes = [
        ("", "Pczt", [f for f, _ in d_pczt]),
        ("global", "Global", [f for f, _ in d_global]),
        ("transparent", "Bundle", [f for f, _ in d_tb]),
        ("transparent.inputs", "Input", [f for f, _ in d_tin]),
        ("transparent.outputs", "Output", [f for f, _ in d_tout]),
        ("sapling", "Bundle", [f for f, _ in d_sb]),
        ("sapling.spends", "Spend", [f for f, _ in d_ssp]),
        ("sapling.outputs", "Output", [f for f, _ in d_sout]),
    ]
    for pool in ("orchard", "ironwood"):
        shapes += [
            (pool, "Bundle", [f for f, _ in d_ob]),
            (pool + ".actions", "Action", [f for f, _ in d_oact]),
            (pool + ".actions.spend", "Spend", [f for f, _ in d_osp]),
            (pool + ".actions.output", "Output", [f for f, _ in d_oout]),
        ]
    return schema, shapes, pins


def render(schema, shapes):
    out = ["From Coq Require Import List String.", "From V.C13 Require Import Model.", "Import ListNotations.",
           "Local Open Scope string_scope.", ""]
    for nm in ("S_global", "S_t_input", "S_t_output", "S_s_spend", "S_s_output", "S_o_action"):
        out.append("Definition %s : skind := %s." % (nm, coq_skind(schema[nm])))
    out.append("(* bundle level: vector extension under the modifiable flags (bit 0 inputs, bit 1 outputs, bit 7\n"
               "   shielded); value_sum is taken from one side by the bundle-level rule; anchor / zkproof / bsk\n"
               "   are merge_optional-like.  Pinned by hash, hand-modelled in Model.v. *)")
    out.append('Definition S_transparent : skind := SRec [("inputs", SVec 0 S_t_input); ("outputs", SVec 1 S_t_output)].')
    out.append('Definition S_sapling : skind := SRec [("spends", SVec 7 S_s_spend); ("outputs", SVec 7 S_s_output); '
               '("value_sum", SLeft); ("anchor", SOpt); ("bsk", SOpt)].')
    out.append('Definition S_orchard : skind := SRec [("actions", SVec 7 S_o_action); ("flags", SEq); ("value_sum", SLeft); '
               '("anchor", SOpt); ("note_version", SEq); ("zkproof", SOpt); ("bsk", SOpt)].')
    out.append("Definition pczt_schema : skind := S_pczt S_global S_transparent S_sapling S_orchard.")
    out.append("Definition shape_table : list (string * string * list string) := [")
    out.append(";\n".join("  (%s, %s, [%s])" % (coq_str(p), coq_str(n), "; ".join(coq_str(f) for f in fs)) for p, n, fs in shapes))
    out.append("].")
    return "\n".join(out) + "\n"



# --------------------------------------------------------------------------------------------
# Wire shapes of the v1 / v2 encodings (coq/Gen/C13Wire.v) from the Rust type declarations
# --------------------------------------------------------------------------------------------

def _module_src(rel, mod):
    """Source text (comment-free) of file rel, or of `mod name { .. }` inside it (mod may be None)."""
    src = _strip(srcgen.read(rel))
    if mod is None:
        return src
    m = re.search(r"^\s*pub(?:\(crate\))?\s+mod\s+" + re.escape(mod) + r"\s*\{", src, flags=re.M)
    if not m:
        raise SrcgenError("module %s not found in %s" % (mod, rel))
    st = m.end() - 1
    return src[st + 1:_balanced(src, st) - 1]


def _strip_attrs(body):
    while True:
        k = body.find("#[")
        if k < 0:
            return body
        body = body[:k] + body[_balanced(body, k + 1, "[", "]"):]


def _split_top(body, sep=","):
    out, depth, cur = [], 0, ""
    for ch in body:
        if ch in "<([{":
            depth += 1
        elif ch in ">)]}":
            depth -= 1
        if ch == sep and depth == 0:
            out.append(cur)
            cur = ""
        else:
            cur += ch
    if cur.strip():
        out.append(cur)
    return out


def decl_struct(rel, mod, name):
    """[(field, type)] of `struct name { .. }` declared directly in the module (not in a nested one)."""
    src = _module_src(rel, mod)
    # blank out nested modules so that their structs are not picked up
    while True:
        m = re.search(r"^\s*(?:pub(?:\(crate\))?\s+)?mod\s+[a-z_0-9]+\s*\{", src, flags=re.M)
        if not m:
            break
        st = m.end() - 1
        src = src[:m.start()] + src[_balanced(src, st):]
    m = re.search(r"^\s*(?:pub(?:\(crate\))?\s+)?struct\s+" + re.escape(name) + r"\s*\{", src, flags=re.M)
    if not m:
        raise SrcgenError("struct %s not found in %s%s" % (name, rel, "::" + mod if mod else ""))
    st = m.end() - 1
    body = _strip_attrs(src[st + 1:_balanced(src, st) - 1])
    out = []
    for f in _split_top(body):
        mm = re.match(r"\s*(?:pub(?:\([a-z]+\))?\s+)?([a-z_0-9]+)\s*:\s*(.+?)\s*$", f, flags=re.S)
        if not mm:
            raise SrcgenError("cannot read a field of %s: %r" % (name, f.strip()[:60]))
        out.append((mm.group(1), re.sub(r"\s+", "", mm.group(2))))
    return out


def decl_enum(rel, mod, name):
    src = _module_src(rel, mod)
    m = re.search(r"^\s*(?:pub(?:\(crate\))?\s+)?enum\s+" + re.escape(name) + r"\s*\{", src, flags=re.M)
    if not m:
        raise SrcgenError("enum %s not found in %s" % (name, rel))
    st = m.end() - 1
    body = _strip_attrs(src[st + 1:_balanced(src, st) - 1])
    out = []
    for v in _split_top(body):
        v = re.sub(r"\s+", "", v)
        if not v:
            continue
        mm = re.fullmatch(r"([A-Za-z0-9_]+)(?:\((.*)\))?", v)
        if not mm:
            raise SrcgenError("cannot read a variant of %s: %r" % (name, v[:60]))
        out.append((mm.group(1), mm.group(2)))
    return out


# where a type name used in a given context is declared: context -> {name: (file, module, kind)}
_CTX = {
    "common": (F_COMMON, None),
    "transparent": (F_T, None),
    "sapling": (F_S, None),
    "sapling::v1": (F_S, "v1"),
    "orchard": (F_O, None),
    "orchard::v1": (F_O, "v1"),
    "orchard::v2": (F_O, "v2"),
}


def _resolve(ctx, t):
    """type path as written in context ctx -> (context of the declaration, name)."""
    t = t.replace("crate::", "")
    parts = t.split("::")
    name = parts[-1]
    path = parts[:-1]
    if path == ["super"]:
        return ctx.split("::")[0], name
    if path == ["common"] or name == "Zip32Derivation":
        return "common", name
    if path:
        c = "::".join(path)
        if c not in _CTX:
            raise SrcgenError("type path %s (in %s) is outside the modelled modules" % (t, ctx))
        return c, name
    return ctx, name


def wshape(ctx, t, memo):
    t = t.strip()
    prim = {"u8": "WU8", "u16": "(WVar 16)", "u32": "(WVar 32)", "u64": "(WVar 64)", "u128": "(WVar 128)",
            "i128": "(WZig 128)", "i64": "(WZig 64)", "bool": "WBool", "String": "(WSeq WU8)"}
    if t in prim:
        return prim[t]
    m = re.fullmatch(r"\[(.+);([A-Za-z0-9_]+)\]", t)
    if m:
        n = m.group(2)
        if not n.isdigit():
            n = str(srcgen.int_const(_CTX[ctx][0], n))
        return "(WArr %s %s)" % (n, wshape(ctx, m.group(1), memo))
    m = re.fullmatch(r"Option<(.+)>", t)
    if m:
        return "(WOpt %s)" % wshape(ctx, m.group(1), memo)
    m = re.fullmatch(r"Vec<(.+)>", t)
    if m:
        return "(WSeq %s)" % wshape(ctx, m.group(1), memo)
    m = re.fullmatch(r"BTreeMap<(.+)>", t)
    if m:
        kv = _split_top(m.group(1))
        if len(kv) != 2:
            raise SrcgenError("BTreeMap with %d parameters" % len(kv))
        return "(WSeq (WTup [%s; %s]))" % (wshape(ctx, kv[0], memo), wshape(ctx, kv[1], memo))
    m = re.fullmatch(r"\((.+)\)", t)
    if m:
        return "(WTup [%s])" % "; ".join(wshape(ctx, x, memo) for x in _split_top(m.group(1)))
    if not re.fullmatch(r"[A-Za-z0-9_:]+", t):
        raise SrcgenError("type outside the supported fragment: %s (in %s)" % (t, ctx))
    c, name = _resolve(ctx, t)
    key = (c, name)
    if key in memo:
        return memo[key][0]
    rel, mod = _CTX[c]
    ident = "W_%s_%s" % (c.replace("::", "_"), name)
    if name == "MemoPlaintext":
        # newtype over Vec<u8> whose Deserialize validates (from_stripped_bytes): id 1 in Postcard.wcheck
        body = "WCheck 1 (WSeq WU8)"
    elif name in ("EncCiphertext", "SerializedNoteVersion"):
        vs = decl_enum(rel, mod, name)
        body = "WEnum [%s]" % "; ".join(("WTup []" if p is None else wshape(c, p, memo)) for _, p in vs)
    else:
        fs = decl_struct(rel, mod, name)
        body = "WTup [%s]" % "; ".join(wshape(c, ty, memo) for _, ty in fs)
    memo[key] = (ident, body, len(memo))
    return ident



# logical types of the fields of the logical Pczt (how a leaf of the Debug tree is embedded in a wire value)
_LSTRUCTS = {("common", "Global"), ("transparent", "Bundle"), ("transparent", "Input"), ("transparent", "Output"),
             ("sapling", "Bundle"), ("sapling", "Spend"), ("sapling", "Output"),
             ("orchard", "Bundle"), ("orchard", "Action"), ("orchard", "Spend"), ("orchard", "Output")}


def ltype(ctx, t, memo):
    t = t.strip().replace("crate::", "")
    if t in ("u8", "u16", "u32", "u64", "u128", "i64", "i128"):
        return "LNum"
    if re.fullmatch(r"Option<.+>", t):
        return "LOpt"
    if re.fullmatch(r"BTreeMap<.+>", t):
        return "LMap"
    if t.split("::")[-1] == "EncCiphertext":
        return "LEnum"
    m = re.fullmatch(r"Vec<([A-Za-z_:]+)>", t)
    if m and re.fullmatch(r"[A-Za-z0-9_:]+", m.group(1)):
        c, name = _resolve(ctx, m.group(1))
        if (c, name) in _LSTRUCTS:
            return "(LVec %s)" % ltype(ctx, m.group(1), memo)
    if re.fullmatch(r"[A-Za-z0-9_:]+", t):
        c, name = _resolve(ctx, t) if ("::" in t or t[0].isupper()) else (ctx, t)
        if (c, name) in _LSTRUCTS:
            key = (c, name)
            if key not in memo:
                rel, mod = _CTX[c]
                fs = decl_struct(rel, mod, name)
                body = "LRec [%s]" % "; ".join(ltype(c, ty, memo) for _, ty in fs)
                memo[key] = ("L_%s_%s" % (c, name), body, len(memo))
            return memo[key][0]
    return "LAtom"


def ltype_gen():
    memo = {}
    fs = decl_struct(F_LIB, None, "Pczt")
    tops = []
    for f, ty in fs:
        ty = ty.replace("crate::", "")
        tops.append(ltype(ty.split("::")[0], ty, memo))
    out = []
    for (c, name), (ident, body, _k) in sorted(memo.items(), key=lambda kv: kv[1][2]):
        out.append("Definition %s : ltype := %s." % (ident, body))
    out.append("(* Pczt { %s } *)" % ", ".join(f for f, _ in fs))
    out.append("Definition L_pczt_fields : list ltype := [%s]." % "; ".join(tops))
    return "\n".join(out) + "\n"


def wire_gen():
    lib = _strip(srcgen.read(F_LIB))
    out = ["From Coq Require Import List NArith.", "From V.C13 Require Import Postcard.", "Import ListNotations.",
           "Local Open Scope N_scope.", ""]
    tops = {}
    memo = {}
    order = []
    for ver in ("v1", "v2"):
        fs = decl_struct(F_LIB, ver, "Pczt")
        shapes = []
        for f, ty in fs:
            ty = ty.replace("crate::", "")
            # types are written relative to the crate root inside lib.rs's modules
            shapes.append(wshape("common" if ty.startswith("common::") else ty.split("::")[0] if "::" in ty and not ty.startswith("Option") else "common", ty, memo))
        tops[ver] = (fs, shapes)
    # emit definitions in dependency order (memo insertion order is post-order)
    for (c, name), (ident, body, _k) in sorted(memo.items(), key=lambda kv: kv[1][2]):
        out.append("Definition %s : wshape := %s." % (ident, body))
    for ver in ("v1", "v2"):
        fs, shapes = tops[ver]
        out.append("(* %s::Pczt { %s } *)" % (ver, ", ".join(f for f, _ in fs)))
        out.append("Definition W_%s : wshape := WTup [%s]." % (ver, "; ".join(shapes)))
    out.append("(* logical types of the logical Pczt *)")
    return "\n".join(out) + "\n" + ltype_gen()


class C13(Config):
    pid = "C13"
    proof_targets = ["C13/Properties.vo"]
    corr_targets = ["C13/Corr.vo", "C13/Wf.vo"]
    audit_dirs = ["Lib", "Gen", "C13"]
    header = ("From V.Lib Require Import Base Hex.\n"
              "From V.C13 Require Import Model Spec Postcard Corr Wf.\n"
              "From V.Gen Require Import C13Schema.\n"
              "Local Open Scope Z_scope.")
    bin = "c13"
    release_too = False
    n_tags = 90
    shard_size = 60
    classes = {1: "C13-roundtrip-anchor"}
    rule = ("PCZTs built by zcash_primitives Builder::build_for_pczt / DeferredPcztBuilder + Creator for generated "
            "transparent/Sapling/Orchard/Ironwood inputs and outputs in the v5 and v6 formats (memos of 0/1/511/512 bytes); "
            "2-4 parties' copies made by random Updater/Redactor/IoFinalizer/Signer/SpendFinalizer steps (every step is also a "
            "role case with pczt_txid before/after), Creator templates (with and without fallback lock time) and flag variants "
            "for vector extension, value_sum-tweaked copies, transparent prefix families; every permutation and several "
            "groupings through Combiner; serialise/parse of the parties and of compacted copies; Pczt::into_effects against "
            "the model's transaction; role steps (Redactor compaction, Updater, Signer, IO finaliser) on inconsistent-but-parseable "
            "copies whose advertised Orchard/Ironwood output value / recipient diversifier / rseed was edited in the v2 bytes, "
            "each also compared after Pczt::resolve_fields; serde trees + bytes of v1::Pczt / v2::Pczt against the postcard model; mutated encodings")
    trusted_base = [
        "Coq 8.16.1 kernel, vm_compute (no native_compute)",
        "axioms: none",
        "vlib/props/c13.py extractors: struct declarations and per-field merge rule recognition (Gen/C13Schema.v), wire "
        "shapes from the Rust field types (Gen/C13Wire.v), pinned hashes of the hand-modelled bundle-level / bitmap / "
        "combiner / encoding-selection / memo-validation source text",
        "harness/wallet/src/bin/c13.rs: generic parser of the public Debug rendering of Pczt, injective interning of opaque "
        "leaves (reserved ids for zero anchor, note versions, 0, u32::MAX), serde-tree printer, catch_unwind wrappers; "
        "vlib case-file generator",
        "hand transcription in coq/C13/Model.v and Postcard.v of Global::merge's bitmap, the bsk/value_sum/length rules of the "
        "Sapling and Orchard Bundle::merge, Combiner::combine, v1 representability and v2 elision, extract_tx_data + "
        "extract_effects (tx_recipe/tx_post), postcard 1.1 varint/zig-zag/option/seq/tuple/enum and the PCZT header",
    ]
    assumptions = [
        "leaves are compared only for equality (PartialEq of byte arrays, integers, strings); the logical model abstracts them to atoms",
        "txid equality on implementation results stands for equality of effects (BLAKE2b collision resistance)",
        "Redactor: only redactions of non-effecting fields and the self-validating compaction of resolvable fields are "
        "covered; replace_enc_ciphertext_with_memo_plaintext with a caller-chosen memo is a caller obligation",
        "postcard model: UTF-8 validation of strings and the v2 required-field check are not modelled (the model accepts a "
        "superset; checked on mutated encodings); a sequence length beyond the remaining input is rejected up front",
    ]
    partial_clauses = [
        "order/grouping independence, idempotence, field keeping and conflict are theorems about the code's merge of whole "
        "PCZTs (pczt_merge, including the hand-transcribed bsk/value_sum/length rules) on well-shaped copies of ONE shielded "
        "shape (same_len); copies of different shielded shape are outside (refuted lemma: an IO-finalised copy no longer "
        "accepts a shorter one); the full bridge covers the combine cases whose parties have one shielded shape; for any "
        "shapes a second bridge gives every clause except order independence and the exact value_sum of a same-shape copy",
        "byte layer: Pczt::parse (Pczt::serialize p) = Ok p is proved on BYTES through the embedding of logical trees into "
        "serde values (wire_of, directed by the regenerated logical types and wire shapes) for every p on which the encoder "
        "is defined and outside the explicitly described anchor class; the leaf encoding is an arbitrary injective function "
        "in the theorem and the per-case leaf table in the correspondence (CSerB: real bytes reproduced exactly); UTF-8 "
        "validation and the v2 required-field check are not modelled on the decoding side",
        "extraction: the model's transaction (tx_of) is proved to depend only on the effecting fields and agrees with "
        "Pczt::into_effects on all generated PCZTs; where the code recomputes a redacted field (cv_net, cmx, memo plaintext) "
        "or an input requires a lock time the model leaves the transaction undetermined; TransactionExtractor (binding "
        "signatures, proof verification) is exercised only for fully signed transparent-only transactions",
        "Prover role and validity of signatures/proofs are external cryptography (not exercised: no proving keys in the quick budget)",
    ]

    @staticmethod
    def gen():
        schema, shapes, pins = compute()
        bad = [k for k, v in pins.items() if PINS.get(k) != v]
        srcgen.write_gen("C13Schema", render(schema, shapes))
        srcgen.write_gen("C13Wire", wire_gen())
        if bad:
            raise SrcgenError("hand-modelled source text changed (re-derive coq/C13/Model.v, then update "
                              "vlib/props/c13_pins.py): %s" % ", ".join("%s=%s" % (k, pins[k]) for k in bad))


CONFIG = C13()
