from .. import srcgen
from ..runner import Config

V = "components/zcash_protocol/src/value.rs"


class C09(Config):
    pid = "C09"
    proof_targets = ["C09/Properties.vo"]
    corr_targets = ["C09/Corr.vo", "C09/Wf.vo"]
    audit_dirs = ["Lib", "Gen", "C09"]
    header = ("From V.Lib Require Import Base MachInt Hex.\n"
              "From V.C09 Require Import Model Spec Corr Wf.\n"
              "Local Open Scope Z_scope.")
    bin = "c09"
    release_too = True
    n_tags = 112
    classes = {}
    rule = ("every public operator of value.rs on the boundary lattice (all pairs, exhaustive) plus random "
            "values from one ChaCha8 stream; distinct = distinct (operator, inputs, outcome) lines; "
            "non-trivial = every line is an executed API call with its observed outcome")
    trusted_base = [
        "Coq 8.16.1 kernel, vm_compute (no native_compute)",
        "axioms: none (every theorem is closed under the global context)",
        "vlib/srcgen.py constant extractor (COIN, MAX_MONEY from value.rs)",
        "harness/pure/src/bin/c09.rs printers and catch_unwind wrappers; vlib case-file generator",
        "model of i64/u64 machine arithmetic in coq/Lib/MachInt.v (debug-profile semantics; release profile exercised in thorough)",
    ]
    assumptions = ["usize is 64 bits (the harness target)", "const_from_* signal failure by panicking (assert! in a const fn): modelled as Panic outside the range and checked against the implementation through catch_unwind"]
    partial_clauses = []

    @staticmethod
    def gen():
        coin = srcgen.int_const(V, "COIN")
        mm = srcgen.int_const(V, "MAX_MONEY", {"COIN": coin})
        mb = srcgen.int_const(V, "MAX_BALANCE", {"COIN": coin, "MAX_MONEY": mm})
        srcgen.write_gen("C09Consts", srcgen.z_defs([("COIN", coin), ("MAX_MONEY", mm), ("MAX_BALANCE", mb)]))


CONFIG = C09()
