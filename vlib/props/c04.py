import glob
import os

from .. import srcgen
from ..runner import Config

TXID = "zcash_primitives/src/transaction/txid.rs"
SH5 = "zcash_primitives/src/transaction/sighash_v5.rs"
SH4 = "zcash_primitives/src/transaction/sighash_v4.rs"
CONSTS = "components/zcash_protocol/src/constants.rs"
TSIG = "zcash_transparent/src/sighash.rs"

TXID_P16 = [
    "ZCASH_HEADERS_HASH_PERSONALIZATION", "ZCASH_TRANSPARENT_HASH_PERSONALIZATION",
    "ZCASH_SAPLING_HASH_PERSONALIZATION", "ZCASH_PREVOUTS_HASH_PERSONALIZATION",
    "ZCASH_SEQUENCE_HASH_PERSONALIZATION", "ZCASH_OUTPUTS_HASH_PERSONALIZATION",
    "ZCASH_SAPLING_SPENDS_HASH_PERSONALIZATION", "ZCASH_SAPLING_SPENDS_COMPACT_HASH_PERSONALIZATION",
    "ZCASH_SAPLING_SPENDS_NONCOMPACT_HASH_PERSONALIZATION",
    "ZCASH_SAPLING_SPENDS_V6_NONCOMPACT_HASH_PERSONALIZATION",
    "ZCASH_SAPLING_OUTPUTS_HASH_PERSONALIZATION", "ZCASH_SAPLING_OUTPUTS_COMPACT_HASH_PERSONALIZATION",
    "ZCASH_SAPLING_OUTPUTS_MEMOS_HASH_PERSONALIZATION", "ZCASH_SAPLING_OUTPUTS_NONCOMPACT_HASH_PERSONALIZATION",
    "ZCASH_TRANSPARENT_SCRIPTS_HASH_PERSONALIZATION", "ZCASH_SAPLING_SIGS_HASH_PERSONALIZATION",
    "ZCASH_SAPLING_V6_SIGS_HASH_PERSONALIZATION",
]
TXID_P12 = ["ZCASH_TX_PERSONALIZATION_PREFIX", "ZCASH_AUTH_PERSONALIZATION_PREFIX"]
SH5_P16 = ["ZCASH_TRANSPARENT_INPUT_HASH_PERSONALIZATION", "ZCASH_TRANSPARENT_AMOUNTS_HASH_PERSONALIZATION",
           "ZCASH_TRANSPARENT_SCRIPTS_HASH_PERSONALIZATION"]
SH4_P16 = ["ZCASH_PREVOUTS_HASH_PERSONALIZATION", "ZCASH_SEQUENCE_HASH_PERSONALIZATION",
           "ZCASH_OUTPUTS_HASH_PERSONALIZATION", "ZCASH_JOINSPLITS_HASH_PERSONALIZATION",
           "ZCASH_SHIELDED_SPENDS_HASH_PERSONALIZATION", "ZCASH_SHIELDED_OUTPUTS_HASH_PERSONALIZATION"]
SH4_P12 = ["ZCASH_SIGHASH_PERSONALIZATION_PREFIX"]
ORCH_P16 = [
    "ZCASH_ORCHARD_V5_HASH_PERSONALIZATION", "ZCASH_ORCHARD_V6_HASH_PERSONALIZATION",
    "ZCASH_ORCHARD_ACTIONS_COMPACT_HASH_PERSONALIZATION", "ZCASH_ORCHARD_ACTIONS_MEMOS_HASH_PERSONALIZATION",
    "ZCASH_ORCHARD_ACTIONS_NONCOMPACT_HASH_PERSONALIZATION", "ZCASH_ORCHARD_V5_SIGS_HASH_PERSONALIZATION",
    "ZCASH_ORCHARD_V6_SIGS_HASH_PERSONALIZATION", "ZCASH_IRONWOOD_HASH_PERSONALIZATION",
    "ZCASH_IRONWOOD_ACTIONS_COMPACT_HASH_PERSONALIZATION", "ZCASH_IRONWOOD_ACTIONS_MEMOS_HASH_PERSONALIZATION",
    "ZCASH_IRONWOOD_ACTIONS_NONCOMPACT_HASH_PERSONALIZATION", "ZCASH_IRONWOOD_SIGS_HASH_PERSONALIZATION",
]


def _orchard_commitments():
    """The Orchard/Ironwood bundle commitment code lives in the vendored `orchard` crate; the
    version is the one pinned by /repo's Cargo.lock."""
    lock = srcgen.read("Cargo.lock")
    import re
    m = re.search(r'name = "orchard"\nversion = "([^"]+)"', lock)
    if not m:
        raise srcgen.SrcgenError("orchard not found in Cargo.lock")
    cands = glob.glob(os.path.expanduser("~/.cargo/registry/src/*/orchard-%s/src/bundle/commitments.rs" % m.group(1)))
    if not cands:
        raise srcgen.SrcgenError("vendored orchard-%s source not found" % m.group(1))
    return cands[0]


def _bytes_def(prefix, name, s, n):
    b = s.encode("latin-1").decode("unicode_escape").encode("latin-1")
    if len(b) != n:
        raise srcgen.SrcgenError("personalisation %s has length %d, expected %d" % (name, len(b), n))
    return "Definition %s%s : list N := [%s]." % (prefix, name, "; ".join(str(x) for x in b))


class C04(Config):
    pid = "C04"
    proof_targets = ["C04/Properties.vo"]
    corr_targets = ["C04/Corr.vo", "C04/Wf.vo"]
    audit_dirs = ["Lib", "Gen", "C04"]
    header = ("From Coq Require Import Uint63.\n"
              "From V.Lib Require Import Base Hex Blake2b.\n"
              "From V.C04 Require Import Model ModelV4 Spec SpecV4 Corr Wf.\n"
              "Local Open Scope N_scope.")
    bin = "c04"
    release_too = False
    n_tags = 260
    shard_size = 30
    classes = {}
    harness_timeout = 1800
    rule = ("v5/v6 transactions generated field by field from one ChaCha8 stream (every bundle present/absent, 0-3 "
            "inputs/outputs/spends/actions, coinbase, script lengths across the CompactSize boundary) plus "
            "the crate's own proptest strategies (arb_tx) for every branch and the ZIP 244 vectors; for each: txid, "
            "auth commitment, shielded sighash and the transparent sighash of every input x every hash type are "
            "compared byte for byte with the Gallina ZIP 244 model evaluated with the Gallina BLAKE2b; "
            "single-field mutation pairs (every field position) evaluated on the implementation's digests; "
            "v1-v4: txid against SHA-256d of the serialisation; v3/v4: ZIP 143/243 signature hashes of structured "
            "transactions and of the repository's ZIP 143/243 vectors (incl. JoinSplits) against the Gallina model, "
            "single-field mutation pairs (every field, signed input = mutated position and another one, script code / "
            "scriptPubKey / value of the coin as distinct context fields); distinct = distinct case lines")
    trusted_base = [
        "Coq 8.16.1 kernel, vm_compute (no native_compute)",
        "axioms: none (every theorem is closed under the global context)",
        "coq/Lib/Blake2b.v: Gallina BLAKE2b (validated against hashlib, and here against blake2b_simd through every case)",
        "vlib/srcgen.py string-constant extractor (personalisation strings of txid.rs, sighash_v5.rs, sighash_v4.rs and of the "
        "vendored orchard crate's bundle/commitments.rs; version constants)",
        "harness/wallet/src/bin/c04.rs: structured printers (field splitting of ciphertexts), mutation engine, sha2 crate for SHA-256d",
        "collision resistance of BLAKE2b-256 / SHA-256d (named cryptographic assumption, not a Coq hypothesis): "
        "theorems are about pre-image terms",
    ]
    assumptions = [
        "collision resistance of BLAKE2b-256 with distinct personalisations and of SHA-256d",
        "Sapling spends of one bundle share one anchor (enforced by the v5/v6 wire format)",
        "txid_parts passed to signature_hash are the digests of the same transaction (public API contract)",
    ]
    partial_clauses = [
        "'changes' is proved for the pre-image terms; inequality of the 32-byte digests is observed on the implementation "
        "for every mutation case and otherwise rests on collision resistance",
        "v1-v4: txid = SHA-256d(serialisation) is checked on the implementation with the harness-side sha2 crate (no Gallina SHA-256); "
        "the v3/v4 signature hash is modelled and proved like v5, pre-Overwinter signature hashing is unsupported by the code (panics) and not modelled",
    ]

    @staticmethod
    def gen():
        out = ["From Coq Require Import List NArith.", "Import ListNotations.", "Local Open Scope N_scope."]
        for n in TXID_P16:
            out.append(_bytes_def("T_", n, srcgen.str_const(TXID, n), 16))
        for n in TXID_P12:
            out.append(_bytes_def("T_", n, srcgen.str_const(TXID, n), 12))
        for n in SH5_P16:
            out.append(_bytes_def("S5_", n, srcgen.str_const(SH5, n), 16))
        for n in SH4_P16:
            out.append(_bytes_def("S4_", n, srcgen.str_const(SH4, n), 16))
        for n in SH4_P12:
            out.append(_bytes_def("S4_", n, srcgen.str_const(SH4, n), 12))
        oc = _orchard_commitments()
        for n in ORCH_P16:
            out.append(_bytes_def("O_", n, srcgen.str_const(oc, n), 16))
        for n in ["V3_TX_VERSION", "V3_VERSION_GROUP_ID", "V4_TX_VERSION", "V4_VERSION_GROUP_ID",
                  "V5_TX_VERSION", "V5_VERSION_GROUP_ID", "V6_TX_VERSION", "V6_VERSION_GROUP_ID"]:
            out.append("Definition %s : N := %d." % (n, srcgen.int_const(CONSTS, n)))
        for n in ["SIGHASH_ALL", "SIGHASH_NONE", "SIGHASH_SINGLE", "SIGHASH_MASK", "SIGHASH_ANYONECANPAY"]:
            out.append("Definition %s : N := %d." % (n, srcgen.int_const(TSIG, n)))
        srcgen.write_gen("C04Consts", "\n".join(out) + "\n")


CONFIG = C04()
