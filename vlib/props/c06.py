from .. import srcgen
from ..runner import Config

SQL_LIB = "zcash_client_sqlite/src/lib.rs"
LL = "zcash_client_backend/src/data_api/ll/wallet.rs"
ZIP318 = "components/zcash_protocol/src/zip318.rs"


class C06(Config):
    pid = "C06"
    proof_targets = ["C06/Properties.vo"]
    corr_targets = ["C06/Corr.vo", "C06/Wf.vo"]
    audit_dirs = ["Lib", "Gen", "C06"]
    header = ("From V.Lib Require Import Base MachInt.\n"
              "From V.C06 Require Import Model Spec Corr Wf.\n"
              "Local Open Scope Z_scope.")
    bin = "c06"
    release_too = False
    n_tags = None
    shard_size = 150
    harness_timeout = 3000
    classes = {1: "C06-F1", 2: "C06-F2", 3: "C06-F4"}
    rule = ("pure stream: AnchorRetention::retains / retained_in_range / batch_ensure_heights / ensure_checkpoints on an "
            "exhaustive lattice around 0, the ZIP 318 interval and u32::MAX plus random policies; mem stream: the tree stage "
            "of put_blocks composed from its public parts on in-memory ShardTrees (budgets 1..20, chunk sizes 1..64); wallet "
            "stream: the real SQLite wallet driven by scan_cached_blocks / truncate_to_height over generated chains (any scan "
            "order and batching, rewinds, reorgs), one case per operation with the checkpoint ledger of the three pools before "
            "and after; non-trivial = every line is an executed API call with its observed outcome")
    trusted_base = [
        "Coq 8.16.1 kernel, vm_compute (no native_compute)",
        "axioms: none",
        "vlib/srcgen.py constant extractor (PRUNING_DEPTH, CHUNK_SIZE, ZIP 318 interval)",
        "harness/wallet/src/bin/c06.rs: chain generator (ground-truth frontiers built from the compact blocks' commitments), "
        "ledger reader (ShardStore::for_each_checkpoint / retained_checkpoints through WalletCommitmentTrees), printers",
        "the shardtree crate (Merkle structure, pruning of leaves) and incrementalmerkletree: trusted, exercised by the "
        "root/witness clauses, not modelled",
        "two pre-state inputs of CTrunc are read with SQL from the wallet database (blocks.height, lowest mined height of a "
        "note with a recorded position)",
    ]
    assumptions = [
        "the three pools are updated inside one database transaction (an error restores the pre-state)",
        "the policy of a real-wallet CPut case is GROUND TRUTH built by the harness from the network's NU6.3 activation height and the configured interval (histories with activation at the birthday, strictly inside the first batch and inside a later batch) united with the anchor_bucket_interval of every NON-terminal row of orchard_ironwood_migrations (rows with other grids inserted and finished by the harness; terminal rows must not contribute), not the policy the code derived",
        "debug-profile integer semantics (overflow panics)",
    ]
    partial_clauses = [
        "root_at_checkpoint_id == true root and witness validity (path of every mined unspent note applied to THAT NOTE'S OWN commitment, and its stored position == the commitment's position in the current chain; re-mined transactions at shifted positions included) are evaluated on the implementation (observed booleans); "
        "they rest on the shardtree crate and the SQLite ShardStore, which are not modelled",
        "put_*_subtree_roots is modelled as the identity on the ledger; its effect on shards and cap is observed through the per-pool subtree-root getters (own pool returns the inserted roots, other pools unchanged, plain and transactional handle agree) and the root/witness clauses (histories start from birthday frontiers just below a shard end; every pool, both handles)",
        "rewind_to_chain_state: only the tree part is modelled (birthday resets and the scan queue are not)",
    ]

    @staticmethod
    def gen():
        pd = srcgen.int_const(SQL_LIB, "PRUNING_DEPTH")
        ch = srcgen.int_const(LL, "CHUNK_SIZE")
        src = srcgen.read(ZIP318)
        import re
        m = re.search(r"pub const ZIP_318: Self = Self\(NonZeroU32::new\((\d+)\)", src)
        if not m:
            raise srcgen.SrcgenError("AnchorBucketInterval::ZIP_318 not found in " + ZIP318)
        srcgen.write_gen("C06Consts", srcgen.z_defs([("PRUNING_DEPTH", pd), ("CHUNK_SIZE", ch), ("ZIP318_INTERVAL", int(m.group(1)))]))


CONFIG = C06()
