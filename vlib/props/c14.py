import glob
import os
import re

from .. import srcgen
from ..core import REPO
from ..runner import Config
from ..srcgen import SrcgenError

Z317 = "zcash_primitives/src/transaction/fees/zip317.rs"
BLD = "zcash_primitives/src/transaction/builder.rs"
CONS = "components/zcash_protocol/src/consensus.rs"
VAL = "components/zcash_protocol/src/value.rs"
TXMOD = "zcash_primitives/src/transaction/mod.rs"

UPGRADES = ["Overwinter", "Sapling", "Blossom", "Heartwood", "Canopy", "Nu5", "Nu6", "Nu6_1", "Nu6_2", "Nu6_3"]


def _zat_const(rel, name):
    src = srcgen.read(rel)
    m = re.search(r"\bconst\s+" + name + r"\s*:\s*Zatoshis\s*=\s*Zatoshis::const_from_u64\(([0-9_]+)\)\s*;", src)
    if not m:
        raise SrcgenError("Zatoshis const %s not found in %s" % (name, rel))
    return int(m.group(1).replace("_", ""))


def _activation(net):
    src = srcgen.read(CONS)
    m = re.search(r"impl Parameters for " + net + r"\s*\{(.*?)\n\}\n", src, re.S)
    if not m:
        raise SrcgenError("impl Parameters for %s not found" % net)
    body = m.group(1)
    out = []
    for nu in UPGRADES:
        mm = re.search(r"NetworkUpgrade::" + nu + r"\s*=>\s*Some\(BlockHeight\(([0-9_]+)\)\)", body)
        if not mm:
            raise SrcgenError("activation height of %s on %s not found" % (nu, net))
        out.append(int(mm.group(1).replace("_", "")))
    known = set(re.findall(r"NetworkUpgrade::(\w+)\s*=>", body))
    extra = known - set(UPGRADES) - {"Nu7"}
    if extra:
        raise SrcgenError("network upgrades not modelled: %s" % sorted(extra))
    if out != sorted(out):
        raise SrcgenError("activation heights of %s are not increasing" % net)
    return out


def _branch_ids():
    src = srcgen.read(CONS)
    m = re.search(r"impl From<BranchId> for u32\s*\{(.*?)\n\}\n", src, re.S)
    if not m:
        raise SrcgenError("impl From<BranchId> for u32 not found")
    out = []
    for b in ["Sprout"] + UPGRADES:
        mm = re.search(r"BranchId::" + b + r"\s*=>\s*(0x[0-9a-fA-F_]+|0)\s*,", m.group(1))
        if not mm:
            raise SrcgenError("branch id of %s not found" % b)
        out.append(int(mm.group(1).replace("_", ""), 0))
    return out


def _external_const(crate_glob, rel, name):
    dirs = sorted(glob.glob(os.path.expanduser("~/.cargo/registry/src/*/" + crate_glob)))
    if not dirs:
        raise SrcgenError("external crate %s not found in the cargo registry" % crate_glob)
    src = open(os.path.join(dirs[-1], rel)).read()
    m = re.search(r"\bconst\s+" + name + r"\s*:\s*(?:usize|u8)\s*=\s*([0-9_]+)\s*;", src)
    if not m:
        raise SrcgenError("const %s not found in %s/%s" % (name, crate_glob, rel))
    return int(m.group(1).replace("_", ""))


def _locked_version(crate):
    lock = srcgen.read("Cargo.lock")
    m = re.search(r'name = "%s"\nversion = "([^"]+)"' % re.escape(crate), lock)
    if not m:
        raise SrcgenError("crate %s not in Cargo.lock" % crate)
    return m.group(1)


def _expect(rel, pattern, what):
    if not re.search(pattern, srcgen.read(rel), re.S):
        raise SrcgenError("source shape changed (%s) in %s" % (what, rel))


class C14(Config):
    pid = "C14"
    proof_targets = ["C14/Properties.vo"]
    corr_targets = ["C14/Corr.vo", "C14/Wf.vo"]
    audit_dirs = ["Lib", "Gen", "C14"]
    header = ("From V.Lib Require Import Base MachInt.\n"
              "From V.C14 Require Import Model SignModel Spec Corr Wf.\n"
              "Local Open Scope Z_scope.")
    bin = "c14"
    release_too = False
    n_tags = 110
    classes = {1: "C14-pushdata1-length"}
    shard_size = 200
    harness_timeout = 3000
    rule = ("requests = sequences of Builder add_*/propose_version/with_expiry_height calls over transparent P2PKH inputs, "
            "m-of-n multisig P2SH inputs (keys registered in script order, reversed, rotated, subsets), "
            "P2PKH/P2SH/null-data outputs, Sapling, Orchard (plain and change outputs) and Ironwood spends/outputs; "
            "exhaustive version-gate lattice (2 networks x heights at every activation +-1 x proposed version x pool in use), "
            "exhaustive padding lattice (pad config x spends 0..2 x outputs 0..2 x pool at NU5/NU6.2/NU6.3), and random "
            "requests from one ChaCha8 stream, each re-run after model-free balancing with the amount the builder itself "
            "reported (exact, +1, -1); exhaustive DeferredPcztBuilder lattice (Ironwood-only and Orchard-only shapes, k spends x l outputs, "
            "k,l in 0..3, five padding configs, balanced / over-funded / under-funded) and P2SH lattice; "
            "coinbase lattice (BuildConfig::Coinbase at heights in every branch x outputs only / forbidden spend or input / overridden expiry / proposed version); "
            "routes mock_build / build with mock Sapling provers / build_for_pczt + PCZT Creator / DeferredPcztBuilder::build_for_pczt; "
            "fee rules ZIP 317 standard and a recording linear rule; distinct = distinct (request, outcome) lines")
    trusted_base = [
        "Coq 8.16.1 kernel, vm_compute (no native_compute)",
        "axioms: none (every theorem is closed under the global context)",
        "vlib/props/c14.py extractors (ZIP 317 constants, expiry delta, activation heights, branch ids, ZIP 212 grace period, "
        "padding minima of sapling-crypto / orchard read from the cargo registry at the locked versions)",
        "harness/wallet/src/bin/c14.rs: request interpreter, outcome canonicalisation, the in-harness trial decryption and "
        "secp256k1 signature verification whose results enter the cases as observed booleans",
        "the model identifies the builder's internal lists with the projections of the accepted add_* calls (checked by correspondence)",
    ]
    assumptions = [
        "spend witnesses supplied to the builder are consistent with the configured anchors and keys (the harness builds real note commitment trees)",
        "transparent inputs are P2PKH coins whose key is in the signing set, m-of-n multisig P2SH coins (1 <= m <= n <= 15) whose redeem script lists the multisig keys in index order, or P2SH coins with a non-standard redeem script (OP_1)",
        "the coinbase configuration is exercised on the transaction routes with miner_data = None; Orchard-family coinbase outputs only in requests that are refused before proving",
        "Orchard/Ironwood proof creation and Sapling proving are outside the model (mock Sapling provers; real Orchard proofs only in a handful of thorough cases)",
        "usize is 64 bits",
    ]
    partial_clauses = [
        "recipient decryptability (value, memo, recipient at the index reported by the builder metadata) is an observed boolean checked per case, not a theorem",
        "transparent signatures: the harness reports, per input and signature, the key under which it verifies and the selector (index, value, script code, scriptPubKey from v5 on, hash type) of the signature_hash it verifies for (expected selector first, else a search over all index/coin/script combinations); run_case compares these with the symbolic signing model (SignModel.apply_signatures) and prop_case evaluates the signature clause on them, so C14_sig_index / C14_signed_selectors are bridged; what stays observed-only is ECDSA verification itself and that the scriptSig is push-only (b_sig)",
        "zero value of padding is observed only on the PCZT route (note values are visible there); on transaction routes padding is constrained through counts and value balances",
    ]

    @staticmethod
    def gen():
        coin = srcgen.int_const(VAL, "COIN")
        mm = srcgen.int_const(VAL, "MAX_MONEY", {"COIN": coin})
        defs = [
            ("MAX_MONEY", mm),
            ("MARGINAL_FEE", _zat_const(Z317, "MARGINAL_FEE")),
            ("GRACE_ACTIONS", srcgen.int_const(Z317, "GRACE_ACTIONS")),
            ("P2PKH_STANDARD_INPUT_SIZE", srcgen.int_const(Z317, "P2PKH_STANDARD_INPUT_SIZE")),
            ("P2PKH_STANDARD_OUTPUT_SIZE", srcgen.int_const(Z317, "P2PKH_STANDARD_OUTPUT_SIZE")),
            ("DEFAULT_TX_EXPIRY_DELTA", srcgen.int_const(BLD, "DEFAULT_TX_EXPIRY_DELTA")),
            ("ZIP212_GRACE_PERIOD", srcgen.int_const(CONS, "ZIP212_GRACE_PERIOD")),
        ]
        sv = _locked_version("sapling-crypto")
        ov = _locked_version("orchard")
        defs.append(("MIN_SHIELDED_OUTPUTS", _external_const("sapling-crypto-" + sv, "src/builder.rs", "MIN_SHIELDED_OUTPUTS")))
        defs.append(("DEFAULT_MIN_ACTIONS", _external_const("orchard-" + ov, "src/builder.rs", "DEFAULT_MIN_ACTIONS")))
        # shape of the code the model transcribes by hand: fail closed when it moves
        _expect(Z317, r"max\(\s*ceildiv\(t_in_total_size, self\.p2pkh_standard_input_size\),\s*ceildiv\(t_out_total_size, self\.p2pkh_standard_output_size\),\s*\)\s*\+\s*max\(sapling_input_count, sapling_output_count\)\s*\+\s*orchard_action_count\s*\+\s*ironwood_action_count",
                "ZIP 317 logical action formula")
        _expect(Z317, r"self\.marginal_fee \* max\(self\.grace_actions, logical_actions\)", "ZIP 317 fee = marginal * max(grace, actions)")
        _expect("zcash_primitives/src/transaction/fees/transparent.rs", r"SpendInfo::P2pkh \{ \.\. \} => InputSize::STANDARD_P2PKH", "P2PKH inputs are charged the standard size")
        _expect(BLD, r"Ordering::Less => \{\s*return Err\(Error::InsufficientFunds\(-balance_after_fees\)\);\s*\}\s*Ordering::Greater => \{\s*return Err\(Error::ChangeRequired\(balance_after_fees\)\);",
                "balance comparison arms")
        body = srcgen.z_defs(defs)
        body += "Definition main_heights : list Z := [%s]%%list.\n" % "; ".join(str(x) for x in _activation("MainNetwork"))
        body += "Definition test_heights : list Z := [%s]%%list.\n" % "; ".join(str(x) for x in _activation("TestNetwork"))
        body += "Definition branch_ids : list Z := [%s]%%list.\n" % "; ".join(str(x) for x in _branch_ids())
        body = body.replace("From Coq Require Import ZArith.", "From Coq Require Import ZArith List.\nImport ListNotations.")
        srcgen.write_gen("C14Consts", body)


CONFIG = C14()
