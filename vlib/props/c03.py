import glob
import os
import re

from .. import srcgen
from ..srcgen import SrcgenError
from ..runner import Config

ENC = "components/zcash_encoding/src/lib.rs"
CONSTS = "components/zcash_protocol/src/constants.rs"
CONSENSUS = "components/zcash_protocol/src/consensus.rs"
VALUE = "components/zcash_protocol/src/value.rs"
COMPONENTS = "zcash_primitives/src/transaction/components.rs"
SPROUT = "zcash_primitives/src/transaction/components/sprout.rs"
ORCHARD = "zcash_primitives/src/transaction/components/orchard.rs"


def _block(src, start_pat, what):
    """Text of the `{ ... }` block that follows the first match of start_pat."""
    m = re.search(start_pat, src)
    if not m:
        raise SrcgenError("%s not found" % what)
    i = src.index("{", m.end() - 1) if src[m.end() - 1] != "{" else m.end() - 1
    depth, j = 0, i
    while j < len(src):
        if src[j] == "{":
            depth += 1
        elif src[j] == "}":
            depth -= 1
            if depth == 0:
                return src[i + 1:j]
        j += 1
    raise SrcgenError("unbalanced block for %s" % what)


def _strip_cfg_nu7(txt):
    # arms guarded by #[cfg(zcash_unstable = "nu7")] are not built by the baseline
    return re.sub(r"#\[cfg\(zcash_unstable = \"nu7\"\)\]\s*[^\n]*\n", "", txt)


def branch_ids():
    src = srcgen.read(CONSENSUS)
    to_u32 = _strip_cfg_nu7(_block(src, r"impl From<BranchId> for u32 \{", "From<BranchId> for u32"))
    arms = re.findall(r"BranchId::(\w+)\s*=>\s*(0x[0-9a-fA-F_]+|\d+)\s*,", to_u32)
    if len(arms) < 5:
        raise SrcgenError("BranchId -> u32 table has an unexpected shape")
    ids = {n: int(v.replace("_", ""), 0) for n, v in arms}
    frm = _strip_cfg_nu7(_block(src, r"impl TryFrom<u32> for BranchId \{", "TryFrom<u32> for BranchId"))
    arms2 = re.findall(r"(0x[0-9a-fA-F_]+|\d+)\s*=>\s*Ok\(BranchId::(\w+)\)", frm)
    ids2 = {n: int(v.replace("_", ""), 0) for v, n in arms2}
    if ids != ids2:
        raise SrcgenError("BranchId::try_from and u32::from(BranchId) tables differ: %r vs %r" % (ids2, ids))
    rev = _strip_cfg_nu7(_block(src, r"pub fn orchard_protocol_revision\(&self\)[^{]*\{", "orchard_protocol_revision"))
    revs = {}
    for lhs, rhs in re.findall(r"((?:\w+\s*\|\s*)*\w+)\s*=>\s*(None|Some\(OrchardProtocolRevision::\w+\))\s*,", rev):
        code = {"None": 0, "Some(OrchardProtocolRevision::InsecureV1)": 1,
                "Some(OrchardProtocolRevision::V2)": 2, "Some(OrchardProtocolRevision::V3)": 3}.get(rhs)
        if code is None:
            raise SrcgenError("unknown Orchard protocol revision %s" % rhs)
        for n in re.split(r"\s*\|\s*", lhs.strip()):
            revs[n] = code
    out = []
    for n, v in ids.items():
        if n not in revs:
            raise SrcgenError("no orchard_protocol_revision arm for BranchId::%s" % n)
        out.append((n, v, revs[n]))
    return out


def registry_max_compact():
    """zcash_primitives links the published zcash_encoding 0.4.0; its bound must be the in-tree one."""
    vals = []
    for p in glob.glob(os.path.expanduser("~/.cargo/registry/src/*/zcash_encoding-0.4.0/src/lib.rs")):
        m = re.search(r"pub const MAX_COMPACT_SIZE: u32 = (0x[0-9a-fA-F_]+|\d+);", open(p).read())
        if m:
            vals.append(int(m.group(1).replace("_", ""), 0))
    return vals


class C03(Config):
    pid = "C03"
    proof_targets = ["C03/Properties.vo"]
    corr_targets = ["C03/Corr.vo", "C03/Wf.vo"]
    audit_dirs = ["Lib", "Gen", "C03"]
    header = ("From Coq Require Import Uint63.\n"
              "From V.Lib Require Import Base Hex.\n"
              "From V.C03 Require Import HexLit Codec Model Spec Corr Wf.\n"
              "Local Open Scope N_scope.")
    bin = "c03"
    release_too = False
    n_tags = 75
    classes = {}
    shard_size = 250
    rule = ("generated transactions for every BranchId x admissible TxVersion (crate strategies plus forced edge shapes), "
            "block headers, and mutants of their encodings (truncation, extension, byte flips, count rewrites, "
            "non-canonical CompactSize, out-of-range amounts); one ChaCha8 stream; every line is one executed "
            "Transaction::read / BlockHeader::read / CompactSize call with its observed outcome")
    trusted_base = [
        "Coq 8.16.1 kernel, vm_compute (no native_compute)",
        "vlib/srcgen.py + vlib/props/c03.py extractors (tx versions, version group ids, branch ids and Orchard revisions, MAX_COMPACT_SIZE, MAX_MONEY, proof sizes)",
        "harness/wallet/src/bin/c03.rs: generators, printers, catch_unwind wrappers, sha2 double-SHA-256, and the per-case table of opaque blobs rejected by the primitive decoders (jubjub, bls12_381, pasta_curves, redjubjub, reddsa/orchard)",
        "validity of opaque 32-byte blobs (curve points, field elements, verification keys) is an oracle: Section variable in the theorems, harness table in the correspondence",
        "coq/C03/Sha256.v (Gallina SHA-256 over Uint63; FIPS vectors) and coq/C03/HexLit.v (word literals) are used only by the generated case files, no theorem depends on them",
    ]
    assumptions = ["usize is 64 bits (the harness target)",
                   "external crates orchard 0.15.3 (Flags::from_byte, Bundle::try_from_parts, Action::from_parts, Proof::expected_proof_size), sapling-crypto 0.7.0 and zcash_encoding 0.4.0 are re-modelled from their vendored sources and covered by the correspondence only"]
    partial_clauses = [
        "validity of opaque blobs (curve points, field elements, verification keys) is an oracle: a Section variable in the theorems, a per-case table filled from the primitive decoders in the correspondence",
        "txid / authorising-data commitment of v5+ transactions are compared on the implementation side only (parsed vs generated, parsed vs re-parsed, slice reader vs short-read readers); their definition belongs to C04",
        "the theorems are generic in the identifier hash H; the case files instantiate it with a Gallina SHA-256d over primitive 63-bit integers that is not verified, only pinned by the FIPS 180-4 vectors and by agreement with every v1-v4 txid and block hash the implementation computed",
        "no-panic for the implementation rests on the correspondence (no panic observed through any reader kind); C03_dec_total is about the model, which has no partial operation",
        "the bridge theorem covers transaction and block-header cases; the origin label of a case (generated / must-reject) is admitted by wf_case only when the model confirms it; CompactSize / Vector / Optional cases are checked by run_case and prop_case separately",
        "zip-233 / nu7 cfg branches are not built and not modelled",
    ]

    @staticmethod
    def gen():
        mx = srcgen.int_const(ENC, "MAX_COMPACT_SIZE")
        reg = registry_max_compact()
        if not reg or any(v != mx for v in reg):
            raise SrcgenError("MAX_COMPACT_SIZE of the linked zcash_encoding 0.4.0 (%r) differs from the in-tree value %d" % (reg, mx))
        coin = srcgen.int_const(VALUE, "COIN")
        mm = srcgen.int_const(VALUE, "MAX_MONEY", {"COIN": coin})
        names = ["V3_TX_VERSION", "V3_VERSION_GROUP_ID", "V4_TX_VERSION", "V4_VERSION_GROUP_ID",
                 "V5_TX_VERSION", "V5_VERSION_GROUP_ID", "V6_TX_VERSION", "V6_VERSION_GROUP_ID"]
        vals = [(n, srcgen.int_const(CONSTS, n)) for n in names]
        groth = srcgen.int_const(COMPONENTS, "GROTH_PROOF_SIZE")
        phgr = srcgen.int_const(SPROUT, "PHGR_PROOF_SIZE")
        fs = srcgen.int_const(ORCHARD, "FLAG_SPENDS_ENABLED")
        fo = srcgen.int_const(ORCHARD, "FLAG_OUTPUTS_ENABLED")
        br = branch_ids()
        out = ["From Coq Require Import NArith List.", "Import ListNotations.", "Local Open Scope N_scope."]
        for n, v in [("MAX_COMPACT_SIZE", mx), ("MAX_MONEY", mm)] + vals + [
                ("GROTH_PROOF_SIZE", groth), ("PHGR_PROOF_SIZE", phgr),
                ("FLAG_SPENDS_ENABLED", fs), ("FLAG_OUTPUTS_ENABLED", fo)]:
            out.append("Definition %s : N := %d." % (n, v))
        out.append("(* (branch id, Orchard protocol revision: 0 none, 1 InsecureV1, 2 V2, 3 V3) : %s *)" % ", ".join(n for n, _, _ in br))
        out.append("Definition branch_table : list (N * N) := [%s]." % "; ".join("(%d, %d)" % (v, r) for _, v, r in br))
        srcgen.write_gen("C03Tables", "\n".join(out) + "\n")


CONFIG = C03()
