"""C08 — proposals spend only spendable funds, each once, and balance exactly.

Source tie: the boolean SQL fragments that decide spendability are re-read from the Rust source
on every run, parsed by the small recursive-descent parser below and emitted as Gallina
expression trees (type `expr` of coq/C08/Sql.v) into coq/Gen/C08SqlPred.v. The lemmas about
spentness / eligibility / lockability are proved about the denotation of exactly those trees.
The extractor fails closed: SQL outside the fragment raises SrcgenError.
"""
import re

from .. import srcgen
from ..srcgen import SrcgenError
from ..runner import Config

COMMON = "zcash_client_sqlite/src/wallet/common.rs"
LOCKING = "zcash_client_sqlite/src/wallet/locking.rs"
BUILDER = "zcash_primitives/src/transaction/builder.rs"
ZIP317 = "zcash_primitives/src/transaction/fees/zip317.rs"
SCANNING = "zcash_client_sqlite/src/wallet/scanning.rs"

# ---------------------------------------------------------------------------------------------
# SQL boolean fragment -> Gallina
# ---------------------------------------------------------------------------------------------

TOK = re.compile(r"\s*(?:(<=|>=|<>|!=|==|=|<|>|\+|-|\(|\)|,)|(:[A-Za-z_][A-Za-z0-9_]*)|(\d+)|([A-Za-z_][A-Za-z0-9_]*(?:\.[A-Za-z_][A-Za-z0-9_]*)?)|(@SPENT@))")

KEYWORDS = {"AND", "OR", "NOT", "IS", "NULL", "IN", "IFNULL", "RARRAY"}

COLS = {
    "accounts.uuid": "C_account_uuid", "accounts.ufvk": "C_account_ufvk",
    "rn.id": "C_rn_id", "rn.value": "C_rn_value",
    "rn.recipient_key_scope": "C_rn_scope", "recipient_key_scope": "C_rn_scope",
    "rn.nf": "C_rn_nf", "nf": "C_rn_nf",
    "rn.commitment_tree_position": "C_rn_position",
    "rn.witness_stabilized": "C_rn_stab",
    "rn.lock_expiry_height": "C_rn_lock_expiry", "lock_expiry_height": "C_rn_lock_expiry",
    "rn.lock_owner": "C_rn_lock_owner", "lock_owner": "C_rn_lock_owner",
    "t.block": "C_t_block", "t.mined_height": "C_t_mined", "t.expiry_height": "C_t_expiry",
    "t.min_observed_height": "C_t_minobs",
    "scan_state.max_priority": "C_scan_max_priority",
    "stx.mined_height": "C_tx_mined", "stx.expiry_height": "C_tx_expiry",
    "stx.min_observed_height": "C_tx_minobs",
    # transparent outputs
    "u.id": "C_rn_id", "u.value_zat": "C_u_value", "u.max_observed_unspent_height": "C_u_maxobs",
    "u.lock_expiry_height": "C_rn_lock_expiry", "u.lock_owner": "C_rn_lock_owner",
    "addresses.cached_transparent_receiver_address": "C_addr", "addresses.key_scope": "C_addr_key_scope",
    "addresses.imported_transparent_receiver_pubkey": "C_addr_imp_pubkey",
    "addresses.imported_transparent_receiver_script": "C_addr_imp_script",
    "t.tx_index": "C_t_txindex", "@NOWALLETINPUTS@": "C_u_no_wallet_inputs",
}
PARAMS = {
    ":account_uuid": "P_account_uuid", ":min_value": "P_min_value", ":anchor_height": "P_anchor_height",
    ":tip_unscanned": "P_tip_unscanned", ":scanned_priority": "P_scanned_priority",
    ":target_height": "P_target_height", ":target_value": "P_target_value",
    ":chain_tip": "P_chain_tip", ":owner": "P_owner",
    ":min_confirmations": "P_min_confirmations", ":coinbase_filter": "P_coinbase_filter",
    ":has_address_allow_list": "P_has_allow_list",
}
LPARAMS = {":exclude": "L_exclude", ":overridable_owners": "L_overridable_owners", ":addresses": "L_addresses"}
CMPS = {"=": "CEq", "==": "CEq", "!=": "CNe", "<>": "CNe", "<": "CLt", "<=": "CLe", ">": "CGt", ">=": "CGe"}


def tokenize(sql, where):
    sql = re.sub(r"--[^\n]*", "", sql)
    toks, pos = [], 0
    sql = sql.strip()
    while pos < len(sql):
        if sql.startswith("@NOWALLETINPUTS@", pos):
            toks.append(("id", "@NOWALLETINPUTS@"))
            pos += len("@NOWALLETINPUTS@")
            while pos < len(sql) and sql[pos].isspace():
                pos += 1
            continue
        m = TOK.match(sql, pos)
        if not m or m.end() == pos:
            raise SrcgenError("%s: cannot tokenize SQL at %r" % (where, sql[pos:pos + 40]))
        op, par, num, ident, spent = m.groups()
        if not (op or par or num or ident or spent) and sql.startswith("@NOWALLETINPUTS@", pos):
            toks.append(("id", "@NOWALLETINPUTS@"))
            pos += len("@NOWALLETINPUTS@")
            while pos < len(sql) and sql[pos].isspace():
                pos += 1
            continue
        if op:
            toks.append(("op", op))
        elif par:
            toks.append(("par", par))
        elif num:
            toks.append(("num", num))
        elif spent:
            toks.append(("spent", spent))
        else:
            if ident.upper() in KEYWORDS:
                toks.append(("kw", ident.upper()))
            else:
                toks.append(("id", ident))
        pos = m.end()
        while pos < len(sql) and sql[pos].isspace():
            pos += 1
    return toks


class Parser:
    def __init__(self, sql, where):
        self.t = tokenize(sql, where)
        self.i = 0
        self.where = where

    def peek(self, k=0):
        return self.t[self.i + k] if self.i + k < len(self.t) else ("eof", "")

    def take(self, kind=None, val=None):
        tk = self.peek()
        if (kind and tk[0] != kind) or (val and tk[1] != val):
            raise SrcgenError("%s: expected %s %s, found %r" % (self.where, kind, val, tk))
        self.i += 1
        return tk

    def parse(self):
        e = self.p_or()
        if self.peek()[0] != "eof":
            raise SrcgenError("%s: trailing SQL tokens %r" % (self.where, self.t[self.i:self.i + 5]))
        return e

    def p_or(self):
        e = self.p_and()
        while self.peek() == ("kw", "OR"):
            self.take()
            e = "(EOr %s %s)" % (e, self.p_and())
        return e

    def p_and(self):
        e = self.p_not()
        while self.peek() == ("kw", "AND"):
            self.take()
            e = "(EAnd %s %s)" % (e, self.p_not())
        return e

    def p_not(self):
        if self.peek() == ("kw", "NOT"):
            self.take()
            return "(ENot %s)" % self.p_not()
        return self.p_cmp()

    def p_rarray(self):
        self.take("kw", "RARRAY")
        self.take("op", "(")
        p = self.take("par")[1]
        self.take("op", ")")
        if p not in LPARAMS:
            raise SrcgenError("%s: unknown rarray parameter %s" % (self.where, p))
        return LPARAMS[p]

    def p_cmp(self):
        a = self.p_add()
        tk = self.peek()
        if tk[0] == "op" and tk[1] in CMPS:
            self.take()
            return "(ECmp %s %s %s)" % (CMPS[tk[1]], a, self.p_add())
        if tk == ("kw", "IS"):
            self.take()
            if self.peek() == ("kw", "NOT"):
                self.take()
                self.take("kw", "NULL")
                return "(EIsNotNull %s)" % a
            self.take("kw", "NULL")
            return "(EIsNull %s)" % a
        neg = False
        if tk == ("kw", "NOT") and self.peek(1) == ("kw", "IN"):
            self.take()
            neg = True
            tk = self.peek()
        if tk == ("kw", "IN"):
            self.take()
            if self.peek() == ("kw", "RARRAY"):
                e = "(EInList %s %s)" % (a, self.p_rarray())
                return "(ENot %s)" % e if neg else e
            self.take("op", "(")
            self.take("spent")
            self.take("op", ")")
            if not neg or a != "(ECol C_rn_id)":  # rn.id / u.id
                raise SrcgenError("%s: the spent-notes subquery must be used as `rn.id NOT IN (...)`" % self.where)
            return "ENotSpent"
        return a

    def p_add(self):
        e = self.p_atom()
        while self.peek() in (("op", "+"), ("op", "-")):
            op = self.take()[1]
            e = "(%s %s %s)" % ("EAdd" if op == "+" else "ESub", e, self.p_atom())
        return e

    def p_atom(self):
        tk = self.peek()
        if tk == ("op", "("):
            self.take()
            e = self.p_or()
            self.take("op", ")")
            return e
        if tk == ("kw", "IFNULL"):
            self.take()
            self.take("op", "(")
            a = self.p_or()
            self.take("op", ",")
            b = self.p_or()
            self.take("op", ")")
            return "(EIfNull %s %s)" % (a, b)
        if tk[0] == "par":
            self.take()
            if tk[1] not in PARAMS:
                raise SrcgenError("%s: unknown SQL parameter %s" % (self.where, tk[1]))
            return "(EPar %s)" % PARAMS[tk[1]]
        if tk[0] == "num":
            self.take()
            return "(ELit %s)" % tk[1]
        if tk == ("op", "-") and self.peek(1)[0] == "num":
            self.take()
            return "(ELit (-%s))" % self.take()[1]
        if tk[0] == "id":
            self.take()
            if tk[1] not in COLS:
                raise SrcgenError("%s: unknown column %s" % (self.where, tk[1]))
            return "(ECol %s)" % COLS[tk[1]]
        raise SrcgenError("%s: unexpected SQL token %r" % (self.where, tk))


def parse_sql(sql, where):
    return Parser(sql, where).parse()


# ---------------------------------------------------------------------------------------------
# Rust source -> SQL text
# ---------------------------------------------------------------------------------------------

def fn_body(src, name, rel):
    m = re.search(r"\bfn\s+" + re.escape(name) + r"\b", src)
    if not m:
        raise SrcgenError("function %s not found in %s" % (name, rel))
    i = src.index("{", src.index(")", m.end()))
    # skip a possible `where` clause / return type: find the body's opening brace = first '{' at depth 0 after the signature
    sig_end = m.end()
    depth_par = 0
    j = sig_end
    while j < len(src):
        c = src[j]
        if c == "(":
            depth_par += 1
        elif c == ")":
            depth_par -= 1
        elif c == "{" and depth_par == 0:
            break
        j += 1
    i = j
    depth, k = 0, i
    while k < len(src):
        if src[k] == "{":
            depth += 1
        elif src[k] == "}":
            depth -= 1
            if depth == 0:
                return src[i:k + 1]
        k += 1
    raise SrcgenError("unbalanced braces in %s of %s" % (name, rel))


def norm(s):
    return re.sub(r"\s+", " ", s).strip()


def rust_str_concat(body, where):
    """Concatenate the pieces of a `"..." \\ "..."` (line-continued) string literal."""
    return re.sub(r"\\\n\s*", "", body)


def gen_sql():
    common = srcgen.read(COMMON)
    locking = srcgen.read(LOCKING)
    delta = srcgen.int_const(BUILDER, "DEFAULT_TX_EXPIRY_DELTA")
    m = re.search(r"pub const MARGINAL_FEE: Zatoshis = Zatoshis::const_from_u64\(([0-9_]+)\);", srcgen.read(ZIP317))
    if not m:
        raise SrcgenError("MARGINAL_FEE not found in " + ZIP317)
    marginal = int(m.group(1).replace("_", ""))
    m = re.search(r"fn priority_code\(.*?\{(.*?)\n\}", srcgen.read(SCANNING), flags=re.S)
    if not m:
        raise SrcgenError("priority_code not found")
    m2 = re.search(r"\bScanned\s*=>\s*(\d+)", m.group(1))
    if not m2:
        raise SrcgenError("priority code of Scanned not found")
    scanned = int(m2.group(1))

    # --- tx_unexpired_condition -------------------------------------------------------------
    b = fn_body(common, "tx_unexpired_condition", COMMON)
    m = re.search(r'format!\(\s*r#"(.*?)"#\s*\)', b, flags=re.S)
    if not m:
        raise SrcgenError("tx_unexpired_condition: format!(r#\"..\"#) not found")
    unexp = m.group(1)
    if set(re.findall(r"\{([A-Za-z_]*)\}", unexp)) != {"tx", "DEFAULT_TX_EXPIRY_DELTA"}:
        raise SrcgenError("tx_unexpired_condition: unexpected format placeholders")

    def unexpired_for(alias):
        return unexp.replace("{tx}", alias).replace("{DEFAULT_TX_EXPIRY_DELTA}", str(delta))

    tx_unexpired_spender = parse_sql(unexpired_for("stx"), "tx_unexpired_condition(stx)")
    tx_unexpired_note = parse_sql(unexpired_for("t"), "tx_unexpired_condition(t)")

    # --- spent_notes_clause: fixed relational shape around tx_unexpired_condition("stx") --------
    b = fn_body(common, "spent_notes_clause", COMMON)
    m = re.search(r'format!\(\s*r#"(.*?)"#,\s*tx_unexpired_condition\("stx"\)\s*\)', b, flags=re.S)
    if not m:
        raise SrcgenError("spent_notes_clause: expected format!(r#\"..\"#, tx_unexpired_condition(\"stx\"))")
    shape = norm(m.group(1))
    want = ("SELECT rns.{table_prefix}_received_note_id FROM {table_prefix}_received_note_spends rns "
            "JOIN transactions stx ON stx.id_tx = rns.transaction_id WHERE {}")
    if shape != want:
        raise SrcgenError("spent_notes_clause: relational shape changed: %r" % shape)

    # --- output_eligible_condition / output_lockable_condition / locked_tier_expr --------------
    b = fn_body(locking, "output_eligible_condition", LOCKING)
    m = re.search(r'LockFilter::Unfiltered\s*=>\s*"([^"]*)"\.to_string\(\)', b)
    if not m:
        raise SrcgenError("output_eligible_condition: Unfiltered arm not found")
    elig_unf = parse_sql(m.group(1), "output_eligible_condition(Unfiltered)")
    m = re.search(r'LockFilter::Policy\(_\)\s*=>\s*format!\(\s*((?:"[^"]*"\s*\\?\s*)+)\)', b, flags=re.S)
    if not m:
        raise SrcgenError("output_eligible_condition: Policy arm not found")
    pieces = re.findall(r'"([^"]*)"', m.group(1))
    txt = "".join(p.rstrip("\\") for p in pieces).replace("\\\n", "")
    txt = re.sub(r"\\\s*", "", txt).replace("{tbl}", "rn")
    elig_pol = parse_sql(txt, "output_eligible_condition(Policy)")

    b = fn_body(locking, "output_lockable_condition", LOCKING)
    m = re.search(r'"([^"]*)"', b)
    if not m:
        raise SrcgenError("output_lockable_condition: literal not found")
    lockable = parse_sql(m.group(1), "output_lockable_condition")

    b = fn_body(locking, "locked_tier_expr", LOCKING)
    m = re.search(r'"\(CASE WHEN (.*?) THEN 1 ELSE 0 END\)"', re.sub(r'\s*\\\s*\n\s*', " ", b).replace('" "', ""), flags=re.S)
    if not m:
        raise SrcgenError("locked_tier_expr: CASE WHEN .. THEN 1 ELSE 0 END not found")
    tier = parse_sql(m.group(1).replace("{tbl}", "rn"), "locked_tier_expr")
    if not re.search(r'policy\.prefers_locked\(\)\s*\{\s*"DESC"\s*\}\s*else\s*\{\s*"ASC"\s*\}', b):
        raise SrcgenError("locked_tier_expr: direction rule changed")

    # --- select_spendable_notes_matching_value: WHERE of the `eligible` CTE, window, tail --------
    b = fn_body(common, "select_spendable_notes_matching_value", COMMON)
    m = re.search(r'"WITH eligible AS \((.*?)\{selection_tail\}"', b, flags=re.S)
    if not m:
        raise SrcgenError("select_spendable_notes_matching_value: eligible CTE not found")
    cte = m.group(1)
    m = re.search(r"\bWHERE\b(.*?)\bGROUP BY rn\.id\b", cte, flags=re.S)
    if not m:
        raise SrcgenError("eligible CTE: WHERE .. GROUP BY rn.id not found")
    where = m.group(1)
    if where.count("({})") != 1 or "({eligible_condition})" not in where:
        raise SrcgenError("eligible CTE: placeholders changed")
    if not re.search(r"\{selection_tail\}\",\s*spent_notes_clause\(table_prefix\),", b):
        raise SrcgenError("eligible CTE: the positional argument is no longer spent_notes_clause")
    if 'let eligible_condition = output_eligible_condition(lock_filter, "rn");' not in b:
        raise SrcgenError("eligible CTE: eligible_condition binding changed")
    froms = norm(cte[:cte.index("WHERE")])
    for need in ["INNER JOIN accounts ON accounts.id = rn.account_id",
                 "INNER JOIN transactions t ON t.id_tx = rn.transaction_id",
                 "LEFT OUTER JOIN v_{table_prefix}_shards_scan_state scan_state ON rn.commitment_tree_position >= scan_state.start_position AND rn.commitment_tree_position < scan_state.end_position_exclusive",
                 "SUM(value) OVER ({window_frame}) AS so_far",
                 "t.block AS mined_height"]:
        if need not in froms:
            raise SrcgenError("eligible CTE: expected %r" % need)

    # the aggregates that feed ConfirmationsPolicy::confirmations_until_spendable (modelled as the row
    # fields r_shin / r_shtrust, whose ground truth the harness reads with a plain SELECT)
    for qname in ("select_spendable_notes_matching_value", "select_unspent_notes"):
        qb = norm(fn_body(common, qname, COMMON))
        for need in ["MAX(tt.mined_height) AS max_shielding_input_height",
                     "MIN(IFNULL(tt.trust_status, 0)) AS min_shielding_input_trust",
                     "IFNULL(t.trust_status, 0) AS trust_status",
                     "LEFT OUTER JOIN transparent_received_output_spends ros ON ros.transaction_id = t.id_tx",
                     "LEFT OUTER JOIN transparent_received_outputs tro ON tro.id = ros.transparent_received_output_id AND tro.account_id = accounts.id",
                     "LEFT OUTER JOIN transactions tt ON tt.id_tx = tro.transaction_id"]:
            if need not in qb:
                raise SrcgenError("%s: expected %r (shielding-input aggregate / join shape changed)" % (qname, need))

    def where_with(lock_sql):
        w = where.replace("({})", "(@SPENT@)").replace("({eligible_condition})", "(" + lock_sql + ")")
        return parse_sql(w, "eligible CTE WHERE")

    where_pol = where_with(txt)
    where_unf = where_with("1")
    # window order and selection tail
    if '"ORDER BY {expr} {direction}, rn.commitment_tree_position ROWS UNBOUNDED PRECEDING"' not in b or \
       '"ORDER BY rn.commitment_tree_position ROWS UNBOUNDED PRECEDING"' not in b:
        raise SrcgenError("window frame (ORDER BY [tier,] commitment_tree_position ROWS UNBOUNDED PRECEDING) changed")
    m = re.search(r'"SELECT \* from eligible WHERE (so_far\s*\S+\s*:target_value) ORDER BY so_far LIMIT 1"', b)
    if not m:
        raise SrcgenError("crossing-note subquery changed")
    cross = m.group(1)
    m = re.search(r'FROM eligible WHERE (so_far\s*\S+\s*:target_value)\s*UNION\s*SELECT \{result_columns\}\s*FROM \(\{crossing_note_subquery\}\)', b)
    if not m:
        raise SrcgenError("accumulation tail (below-target UNION crossing note) changed")
    below = m.group(1)

    m = re.search(r'FROM eligible WHERE value\s*(<=|>=|<|>|=)\s*:target_value\s*ORDER BY lock_tier \{tier_direction\}, commitment_tree_position"', b)
    if not m:
        raise SrcgenError("single-covering tail (value >= :target_value ORDER BY lock_tier, commitment_tree_position) changed")
    single_cmp = CMPS[m.group(1)]

    def sofar_cmp(s, where_):
        mm = re.fullmatch(r"so_far\s*(<=|>=|<|>|=)\s*:target_value", s.strip())
        if not mm:
            raise SrcgenError(where_ + ": unsupported comparison " + s)
        return CMPS[mm.group(1)]

    # --- select_unspent_notes WHERE -------------------------------------------------------------
    b = fn_body(common, "select_unspent_notes", COMMON)
    m = re.search(r"WHERE accounts\.uuid = :account_uuid(.*?)GROUP BY rn\.id\",", b, flags=re.S)
    if not m:
        raise SrcgenError("select_unspent_notes: WHERE not found")
    w2 = "accounts.uuid = :account_uuid" + m.group(1)
    if w2.count("({})") != 3:
        raise SrcgenError("select_unspent_notes: placeholders changed")
    if not re.search(r'tx_unexpired_condition\("t"\),\s*spent_notes_clause\(table_prefix\),\s*output_eligible_condition\(lock_filter, "rn"\)', b):
        raise SrcgenError("select_unspent_notes: positional arguments changed")

    def where2_with(lock_sql):
        parts = w2.split("({})")
        w = parts[0] + "(" + unexpired_for("t") + ")" + parts[1] + "(@SPENT@)" + parts[2] + "(" + lock_sql + ")" + parts[3]
        return parse_sql(w, "select_unspent_notes WHERE")

    unspent_pol = where2_with(txt)
    unspent_unf = where2_with("1")

    # --- transparent outputs: spendable_transparent_outputs_query ----------------------------------
    TR = "zcash_client_sqlite/src/wallet/transparent.rs"
    tr = srcgen.read(TR)
    enc = srcgen.read("zcash_client_sqlite/src/wallet/encoding.rs")
    def scope_code(name):
        mm = re.search(r"KeyScope::%s\s*=>\s*(-?\d+)i64" % name, enc)
        if not mm:
            raise SrcgenError("KeyScope::%s encoding not found" % name)
        return int(mm.group(1))
    eph_scope, foreign_scope = scope_code("Ephemeral"), scope_code("Foreign")
    maturity = srcgen.int_const("components/zcash_protocol/src/consensus.rs", "COINBASE_MATURITY_BLOCKS")
    max_block = srcgen.int_const("components/zcash_protocol/src/constants.rs", "MAX_BLOCK_BYTES")
    p2pkh = srcgen.int_const(ZIP317, "P2PKH_STANDARD_INPUT_SIZE")
    pct = srcgen.int_const("zcash_client_backend/src/data_api/wallet/input_selection.rs", "DEFAULT_SHIELDING_BLOCK_SPACE_PERCENT")

    def raw_format(fn):
        bb = fn_body(tr, fn, TR)
        mm = re.search(r'format!\(\s*r#"(.*?)"#', bb, flags=re.S)
        if not mm:
            raise SrcgenError("%s: format!(r#\"..\"#) not found" % fn)
        return mm.group(1), bb

    f_minconf, _ = raw_format("tx_unexpired_condition_minconf_0")
    f_minconf = f_minconf.replace("{tx}", "t")
    f_spent, bb = raw_format("spent_utxos_clause")
    if norm(f_spent) != ("SELECT txo_spends.transparent_received_output_id FROM transparent_received_output_spends txo_spends "
                         "JOIN transactions stx ON stx.id_tx = txo_spends.transaction_id WHERE {}") or \
       'super::common::tx_unexpired_condition("stx")' not in bb:
        raise SrcgenError("spent_utxos_clause: relational shape changed")
    f_eph, _ = raw_format("excluding_wallet_internal_ephemeral_outputs")
    sub = re.search(r"\{tx\}\.id_tx NOT IN \(\s*SELECT transaction_id\s+FROM v_received_output_spends\s+WHERE v_received_output_spends\.account_id = \{accounts\}\.id\s*\)", f_eph)
    if not sub:
        raise SrcgenError("excluding_wallet_internal_ephemeral_outputs: wallet-inputs subquery changed")
    f_eph = f_eph.replace(sub.group(0), "@NOWALLETINPUTS@ = 1")
    f_eph = (f_eph.replace("{addresses}", "addresses").replace("{ephemeral_key_scope}", str(eph_scope))
             .replace("{transparent_received_outputs}", "u").replace("{tx}", "t"))
    f_cb, _ = raw_format("excluding_immature_coinbase_outputs")
    f_cb = f_cb.replace("{tx}", "t").replace("{COINBASE_MATURITY_BLOCKS}", str(maturity))
    bq = fn_body(tr, "spendable_transparent_outputs_query", TR)
    mm = re.search(r"WHERE \{address_predicate_sql\}(.*?)ORDER BY \{order_by_sql\}\",", bq, flags=re.S)
    if not mm:
        raise SrcgenError("spendable_transparent_outputs_query: WHERE not found")
    wq = mm.group(1)
    if wq.count("({})") != 4 or "({lock_eligible_sql})" not in wq:
        raise SrcgenError("spendable_transparent_outputs_query: placeholders changed")
    if not re.search(r'tx_unexpired_condition_minconf_0\("t"\),\s*spent_utxos_clause\(\),\s*excluding_wallet_internal_ephemeral_outputs\("u", "addresses", "t", "accounts"\),\s*excluding_immature_coinbase_outputs\("t"\),\s*foreign_scope = KeyScope::Foreign\.encode\(\)', bq):
        raise SrcgenError("spendable_transparent_outputs_query: positional arguments changed")
    for need in ["FROM transparent_received_outputs u", "JOIN transactions t ON t.id_tx = u.transaction_id",
                 "JOIN accounts ON accounts.id = u.account_id", "JOIN addresses ON addresses.id = u.address_id"]:
        if need not in norm(bq):
            raise SrcgenError("spendable_transparent_outputs_query: expected %r" % need)
    bfa = fn_body(tr, "get_spendable_transparent_outputs_for_addresses", TR)
    if '"addresses.cached_transparent_receiver_address IN rarray(:addresses)"' not in bfa or \
       '&output_eligible_condition(lock_filter, "u")' not in bfa:
        raise SrcgenError("get_spendable_transparent_outputs_for_addresses: predicate arguments changed")
    if not re.search(r"allow_zero_conf_shielding\(\)\s*\{\s*0u32\s*\}\s*else\s*\{\s*u32::from\(confirmations_policy\.untrusted\(\)\)", bfa):
        raise SrcgenError("get_spendable_transparent_outputs_for_addresses: min_confirmations rule changed")

    def utxo_where(lock_sql):
        parts = wq.split("({})")
        w = ("addresses.cached_transparent_receiver_address IN rarray(:addresses)" + parts[0] + "(" + f_minconf + ")" + parts[1]
             + "(@SPENT@)" + parts[2] + "(" + f_eph + ")" + parts[3] + "(" + f_cb + ")" + parts[4])
        w = w.replace("({lock_eligible_sql})", "(" + lock_sql + ")").replace("{foreign_scope}", str(foreign_scope))
        return parse_sql(w, "spendable_transparent_outputs_query WHERE")

    utxo_pol = utxo_where(txt.replace("rn.", "u."))
    utxo_unf = utxo_where("1")

    # select_spendable_transparent_outputs: same query body, account/allow-list address predicate,
    # ORDER BY [tier,] value DESC, output_index; Rust-side accumulation
    bsel = fn_body(tr, "select_spendable_transparent_outputs", TR)
    mm = re.search(r'spendable_transparent_outputs_query\(\s*"(accounts\.uuid = :account_uuid.*?)",\s*&output_eligible_condition\(lock_filter, "u"\),\s*&order_by_sql,', bsel, flags=re.S)
    if not mm:
        raise SrcgenError("select_spendable_transparent_outputs: address/account predicate not found")
    acct_pred = mm.group(1)
    if 'format!("{expr} {direction}, u.value_zat DESC, u.output_index")' not in bsel or \
       'None => "u.value_zat DESC, u.output_index".to_string()' not in bsel:
        raise SrcgenError("select_spendable_transparent_outputs: ORDER BY changed")
    for need in ["if utxos.len() >= max_inputs {", "accumulated_value.saturating_sub(u64::from(cumulative_fee)) >= target",
                 "[InputSize::Known(cumulative_input_size)]", "let has_address_allow_list = address_allow_list.is_some();"]:
        if need not in bsel:
            raise SrcgenError("select_spendable_transparent_outputs: accumulation loop changed (%r)" % need)
    if not re.search(r"allow_zero_conf_shielding\(\)\s*\{\s*0u32\s*\}\s*else\s*\{\s*u32::from\(confirmations_policy\.untrusted\(\)\)", bsel):
        raise SrcgenError("select_spendable_transparent_outputs: min_confirmations rule changed")

    def gather_where(lock_sql):
        parts = wq.split("({})")
        w = ("(" + acct_pred + ")" + parts[0] + "(" + f_minconf + ")" + parts[1]
             + "(@SPENT@)" + parts[2] + "(" + f_eph + ")" + parts[3] + "(" + f_cb + ")" + parts[4])
        w = w.replace("({lock_eligible_sql})", "(" + lock_sql + ")").replace("{foreign_scope}", str(foreign_scope))
        return parse_sql(w, "select_spendable_transparent_outputs WHERE")

    gather_pol = gather_where(txt.replace("rn.", "u."))
    gather_unf = gather_where("1")
    # the propose_transaction passes: which lock policy each transparent gather uses
    isel = srcgen.read("zcash_client_backend/src/data_api/wallet/input_selection.rs")
    k = isel.find("impl<DbT: InputSource> InputSelector for GreedyInputSelector<DbT>")
    if k < 0:
        raise SrcgenError("GreedyInputSelector InputSelector impl not found")
    bpt = fn_body(isel[k:], "propose_transaction", "input_selection.rs")
    if len(re.findall(r"LockFilter::Policy\(spend_policy\.locked_input_policy\(\)\)", bpt)) != 3 or \
       "self.locked_input_policy" in bpt:
        raise SrcgenError("propose_transaction: the lock policy passed to the selection calls changed")
    bgt = fn_body(isel, "gather_transparent", "input_selection.rs")
    if "LockFilter::Policy(locked_input_policy)," not in bgt or "spend_policy.locked_input_policy()," not in bpt:
        raise SrcgenError("gather_transparent: lock policy argument changed")

    out = ["From Coq Require Import ZArith.", "From V.C08 Require Import Sql.", "Local Open Scope Z_scope.", ""]
    out.append("Definition DEFAULT_TX_EXPIRY_DELTA : Z := %d." % delta)
    out.append("Definition MARGINAL_FEE : Z := %d." % marginal)
    out.append("Definition SCANNED_PRIORITY : Z := %d." % scanned)
    out.append("(* tx_unexpired_condition(\"stx\") — inside spent_notes_clause *)")
    out.append("Definition tx_unexpired_spender : expr :=\n  %s." % tx_unexpired_spender)
    out.append("(* tx_unexpired_condition(\"t\") — the note's own transaction (select_unspent_notes) *)")
    out.append("Definition tx_unexpired_note : expr :=\n  %s." % tx_unexpired_note)
    out.append("Definition lock_eligible_unfiltered : expr := %s." % elig_unf)
    out.append("Definition lock_eligible_policy : expr :=\n  %s." % elig_pol)
    out.append("Definition lockable_cond : expr :=\n  %s." % lockable)
    out.append("Definition locked_tier_cond : expr :=\n  %s." % tier)
    out.append("(* WHERE of the `eligible` CTE of select_spendable_notes_matching_value *)")
    out.append("Definition eligible_where_policy : expr :=\n  %s." % where_pol)
    out.append("Definition eligible_where_unfiltered : expr :=\n  %s." % where_unf)
    out.append("(* WHERE of select_unspent_notes *)")
    out.append("Definition unspent_where_policy : expr :=\n  %s." % unspent_pol)
    out.append("Definition unspent_where_unfiltered : expr :=\n  %s." % unspent_unf)
    out.append("Definition below_target_cmp : cmp := %s." % sofar_cmp(below, "below-target"))
    out.append("Definition crossing_cmp : cmp := %s." % sofar_cmp(cross, "crossing"))
    out.append("Definition single_covering_cmp : cmp := %s." % single_cmp)
    out.append("(* WHERE of spendable_transparent_outputs_query as used by get_spendable_transparent_outputs_for_addresses *)")
    out.append("Definition utxo_where_policy : expr :=\n  %s." % utxo_pol)
    out.append("Definition utxo_where_unfiltered : expr :=\n  %s." % utxo_unf)
    out.append("(* WHERE of select_spendable_transparent_outputs *)")
    out.append("Definition utxo_gather_where_policy : expr :=\n  %s." % gather_pol)
    out.append("Definition utxo_gather_where_unfiltered : expr :=\n  %s." % gather_unf)
    out.append("Definition EPHEMERAL_KEY_SCOPE : Z := %d." % eph_scope)
    out.append("Definition COINBASE_MATURITY_BLOCKS : Z := %d." % maturity)
    out.append("(* shielding_max_inputs(DEFAULT_SHIELDING_BLOCK_SPACE_PERCENT) *)")
    out.append("Definition SHIELDING_MAX_INPUTS : Z := %d." % ((max_block * pct // 100) // p2pkh))
    srcgen.write_gen("C08SqlPred", "\n".join(out) + "\n")


class C08(Config):
    pid = "C08"
    proof_targets = ["C08/Properties.vo"]
    corr_targets = ["C08/Corr.vo", "C08/Wf.vo"]
    audit_dirs = ["Lib", "Gen", "C08"]
    header = ("From V.Lib Require Import Base.\n"
              "From V.C08 Require Import Sql Model ModelT ModelP Spec Corr Wf.\n"
              "Local Open Scope Z_scope.")
    bin = "c08"
    n_tags = 42
    classes = {}
    shard_size = 120
    rule = ("wallet histories on the real SQLite backend, half of them on a local network with NU6.3/Ironwood active and a 12-block ZIP 318 grid (receipts into 2 accounts x 3 shielded pools, canonical-denomination payments to Orchard receivers, external spends, "
            "out-of-order scans, pending transactions created with create_proposed_transactions and mined or expired, "
            "locks taken/released/cleared/expired); after every operation the note rows are dumped with plain SELECTs and "
            "select_spendable_notes / propose_transfer / lock_outputs are called with generated arguments; one case per API call")
    trusted_base = [
        "Coq 8.16.1 kernel, vm_compute (no native_compute)",
        "vlib/props/c08.py: SQL-fragment parser and the shape checks around it (fail closed)",
        "coq/C08/Sql.v: the three-valued denotation given to the regenerated SQL trees; SQLite's evaluation of SQL",
        "hand-transcribed relational structure: joins, GROUP BY, window SUM in ORDER BY order, UNION of below-target rows and the crossing row, NOT IN (subquery) = no unexpired spender",
        "harness/wallet/src/bin/c08.rs: plain-SELECT row dump, printers, the recording change-strategy wrapper",
    ]
    assumptions = [
        "the change strategy is an arbitrary function (Section variable / per-case recorded table); balance of a step is enforced by Step::from_parts, not assumed",
        "note ids are unique per pool (primary key)",
        "canonical-crossing attempt: the ZIP 318 grid, NU6.3 activation height, anchor_computable(Orchard, boundary), the data source's anchor under the bucketed policy and the canonical fee are inputs reported by the wallet; theorems assume that anchor <= the boundary",
    ]
    partial_clauses = [
        "transparent inputs are modelled for get_spendable_transparent_outputs_for_addresses, propose_shielding and the gather / re-gather of propose_transfer under a TransparentSpendPolicy (non-coinbase outputs; the gather's own fee estimate is modelled as 5000*max(2,n) for P2PKH inputs; ORDER BY value ties are outside the model); propose_shielding_coinbase, CoinbasePolicy::OnlyCoinbase and ZIP 320 multi-step proposals are not modelled",
        "greedy_terminates is proved without a transparent spend policy only (with one, the re-gather bound grows with the strategy's `required`, which is bounded by MAX_MONEY, not by the wallet)",
        "propose_send_max_transfer is covered only through select_spendable_notes(AllFunds) (select_unspent_notes)",
        "get_anchor_height / checkpoint tables are not modelled: the anchor is an input (the value the wallet reports)",
    ]

    @staticmethod
    def gen():
        gen_sql()


CONFIG = C08()
