"""C02 — wallet database writes are all-or-nothing and never observed half-applied.

gen(): regenerates coq/Gen/C02Shapes.v, the table of the *syntactic transaction shape* of every
write method of the SQLite wallet backend (fails closed on anything it cannot classify)."""
import hashlib
import re

from .. import srcgen
from ..runner import Config
from ..srcgen import SrcgenError

LIB = "zcash_client_sqlite/src/lib.rs"
OI = "zcash_client_sqlite/src/pool_migration/orchard_ironwood.rs"
STORE = "zcash_client_sqlite/src/pool_migration/store.rs"


# ------------------------------------------------------------------------------------------------
# a very small Rust reader: comments/strings blanked, brace matching, impl blocks, fn bodies
# ------------------------------------------------------------------------------------------------

def blank(src):
    """Replace comments and string/char literal contents by spaces (same length, same newlines)."""
    out = []
    i, n = 0, len(src)
    while i < n:
        c = src[i]
        if src.startswith("//", i):
            j = src.find("\n", i)
            j = n if j < 0 else j
            out.append(" " * (j - i))
            i = j
        elif src.startswith("/*", i):
            j = src.find("*/", i)
            if j < 0:
                raise SrcgenError("unterminated block comment")
            out.append(re.sub(r"[^\n]", " ", src[i:j + 2]))
            i = j + 2
        elif c == '"':
            j = i + 1
            while j < n and src[j] != '"':
                j += 2 if src[j] == "\\" else 1
            out.append('"' + re.sub(r"[^\n]", " ", src[i + 1:j]) + '"')
            i = j + 1
        elif c == "r" and re.match(r'r#*"', src[i:]):
            m = re.match(r'r(#*)"', src[i:])
            end = '"' + m.group(1)
            j = src.find(end, i + len(m.group(0)))
            if j < 0:
                raise SrcgenError("unterminated raw string")
            out.append(re.sub(r"[^\n]", " ", src[i:j + len(end)]))
            i = j + len(end)
        elif c == "'" and re.match(r"'(\\.|[^\\'])'", src[i:]):
            m = re.match(r"'(\\.|[^\\'])'", src[i:])
            out.append(" " * len(m.group(0)))
            i += len(m.group(0))
        else:
            out.append(c)
            i += 1
    return "".join(out)


def match_brace(s, i):
    """s[i] == '{' -> index of the matching '}'."""
    assert s[i] == "{"
    d = 0
    for j in range(i, len(s)):
        if s[j] == "{":
            d += 1
        elif s[j] == "}":
            d -= 1
            if d == 0:
                return j
    raise SrcgenError("unbalanced braces")


def top_level_test_cut(s):
    """Cut the file at the first `#[cfg(test)]` at column 0 (test modules are not part of the API)."""
    m = re.search(r"^#\[cfg\(test\)\]\s*\n(pub(\([a-z]+\))? )?mod\b", s, flags=re.M)
    return s[:m.start()] if m else s


def impl_blocks(s, header_re):
    """Bodies (text between the braces) of the impl blocks whose header matches `header_re`."""
    out = []
    for m in re.finditer(r"^impl\b[^{;]*\{", s, flags=re.M):
        head = re.sub(r"\s+", " ", m.group(0))
        if re.search(header_re, head):
            a = m.end() - 1
            b = match_brace(s, a)
            out.append((head, s[a + 1:b]))
    return out


def methods(body):
    """(name, takes_mut_self, body_text) of every fn directly inside an impl body."""
    out = []
    i = 0
    depth = 0
    for m in re.finditer(r"\bfn\s+([A-Za-z0-9_]+)\s*(<[^(]*>)?\s*\(", body):
        if m.start() < i:
            continue            # nested fn inside a previous body
        # signature ends at the first '{' at paren depth 0 (or ';' for a declaration)
        j = m.end() - 1
        pd = 0
        k = j
        while k < len(body):
            ch = body[k]
            if ch in "([":
                pd += 1
            elif ch in ")]":
                pd -= 1
            elif ch == "{" and pd == 0:
                break
            elif ch == ";" and pd == 0:
                k = -1
                break
            k += 1
        if k < 0 or k >= len(body):
            continue
        e = match_brace(body, k)
        sig = body[m.start():k]
        out.append((m.group(1), bool(re.search(r"&\s*mut\s+self", sig)), body[k + 1:e]))
        i = e
    return out


def norm(b):
    b = re.sub(r"#\[[^\]]*\]", " ", b)      # attributes
    b = re.sub(r"\s+", " ", b).strip()
    return re.sub(r" ?\. ?(?=[A-Za-z_])", ".", b)   # `x .f()` / `x\n.f()` -> `x.f()`


def split_stmts(b):
    """Top-level statements of a block (split at ';' outside any bracket)."""
    out, d, cur = [], 0, []
    for ch in b:
        if ch in "([{":
            d += 1
        elif ch in ")]}":
            d -= 1
        if ch == ";" and d == 0:
            out.append("".join(cur).strip())
            cur = []
        else:
            cur.append(ch)
    t = "".join(cur).strip()
    if t:
        out.append(t)
    # an `if .. { .. }` statement needs no `;` before the tail expression
    res = []
    for x in out:
        if x.startswith("if "):
            d = 0
            for j, ch in enumerate(x):
                if ch in "([{":
                    d += 1
                elif ch in ")]}":
                    d -= 1
                    if d == 0 and ch == "}" and x[j + 1:].strip() and not x[j + 1:].strip().startswith("else"):
                        res.append(x[:j + 1].strip())
                        x = x[j + 1:].strip()
                        break
        res.append(x)
    return [x for x in res if x]


def whole_call(expr, prefix_re):
    """expr is exactly `<prefix>( ... )` with optional trailing `?` — the call's parentheses close
    at the end of the expression."""
    m = re.match(prefix_re + r"\(", expr)
    if not m:
        return False
    i = m.end() - 1
    d = 0
    for j in range(i, len(expr)):
        if expr[j] in "([{":
            d += 1
        elif expr[j] in ")]}":
            d -= 1
            if d == 0:
                return expr[j + 1:].strip() in ("", "?")
    return False


PURE_LET = re.compile(r"^let (mut )?[A-Za-z_][A-Za-z0-9_]* = (self\.(tables|account_id|params)|&self\.params)$")
TXN_PREFIX = r"self(?:\.borrow_mut\(\))?\.transactionally(?:::<[^(]*>)?"
TXNEXT_PREFIX = r"self(?:\.borrow_mut\(\))?\.transactionally_with_extension(?:::<[^(]*>)?"
DB_TOUCH = re.compile(r"\bconn\b|\.execute\b|\.prepare|\.query|\btransaction\b|\bstore\b")


def classify(name, body):
    """-> (shape, detail). Shapes: Txn TxnExt TxnExplicit Delegates Other."""
    b = norm(body)
    # feature-gated double body of put_received_transparent_utxo: `return <call>; panic!(..)`
    b2 = re.sub(r"panic ?! ?\([^;]*\) ?;?$", "", b).strip()
    if b2 != b and b2.startswith("return "):
        b = b2[len("return "):].rstrip(";").strip()
    stmts = split_stmts(b)
    if not stmts:
        return "Other", "empty body"
    last = stmts[-1]
    lead = stmts[:-1]

    def unwrap_ok(e):
        m = re.fullmatch(r"Ok\((.*)\)", e)
        return m.group(1).strip() if m else e

    # --- one transactionally call is the whole body
    for shape, pre in (("Txn", TXN_PREFIX), ("TxnExt", TXNEXT_PREFIX)):
        if not lead and whole_call(unwrap_ok(last), pre):
            return shape, ""
        # pure prelude; `self.transactionally(..)?; Ok(())`
        if lead and last in ("Ok(())",) and whole_call(lead[-1], pre) and lead[-1].endswith("?") \
                and all(s.startswith("let ") and not DB_TOUCH.search(s) for s in lead[:-1]):
            return shape, "pure prelude"
    # --- explicit transaction
    # a bare `{ .. }` block (scoping the transaction-bound handle) is read as its statements
    flat = []
    for x in stmts:
        while x.startswith("{"):
            e = match_brace(x, 0)
            flat += split_stmts(x[1:e])
            x = x[e + 1:].strip()
        if x:
            flat.append(x)
    stmts = flat
    if b.count(".transaction()") == 1 and len(re.findall(r"\btx ?\. ?commit\(\)", b)) == 1:
        k = 0
        while k < len(stmts) and PURE_LET.match(stmts[k]):
            k += 1
        first = stmts[k] if k < len(stmts) else ""
        if not re.match(r"^let tx = self ?\. ?conn ?\. ?borrow_mut\(\) ?\. ?transaction\(\)( ?\. ?map_err\(.*\))? ?\?$", first):
            return "Other", "transaction() is not the first effectful statement"
        rest = stmts[k + 1:]
        ci = [i for i, s in enumerate(rest) if re.search(r"\btx ?\. ?commit\(\)", s)]
        if len(ci) != 1:
            return "Other", "commit not at statement level"
        ci = ci[0]
        before, commit, after = rest[:ci], rest[ci], rest[ci + 1:]
        if any(re.search(r"\bself ?\. ?conn\b", s) for s in rest):
            return "Other", "connection used outside the transaction handle"
        if any(re.search(r"\btx\b", s) for s in after):
            return "Other", "transaction handle used after commit"
        if not all(re.fullmatch(r"Ok\(.*\)|result", s) for s in after) or len(after) != 1:
            return "Other", "something other than the result follows the commit"
        plain = re.fullmatch(r"tx ?\. ?commit\(\)( ?\. ?map_err\(.*\))? ?\?", commit)
        guarded = re.fullmatch(r"if result ?\. ?is_ok\(\) ?\{ ?tx ?\. ?commit\(\)( ?\. ?map_err\(.*\))? ?\? ?;? ?\}", commit)
        if plain:
            # every statement before the commit must propagate its error
            for s in before:
                if re.search(r"\.ok\(\)|let _ =|unwrap_or|if let Ok", s):
                    return "Other", "error discarded before commit"
                # the transaction-scoped wallet handle, built exactly as `transactionally` builds it
                if re.fullmatch(r"let mut wdb = WalletDb \{ conn: SqlTransaction\(&tx\),[^();?]*\}", s):
                    continue
                if not (s.endswith("?") or s.endswith("? }") or re.search(r"\?\s*\}$", s) or s.endswith("? ;")):
                    return "Other", "statement before commit does not end in `?`: " + s[:60]
            return "TxnExplicit", ""
        if guarded and after == ["result"]:
            if len(before) != 1 or not before[0].startswith("let result = "):
                return "Other", "guarded commit without a single result binding"
            return "TxnExplicit", "commit guarded by result.is_ok()"
        return "Other", "commit statement shape"
    # --- delegation
    if b.count(".transaction()") == 0 and not re.search(r"\.execute\b|\.prepare|\.query", b):
        m = re.fullmatch(r"self ?\. ?(?:store ?\. ?)?([a-z_0-9]+)\((.*)\)", last)
        if m and all(re.fullmatch(r"proven ?\. ?apply\(state\)", s) for s in lead):
            return "Delegates", m.group(1)
        m = re.fullmatch(r"(?:wallet::locking|wallet::commitment_tree)::([a-z_0-9]+)\(self ?\. ?conn ?\. ?borrow\(\).*\)( ?\. ?map_err\(.*\))?", last)
        if m and not lead:
            return "Other", "free read helper " + m.group(1)
    return "Other", "unrecognised body"


# Methods whose shape is not one of the mechanical ones, inspected by hand. The justification is
# bound to the exact (normalised) body text: any edit invalidates it and the check fails closed.
def _h(body):
    return hashlib.sha256(norm(body).encode()).hexdigest()[:16]


JUSTIFIED = {
    # reads through a shared borrow of the connection; no write statement in the helper
    "OutputLockStore::get_locked_outputs": ("ReadOnly", "body calls wallet::locking::get_locked_outputs (a SELECT)"),
    "WalletCommitmentTrees::get_sapling_subtree_root": ("ReadOnly", "get_subtree_root: one SELECT"),
    "WalletCommitmentTrees::get_orchard_subtree_root": ("ReadOnly", "get_subtree_root: one SELECT"),
    "WalletCommitmentTrees::get_ironwood_subtree_root": ("ReadOnly", "get_subtree_root: one SELECT"),
    # resolve_migration_id (SELECT) then exactly one UPDATE in autocommit mode: one statement = one
    # implicit transaction; the `updated == 0` error comes after a statement that changed nothing
    "Store::update_transaction": ("SingleStmt", "one SELECT, one autocommitted UPDATE"),
    # pure computation and reads, then a single call of Store::replace_migration_with whose closure
    # writes through the transaction handle it is given; `?` on the call, then Ok(tx)
    "PoolMigrations::take_transaction_for_broadcast": ("Delegates", "replace_migration_with"),
}
JUSTIFIED_HASH = {
    "OutputLockStore::get_locked_outputs": "1bbc05b7da3ee208",
    "WalletCommitmentTrees::get_sapling_subtree_root": "82164c017c172667",
    "WalletCommitmentTrees::get_orchard_subtree_root": "2b3821bd4eaf7e43",
    "WalletCommitmentTrees::get_ironwood_subtree_root": "42a496cc22acc47b",
    "Store::update_transaction": "7a767dd52c2f204b",
    "PoolMigrations::take_transaction_for_broadcast": "2bee337a4b262978",
}

SOURCES = [
    # (file, impl-header regex, qualifier, only &mut self methods?)
    (LIB, r"^impl<C: BorrowMut<rusqlite::Connection>, [^>]*> WalletWrite for WalletDb<C, P, CL, R>", "WalletWrite", True),
    (LIB, r"OutputLockStore for WalletDb<C, P, CL, R>", "OutputLockStore", False),
    (LIB, r"WalletCommitmentTrees for WalletDb<C, P, CL, R>", "WalletCommitmentTrees", True),
    (LIB, r"^impl<C: BorrowMut<rusqlite::Connection>, P, CL(: Clock)?, R(: rand::RngCore)?> WalletDb<C, P, CL, R>", "WalletDb", True),
    (OI, r"PoolMigrationWrite for PoolMigrations<C, P, CL>", "PoolMigrations", True),
    (OI, r"^impl<C, P, CL> PoolMigrations<C, P, CL> where C: BorrowMut<Connection>", "PoolMigrations", True),
    (STORE, r"^impl<C: BorrowMut<Connection>> Store<C>", "Store", True),
]
# the primitives themselves (classified separately below)
PRIMITIVES = {"WalletDb::transactionally", "WalletDb::transactionally_with_extension"}
EXPECT_AT_LEAST = {"WalletWrite": 25, "OutputLockStore": 4, "WalletCommitmentTrees": 9, "WalletDb": 3, "PoolMigrations": 4, "Store": 4}


BACKEND_API = "zcash_client_backend/src/data_api.rs"
BACKEND_LOCKING = "zcash_client_backend/src/data_api/locking.rs"
# (trait, file, qualifier): every method of the trait must be classified for the connection-owning
# impl; a method the impl does not override is classified on the trait's DEFAULT body (a default
# that makes more than one call of a transactional method is not atomic)
TRAITS = [("WalletWrite", BACKEND_API, "WalletWrite"),
          ("WalletCommitmentTrees", BACKEND_API, "WalletCommitmentTrees"),
          ("OutputLockStore", BACKEND_LOCKING, "OutputLockStore")]


def trait_methods(rel, trait):
    """(name, default body or None) of every method of `pub trait NAME` (cfg-gated ones included)."""
    src = top_level_test_cut(blank(srcgen.read(rel)))
    m = re.search(r"^pub trait " + re.escape(trait) + r"\b[^{;]*\{", src, flags=re.M)
    if not m:
        raise SrcgenError("trait %s not found in %s" % (trait, rel))
    a = m.end() - 1
    body = src[a + 1:match_brace(src, a)]
    out = []
    for mm in re.finditer(r"\bfn\s+([A-Za-z0-9_]+)\s*(<[^(]*>)?\s*\(", body):
        pre = body[:mm.start()]
        if pre.count("{") != pre.count("}"):
            continue
        k, pd = mm.end() - 1, 0
        while True:
            ch = body[k]
            if ch in "([":
                pd += 1
            elif ch in ")]":
                pd -= 1
            elif ch == "{" and pd == 0:
                out.append((mm.group(1), body[k + 1:match_brace(body, k)]))
                break
            elif ch == ";" and pd == 0:
                out.append((mm.group(1), None))
                break
            k += 1
    if len(out) < 4:
        raise SrcgenError("trait %s: only %d methods found" % (trait, len(out)))
    return out


def classify_default(body):
    """A trait default body, run on the connection-owning impl: atomic only if it is a single call
    of one method of the same trait (which is classified itself)."""
    b = norm(body)
    calls = re.findall(r"\bself\.([a-z_0-9]+)\(", b)
    if re.search(r"\bfor\b|\bwhile\b|\bloop\b|\.iter\(\)|try_for_each", b.split("self.", 1)[0]) and calls:
        return "Other", "trait default loops around self.%s" % calls[0]
    if len(calls) == 1:
        st = split_stmts(b)
        if len(st) <= 2 and whole_call(st[0], r"self\.[a-z_0-9]+") and (len(st) == 1 or st[1] == "Ok(())"):
            return "Delegates", calls[0]
    if not calls and not DB_TOUCH.search(b):
        return "ReadOnly", "trait default touches nothing"
    return "Other", "trait default makes %d calls of transactional methods" % len(calls)


def check_primitive(name, body):
    """transactionally / transactionally_with_extension: begin, run the closure with `?`, commit
    with `?`, return Ok(result) — in this order, nothing else touching the connection."""
    b = norm(body)
    st = split_stmts(b)
    if not st or not re.match(r"^let tx = self ?\. ?conn ?\. ?borrow_mut\(\) ?\. ?transaction\(\) ?\?$", st[0]):
        raise SrcgenError("%s: does not start with `let tx = self.conn.borrow_mut().transaction()?`" % name)
    if st[-1] != "Ok(result)" or not re.fullmatch(r"tx ?\. ?commit\(\) ?\?", st[-2]):
        raise SrcgenError("%s: does not end with `tx.commit()?; Ok(result)`" % name)
    if not re.fullmatch(r"let result = f\(&mut wdb(, &ext)?\) ?\?", st[-3]):
        raise SrcgenError("%s: the closure result is not bound with `?` right before the commit" % name)
    if b.count("commit()") != 1 or b.count(".transaction()") != 1:
        raise SrcgenError("%s: more than one begin/commit" % name)


def extract():
    table = []          # (qualified name, shape, detail)
    counts = {}
    for rel, hre, qual, only_mut in SOURCES:
        src = top_level_test_cut(blank(srcgen.read(rel)))
        blocks = impl_blocks(src, hre)
        if not blocks:
            raise SrcgenError("no impl block matching %r in %s" % (hre, rel))
        for _head, body in blocks:
            for name, is_mut, fb in methods(body):
                q = "%s::%s" % (qual, name)
                if q in PRIMITIVES:
                    check_primitive(q, fb)
                    continue
                if any(q == t[0] for t in table):
                    # cfg-gated twin definitions (store_proved_transaction): both are classified
                    q = q + "'"
                shape, detail = classify(name, fb)
                qq = q.rstrip("'")
                if shape == "Other" and qq in JUSTIFIED:
                    want = JUSTIFIED_HASH[qq]
                    got = _h(fb)
                    if want != got:
                        raise SrcgenError("%s: body changed since its hand justification (%s != %s): %s"
                                          % (q, got, want, detail))
                    shape, detail = JUSTIFIED[qq][0], "justified by hand: " + JUSTIFIED[qq][1]
                table.append((q, shape, detail))
                counts[qual] = counts.get(qual, 0) + 1
    # every method of the write traits must be classified; not overridden => the default body counts
    for trait, rel, qual in TRAITS:
        have = {t[0].split("::")[1].rstrip("'") for t in table if t[0].startswith(qual + "::")}
        for name, default in trait_methods(rel, trait):
            if name in have:
                continue
            if default is None:
                raise SrcgenError("%s::%s: required trait method not found in the connection-owning impl" % (qual, name))
            shape, detail = classify_default(default)
            table.append(("%s::%s" % (qual, name), shape, "NOT overridden; trait default: " + detail))
    for q, nmin in EXPECT_AT_LEAST.items():
        if counts.get(q, 0) < nmin:
            raise SrcgenError("only %d methods found for %s (expected at least %d): extractor out of date" % (counts.get(q, 0), q, nmin))
    # delegation targets must themselves be atomic
    for q, shape, detail in table:
        if shape == "Delegates":
            qq = q.rstrip("'")
            tgt = JUSTIFIED[qq][1] if qq in JUSTIFIED else detail.split(": ")[-1]
            cands = [t for t in table if t[0].split("::")[1].rstrip("'") == tgt and t[0].rstrip("'") != qq]
            if not cands:
                raise SrcgenError("%s delegates to %s which is not in the table" % (q, tgt))
            if any(c[1] == "Other" for c in cands):
                raise SrcgenError("%s delegates to %s which is not atomic" % (q, tgt))
    return table


# ------------------------------------------------------------------------------------------------
# discarded database results below the trait methods
# ------------------------------------------------------------------------------------------------

SW_BASE = "zcash_client_sqlite/src"


def _receiver(s, i):
    """Start index of the method-call chain that ends right before s[i] == '.'."""
    j = i
    while True:
        k = j - 1
        while k >= 0 and s[k].isspace():
            k -= 1
        c = s[k]
        if c in ")]":
            d = 0
            while True:
                d += s[k] in ")]"
                d -= s[k] in "(["
                if d == 0:
                    break
                k -= 1
            j = k
            continue
        if c == "?":
            j = k
            continue
        if c.isalnum() or c == "_" or c == ">":
            if c == ">":
                d = 0
                while True:
                    d += s[k] == ">"
                    d -= s[k] == "<"
                    if d == 0:
                        break
                    k -= 1
                k -= 1
            while k >= 0 and (s[k].isalnum() or s[k] in "_:"):
                k -= 1
            j = k + 1
            k2 = k
            while k2 >= 0 and s[k2].isspace():
                k2 -= 1
            if s[k2] == ".":
                j = k2
                continue
            return j
        return j


def _after_last_try(e):
    """The part of a call chain after its last top-level `?` (what precedes it is propagated)."""
    d, last = 0, -1
    for i, ch in enumerate(e):
        if ch in "([{":
            d += 1
        elif ch in ")]}":
            d -= 1
        elif ch == "?" and d == 0:
            last = i
    return e[last + 1:]


def swallow_sites():
    """Places in the non-test code of the wallet backend where the Result of something that
    touches the database is discarded instead of propagated: `if let Err(..) = e {..}`,
    `if let Ok(..) = e {..}`, `let _ = e`, `e.ok()`, `e.unwrap_or*(..)`, and `match e` arms
    `Err(..) => <no error produced>`. `e` touches the database when it mentions a connection /
    transaction / statement handle or calls a function of these files that takes one."""
    import glob
    import os
    from ..core import REPO
    files = ["lib.rs", "wallet.rs"]
    for sub in ("wallet", "pool_migration"):
        files += sorted(sub + "/" + os.path.basename(f) for f in glob.glob(os.path.join(REPO, SW_BASE, sub, "*.rs")))
    files = [f for f in files if f != "wallet/init.rs"]
    if len(files) < 10:
        raise SrcgenError("wallet backend sources not found (%d files)" % len(files))
    srcs = {f: top_level_test_cut(blank(srcgen.read(SW_BASE + "/" + f))) for f in files}
    dbf = set()
    for s in srcs.values():
        for m in re.finditer(r"\bfn\s+([a-z_0-9]+)\s*(<[^(]*>)?\s*\(([^{;]*)", s):
            if re.search(r"Connection|Transaction\b|SqlTransaction", m.group(3)):
                dbf.add(m.group(1))
    if len(dbf) < 100:
        raise SrcgenError("only %d connection-taking functions found: extractor out of date" % len(dbf))
    tok = re.compile(r"\bconn\b|\btx\b|\bdbtx\b|\bstmt\w*\b|\.execute\(|\.query|\.prepare|\bwdb\b|self\.store\b|\b("
                     + "|".join(sorted(dbf)) + r")\(")
    ws = lambda x: re.sub(r"\s+", " ", x).strip()
    hits = []
    for f, s in srcs.items():
        line = lambda pos: s.count("\n", 0, pos) + 1
        for m in re.finditer(r"\bif let (Err|Ok)\s*\(", s):
            i, d = m.end(), 1
            while d > 0:
                d += s[i] == "("
                d -= s[i] == ")"
                i += 1
            j = s.index("=", i)
            k, d = j + 1, 0
            while not (s[k] == "{" and d == 0):
                d += s[k] in "(["
                d -= s[k] in ")]"
                k += 1
            e = ws(s[j + 1:k])
            if tok.search(_after_last_try(e)):
                hits.append((f, line(m.start()), "if let " + m.group(1), e))
        for m in re.finditer(r"\blet _ =", s):
            e = ws(s[m.end():s.find(";", m.end())])
            if tok.search(_after_last_try(e)):
                hits.append((f, line(m.start()), "let _ =", e))
        for m in re.finditer(r"\.(ok\(\)|unwrap_or(?:_default|_else)?\()", s):
            e = ws(s[_receiver(s, m.start()):m.start()])
            if tok.search(_after_last_try(e)):
                hits.append((f, line(m.start()), "." + m.group(1), e))
        for m in re.finditer(r"\bmatch\b", s):
            k, d = m.end(), 0
            while k < len(s) and not (s[k] == "{" and d == 0):
                d += s[k] in "(["
                d -= s[k] in ")]"
                k += 1
            if k >= len(s):
                continue
            e = ws(s[m.end():k])
            if not tok.search(_after_last_try(e)):
                continue
            body = s[k + 1:match_brace(s, k)]
            for am in re.finditer(r"\bErr\s*\(([^)]*)\)\s*(if [^=]*)?=>", body):
                q = am.end()
                while body[q].isspace():
                    q += 1
                if body[q] == "{":
                    arm = body[q:match_brace(body, q) + 1]
                else:
                    d, qe = 0, q
                    while qe < len(body) and not (body[qe] == "," and d == 0):
                        d += body[qe] in "([{"
                        d -= body[qe] in ")]}"
                        qe += 1
                    arm = body[q:qe]
                if not re.search(r"\bErr\b|\breturn\b|\?|panic!|unreachable!", arm):
                    hits.append((f, line(m.start()), "match Err arm", e + " => " + ws(arm)[:80]))
    return hits


# discarded results inspected by hand; bound to the expression text
SWALLOW_OK = {
    # on the error path of the failed INSERT INTO accounts: the constraint error is returned in
    # either case, the lookup only refines it into AccountCollision
    "3370d72609d8a8da": "wallet.rs add_account: colliding-uuid lookup inside map_err of the failed insert",
}


def _sw_hash(h):
    return hashlib.sha256(("%s|%s|%s" % (h[0], h[2], h[3])).encode()).hexdigest()[:16]


# ------------------------------------------------------------------------------------------------
# read APIs documented as snapshots: one unchecked_transaction() bracket around every statement
# ------------------------------------------------------------------------------------------------

def _fn_body(src, name, rel):
    """Body of the unique non-test `fn name(` in a blanked source that has a body."""
    found = []
    for m in re.finditer(r"\bfn\s+" + re.escape(name) + r"\s*(<[^(]*>)?\s*\(", src):
        k, pd = m.end() - 1, 0
        while k < len(src):
            ch = src[k]
            if ch in "([":
                pd += 1
            elif ch in ")]":
                pd -= 1
            elif ch == "{" and pd == 0:
                break
            elif ch == ";" and pd == 0:
                k = -1
                break
            k += 1
        if k > 0:
            found.append(src[k + 1:match_brace(src, k)])
    return found


def snapshot_shape(body):
    """True when the body opens exactly one `unchecked_transaction()` and touches the connection
    nowhere else: no database read before (or beside) the bracket."""
    b = norm(body)
    if b.count("unchecked_transaction()") != 1:
        return False, "not exactly one unchecked_transaction()"
    stmts = split_stmts(b)
    conn_tok = re.compile(r"\bconn\b")
    open_i = [i for i, x in enumerate(stmts) if "unchecked_transaction()" in x]
    if len(open_i) != 1:
        return False, "bracket not opened at statement level"
    i = open_i[0]
    opener = stmts[i]
    # the connection may be named only to open the bracket
    if len(conn_tok.findall(b)) != 1 or len(conn_tok.findall(opener)) != 1:
        return False, "the connection is used outside the unchecked_transaction() bracket"
    for x in stmts[:i]:
        if DB_TOUCH.search(x) or re.search(r"\bview\b|crate::wallet::|wallet::", x):
            return False, "a statement before the bracket touches the database: " + x[:60]
    m = re.match(r"^let ([a-z_]+) = conn\.unchecked_transaction\(\) ?\?$", opener)
    if m:
        return True, "let %s = conn.unchecked_transaction()?" % m.group(1)
    if whole_call(opener, r"wallet::get_wallet_summary") and "&self.conn.borrow().unchecked_transaction()?" in opener:
        return True, "single call taking &self.conn.borrow().unchecked_transaction()?"
    return False, "unrecognised bracket opener"


SNAPSHOT_READS = [
    # (table name, file, impl-header regex or None for a free fn, fn name)
    ("WalletRead::get_wallet_summary", LIB, r"WalletRead for WalletDb<C, P, CL, R>", "get_wallet_summary"),
    ("store::mined_height", STORE, None, "mined_height"),
    ("store::check_step_satisfiability", STORE, None, "check_step_satisfiability"),
]


def snapshot_reads():
    out = []
    for q, rel, hre, name in SNAPSHOT_READS:
        src = top_level_test_cut(blank(srcgen.read(rel)))
        if hre:
            blocks = impl_blocks(src, hre)
            bodies = [fb for _h, body in blocks for n, _m, fb in methods(body) if n == name]
        else:
            # free function at column 0
            bodies = []
            for m in re.finditer(r"^(?:pub(?:\([a-z]+\))? )?fn " + re.escape(name) + r"\b", src, flags=re.M):
                bodies += _fn_body(src[m.start():], name, rel)[:1]
        if len(bodies) != 1:
            raise SrcgenError("%s: expected exactly one definition in %s, found %d" % (q, rel, len(bodies)))
        ok, why = snapshot_shape(bodies[0])
        out.append((q, ok, why))
    return out


def gen():
    table = extract()
    lines = ["From Coq Require Import String List.", "From V.C02 Require Import Shape.", "Import ListNotations.",
             "Local Open Scope string_scope.", "",
             "(* qualified method name, syntactic transaction shape (vlib/props/c02.py) *)",
             "Definition shapes : list (string * shape) := ["]
    rows = []
    for q, shape, detail in table:
        rows.append('  ("%s", %s)%s' % (q, shape, ""))
    lines.append(";\n".join(rows))
    lines.append("].")
    sw = swallow_sites()
    lines.append("")
    lines.append("(* places where the Result of a database-touching expression is discarded; true = inspected by hand *)")
    lines.append("Definition swallows : list (string * bool) := [")
    lines.append(";\n".join('  ("%s:%d %s #%s", %s)' % (h[0], h[1], h[2], _sw_hash(h), "true" if _sw_hash(h) in SWALLOW_OK else "false") for h in sw))
    lines.append("].")
    sr = snapshot_reads()
    lines.append("")
    lines.append("(* read APIs documented as snapshots; true = the body is one unchecked_transaction() bracket and touches the connection nowhere else *)")
    lines.append("Definition snapshot_reads : list (string * bool) := [")
    lines.append(";\n".join('  ("%s", %s)' % (q, "true" if ok else "false") for q, ok, _w in sr))
    lines.append("].")
    notes = ["(* %s: %s *)" % (q, d.replace("*)", "* )")) for q, s, d in table if d]
    notes += ["(* snapshot read %s: %s *)" % (q, w) for q, _ok, w in sr]
    notes += ["(* swallow %s:%d %s: %s *)" % (h[0], h[1], h[2], h[3].replace("*)", "* )").replace("(*", "( *")[:200]) for h in sw]
    srcgen.write_gen("C02Shapes", "\n".join(lines + [""] + notes) + "\n")
    return table


class C02(Config):
    pid = "C02"
    proof_targets = ["C02/Properties.vo"]
    corr_targets = ["C02/Corr.vo", "C02/Wf.vo"]
    audit_dirs = ["Gen", "C02"]
    header = ("From Coq Require Import String.\n"
              "From V.Lib Require Import Base.\n"
              "From V.Gen Require Import C02Shapes.\n"
              "From V.C02 Require Import Shape Model Corr Wf.\n"
              "Local Open Scope N_scope.")
    bin = "c02"
    release_too = False
    n_tags = 64
    shard_size = 100
    harness_timeout = 7200
    classes = {}
    rule = ("every write operation reachable through the public API (WalletWrite, OutputLockStore, WalletCommitmentTrees on "
            "WalletDb; PoolMigrations store writes incl. store_proved_transaction / take_transaction_for_broadcast on a really "
            "proved transaction) on database states reached by a generated wallet history (plain; with locks, stored "
            "transactions and a pending migration; with a completed migration mined above the truncation heights; the same plus "
            "a successor migration; around a proved migration transaction); per "
            "operation: uninterrupted runs (rollback-journal and WAL), a fault at sampled SQLite VM steps up to the commit "
            "point in three pager configurations, a vetoed commit, live dumps through a second connection, a two-statement "
            "read on a second connection inside/outside a read transaction; plus the real snapshot reads (get_wallet_summary, "
            "pool-migration oracles mined_height and check_step_satisfiability) on a reader connection with a complete writer call (truncate, scan, update_chain_tip) "
            "fired on another connection before the read and at every statement boundary of it; every line is one executed API call with its hook "
            "event trace and canonical dumps; distinct = distinct lines")
    trusted_base = [
        "Coq 8.16.1 kernel, vm_compute (no native_compute)",
        "axioms: none (every theorem is closed under the global context)",
        "SQLite 3 (bundled by rusqlite): atomic commit, rollback, hot-journal / WAL recovery, isolation between connections, "
        "statement atomicity — modelled by `step` in coq/C02/Model.v and *tested* (run_case) on every observed trace, not proved",
        "the operating system and file system (fsync, rename, file copies as crash images)",
        "rusqlite hooks (commit/rollback/update hook, progress handler), sqlite3_get_autocommit and SQLite's error log "
        "(SQLITE_CONFIG_LOG: 'statement aborts' / 'abort at') as the source of the event trace",
        "harness/wallet/Cargo.toml enables transparent-key-import so that the cfg-gated write methods exist in the build that is driven; "
        "the extractor treats every cfg(feature)-gated method as present",
        "vlib/props/c02.py shape extractor (comment/string blanking, brace matching, statement splitting) and the hand-justified entries bound to body hashes",
        "harness/wallet/src/bin/c02.rs (canonical dump: all tables of sqlite_master, rows sorted, uuid columns blanked, SHA-256 truncated to 63 bits); harness/hist",
    ]
    assumptions = [
        "one writer connection per wallet database at a time (the wallet's documented usage); a second connection only reads",
        "a fault is an error delivered inside a running SQL statement before the operation's commit point (SQLITE_INTERRUPT) or a failing COMMIT; "
        "an error reported after COMMIT has taken effect is outside the property (acknowledgement loss)",
        "dump digests are compared by equality (63-bit truncated SHA-256); uuid columns are blanked and transactions.raw is "
        "compared by txid and length (PCZT extraction draws fresh signature randomness)",
    ]
    partial_clauses = [
        "atomic commit, isolation and crash recovery are properties of SQLite and the OS: trusted, exercised by file-copy crash images (at fault time and inside the commit hook, incl. cache-spill configurations with a hot journal), not proved",
        "fault positions, crash points and reader schedules are sampled (quick: ~14 positions per operation and state; thorough: ~120), not exhaustive",
        "store_proved_transaction / take_transaction_for_broadcast are driven with ONE really proved preparation transaction of one planned migration (single-note wallet); transfers (Ironwood crossings) are not proved",
        "the list of discarded database results (C02_no_discarded_db_result) is a syntactic scan: a Result discarded through a helper, a closure or a differently spelled pattern is not seen",
        "the bracket discipline of the method bodies *below* the trait methods (helpers called inside the closure) is checked dynamically (traces), not statically",
    ]

    gen = staticmethod(gen)


CONFIG = C02()
