import re

from .. import srcgen
from ..runner import Config
from ..srcgen import SrcgenError

SCANNING = "zcash_client_backend/src/data_api/scanning.rs"
SQL_SCANNING = "zcash_client_sqlite/src/wallet/scanning.rs"
SQL_LIB = "zcash_client_sqlite/src/lib.rs"

EXPECTED = {"Ignored", "Scanned", "Historic", "OpenAdjacent", "FoundNote", "ChainTip", "Verify"}


def _strip_comments(s):
    s = re.sub(r"//[^\n]*", "", s)
    return re.sub(r"/\*.*?\*/", "", s, flags=re.S)


def enum_variants(rel, name):
    """Variants of a field-less `pub enum NAME { A, B, ... }` in declaration order together with
    the derive list (derive(Ord) on such an enum orders by declaration order)."""
    src = srcgen.read(rel)
    m = re.search(r"((?:#\[[^\]]*\]\s*)*)pub\s+enum\s+" + re.escape(name) + r"\s*\{(.*?)\n\}", src, flags=re.S)
    if not m:
        raise SrcgenError("enum %s not found in %s" % (name, rel))
    attrs, body = m.group(1), _strip_comments(m.group(2))
    if not re.search(r"derive\([^)]*\bPartialOrd\b[^)]*\bOrd\b", attrs):
        raise SrcgenError("enum %s in %s no longer derives PartialOrd, Ord (priority order is the declaration order only under the derive)" % (name, rel))
    vs = [v.strip() for v in body.split(",") if v.strip()]
    for v in vs:
        if not re.fullmatch(r"[A-Z][A-Za-z0-9]*", v):
            raise SrcgenError("enum %s in %s: variant %r is not a plain unit variant" % (name, rel, v))
    return vs


def match_table(rel, fn, arm_re):
    """Arms of the single `match` in the body of `fn NAME(...) ... { match x { ... } }`."""
    src = srcgen.read(rel)
    m = re.search(r"fn\s+" + re.escape(fn) + r"\s*\([^)]*\)[^{]*\{\s*match\s+\w+\s*\{(.*?)\n    \}\s*\n\}", src, flags=re.S)
    if not m:
        raise SrcgenError("fn %s with a single match not found in %s" % (fn, rel))
    body = _strip_comments(m.group(1))
    arms = [a.strip() for a in body.split(",") if a.strip()]
    out = []
    for a in arms:
        mm = re.fullmatch(arm_re, a)
        if not mm:
            raise SrcgenError("fn %s in %s: arm %r outside the supported table shape" % (fn, rel, a))
        out.append(mm.groups())
    return out


DATA_API = "zcash_client_backend/src/data_api.rs"


def _locked_version(crate):
    lock = srcgen.read("Cargo.lock")
    m = re.search(r'name = "%s"\nversion = "([^"]+)"' % re.escape(crate), lock)
    if not m:
        raise SrcgenError("crate %s not found in Cargo.lock" % crate)
    return m.group(1)


def _registry_file(crate, rel):
    import glob
    import os
    v = _locked_version(crate)
    hits = glob.glob(os.path.expanduser("~/.cargo/registry/src/*/%s-%s/%s" % (crate, v, rel)))
    if len(hits) != 1:
        raise SrcgenError("source of %s %s (%s) not found in the cargo registry" % (crate, v, rel))
    return open(hits[0]).read()


def shard_heights():
    """SAPLING/ORCHARD/IRONWOOD_SHARD_HEIGHT = <crate>::NOTE_COMMITMENT_TREE_DEPTH / 2, the depth read from
    the crate version pinned in Cargo.lock."""
    sap = _registry_file("sapling-crypto", "src/tree.rs")
    m = re.search(r"pub const NOTE_COMMITMENT_TREE_DEPTH\s*:\s*u8\s*=\s*(\d+)\s*;", sap)
    if not m:
        raise SrcgenError("sapling NOTE_COMMITMENT_TREE_DEPTH not found")
    sap_depth = int(m.group(1))
    orc_lib = _registry_file("orchard", "src/lib.rs")
    if not re.search(r"pub use constants::MERKLE_DEPTH_ORCHARD as NOTE_COMMITMENT_TREE_DEPTH;", orc_lib):
        raise SrcgenError("orchard NOTE_COMMITMENT_TREE_DEPTH is no longer MERKLE_DEPTH_ORCHARD")
    orc = _registry_file("orchard", "src/constants.rs")
    m = re.search(r"pub(?:\(crate\))? const MERKLE_DEPTH_ORCHARD\s*:\s*usize\s*=\s*(\d+)\s*;", orc)
    if not m:
        raise SrcgenError("orchard MERKLE_DEPTH_ORCHARD not found")
    orc_depth = int(m.group(1))
    src = srcgen.read(DATA_API)
    out = {}
    for name, crate, depth in (("SAPLING", "sapling", sap_depth), ("ORCHARD", "orchard", orc_depth), ("IRONWOOD", "orchard", orc_depth)):
        m = re.search(r"pub const %s_SHARD_HEIGHT\s*:\s*u8\s*=\s*\{?\s*%s::NOTE_COMMITMENT_TREE_DEPTH(?: as u8)?\s*\}?\s*/\s*(\d+)\s*;" % (name, crate), src)
        if not m:
            raise SrcgenError("%s_SHARD_HEIGHT is not <crate>::NOTE_COMMITMENT_TREE_DEPTH / k in %s" % (name, DATA_API))
        out[name] = depth // int(m.group(1))
    return out


class C15(Config):
    pid = "C15"
    proof_targets = ["C15/Properties.vo"]
    corr_targets = ["C15/Corr.vo", "C15/Wf.vo"]
    audit_dirs = ["Lib", "Gen", "C15"]
    header = ("From V.Lib Require Import Base.\n"
              "From V.Gen Require Import C15Tables.\n"
              "From V.C15 Require Import Model Spec Sem QModel Corr Wf.\n"
              "Local Open Scope Z_scope.")
    bin = "c15"
    release_too = False   # the queue code has no overflow- or debug_assert-dependent paths (saturating BlockHeight arithmetic, assert!)
    n_tags = None
    harness_timeout = 2400
    shard_size = 1200
    classes = {1: "C15-empty-range-insert-panics", 2: "C15-prune-leaves-adjacent-ignored"}
    rule = ("Part A (pure tree, public feature-gated API): every (leaf, insertion, force) triple exhaustively on a small height domain "
            "with all 7 priorities and empty ranges (quick 0..3, thorough 0..6), exhaustive range shapes for 2 insertions, random 3-5 "
            "insertion sequences, wallet-like sequences (sorted stored rows then updates, last possibly empty), long random sequences up "
            "to u32::MAX; into_vec of a clone observed after every insertion. Part B (SQLite backend): histories of update_chain_tip, "
            "notify_scan_complete (prefix/suffix/whole of a suggested range, with and without note positions and subtree roots), "
            "queue_rescans, prune_scan_queue_below on wallets with different birthdays; boundary histories (tip below birthday, u32::MAX, "
            "empty ranges); client loops on real generated blocks through scan_cached_blocks/put_blocks with truncate_to_height rewinds, "
            "run to quiescence; scan_queue rows and suggest_scan_ranges compared after every operation. distinct = distinct case lines; "
            "every line is an executed public API call sequence with its observed outcome")
    trusted_base = [
        "Coq 8.16.1 kernel, vm_compute (no native_compute)",
        "axioms: none (Print Assumptions audited on every theorem)",
        "vlib/props/c15.py extractors (ScanPriority variant order under derive(Ord); priority_code / parse_priority_code tables; PRUNING_DEPTH, VERIFY_LOOKAHEAD; the three *_SHARD_HEIGHT constants from data_api.rs and the tree depths of the sapling-crypto / orchard versions pinned in Cargo.lock)",
        "harness/wallet/src/bin/c15.rs printers and catch_unwind wrappers; vlib case-file generator",
        "hand transcription of spanning_tree.rs / scanning.rs (coq/C15/Model.v) and of wallet/scanning.rs, trim_scan_queue_to, fully_scanned_height (coq/C15/QModel.v), tied by the correspondence run",
        "SQLite itself and the SQL text of the queue statements (modelled as list filters/sorts; UNIQUE constraints modelled)",
        "part B context read back by the harness with its own SELECTs (blocks MAX(height), accounts MIN(birthday_height), *_tree_shards rows); "
        "in the low-level histories `blocks` rows are primed by INSERT to mimic put_blocks, the client-loop histories use real put_blocks",
    ]
    assumptions = [
        "block heights are u32 (BlockHeight, saturating +/-); the tree performs only comparisons, min and max on them",
        "tree theorems: the inserted ranges are non-empty ones followed by any number of empty ones (inserting an empty range never "
        "panics on any tree; the known finding C15-empty-range-insert-panics needs an empty range followed later by a non-empty one, "
        "also reachable through WalletDb::queue_rescans)",
        "queue theorems: the stored queue is canonical; the query range selects at least one stored row (touches: overlapping or adjacent) "
        "or the table is empty; entries lie inside the query range; update_chain_tip: tip < u32::MAX",
        "termination: the database invariant 'no Scanned height above MAX(blocks.height)' for chain-tip updates, and an account exists "
        "(birthday known) at every chain-tip update of a run",
    ]
    partial_clauses = [
        "prune_scan_queue_below is proved correct pointwise and contiguous, canonical except at the junction with the first untouched row "
        "(known finding C15-prune-leaves-adjacent-ignored, witness proved); it is not part of the inductive run",
        "queue_rescans: the exact set of panicking inputs inside the class 'an empty range followed later by a non-empty one' is not "
        "characterised (sufficient condition for no panic + inverted-range panic + witness are proved)",
        "C15_quiescent_full takes coverage of birthday and tip as hypotheses (coverage is shown preserved by scan and tip steps, and the "
        "tip update is shown to cover its entries); the initial state (Ignored below the birthday, created by account creation) is an "
        "assumption of the run, account creation is not modelled",
        "extend_range's shard lookups are modelled from the shard rows the harness reads back; mark_stabilized_notes is outside the model",
        "queue-level bridge covers scan / chain-tip / rewind steps inside qdom (about 90% of those steps in the quick corpus); "
        "rescan, prune and client-loop summary cases are checked by run_case and prop_case only",
    ]

    @staticmethod
    def gen():
        vs = enum_variants(SCANNING, "ScanPriority")
        if set(vs) != EXPECTED or len(vs) != len(EXPECTED):
            raise SrcgenError("ScanPriority variants changed: %s" % vs)
        codes = match_table(SQL_SCANNING, "priority_code", r"([A-Za-z]+)\s*=>\s*(-?\d+)")
        parse = match_table(SQL_SCANNING, "parse_priority_code", r"(-?\d+|_)\s*=>\s*(Some\([A-Za-z]+\)|None)")
        cd = dict((k, int(v)) for k, v in codes)
        if set(cd) != EXPECTED:
            raise SrcgenError("priority_code does not list every ScanPriority variant exactly once: %s" % codes)
        pruning = srcgen.int_const(SQL_LIB, "PRUNING_DEPTH")
        lookahead = srcgen.int_const(SQL_LIB, "VERIFY_LOOKAHEAD")
        out = ["From Coq Require Import ZArith List.", "Import ListNotations.", "Local Open Scope Z_scope.", "",
               "(* zcash_client_backend::data_api::scanning::ScanPriority, declaration order (= derive(Ord) order) *)",
               "Inductive prio : Set := %s." % " | ".join(vs),
               "Definition all_prios : list prio := [%s]." % "; ".join(vs),
               "Definition prio_rank (p : prio) : Z :=\n  match p with %s end." % " | ".join("%s => %d" % (v, i) for i, v in enumerate(vs)),
               "(* zcash_client_sqlite::wallet::scanning::priority_code *)",
               "Definition prio_code (p : prio) : Z :=\n  match p with %s end." % " | ".join("%s => %d" % (v, cd[v]) for v in vs),
               "(* zcash_client_sqlite::wallet::scanning::parse_priority_code, arms in source order *)",
               "Definition parse_prio_code (c : Z) : option prio :="]
        body = "  None"
        seen_default = False
        rows = []
        for k, v in parse:
            if k == "_":
                if v != "None":
                    raise SrcgenError("parse_priority_code: default arm is not None")
                seen_default = True
                continue
            if seen_default:
                raise SrcgenError("parse_priority_code: arm after the default arm")
            mm = re.fullmatch(r"Some\(([A-Za-z]+)\)", v)
            if not mm or mm.group(1) not in EXPECTED:
                raise SrcgenError("parse_priority_code: arm %s => %s" % (k, v))
            rows.append((int(k), mm.group(1)))
        if not seen_default:
            raise SrcgenError("parse_priority_code: no default arm")
        for k, v in reversed(rows):
            body = "  if c =? %s then Some %s else\n%s" % (k if k >= 0 else "(%d)" % k, v, body)
        out.append(body + ".")
        out.append("Definition PRUNING_DEPTH : Z := %d." % pruning)
        out.append("Definition VERIFY_LOOKAHEAD : Z := %d." % lookahead)
        for k, v in shard_heights().items():
            out.append("Definition %s_SHARD_HEIGHT : Z := %d." % (k, v))
        srcgen.write_gen("C15Tables", "\n".join(out) + "\n")


CONFIG = C15()
