import re

from .. import srcgen
from ..srcgen import SrcgenError
from ..runner import Config

P = "components/zcash_protocol/src/constants/%s.rs"
U = "components/zcash_address/src/kind/unified.rs"
F4 = "components/f4jumble/src/lib.rs"
ENC = "components/zcash_encoding/src/lib.rs"


def _bytes_const(rel, name, n):
    src = srcgen.read(rel)
    m = re.search(r"\bconst\s+" + name + r"\s*:\s*\[u8;\s*(\d+)\]\s*=\s*\[([^\]]*)\]\s*;", src)
    if not m or int(m.group(1)) != n:
        raise SrcgenError("byte-array const %s: [u8; %d] not found in %s" % (name, n, rel))
    vals = [int(x.strip(), 0) for x in m.group(2).split(",") if x.strip()]
    if len(vals) != n or any(v < 0 or v > 255 for v in vals):
        raise SrcgenError("byte-array const %s in %s has an unexpected shape" % (name, rel))
    return vals


def _enum_lens(rel, enum, want):
    """`pub enum E { Orchard([u8; 43]), ... }` -> {variant: len}."""
    src = srcgen.read(rel)
    m = re.search(r"pub enum " + enum + r"\s*\{(.*?)\n\}", src, flags=re.S)
    if not m:
        raise SrcgenError("enum %s not found in %s" % (enum, rel))
    body = re.sub(r"//[^\n]*", "", m.group(1))
    got = dict((a, int(b)) for a, b in re.findall(r"\b([A-Z][A-Za-z0-9]*)\(\[u8;\s*(\d+)\]\)", body))
    if set(got) != set(want) or "Unknown" not in body:
        raise SrcgenError("enum %s in %s: expected byte-array variants %s + Unknown, found %s" % (enum, rel, sorted(want), sorted(got)))
    return got


def _typecodes():
    src = srcgen.read(U)
    m = re.search(r"impl From<Typecode> for u32 \{.*?match t \{(.*?)\n\s*\}\n", src, flags=re.S)
    if not m:
        raise SrcgenError("impl From<Typecode> for u32 not found")
    arms = dict((a, int(b, 0)) for a, b in re.findall(r"Typecode::([A-Za-z0-9]+)\s*=>\s*(0x[0-9a-fA-F]+|\d+)\s*,", m.group(1)))
    if set(arms) != {"P2pkh", "P2sh", "Sapling", "Orchard"}:
        raise SrcgenError("typecode table has an unexpected shape: %s" % arms)
    m2 = re.search(r"(0x[0-9a-fA-F]+)\s*\.\.=\s*(0x[0-9a-fA-F]+)\s*=>\s*Ok\(Typecode::Unknown\(typecode\)\)", src)
    if not m2:
        raise SrcgenError("range of unknown typecodes not found in TryFrom<u32> for Typecode")
    return arms, int(m2.group(1), 0), int(m2.group(2), 0)


def _coq_str(s):
    if not re.fullmatch(r"[a-z0-9\-]+", s):
        raise SrcgenError("unexpected characters in prefix %r" % s)
    return '(str "%s"%%string)' % s


def _coq_bytes(v):
    return "[%s]" % "; ".join("%d" % x for x in v)


class C10(Config):
    pid = "C10"
    proof_targets = ["C10/Properties.vo"]
    corr_targets = ["C10/Corr.vo", "C10/Wf.vo"]
    audit_dirs = ["Lib", "Gen", "C10"]
    header = ("From V.Lib Require Import Base Hex.\n"
              "From V.Gen Require Import C10Consts.\n"
              "From V.C10 Require Import Model Spec Corr Wf.\n"
              "Local Open Scope N_scope.")
    bin = "c10"
    release_too = False
    n_tags = 120
    shard_size = 250
    classes = {1: "C10-encode-panics-on-short-or-long-container"}
    rule = ("address values of every kind and network (constructors, encode, parse back, convert_if_network for every expected network), unified "
            "Address/Ufvk/Uivk containers with arbitrary known and unknown items (try_from_items, encode, decode), "
            "f4jumble/f4jumble_inv on every length class, CompactSize read/write, and malformed / near-valid strings "
            "(mutated character, other checksum variant, wrong HRP, permuted or duplicated items, wrong padding, "
            "non-canonical CompactSize, truncated item, non-zero Bech32 padding, extra data character, mixed case); "
            "distinct = distinct case lines; every line is an executed API call with its observed outcome")
    trusted_base = [
        "Coq 8.16.1 kernel, vm_compute (no native_compute)",
        "axioms: none",
        "vlib/props/c10.py extractors (prefixes, typecodes, item lengths, F4Jumble bounds, MAX_COMPACT_SIZE, CODE_LENGTH)",
        "harness/pure/src/bin/c10.rs printers, catch_unwind wrappers and its BLAKE2b table builder (blake2b_simd called directly with the UA_F4Jumble_H / UA_F4Jumble_G personalisations)",
        "BLAKE2b is not modelled: every theorem holds for all (byte-valued) functions H, G; each case supplies the H/G outputs it needs as a table",
        "the Gallina transcriptions of the external crates bech32 0.11 (charset, case rule, polymod, code length), bs58 0.5 (Base58Check) and SHA-256 are tied to the code by correspondence through the repository API; their round-trip / canonicity properties are proved about the transcriptions",
    ]
    assumptions = [
        "usize is 64 bits (the harness target)",
        "unified container values have Unknown items only with typecodes 4..=0x02000000 (Receiver::Unknown{typecode: 0..3} or above MAX_COMPACT_SIZE is outside the domain)",
        "zcash_address links the registry release zcash_encoding 0.4.0; its CompactSize::read agrees with the in-tree 0.5.0 model on every observed container",
        "Base58Check round trip (kind_roundtrip, bridge for CEnc): visible guard that the produced string is not by accident also a valid Bech32/Bech32m string (the parser tries those first); evaluated on every case as part of wf_case",
    ]
    partial_clauses = []

    def extra(self, ctx):
        """zcash_keys side (decode_payment_address / encode_payment_address through the shared helper
        bech32_decode): binary c10k of the package harness/keysnt (zcash_keys with default features).
        Its cases go through the same Coq evaluation and verdict as the main ones."""
        from .. import core
        from ..runner import parse_harness, classify
        if any(p.get("kind") == "model" for p in ctx["problems"]):
            return
        core.log("[C10] harness (zcash_keys::encoding, package vkeysnt)")
        ok, path, out = core.harness_build("c10k", package="vkeysnt")
        if not ok:
            ctx["problems"].append({"kind": "harness", "what": "harness-build (c10k, package vkeysnt)", "log": out[-6000:]})
            return
        rc, out = core.harness_run(path, self.harness_args(ctx["tier"], ctx["seed"]), timeout=self.harness_timeout)
        cases, stats, other = parse_harness(out)
        if rc != 0 or not cases:
            ctx["problems"].append({"kind": "harness", "what": "harness-run (c10k)", "log": "\n".join(other)[-6000:]})
            return
        res = core.eval_cases(self.pid + "-keys", self.header, self.fns, cases, shard_size=self.shard_size)
        cl = [(c, False) for c in cases]
        classify(self, res, cl, ctx["problems"], ctx["violations"], ctx["known_hits"])
        ctx["cases"] += cl
        if ctx.get("res") is not None:
            for k, v in res.get("tags", {}).items():
                ctx["res"]["tags"][k] = ctx["res"]["tags"].get(k, 0) + v
        ctx["extra_evidence"] = {"zcash_keys_encoding": {
            "binary": "c10k (package vkeysnt)", "cases": len(cases), "stats": stats[:2],
            "tag_histogram": {str(k): v for k, v in sorted(res.get("tags", {}).items())}}}

    @staticmethod
    def gen():
        out = ["From Coq Require Import List NArith String.", "From V.Lib Require Import Hex.", "Import ListNotations.",
               "Local Open Scope N_scope."]
        for net, mod in (("main", "mainnet"), ("test", "testnet"), ("regtest", "regtest")):
            rel = P % mod
            for nm, c in (("sapling", "HRP_SAPLING_PAYMENT_ADDRESS"), ("tex", "HRP_TEX_ADDRESS"), ("ua", "HRP_UNIFIED_ADDRESS"),
                          ("ufvk", "HRP_UNIFIED_FVK"), ("uivk", "HRP_UNIFIED_IVK")):
                out.append("Definition hrp_%s_%s : list N := %s." % (nm, net, _coq_str(srcgen.str_const(rel, c))))
            for nm, c in (("sprout", "B58_SPROUT_ADDRESS_PREFIX"), ("pubkey", "B58_PUBKEY_ADDRESS_PREFIX"), ("script", "B58_SCRIPT_ADDRESS_PREFIX")):
                out.append("Definition b58_%s_%s : list N := %s." % (nm, net, _coq_bytes(_bytes_const(rel, c, 2))))
        src = srcgen.read(F4)
        m = re.search(r"pub const VALID_LENGTH: RangeInclusive<usize> = (\d+)\s*\.\.=\s*(\d+);", src)
        if not m:
            raise SrcgenError("VALID_LENGTH not found in f4jumble")
        out.append("Definition F4_MIN : N := %s." % m.group(1))
        out.append("Definition F4_MAX : N := %s." % m.group(2))
        out.append("Definition MAX_COMPACT_SIZE : N := %d." % srcgen.int_const(ENC, "MAX_COMPACT_SIZE"))
        out.append("Definition PADDING_LEN : N := %d." % srcgen.int_const(U, "PADDING_LEN"))
        out.append("Definition ZIP316_CODE_LENGTH : N := %d." % srcgen.int_const(U, "CODE_LENGTH"))
        arms, ulo, uhi = _typecodes()
        for k, v in sorted(arms.items()):
            out.append("Definition TC_%s : N := %d." % (k.upper(), v))
        out.append("Definition TC_UNKNOWN_MIN : N := %d." % ulo)
        out.append("Definition TC_UNKNOWN_MAX : N := %d." % uhi)
        r = _enum_lens("components/zcash_address/src/kind/unified/address.rs", "Receiver", ["Orchard", "Sapling", "P2pkh", "P2sh"])
        f = _enum_lens("components/zcash_address/src/kind/unified/fvk.rs", "Fvk", ["Orchard", "Sapling", "P2pkh"])
        i = _enum_lens("components/zcash_address/src/kind/unified/ivk.rs", "Ivk", ["Orchard", "Sapling", "P2pkh"])
        for pre, d in (("RCV", r), ("FVK", f), ("IVK", i)):
            for k, v in sorted(d.items()):
                out.append("Definition LEN_%s_%s : N := %d." % (pre, k.upper(), v))
        srcgen.write_gen("C10Consts", "\n".join(out) + "\n")


CONFIG = C10()
