import re

from .. import srcgen
from ..runner import Config

P = "components/equihash/src/params.rs"


class C19(Config):
    pid = "C19"
    proof_targets = ["C19/Properties.vo"]
    corr_targets = ["C19/Corr.vo", "C19/Wf.vo"]
    audit_dirs = ["Lib", "Gen", "C19"]
    header = ("From Coq Require Import Uint63.\n"
              "From V.Lib Require Import Base Hex.\n"
              "From V.C19 Require Import Model Spec Corr Wf.\n"
              "Local Open Scope N_scope.\nLocal Open Scope uint63_scope.")
    bin = "c19"
    release_too = True
    n_tags = 19
    classes = {}
    shard_size = 150
    rule = ("equihash::is_valid_solution on: solutions found by an independent Wagner solver in the harness for "
            "(48,5) (72,5) (96,5) (64,3) (40,4) (32,3) (80,4) (120,7: 16-bit indices, byte-aligned unpacking) [thorough: also (56,6) (96,7) (88,7) (104,7) (72,3) (72,8)] over random inputs/nonces, the (200,9) and (144,5) "
            "vectors of the Zcash test suite; every single-bit mutation of the solution (k<=4 sets and (48,5); sampled for larger tables) and of input / nonce (k=3 sets; sampled otherwise); index-list mutations "
            "(swapped siblings at every level and block, copied subtrees, swapped non-sibling subtrees, duplicated and "
            "neighbouring indices, a valid half taken twice, near solutions); pseudo-solutions with repeated indices from the solver run without its "
            "distinctness filter on (32,3) (40,4) (48,5) (every collision, ordering and zero-XOR condition holds; only distinct_indices rejects them), "
            "separately those whose left half ends below the right half's first index, plus hand-shaped variants; for the byte-aligned index widths 16 and 24 ((120,7), (184,7)) a first pair of leaves colliding on one segment (birthday search) in both orders; random strings of every length 0..2*len; the (n,k) "
            "grid 0..256 x 0..16, n in 264..600 step 8 x k 0..75 and u32 extremes with solutions of length 0, 1, expected, expected+1. "
            "Header level (binary c19h): zcash_primitives BlockHeader::read on the mainnet-415000 header, alone and inside its block, through readers returning at most 1/97/300/512/536/1000/random bytes per call and TCP-like segments; truncations (one byte short, inside the last 512 bytes, inside fields and prefix); single-bit flips (every bit of the length prefix, sampled elsewhere); canonical, non-canonical and oversized CompactSize prefixes; the genuine (200,9) proof of work through is_valid_solution. "
            "distinct = distinct case lines; non-trivial = every line is an executed call with its observed outcome and "
            "the BLAKE2b digests computed independently of the crate")
    trusted_base = [
        "Coq 8.16.1 kernel, vm_compute (no native_compute)",
        "axioms: none (every theorem is closed under the global context)",
        "BLAKE2b is not modelled: the hash is a Section variable H (theorems hold for every H with digests of hash_output(n) bytes); "
        "for evaluation the digest table is computed by the harness with blake2b_simd (personalisation ZcashPoW||le32 n||le32 k, "
        "message input||nonce||le32 g), independently of the equihash crate's hashing code",
        "vlib/props/c19.py extractor of the bounds in Params::new (shape-checked, fails closed)",
        "harness/pure/src/bin/c19.rs printers, error-kind recovery from Display strings, catch_unwind wrapper; vlib case-file generator",
        "model assumes a 64-bit usize; Vec index arithmetic of expand_array is modelled by its written prefix plus an explicit bounds check",
    ]
    assumptions = ["usize is 64 bits (the harness target)",
                   "std::io::Read::read_exact delivers the next bytes of the stream regardless of how many bytes each read() call returns (the header model has no fragmentation parameter; the harness varies it)",
                   "the BLAKE2b digest has hash_output(n) bytes (guard digests_ok in the theorems)"]
    partial_clauses = [
        "'every single-bit change is rejected' is not a theorem (it holds with overwhelming probability over the hash, not always): "
        "it is checked on every generated instance - a mutant that stayed valid would be accepted by model and spec alike; "
        "the theorem-level counterpart is C19_solution_encoding_injective (different solutions of the right length decode to different index lists) "
        "together with C19_is_valid_iff",
    ]

    def extra(self, ctx):
        """Header-level cases: binary c19h (package vwallet, needs zcash_primitives) parses the mainnet-415000
        header through readers that deliver at most `frag` bytes per read() call, truncated / bit-flipped /
        re-prefixed variants, and runs the genuine proof of work through the verifier. Its cases go through
        the same Coq evaluation and verdict as the main ones."""
        from .. import core
        from ..runner import parse_harness, classify
        if any(p.get("kind") == "model" for p in ctx["problems"]):
            return
        core.log("[C19] harness (block headers, c19h)")
        ok, path, out = core.harness_build("c19h", package="vwallet")
        if not ok:
            ctx["problems"].append({"kind": "harness", "what": "harness-build (c19h, package vwallet)", "log": out[-6000:]})
            return
        rc, out = core.harness_run(path, self.harness_args(ctx["tier"], ctx["seed"]), timeout=self.harness_timeout)
        cases, stats, other = parse_harness(out)
        if rc != 0 or not cases:
            ctx["problems"].append({"kind": "harness", "what": "harness-run (c19h)", "log": "\n".join(other)[-6000:]})
            return
        res = core.eval_cases(self.pid + "-h", self.header, self.fns, cases, shard_size=40)
        cl = [(c, False) for c in cases]
        classify(self, res, cl, ctx["problems"], ctx["violations"], ctx["known_hits"])
        ctx["cases"] += cl
        if ctx.get("res") is not None:
            for k, v in res.get("tags", {}).items():
                ctx["res"]["tags"][k] = ctx["res"]["tags"].get(k, 0) + v
        ctx["extra_evidence"] = {"block_headers": {
            "binary": "c19h (package vwallet)", "cases": len(cases), "stats": stats[:2],
            "tag_histogram": {str(k): v for k, v in sorted(res.get("tags", {}).items())}}}

    @staticmethod
    def gen():
        src = srcgen.read(P)
        m = re.search(r"fn new\(n: u32, k: u32\) -> Option<Self> \{(.*?)\n    \}\n", src, flags=re.S)
        if not m:
            raise srcgen.SrcgenError("Params::new not found in " + P)
        body = re.sub(r"//[^\n]*", "", m.group(1))
        body = re.sub(r"\s+", " ", body).strip()
        shape = (r"if n\.is_multiple_of\(8\) && \(k >= (\d+)\) && \(k < n\) && n\.is_multiple_of\(k \+ 1\) && \(n <= (\d+)\) \{ "
                 r"let c = n / \(k \+ 1\); if \(c >= (\d+)\) && \(c \+ 1 <= (\d+)\) && \(k <= c \+ 1\) \{ Some\(Params \{ n, k \}\) \} "
                 r"else \{ None \} \} else \{ None \}")
        g = re.fullmatch(shape, body)
        if not g:
            raise srcgen.SrcgenError("Params::new does not have the expected shape: " + body[:300])
        kmin, nmax, cmin, c1max = (int(x) for x in g.groups())
        for name, pat in (("indices_per_hash_output", r"512 / self\.n"),
                          ("collision_bit_length", r"\(self\.n / \(self\.k \+ 1\)\) as usize"),
                          ("collision_byte_length", r"self\.collision_bit_length\(\)\.div_ceil\(8\)")):
            if not re.search(r"fn %s\(&self\) -> \w+ \{\s*%s\s*\}" % (name, pat), src):
                raise srcgen.SrcgenError("Params::%s does not have the expected body" % name)
        srcgen.write_gen("C19Params",
                         "From Coq Require Import NArith.\nLocal Open Scope N_scope.\n"
                         "Definition K_MIN : N := %d.\nDefinition N_MAX : N := %d.\n"
                         "Definition C_MIN : N := %d.\nDefinition C1_MAX : N := %d.\n" % (kmin, nmax, cmin, c1max))


CONFIG = C19()
