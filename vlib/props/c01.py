import re

from .. import srcgen
from ..runner import Config
from ..srcgen import SrcgenError

LL = "zcash_client_backend/src/data_api/ll/wallet.rs"
BUILDER = "zcash_primitives/src/transaction/builder.rs"
ZIP317 = "zcash_primitives/src/transaction/fees/zip317.rs"
COMMON = "zcash_client_sqlite/src/wallet/common.rs"


def _zat_const(rel, name):
    src = srcgen.read(rel)
    m = re.search(r"\bconst\s+" + name + r"\s*:\s*Zatoshis\s*=\s*Zatoshis::const_from_u64\(\s*([0-9_]+)\s*\)\s*;", src)
    if not m:
        raise SrcgenError("const %s: Zatoshis = Zatoshis::const_from_u64(..) not found in %s" % (name, rel))
    return int(m.group(1).replace("_", ""))


def _require(rel, pattern, what):
    """Fail closed when a clause the model transcribes no longer has the expected shape."""
    src = re.sub(r"\s+", " ", srcgen.read(rel))
    if not re.search(pattern, src):
        raise SrcgenError("%s: expected source shape not found in %s" % (what, rel))


class C01(Config):
    pid = "C01"
    proof_targets = ["C01/Properties.vo"]
    corr_targets = ["C01/Corr.vo", "C01/Wf.vo"]
    audit_dirs = ["Lib", "Gen", "C01"]
    header = ("From V.Lib Require Import Base.\n"
              "From V.C01 Require Import Model Spec Corr Wf.\n"
              "Local Open Scope N_scope.")
    bin = "c01"
    release_too = False
    n_tags = None
    classes = {}
    shard_size = 3
    harness_timeout = 1500
    rule = ("one case = one generated wallet history executed on the real SQLite backend (in-memory TestDb) through "
            "scan_cached_blocks / update_chain_tip / truncate_to_height, with the canonical dump of the notes, note "
            "spends, transactions, nullifier map, scanned blocks, tip, fully-scanned height and get_wallet_summary "
            "balances after every operation; chains contain receipts to external/internal addresses of two accounts in "
            "Sapling, Orchard and Ironwood, spends of earlier notes, foreign outputs and nullifiers, empty blocks; "
            "histories are random partitions / permutations / repeats of scan batches, tip updates, rewinds followed "
            "by re-scans or by a different continuation (re-mined and dropped transactions); distinct = distinct "
            "history lines; every line is an executed history; tag = bitmask of model branches the history went through")
    trusted_base = [
        "Coq 8.16.1 kernel, vm_compute (no native_compute)",
        "axioms: none (every theorem is closed under the global context)",
        "vlib/props/c01.py constant extractors (NULLIFIER_MAP_RETENTION_BLOCKS, PRUNING_DEPTH, DEFAULT_TX_EXPIRY_DELTA, "
        "MARGINAL_FEE) and SQL-clause shape checks (tx_unexpired_condition, Unspent nullifier query)",
        "harness/hist/src/lib.rs (crate vhist): block generator (ground truth of ownership and nullifiers), canonical dump (SQL "
        "over TestDb::conn(), 32-byte ids replaced by generation-order integers), error classifier",
        "SQLite / rusqlite execute the SQL as written; trial decryption finds exactly the generator's owned outputs (C05)",
    ]
    assumptions = [
        "every best chain is valid: heights consecutive from the wallet birthday, txids unique, every nullifier "
        "revealed at most once, a note is spent strictly above the block that creates it (consensus: the anchor of a "
        "spend is the final treestate of an earlier block); over all branches a txid names one transaction up to the "
        "nullifiers of its outputs and a nullifier names one output (pool, txid, index) (weak_universe; its boolean "
        "form univ_ok is checked on every generated history by wf_case); each best chain reveals, of an output it "
        "contains, only the nullifier of its own version (own_versions: a spend of the nullifier a note had on an "
        "abandoned branch is not valid on this chain)",
        "the height reached by truncate_to_height (chosen from the commitment-tree checkpoints, C06) and the "
        "availability of get_wallet_summary (scan-progress estimate) are taken from the implementation",
        "transaction expiry heights stay unknown (NULL): compact-block scanning never learns them; the model keeps the "
        "column and the full tx_unexpired_condition",
    ]
    partial_clauses = [
        "theorems are conditional on the model operations succeeding (run / reach only contain steps that returned "
        "Ok); that the real operations succeed and leave the same tables is checked by run_case, not proved",
        "balance = ledger and equality of balances hold when no orphaned transaction is alive (un-mined rows expired "
        "at tip+1; for single-chain histories also: every block scanned); with live orphans only the per-dump "
        "balance rule (chk_rule) is checked",
        "the bridge theorems cover the ledger clause of prop_case (chk_ledger), for single-chain histories and for "
        "histories with forks (fork_hist); the other clauses of prop_case (tables against ground truth, balance rule "
        "on the dump, linear-scan comparison) are not bridged (they are evaluated on every run)",
        "scan_idempotent is proved for the observable ledger (scanned set, tip, notes and spent status of scanned "
        "outputs, balances), not for the nullifier map (a re-scan may add entries)",
        "Sapling outputs re-mined at another commitment-tree position after a reorg (same txid and output index, new "
        "nullifier) are inside the domain of the C01_forks_* theorems (weak_universe / reach_w; note rows keyed by "
        "(pool, txid, output index), the upsert replaces the nullifier; Properties.ex_remined_reach); the soundness "
        "clause for recorded spenders is correspondingly weaker there: a spender reveals the nullifier of SOME "
        "version of the output; the former statements hold over valid_universe (C01_strict_forks_*)",
        "commitment-tree failures of scan_cached_blocks (Err ETree, shardtree defect C06-F2) and the height reached by "
        "truncate_to_height are inputs of the model (C06); transparent coins are not modelled",
    ]

    @staticmethod
    def gen():
        ret = srcgen.int_const(LL, "NULLIFIER_MAP_RETENTION_BLOCKS")
        prune = srcgen.int_const(LL, "PRUNING_DEPTH")
        delta = srcgen.int_const(BUILDER, "DEFAULT_TX_EXPIRY_DELTA")
        fee = _zat_const(ZIP317, "MARGINAL_FEE")
        _require(COMMON, r"\{tx\}\.mined_height < :target_height.*OR \{tx\}\.expiry_height = 0.*OR \{tx\}\.expiry_height >= :target_height.*"
                         r"\{tx\}\.expiry_height IS NULL.*AND \{tx\}\.min_observed_height \+ \{DEFAULT_TX_EXPIRY_DELTA\} >= :target_height",
                 "tx_unexpired_condition")
        _require(COMMON, r"AND tx\.mined_height IS NOT NULL AND rn\.id NOT IN \( SELECT rns\.\{table_prefix\}_received_note_id.*"
                         r"WHERE stx\.mined_height IS NOT NULL.*OR stx\.expiry_height = 0",
                 "NullifierQuery::Unspent")
        _require(LL, r"if fully_scanned == Some\(from_state_height\) \{ batch_end\.and_then\(\|last\| \{ let floor = BlockHeight::from\(u32::from\(last\)\.saturating_sub\(NULLIFIER_MAP_RETENTION_BLOCKS\)\); "
                     r"\(floor > from_state_height \+ 1\)\.then_some\(floor\)",
                 "nullifier_tracking_floor")
        _require(LL, r"nullifier_tracking_floor\.is_none_or\(\|floor\| block_height >= floor\)", "should_track_nullifiers")
        body = ["From Coq Require Import NArith.", "Local Open Scope N_scope."]
        for n, v in [("NULLIFIER_MAP_RETENTION_BLOCKS", ret), ("PRUNING_DEPTH", prune),
                     ("DEFAULT_TX_EXPIRY_DELTA", delta), ("MARGINAL_FEE", fee)]:
            body.append("Definition %s : N := %d." % (n, v))
        srcgen.write_gen("C01Consts", "\n".join(body) + "\n")


CONFIG = C01()
