import re

from .. import srcgen
from ..runner import Config
from ..srcgen import SrcgenError

KEYS = "zcash_keys/src/keys.rs"
UNI = "components/zcash_address/src/kind/unified.rs"
FVK = "components/zcash_address/src/kind/unified/fvk.rs"
IVK = "components/zcash_address/src/kind/unified/ivk.rs"
CONS = "components/zcash_protocol/src/consensus.rs"
TKEYS = "zcash_transparent/src/keys.rs"
ENC = "components/zcash_encoding/src/lib.rs"
LEG = "zcash_keys/src/encoding.rs"
CONST = "components/zcash_protocol/src/constants/%s.rs"


def _one(rel, pattern, what, flags=re.S):
    src = srcgen.read(rel)
    ms = re.findall(pattern, src, flags)
    if len(ms) != 1:
        raise SrcgenError("%s: expected exactly one match for %s, found %d" % (rel, what, len(ms)))
    return ms[0]


def _int(s):
    return int(s.replace("_", ""), 0)


def _bytes_def(name, s):
    if not re.fullmatch(r"[a-z0-9-]{1,40}", s):
        raise SrcgenError("human-readable part %s = %r is not a short lower-case string" % (name, s))
    return "Definition %s : list N := [%s]." % (name, "; ".join(str(ord(c)) for c in s))


NETS = {"Main": 0, "Test": 1, "Regtest": 2}
MODS = {"mainnet": "mainnet", "testnet": "testnet", "regtest": "regtest"}


def _blist(bs):
    return "[%s]" % "; ".join(str(b) for b in bs)


def _hrp_bytes(s):
    if not re.fullmatch(r"[a-z0-9-]{1,40}", s):
        raise SrcgenError("human-readable part %r is not a short lower-case string" % s)
    return [ord(c) for c in s]


def _byte_array_const(rel, name):
    m = re.findall(r"\bconst\s+%s\s*:\s*\[u8;\s*(\d+)\]\s*=\s*\[([^\]]*)\]\s*;" % re.escape(name), srcgen.read(rel))
    if len(m) != 1:
        raise SrcgenError("byte-array const %s not found exactly once in %s" % (name, rel))
    n, body = m[0]
    bs = [_int(x.strip()) for x in body.split(",") if x.strip()]
    if len(bs) != int(n) or any(b < 0 or b > 255 for b in bs):
        raise SrcgenError("byte-array const %s in %s is malformed" % (name, rel))
    return bs


def _nc_table(method, const, is_bytes):
    """`impl NetworkConstants for NetworkType`: fn <method> { match self { NetworkType::X => mod::CONST, .. } }
    -> [(net id, value)] as written in the source."""
    src = srcgen.read(CONS)
    i = src.find("impl NetworkConstants for NetworkType")
    if i < 0:
        raise SrcgenError("impl NetworkConstants for NetworkType not found")
    m = re.search(r"fn\s+%s\s*\(&self\)[^{]*\{\s*match self \{(.*?)\}\s*\}" % re.escape(method), src[i:], re.S)
    if not m:
        raise SrcgenError("NetworkConstants::%s for NetworkType not found" % method)
    arms = re.findall(r"NetworkType::(\w+)\s*=>\s*(\w+)::(\w+)\s*,", m.group(1))
    if sorted(a[0] for a in arms) != sorted(NETS) or len(arms) != 3 or len(re.findall(r"=>", m.group(1))) != 3:
        raise SrcgenError("NetworkConstants::%s: expected one arm per network" % method)
    out = []
    for net, mod, c in arms:
        if mod not in MODS:
            raise SrcgenError("NetworkConstants::%s: unknown constants module %s" % (method, mod))
        v = _byte_array_const(CONST % mod, c) if is_bytes else _hrp_bytes(srcgen.str_const(CONST % mod, c))
        out.append((NETS[net], v))
    return out


def _extfvk_arms():
    """decode_extfvk_with_network: the HRP -> NetworkType arms as written."""
    src = srcgen.read(LEG)
    m = re.search(r"pub fn decode_extfvk_with_network\((.*?)\n\}\n", src, re.S)
    if not m:
        raise SrcgenError("decode_extfvk_with_network not found")
    body = m.group(1)
    mm = re.search(r"let network = match parsed\.hrp\(\)\.as_str\(\) \{(.*?)\n        other =>", body, re.S)
    if not mm:
        raise SrcgenError("decode_extfvk_with_network: HRP match not found")
    arms = re.findall(r"(\w+)::(\w+)\s*=>\s*Ok\(NetworkType::(\w+)\)\s*,", mm.group(1))
    if len(arms) != len(re.findall(r"=>", mm.group(1))) or not arms:
        raise SrcgenError("decode_extfvk_with_network: arms outside the supported shape")
    out = []
    for mod, c, net in arms:
        if mod not in MODS or net not in NETS:
            raise SrcgenError("decode_extfvk_with_network: unknown module/network %s/%s" % (mod, net))
        out.append((_hrp_bytes(srcgen.str_const(CONST % mod, c)), NETS[net]))
    return out


def gen_legacy():
    lines = ["From Coq Require Import NArith List.", "Import ListNotations.", "Local Open Scope N_scope."]
    for name, method, is_bytes in (("NC_EXTSK", "hrp_sapling_extended_spending_key", False),
                                   ("NC_EXTFVK", "hrp_sapling_extended_full_viewing_key", False),
                                   ("NC_PAYMENT", "hrp_sapling_payment_address", False),
                                   ("NC_B58_PUBKEY", "b58_pubkey_address_prefix", True),
                                   ("NC_B58_SCRIPT", "b58_script_address_prefix", True)):
        t = _nc_table(method, None, is_bytes)
        lines.append("Definition %s : list (N * list N) := [%s]." % (name, "; ".join("(%d, %s)" % (n, _blist(v)) for n, v in t)))
    arms = _extfvk_arms()
    lines.append("Definition EXTFVK_ARMS : list (list N * N) := [%s]." % "; ".join("(%s, %d)" % (_blist(h), n) for h, n in arms))
    plen = _int(_one(LEG, r"pub fn decode_payment_address\(.*?if data\.len\(\) != (\d+) \{", "payment address length"))
    lines.append("Definition PAYMENT_ADDRESS_LEN : N := %d." % plen)
    # the shared decoder checks the HRP before reading, and the three decoders pass their own reader
    _one(LEG, r"fn bech32_decode<T, F>.*?if parsed\.hrp\(\)\.as_str\(\) != hrp \{\s*Err\(Bech32DecodeError::HrpMismatch", "bech32_decode HRP check")
    _one(LEG, r"if decoded\.starts_with\(pubkey_version\) \{.*?\} else if decoded\.starts_with\(script_version\) \{", "decode_transparent_address prefix order")
    srcgen.write_gen("C11Legacy", "\n".join(lines) + "\n")


class C11(Config):
    pid = "C11"
    proof_targets = ["C11/Properties.vo"]
    corr_targets = ["C11/Corr.vo", "C11/Wf.vo"]
    audit_dirs = ["Lib", "C11"]
    header = ("From V.Lib Require Import Base Hex.\n"
              "From V.C11 Require Import Model Spec Tab Eqb Legacy CorrLegacy Gap CorrGap Extra CorrExtra Corr Wf.\n"
              "Local Open Scope N_scope.")
    bin = "c11"
    release_too = False
    n_tags = None
    classes = {}
    shard_size = 150
    rule = ("seeds x ZIP 32 accounts x networks -> USK/UFVK/UIVK at every level and every component subset "
            "reachable through the public constructors; diversifier indices from a boundary lattice (0, Sapling-invalid, "
            "2^31-1, 2^31, 2^32, 2^88-1) plus random; all 27 requirement triples plus AllAvailableKeys; every public function of "
            "zcash_keys::encoding on all three networks (own HRP, every other HRP, malformed strings); gap_limits address lists "
            "over scopes 0..3/9, empty, inverted and top-of-space ranges with a mock address store; unified addresses built from "
            "raw receivers (P2PKH / P2SH / none, shielded subsets, unknown receivers, corrupted receivers) taken through "
            "UnifiedAddress::try_from, to_zcash_address, Address::decode; a second binary (c11nt, package vkeysnt) built "
            "WITHOUT `transparent-inputs` decoding and re-encoding UFVK / UIVK strings that carry a transparent item; a malformed stream "
            "(mutated USK encodings and mutated un-jumbled UFVK/UIVK payloads, foreign prefixes, wrong network); every "
            "line is one executed public API call with its observed outcome; distinct = distinct lines")
    trusted_base = [
        "Coq 8.16.1 kernel, vm_compute (no native_compute)",
        "axioms: none (every theorem is closed under the global context)",
        "vlib/props/c11.py extractors (era id, item lengths, HRPs, typecode bound, child-index bound; NetworkConstants "
        "tables for NetworkType and the HRP -> network arms of decode_extfvk_with_network)",
        "harness/wallet/src/bin/c11.rs: printers, catch_unwind wrappers, and the per-case oracle tables "
        "(real derived values obtained through the external crates' own to_bytes/from_bytes/address_at, "
        "called independently of zcash_keys); a missing table entry yields a poison value (byte 256) that "
        "can never equal an observed byte string",
        "harness/keysnt/src/bin/c11nt.rs and harness/keysns/src/bin/c11ns.rs (feature profiles without `transparent-inputs` / "
        "without `orchard`, each built with its own -p so that cargo does not unify the feature in) and the extra() hook of "
        "vlib/props/c11.py that merges their cases into the verdict",
        "external cryptography treated as oracles: orchard 0.15, sapling-crypto 0.7, bip32, secp256k1, zip32, "
        "bech32 (Bech32m) and f4jumble (the harness inverts both layers with the primitive crates)",
    ]
    assumptions = [
        "key components are identified with their serialised forms (the crates' to_bytes/serialize are injective on keys)",
        "round-trip theorems assume each component is a fixed point of its primitive decoder (dec b = Some b), "
        "which the harness establishes per case by calling the decoder",
        "UnifiedAddressRequest::Custom values are built through the public constructors (never Omit/Omit on both shielded pools)",
    ]
    partial_clauses = [
        "a key recognises the addresses derived from it and recovers the index (decrypt_diversifiers): harness-observed booleans only",
        "a note encrypted to a derived address decrypts under the external-scope IVK of the same account and under no other "
        "account's / the internal-scope key: harness-observed booleans only (cryptographic, external crates)",
        "legacy Sapling / transparent encodings (zcash_keys::encoding): theorems at the level of the regenerated HRP / prefix "
        "tables and of the model above Bech32 / Base58Check; the Bech32 and Base58Check layers themselves are oracles "
        "(inverted by the harness with the bech32 / bs58 crates); AddressCodec for UnifiedAddress is harness-observed only",
        "Bech32m / F4Jumble / Bech32 / Base58Check: string-level round-trip theorems use the proved C10 model of these layers "
        "(BLAKE2b inside F4Jumble stays a parameter); the correspondence still enters below these layers (the harness inverts "
        "them with the primitive crates), so agreement of the C10 model with the crates is C10's correspondence, not C11's",
        "gap_limits.rs: modelled and proved at entry level (every listed address is the key's at its index); the wallet's "
        "AddressStore is an input (mock store in the harness)",
        "find_address: 'first valid index at or after j' and termination under the explicit hypothesis 'some index within "
        "the fuel is not skipped' are proved, with the fuel bound 2^88 - j; that such an index exists close to j is "
        "probabilistic (Sapling diversifier validity) and not proved",
    ]

    # further feature profiles of zcash_keys: (binary, package, what it is)
    profiles = [
        ("c11nt", "vkeysnt", "profile_without_transparent_inputs"),
        ("c11ns", "vkeysns", "profile_without_orchard"),
    ]

    def extra(self, ctx):
        """Further feature profiles: zcash_keys WITHOUT `transparent-inputs` (its default; binary c11nt,
        package harness/keysnt) and WITHOUT `orchard` (binary c11ns, package harness/keysns). Each
        binary is built with its own `-p`, so cargo's feature unification does not switch the feature
        on. Their cases go through the same Coq evaluation and verdict as the main ones."""
        from .. import core
        from ..runner import parse_harness, classify
        if any(p.get("kind") == "model" for p in ctx["problems"]):
            return
        ev = {}
        for binname, pkg, label in self.profiles:
            core.log("[C11] harness (%s)" % label)
            ok, path, out = core.harness_build(binname, package=pkg)
            if not ok:
                ctx["problems"].append({"kind": "harness", "what": "harness-build (%s, package %s)" % (binname, pkg), "log": out[-6000:]})
                continue
            rc, out = core.harness_run(path, self.harness_args(ctx["tier"], ctx["seed"]), timeout=self.harness_timeout)
            cases, stats, other = parse_harness(out)
            if rc != 0 or not cases:
                ctx["problems"].append({"kind": "harness", "what": "harness-run (%s)" % binname, "log": "\n".join(other)[-6000:]})
                continue
            res = core.eval_cases(self.pid + "-" + binname, self.header, self.fns, cases, shard_size=self.shard_size)
            cl = [(c, False) for c in cases]
            classify(self, res, cl, ctx["problems"], ctx["violations"], ctx["known_hits"])
            ctx["cases"] += cl
            if ctx.get("res") is not None:
                for k, v in res.get("tags", {}).items():
                    ctx["res"]["tags"][k] = ctx["res"]["tags"].get(k, 0) + v
            ev[label] = {"binary": "%s (package %s)" % (binname, pkg), "cases": len(cases), "stats": stats[:2],
                         "tag_histogram": {str(k): v for k, v in sorted(res.get("tags", {}).items())}}
        ctx["extra_evidence"] = ev

    @staticmethod
    def gen():
        era = _int(_one(CONS, r"(0x[0-9a-fA-F_]+)\s*=>\s*Ok\(BranchId::Nu5\)", "NU5 branch id"))
        era2 = _int(_one(CONS, r"BranchId::Nu5\s*=>\s*(0x[0-9a-fA-F_]+)\s*,", "NU5 branch id (into u32)"))
        if era != era2:
            raise SrcgenError("BranchId::Nu5 <-> u32 mapping is not symmetric")
        _one(KEYS, r"Era::Orchard\s*=>\s*u32::from\(BranchId::Nu5\)", "Era::id")
        _one(KEYS, r"BranchId::Nu5\s*=>\s*Some\(Era::Orchard\)", "Era::try_from_id")
        maxcs = srcgen.int_const(ENC, "MAX_COMPACT_SIZE")
        maxtc = _int(_one(UNI, r"0x04\s*\.\.=\s*(0x[0-9a-fA-F_]+)\s*=>\s*Ok\(Typecode::Unknown\(typecode\)\)", "unknown typecode range"))
        usk = {}
        for name in ("Orchard", "Sapling", "P2pkh"):
            usk[name] = _int(_one(KEYS, r"Typecode::%s\s*=>\s*\{\s*if len != (\d+)\s*\{" % name, "USK %s length" % name))
        lens = {}
        for rel, enum, tag in ((FVK, "Fvk", "FVK"), (IVK, "Ivk", "IVK")):
            body = _one(rel, r"pub enum %s \{(.*?)\n\}" % enum, "enum " + enum)
            for name in ("Orchard", "Sapling", "P2pkh"):
                m = re.findall(r"\b%s\(\[u8;\s*(\d+)\]\)" % name, body)
                if len(m) != 1:
                    raise SrcgenError("%s: item %s::%s not found" % (rel, enum, name))
                lens["%s_%s_LEN" % (tag, name.upper())] = int(m[0])
        nh = _one(TKEYS, r"pub const MAX: NonHardenedChildIndex = NonHardenedChildIndex\(\(1 << (\d+)\) - 1\);", "NonHardenedChildIndex::MAX")
        lines = ["From Coq Require Import NArith List.", "Import ListNotations.", "Local Open Scope N_scope.",
                 "Definition ERA_ORCHARD_ID : N := %d." % era,
                 "Definition MAX_COMPACT_SIZE : N := %d." % maxcs,
                 "Definition MAX_TYPECODE : N := %d." % maxtc,
                 "Definition USK_ORCHARD_LEN : N := %d." % usk["Orchard"],
                 "Definition USK_SAPLING_LEN : N := %d." % usk["Sapling"],
                 "Definition USK_P2PKH_LEN : N := %d." % usk["P2pkh"],
                 "Definition NON_HARDENED_MAX : N := %d." % ((1 << int(nh)) - 1),
                 "(* zip32::DiversifierIndex is [u8; 11] (external crate) *)",
                 "Definition DIVERSIFIER_SPACE : N := %d." % (1 << 88)]
        for k in sorted(lens):
            lines.append("Definition %s : N := %d." % (k, lens[k]))
        for net, tag in (("mainnet", "MAIN"), ("testnet", "TEST"), ("regtest", "REGTEST")):
            lines.append(_bytes_def("HRP_FVK_" + tag, srcgen.str_const(CONST % net, "HRP_UNIFIED_FVK")))
            lines.append(_bytes_def("HRP_IVK_" + tag, srcgen.str_const(CONST % net, "HRP_UNIFIED_IVK")))
        srcgen.write_gen("C11Consts", "\n".join(lines) + "\n")
        gen_legacy()


CONFIG = C11()
