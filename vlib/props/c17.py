import re

from .. import srcgen
from ..runner import Config
from ..srcgen import SrcgenError

ZP = "components/zcash_protocol/src/zip318.rs"
VAL = "components/zcash_protocol/src/value.rs"
SCH = "zcash_pool_migration/src/scheduling.rs"


def _nonzero_const(rel, name):
    """`pub const NAME: NonZeroU32 = NonZeroU32::new(<int>).expect(..);`"""
    src = srcgen.read(rel)
    m = re.search(r"\bconst\s+" + name + r"\s*:\s*NonZeroU32\s*=\s*NonZeroU32::new\(\s*([0-9_]+)\s*\)", src)
    if not m:
        raise SrcgenError("NonZeroU32 const %s not found in %s" % (name, rel))
    return int(m.group(1).replace("_", ""))


def _zip318_interval(rel):
    src = srcgen.read(rel)
    m = re.search(r"pub const ZIP_318: Self = Self\(NonZeroU32::new\(\s*([0-9_]+)\s*\)", src)
    if not m:
        raise SrcgenError("AnchorBucketInterval::ZIP_318 not found in %s" % rel)
    return int(m.group(1).replace("_", ""))


def _zat_const(rel, name, env):
    """`pub const NAME: Zatoshis = Zatoshis::const_from_u64(<expr>);`"""
    src = srcgen.read(rel)
    m = re.search(r"\bconst\s+" + name + r"\s*:\s*Zatoshis\s*=\s*Zatoshis::const_from_u64\(([^;]+)\)\s*;", src)
    if not m:
        raise SrcgenError("Zatoshis const %s not found in %s" % (name, rel))
    return srcgen._eval_int(m.group(1), env, "%s:%s" % (rel, name))


def _wakeup_default(rel, env):
    src = srcgen.read(rel)
    m = re.search(r"pub const DEFAULT: Self = Self \{\s*settle_margin:\s*([A-Za-z0-9_]+),\s*jitter_cap:\s*([A-Za-z0-9_]+),\s*\};", src)
    if not m:
        raise SrcgenError("WakeupParams::DEFAULT not found in %s" % rel)
    return (srcgen._eval_int(m.group(1), env, "WakeupParams::DEFAULT.settle_margin"),
            srcgen._eval_int(m.group(2), env, "WakeupParams::DEFAULT.jitter_cap"))


_ARMS = {"Unknown": "Self::Unknown", "Nonconforming": "Self::Nonconforming",
         "Preparation": "Self::Conforms(Zip318TxKind::Preparation)",
         "Transfer": "Self::Conforms(Zip318TxKind::Transfer)"}


def _codes(rel):
    """The literal arms of to_code and from_code (must be the same finite table)."""
    src = srcgen.read(rel)
    m = re.search(r"pub fn to_code\(&self\) -> i64 \{\s*match self \{(.*?)\}\s*\}", src, flags=re.S)
    if not m:
        raise SrcgenError("to_code match not found in %s" % rel)
    to = {}
    for k, pat in _ARMS.items():
        a = re.search(re.escape(pat) + r"\s*=>\s*(-?[0-9_]+)\s*,", m.group(1))
        if not a:
            raise SrcgenError("to_code arm for %s not found" % k)
        to[k] = int(a.group(1).replace("_", ""))
    if len(re.findall(r"=>", m.group(1))) != 4:
        raise SrcgenError("to_code has an unexpected number of arms")
    m = re.search(r"pub fn from_code\(code: i64\) -> Self \{\s*match code \{(.*?)\}\s*\}", src, flags=re.S)
    if not m:
        raise SrcgenError("from_code match not found in %s" % rel)
    frm = {}
    arms = re.findall(r"(-?[0-9_]+|_)\s*=>\s*([^,]+),", m.group(1))
    default = None
    for lhs, rhs in arms:
        rhs = rhs.strip()
        names = [k for k, pat in _ARMS.items() if pat == rhs]
        if not names:
            raise SrcgenError("from_code arm %r not understood" % rhs)
        if lhs == "_":
            default = names[0]
        else:
            frm[int(lhs.replace("_", ""))] = names[0]
    if default is None:
        raise SrcgenError("from_code has no default arm")
    return to, frm, default


class C17(Config):
    pid = "C17"
    proof_targets = ["C17/Properties.vo"]
    corr_targets = ["C17/Corr.vo", "C17/Wf.vo"]
    audit_dirs = ["Lib", "Gen", "C17"]
    header = ("From V.Lib Require Import Base MachInt.\n"
              "From V.C17 Require Import Model Spec Corr Wf.\n"
              "Local Open Scope Z_scope.")
    bin = "c17"
    release_too = True
    n_tags = 72
    classes = {1: "C17-classify-confirmatory-flip"}
    shard_size = 1500
    rule = ("parameter plumbing: SchedulingParams::new / new_with_default_distributions accessors and WalletMigration::scheduling_params over a MockWalletDb "
            "with and without with_scheduling_delays (distinct transfer / preparation distributions), both schedules then drawn under the returned parameters "
            "with the replaying RNG and checked against the cap configured for their own slot; "
            "rebuilds of expired transfers (engine.rs rebuild_expired_transfer / _unsigned over a backend holding real wallet notes): single rebuilds "
            "with the tip at offsets -600..0 around multiples of EXPIRY_MODULUS (every 4th offset in quick, every offset in thorough) and cohorts of "
            "2..8 transfers rebuilt back to back at one tip, one case per rebuild (48 recorded stream words, then an unrecorded ChaCha tail for PCZT building/signing); "
            "schedule shifts (state.rs shift_schedule) driven through the public advance_migration overdue path on small states: "
            "sequences of 1..8 late wake-ups with lags from {1,16,17,33,50,100,143,144,145,1000}, one case per wake-up; "
            "every public function of zcash_pool_migration::scheduling and zcash_protocol::zip318::{expiry_height, "
            "AnchorBucketInterval, classify, to_code/from_code} driven by a replaying RngCore over recorded u64 word "
            "streams (ChaCha, constant, alternating, single-bit, counter, sparse); classify exhaustively on the "
            "abstracted evidence lattice (11 664 points, two constant sets) plus every covering pair e < e' whose "
            "lower point is decided; distinct = distinct (function, inputs, stream, outcome) lines")
    trusted_base = [
        "Coq 8.16.1 kernel, vm_compute (no native_compute)",
        "axioms: none expected (Print Assumptions on every theorem)",
        "vlib/props/c17.py constant extractors (ANCHOR_AGE_CAP, EXPIRY_*, delay constants, PREP_TX_ACTIONS, crossing action counts, denomination bounds, classification codes)",
        "harness/wallet/src/bin/c17.rs: replaying RngCore, printers, catch_unwind wrappers; vlib case-file generator",
        "rebuild cases: the chain base inputs (tip, scheduled heights of the non-mined transfers), activation height 10 (regtest) and the funding height are read off the state the harness built; the recorded prefix of 48 words is assumed to cover the delay and anchor draws (the model would report Panic otherwise)",
        "schedule-shift cases: the harness builds states through the public from_parts constructors with row 0 a proved, due transfer and an always-satisfiable scripted store, so that advance_migration serves Broadcast{0} and applies shift_schedule(served - scheduled) exactly when the lag exceeds the tolerance (cases returning any other step are dropped and counted)",
        "f64/libm gap: the candidate delay of each stream word is computed by the harness with the same formula (libm::log) and passed to the model as an oracle value; only acceptance (<= cap), the returned delay and the number of words consumed are compared",
    ]
    assumptions = ["usize is 64 bits (the harness target)",
                   "quick tier runs the debug profile; thorough also runs the release profile (the case carries the overflow-check flag)",
                   "the zero-lower-bound probes run in a thread with a timeout (regression cases for the fixed hang, commit 7dcaa30)"]
    partial_clauses = [
        "DelayDistribution::draw: the f64/libm candidate delay is an oracle value; proved: acceptance <= cap, words consumed, heights monotone/saturating for every oracle",
        "bridge theorem (run_case => prop_case) covers all 20 operations; for wake-ups it is guarded by bf_consistent (the harness-side brute-force value carried by the case agrees with the Spec.v brute force)",
        "classify monotonicity holds under the documented guard (no newly negative confirmatory clause); the unguarded statement is refuted (known finding class 1)",
        "draw_anchor_age: both overflow profiles modelled (oc flag); the age-overflow branch needs > 2^26 zero words and is not exercised by the harness (C17_anchor_profiles_agree shows the profiles coincide below that)",
        "earliest_broadcast_height: exact threshold proved; at saturation it returns u32::MAX although no tip has a candidate (C17_earliest_saturated, documented-guarantee gap, not part of the property text)",
    ]

    @staticmethod
    def gen():
        coin = srcgen.int_const(VAL, "COIN")
        cap = srcgen.int_const(ZP, "ANCHOR_AGE_CAP")
        mod = srcgen.int_const(ZP, "EXPIRY_MODULUS")
        win = srcgen.int_const(ZP, "EXPIRY_WINDOW", {"EXPIRY_MODULUS": mod})
        prep = srcgen.int_const(ZP, "PREP_TX_ACTIONS")
        csa = srcgen.int_const(ZP, "CROSSING_SOURCE_ACTIONS")
        cda = srcgen.int_const(ZP, "CROSSING_DESTINATION_ACTIONS")
        radix = srcgen.int_const(ZP, "DENOMINATION_RADIX")
        depth = srcgen.int_const(SCH, "PROVABLE_ANCHOR_DEPTH")
        margin, jitter = _wakeup_default(SCH, {"PROVABLE_ANCHOR_DEPTH": depth})
        to, frm, default = _codes(ZP)
        pairs = [
            ("COIN", coin), ("ANCHOR_AGE_CAP", cap), ("EXPIRY_MODULUS", mod), ("EXPIRY_WINDOW", win),
            ("PREP_TX_ACTIONS", prep), ("CROSSING_SOURCE_ACTIONS", csa), ("CROSSING_DESTINATION_ACTIONS", cda),
            ("DENOMINATION_RADIX", radix),
            ("DENOM_CAP", _zat_const(ZP, "DENOM_CAP", {"COIN": coin})),
            ("MAX_RESIDUAL_VALUE", _zat_const(ZP, "MAX_RESIDUAL_VALUE", {"COIN": coin})),
            ("PREP_DELAY_MEAN", _nonzero_const(ZP, "PREP_DELAY_MEAN")),
            ("PREP_DELAY_CAP", _nonzero_const(ZP, "PREP_DELAY_CAP")),
            ("TRANSFER_DELAY_MEAN", _nonzero_const(ZP, "TRANSFER_DELAY_MEAN")),
            ("TRANSFER_DELAY_CAP", _nonzero_const(ZP, "TRANSFER_DELAY_CAP")),
            ("ZIP318_INTERVAL", _zip318_interval(ZP)),
            ("PROVABLE_ANCHOR_DEPTH", depth), ("WAKEUP_DEFAULT_MARGIN", margin), ("WAKEUP_DEFAULT_JITTER", jitter),
            ("CODE_UNKNOWN", to["Unknown"]), ("CODE_NONCONFORMING", to["Nonconforming"]),
            ("CODE_PREPARATION", to["Preparation"]), ("CODE_TRANSFER", to["Transfer"]),
        ]
        body = srcgen.z_defs(pairs)
        # from_code: literal decode table + default constructor (as small integers naming the class:
        # 0 Unknown, 1 Nonconforming, 2 Preparation, 3 Transfer -- the *model's* numbering of classes)
        num = {"Unknown": 0, "Nonconforming": 1, "Preparation": 2, "Transfer": 3}
        tbl = "; ".join("(%d, %d)" % (k, num[v]) for k, v in sorted(frm.items()))
        body += "From Coq Require Import List.\nImport ListNotations.\n"
        body += "Definition FROM_CODE_TABLE : list (Z * Z) := [%s].\n" % tbl
        body += "Definition FROM_CODE_DEFAULT : Z := %d.\n" % num[default]
        srcgen.write_gen("C17Consts", body)


CONFIG = C17()
