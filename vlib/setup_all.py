"""setup_cmd: regenerate Gen, build all Coq targets and all harness binaries (warm caches)."""
import importlib
import json
import os
import sys

from . import core
from .srcgen import SrcgenError


def props():
    m = json.load(open(os.path.join(core.VERIF, "MANIFEST.json")))
    return [c["property_id"] for c in m["checks"]]


def main():
    bins = {}
    for pid in props():
        cfg = importlib.import_module("vlib.props." + pid.lower()).CONFIG
        try:
            cfg.gen()
        except SrcgenError as ex:
            core.log("[setup] srcgen for %s: %s" % (pid, ex))
        ok, out = core.coq_make(cfg.proof_targets + cfg.corr_targets)
        if not ok:
            core.log("[setup] coq build for %s failed:\n%s" % (pid, out[-2000:]))
        for b in ([cfg.bin] if cfg.bin else []) + list(getattr(cfg, "extra_bins", [])):
            bins[b] = cfg
    for b in bins:
        ok, _p, out = core.harness_build(b)
        if not ok:
            core.log("[setup] harness %s failed:\n%s" % (b, out[-2000:]))
    return 0
