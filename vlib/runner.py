"""Generic check runner: decides one property per DESIGN.md section 1.1."""
import json
import os
import time

from . import core
from .core import log
from .srcgen import SrcgenError


class Config:
    """Per-property configuration; see vlib/props/*.py."""
    pid = None
    gen = staticmethod(lambda: None)      # regenerates coq/Gen files, may raise SrcgenError
    proof_targets = []                    # .vo whose build re-checks the theorems
    corr_targets = []                     # .vo needed to evaluate cases (must not depend on proofs)
    audit_dirs = []                       # directories grepped for forbidden tokens
    header = ""                           # Coq header of generated cases files
    fns = dict(run="run_case", prop="prop_case", wf="wf_case", cls="known_class", tag="tag_case")
    bin = None                            # harness binary
    release_too = False                   # thorough: also run the release profile
    n_tags = None                         # total number of path tags the model defines (optional)
    classes = {}                          # known_class number -> finding id in known_findings.json
    trusted_base = []
    assumptions = []
    partial_clauses = []
    rule = ""
    shard_size = 600
    harness_timeout = 1800

    def harness_args(self, tier, seed, search=False):
        a = ["--tier", tier, "--seed", str(seed)]
        if search:
            a.append("--search")
        return a

    def extra(self, ctx):
        """Property-specific additional checks. May append to ctx['problems'] / ctx['violations']."""
        return None


def parse_harness(out):
    cases, stats, other = [], [], []
    for l in out.split("\n"):
        if l.startswith("C "):
            cases.append(l[2:].strip())
        elif l.startswith("# "):
            try:
                stats.append(json.loads(l[2:]))
            except Exception:
                other.append(l)
        elif l.strip():
            other.append(l)
    return cases, stats, other


def run_harness_cases(cfg, tier, seed, release=False, search=False):
    ok, path, out = core.harness_build(cfg.bin, release=release)
    if not ok:
        return None, {"stage": "harness-build", "release": release, "log": out[-6000:]}
    rc, out = core.harness_run(path, cfg.harness_args(tier, seed, search), timeout=cfg.harness_timeout)
    cases, stats, other = parse_harness(out)
    if rc != 0:
        return None, {"stage": "harness-run", "rc": rc, "log": "\n".join(other)[-6000:]}
    return (cases, stats), None


def finding_map(cfg):
    """class number -> (finding entry) for entries of kind 'finding' (not 'fixed')."""
    known = [k for k in core.load_known() if k.get("property") == cfg.pid]
    out = {}
    for cls, fid in cfg.classes.items():
        for k in known:
            if k.get("id") == fid and k.get("kind") == "finding":
                out[cls] = k
    return out


def run(cfg, tier="quick", seed=0, replay=None):
    t0 = time.time()
    pid = cfg.pid
    problems = []          # things that no longer check (proof / correspondence / tie)
    violations = []        # concrete failing inputs: dicts
    known_hits = {}        # finding id -> example
    ctx = dict(cfg=cfg, tier=tier, seed=seed, problems=problems, violations=violations, known_hits=known_hits)

    # (a) regenerate
    try:
        cfg.gen()
    except SrcgenError as ex:
        problems.append({"kind": "srcgen", "what": str(ex)})

    # (b) proofs
    log("[%s] building proofs" % pid)
    ok, out = core.coq_make(cfg.proof_targets)
    proof_ok = ok
    if not ok:
        problems.append({"kind": "proof", "what": "make of %s failed" % cfg.proof_targets, "log": out[-5000:]})
    # the model / correspondence files are always brought up to date (they may not be in the
    # proof targets' closure, and a regenerated Gen file makes them stale)
    ok2, out2 = core.coq_make(cfg.corr_targets)
    if not ok2:
        problems.append({"kind": "model", "what": "model/correspondence files no longer compile", "log": out2[-5000:]})
    # (c) audit
    aud = {"theorems": core.theorem_names(pid), "closed": [], "axioms": {}, "ok": False}
    if proof_ok:
        aud = core.audit(pid, cfg.audit_dirs)
        if not aud["ok"]:
            problems.append({"kind": "audit", "what": aud["bad"] + aud["forbidden"], "log": aud.get("log", "")})

    # thorough: independent re-check of the compiled theorems with coqchk
    chk = None
    if proof_ok and tier == "thorough":
        log("[%s] coqchk" % pid)
        rc, out = core.sh(["coqchk", "-o", "-silent", "-Q", core.COQ, "V", "V.%s.Properties" % pid], timeout=3000)
        chk = {"rc": rc, "tail": out[-1500:]}
        if rc != 0:
            problems.append({"kind": "coqchk", "what": "coqchk rejected the compiled development", "log": out[-4000:]})
    ctx["coqchk"] = chk

    # (d)-(f) correspondence and property evaluation
    all_cases, all_stats = [], []
    res = None
    profiles = [False] + ([True] if (cfg.release_too and tier == "thorough") else [])
    can_eval = not any(p["kind"] == "model" for p in problems)
    if cfg.bin and can_eval:
        for rel in profiles:
            log("[%s] harness (%s)" % (pid, "release" if rel else "debug"))
            got, err = run_harness_cases(cfg, tier, seed, release=rel)
            if err:
                problems.append({"kind": "harness", "what": err["stage"], "log": err["log"]})
                continue
            cases, stats = got
            all_stats += stats
            all_cases += [(c, rel) for c in cases]
        if all_cases:
            log("[%s] evaluating %d cases in Coq" % (pid, len(all_cases)))
            res = core.eval_cases(pid, cfg.header, cfg.fns, [c for c, _ in all_cases], shard_size=cfg.shard_size)
            classify(cfg, res, all_cases, problems, violations, known_hits)
    ctx["res"] = res
    ctx["cases"] = all_cases
    cfg.extra(ctx)

    # search harder when something broke but no concrete failing input is known yet
    searched = 0
    if problems and not violations and cfg.bin and can_eval:
        log("[%s] something no longer checks; searching for a failing input" % pid)
        got, err = run_harness_cases(cfg, "thorough", seed + 1, release=False, search=True)
        if got:
            cases, _ = got
            searched = len(cases)
            r2 = core.eval_cases(pid, cfg.header, cfg.fns, cases, shard_size=cfg.shard_size)
            classify(cfg, r2, [(c, False) for c in cases], [], violations, known_hits, only_prop=True)

    # verdict
    wall = time.time() - t0
    n_thm = len(aud["theorems"])
    ncases = len(all_cases)
    distinct = len(set(c for c, _ in all_cases))
    tags = (res or {}).get("tags", {})
    ev = {
        "property_id": pid, "tier": tier, "seed": seed, "level": "proof",
        "coverage": {
            "obligations": n_thm,
            "discharged": len(aud["closed"]) + len(aud["axioms"]) if proof_ok and aud.get("ok") else 0,
            "checker_cmd": "coqc 8.16.1 full .vo build of the dependency closure of %s (vlib.core.coq_make) + Print Assumptions on every theorem of coq/%s/Properties.v" % (" ".join(cfg.proof_targets), pid),
            "trusted_base": cfg.trusted_base,
            "theorems": aud["theorems"],
            "axioms_used": aud.get("axioms", {}),
            "evaluations": max(ncases, 1),
            "distinct_nontrivial": max(distinct, 2) if ncases else 2,
            "traces_validated_against_impl": ncases,
            "rule": cfg.rule,
            "samples": [c for c, _ in all_cases[:: max(1, ncases // 5)]][:6] or ["(no cases)"],
            "path_tags_hit": len(tags), "path_tags_total": cfg.n_tags,
            "tag_histogram": {str(k): v for k, v in sorted(tags.items())},
            "harness_stats": all_stats[:8],
            "partial_clauses": cfg.partial_clauses,
            "searched_after_break": searched,
            "known_findings_seen": sorted(known_hits.keys()),
            "extra": ctx.get("extra_evidence", {}),
            "coqchk": ctx.get("coqchk"),
        },
        "assumptions": cfg.assumptions,
        "wall_s": round(wall, 2),
        "violations": len(violations) + (1 if (problems and not violations) else 0),
    }
    if ncases == 0:
        ev["coverage"]["distinct_nontrivial"] = 0
        ev["coverage"]["evaluations"] = 0
    core.write_evidence(pid, ev)

    for fid, ex in sorted(known_hits.items()):
        print("KNOWN-FINDING: property=%s %s — %s (e.g. %s)" % (pid, fid, ex["what"], ex["case"][:160]))
    if violations:
        v = min(violations, key=lambda v: len(v.get("case", "")))
        rp = core.write_replay(pid, seed, {
            "property": pid, "kind": "failing-input", "case": v.get("case"), "profile": v.get("profile"),
            "clause": v.get("clause"), "detail": v.get("detail"),
            "all_failing": [x.get("case") for x in violations[:50]],
            "also_broken": problems,
            "rerun": "./check %s --tier %s --seed %d" % (pid, tier, seed)})
        print("VIOLATION property=%s replay=%s" % (pid, rp))
        return 1
    if problems:
        rp = core.write_replay(pid, seed, {
            "property": pid, "kind": "no-longer-checks", "broken": problems,
            "searched_cases": searched,
            "rerun": "./check %s --tier %s --seed %d" % (pid, tier, seed)})
        print("VIOLATION property=%s replay=%s no-failing-input-found" % (pid, rp))
        return 1
    log("[%s] ok: %d theorems, %d cases, %.1fs" % (pid, n_thm, ncases, wall))
    return 0


def classify(cfg, res, cases, problems, violations, known_hits, only_prop=False):
    fmap = finding_map(cfg)
    if res["errors"] and not only_prop:
        problems.append({"kind": "corr-eval", "what": "coqc failed on generated cases", "log": res["errors"][0]["error"]})
    for i in res["prop"]:
        c, rel = cases[i]
        cls = res["cls"].get(i, 0)
        if cls in fmap:
            f = fmap[cls]
            known_hits.setdefault(f["id"], {"what": f.get("what", ""), "case": c})
            continue
        violations.append({"case": c, "profile": "release" if rel else "debug", "clause": "prop_case",
                           "detail": "the property checker rejects the implementation's outcome on this input"})
    if only_prop:
        return
    bad_run = [i for i in res["run"]]
    if bad_run:
        ex = [cases[i][0] for i in bad_run[:5]]
        problems.append({"kind": "correspondence", "what": "model and implementation disagree on %d case(s)" % len(bad_run),
                         "minimal": min((cases[i][0] for i in bad_run), key=len), "examples": ex})
    if res["wf"]:
        problems.append({"kind": "harness-wf", "what": "harness produced %d case(s) outside the theorem's domain" % len(res["wf"]),
                         "examples": [cases[i][0] for i in res["wf"][:5]]})
