"""Shared driver code for the /verif checks.

A check for property Cxx does, in order:
  (a) regenerate coq/Gen/*.v from /repo (srcgen, fails closed)
  (b) make the property's .vo closure (full build, under timeout)
  (c) audit: forbidden-token grep + Print Assumptions of every theorem in Properties.v
  (d) build the Rust harness binary against /repo's working tree and run it
  (e) evaluate the cases inside Coq (vm_compute): model-vs-implementation agreement
  (f) evaluate the property checker on the implementation outcomes
and then decides as described in DESIGN.md section 1.1.
"""
import fcntl
import hashlib
import json
import os
import re
import shutil
import subprocess
import sys
import time
from concurrent.futures import ThreadPoolExecutor

VERIF = os.path.dirname(os.path.dirname(os.path.abspath(__file__)))
REPO = os.environ.get("VERIF_REPO", "/repo")
COQ = os.path.join(VERIF, "coq")
CACHE = os.path.join(VERIF, "cache")
HARNESS = os.path.join(VERIF, "harness")
TARGET = os.path.join(CACHE, "target")
EVIDENCE = os.path.join(VERIF, "evidence")
REPLAYS = os.path.join(VERIF, "replays")
CFG_GUARD = "zcash_librustzcash_verif"

AXIOM_ALLOW = {
    # standard-library axioms that may legitimately appear; each is named in the evidence
    "functional_extensionality_dep", "Eqdep.Eq_rect_eq.eq_rect_eq", "eq_rect_eq",
    "proof_irrelevance", "classic", "JMeq_eq", "FunctionalExtensionality.functional_extensionality_dep",
}
FORBIDDEN = re.compile(
    r"\b(Admitted|admit|Axiom|Axioms|Parameter|Parameters|Conjecture|Conjectures|"
    r"Admit Obligations|bypass_check|Unset Guard Checking|Unset Positivity Checking|"
    r"Unset Universe Checking|type-in-type|impredicative-set|native_compute)\b")


def log(*a):
    print(*a, file=sys.stderr, flush=True)


def sh(cmd, timeout=1200, cwd=None, env=None, check=False, input=None):
    e = dict(os.environ)
    if env:
        e.update(env)
    try:
        p = subprocess.run(cmd, shell=isinstance(cmd, str), cwd=cwd, env=e, timeout=timeout,
                           stdout=subprocess.PIPE, stderr=subprocess.STDOUT, text=True, input=input)
        rc, out = p.returncode, p.stdout
    except subprocess.TimeoutExpired as ex:
        rc, out = 124, (ex.stdout or "") if isinstance(ex.stdout, str) else (ex.stdout or b"").decode(errors="replace")
        out += "\n[timeout after %ss]" % timeout
    if check and rc != 0:
        raise RuntimeError("command failed (%s): %s\n%s" % (rc, cmd, out[-4000:]))
    return rc, out


# --------------------------------------------------------------------------------------------
# Coq build
# --------------------------------------------------------------------------------------------

def coq_files():
    out = []
    for root, _d, files in os.walk(COQ):
        for f in files:
            if f.endswith(".v") and not f.startswith("."):
                out.append(os.path.relpath(os.path.join(root, f), COQ))
    return sorted(out)


class Lock:
    def __init__(self, name):
        os.makedirs(CACHE, exist_ok=True)
        self.path = os.path.join(CACHE, name + ".lock")

    def __enter__(self):
        self.f = open(self.path, "w")
        fcntl.flock(self.f, fcntl.LOCK_EX)
        return self

    def __exit__(self, *a):
        fcntl.flock(self.f, fcntl.LOCK_UN)
        self.f.close()


def coq_deps():
    """file.v -> list of .v files (relative to coq/) it requires, via coqdep."""
    files = coq_files()
    rc, out = sh(["coqdep", "-Q", ".", "V"] + files, cwd=COQ, timeout=300)
    deps = {}
    for line in out.split("\n"):
        m = re.match(r"^(\S+)\.vo\s.*?:\s+(.*)$", line)
        if not m:
            continue
        tgt = m.group(1) + ".v"
        ds = [d[:-3] + ".v" for d in m.group(2).split() if d.endswith(".vo")]
        deps[os.path.normpath(tgt)] = [os.path.normpath(d) for d in ds if not d.startswith("/")]
    return deps


def _closure(targets, deps):
    order, seen = [], set()

    def visit(f):
        if f in seen:
            return
        seen.add(f)
        for d in deps.get(f, []):
            visit(d)
        order.append(f)
    for t in targets:
        visit(t)
    return order


def _stale(f, deps):
    vo = os.path.join(COQ, f[:-2] + ".vo")
    if not os.path.exists(vo):
        return True
    t = os.path.getmtime(vo)
    if os.path.getmtime(os.path.join(COQ, f)) > t:
        return True
    for d in deps.get(f, []):
        dvo = os.path.join(COQ, d[:-2] + ".vo")
        if not os.path.exists(dvo) or os.path.getmtime(dvo) > t:
            return True
    return False


def _compile(f, deps, timeout):
    with Lock("coq-" + f.replace("/", "_")):
        if not _stale(f, deps):
            return 0, ""
        return sh(["coqc", "-q", "-Q", ".", "V", "-w", "-notation-overridden,-deprecated-hint-without-locality,-deprecated-instance-without-locality", f],
                  cwd=COQ, timeout=timeout)


def coq_make(targets, timeout=1500, jobs=16):
    """Full .vo build (plain coqc, no -vos) of the dependency closure of `targets`
    (paths relative to coq/, .vo or .v). Files are rebuilt when their source or any dependency
    is newer; each file is compiled under its own lock so concurrent checks can share coq/Lib.
    Returns (ok, log)."""
    tg = [os.path.normpath(t[:-3] + ".v" if t.endswith(".vo") else t) for t in targets]
    deps = coq_deps()
    for t in tg:
        if not os.path.exists(os.path.join(COQ, t)):
            return False, "missing source file coq/%s" % t
    order = _closure(tg, deps)
    done, logs = set(), []
    pending = list(order)
    t_end = time.time() + timeout
    with ThreadPoolExecutor(max_workers=jobs) as ex:
        while pending:
            ready = [f for f in pending if all(d in done for d in deps.get(f, []) if d in order)]
            if not ready:
                return False, "dependency cycle among: %s" % pending
            futs = {f: ex.submit(_compile, f, deps, max(30, int(t_end - time.time()))) for f in ready}
            for f, fu in futs.items():
                rc, out = fu.result()
                if out.strip():
                    logs.append("== %s\n%s" % (f, out))
                if rc != 0:
                    return False, "\n".join(logs)
                done.add(f)
                pending.remove(f)
    return True, "\n".join(logs)


def theorem_names(pid):
    src = open(os.path.join(COQ, pid, "Properties.v")).read()
    src = re.sub(r"\(\*.*?\*\)", "", src, flags=re.S)
    return re.findall(r"^\s*(?:Theorem|Lemma|Corollary)\s+([A-Za-z0-9_']+)", src, flags=re.M)


def grep_forbidden(dirs):
    hits = []
    for d in dirs:
        for root, _x, files in os.walk(os.path.join(COQ, d)):
            for f in files:
                if not f.endswith(".v"):
                    continue
                p = os.path.join(root, f)
                txt = open(p).read()
                code = re.sub(r"\(\*.*?\*\)", lambda m: " " * len(m.group(0)), txt, flags=re.S)
                for m in FORBIDDEN.finditer(code):
                    line = code.count("\n", 0, m.start()) + 1
                    hits.append("%s:%d: %s" % (os.path.relpath(p, COQ), line, m.group(0)))
                # a Variable/Hypothesis outside a Section declares an axiom
                depth = 0
                for i, l in enumerate(code.split("\n"), 1):
                    if re.match(r"\s*Section\b", l):
                        depth += 1
                    elif re.match(r"\s*End\b", l) and depth > 0:
                        depth -= 1
                    elif depth == 0 and re.match(r"\s*(Variable|Variables|Hypothesis|Hypotheses|Context)\b", l):
                        hits.append("%s:%d: %s outside a Section" % (os.path.relpath(p, COQ), i, l.strip()))
    return hits


def audit(pid, dirs):
    """Print Assumptions for every theorem in Properties.v. Returns dict."""
    names = theorem_names(pid)
    wd = os.path.join(CACHE, "audit", "%s.%d" % (pid, os.getpid()))
    os.makedirs(wd, exist_ok=True)
    body = ["From V.%s Require Import Properties." % pid]
    for n in names:
        body.append('Goal True. idtac "@@THM %s". exact I. Qed.' % n)
        body.append("Print Assumptions %s." % n)
    open(os.path.join(wd, "Audit.v"), "w").write("\n".join(body) + "\n")
    rc, out = sh(["coqc", "-noglob", "-Q", COQ, "V", "Audit.v"], cwd=wd, timeout=600)
    res = {"theorems": names, "closed": [], "axioms": {}, "bad": [], "rc": rc, "log": out[-3000:] if rc else ""}
    blocks = out.split("@@THM ")[1:]
    seen = set()
    for b in blocks:
        name, _, rest = b.partition("\n")
        name = name.strip()
        seen.add(name)
        if "Closed under the global context" in rest:
            res["closed"].append(name)
        else:
            ax = re.findall(r"^([A-Za-z0-9_.']+)\s*:", rest, flags=re.M)
            res["axioms"][name] = ax
            for a in ax:
                if a not in AXIOM_ALLOW and a.split(".")[-1] not in AXIOM_ALLOW:
                    res["bad"].append("%s depends on %s" % (name, a))
    for n in names:
        if n not in seen:
            res["bad"].append("%s: no Print Assumptions output" % n)
    res["forbidden"] = grep_forbidden(dirs)
    res["ok"] = rc == 0 and not res["bad"] and not res["forbidden"] and len(names) > 0
    return res


# --------------------------------------------------------------------------------------------
# Rust harness
# --------------------------------------------------------------------------------------------

def harness_env():
    return {"CARGO_NET_OFFLINE": "true", "CARGO_TARGET_DIR": TARGET,
            "RUSTFLAGS": "--cfg %s -Awarnings" % CFG_GUARD}


def _alt_harness():
    """When VERIF_REPO points at another checkout (a scratch worktree carrying a candidate
    change), build from a mirror of harness/ whose path dependencies point into that checkout
    (Cargo.toml files rewritten, src directories symlinked), with its own target directory."""
    if os.path.realpath(REPO) == "/repo":
        return HARNESS, TARGET
    tag = hashlib.sha256(os.path.realpath(REPO).encode()).hexdigest()[:8]
    alt = os.path.join(CACHE, "harness-alt-" + tag)
    root = os.path.realpath(REPO)
    for d, subdirs, files in os.walk(HARNESS):
        subdirs[:] = [x for x in subdirs if x not in ("target",)]
        rel = os.path.relpath(d, HARNESS)
        out = os.path.join(alt, rel) if rel != "." else alt
        if os.path.basename(d) == "src":
            subdirs[:] = []
            os.makedirs(os.path.dirname(out), exist_ok=True)
            if os.path.islink(out):
                os.unlink(out)
            if not os.path.exists(out):
                os.symlink(d, out)
            continue
        os.makedirs(out, exist_ok=True)
        for f in files:
            if f == "Cargo.lock":
                continue
            txt = open(os.path.join(d, f)).read()
            if f == "Cargo.toml":
                txt = txt.replace('"/repo/', '"%s/' % root)
            dst = os.path.join(out, f)
            if not os.path.exists(dst) or open(dst).read() != txt:
                open(dst, "w").write(txt)
    return alt, os.path.join(CACHE, "target-alt-" + tag)


def harness_build(binname, release=False, timeout=3000, package=None):
    """Build one harness binary against the repository's working tree. Returns (ok, path, log)."""
    hdir, target = _alt_harness()
    with Lock("cargo-" + os.path.basename(target)):
        lock_src = os.path.join(REPO, "Cargo.lock")
        lock_dst = os.path.join(hdir, "Cargo.lock")
        if not os.path.exists(lock_dst) or open(lock_src).read() != open(lock_dst).read():
            shutil.copy(lock_src, lock_dst)
        cmd = ["cargo", "build", "--offline", "--bin", binname]
        if package:
            cmd += ["-p", package]
        if release:
            cmd.append("--release")
        env = harness_env()
        env["CARGO_TARGET_DIR"] = target
        rc, out = sh(cmd, cwd=hdir, env=env, timeout=timeout)
    path = os.path.join(target, "release" if release else "debug", binname)
    return rc == 0, path, out


def harness_run(path, args, timeout=1800, env=None):
    rc, out = sh([path] + args, timeout=timeout, env=env)
    return rc, out


# --------------------------------------------------------------------------------------------
# Case evaluation inside Coq
# --------------------------------------------------------------------------------------------

def _parse_blocks(out):
    """Split coqc output into the '= ... : type' blocks of successive Evals."""
    blocks, cur = [], None
    for line in out.split("\n"):
        if line.startswith("     = "):
            if cur is not None:
                blocks.append(cur)
            cur = line[7:]
        elif cur is not None:
            cur += " " + line.strip()
    if cur is not None:
        blocks.append(cur)
    res = []
    for b in blocks:
        body = b.rsplit(" : ", 1)[0]
        res.append([int(x) for x in re.findall(r"\d+", re.sub(r"%[A-Za-z]+", "", body))])
    return res


def eval_shard(pid, header, fns, lines, idx, wd, timeout=900):
    """Evaluate one shard of cases. fns = dict(run=..., prop=..., wf=..., cls=..., tag=...)."""
    name = "cases_%d" % idx
    src = ["From Coq Require Import String.", header, ""]
    chunks = []
    for k in range(0, len(lines), 50):
        chunks.append("ch%d" % (k // 50))
        src.append("Definition ch%d : list case := [\n  %s\n]." % (k // 50, ";\n  ".join("(%s)" % l for l in lines[k:k + 50])))
    src.append("Definition cs : list case := %s." % (" ++ ".join(chunks) if chunks else "[]"))
    src.append("Set Printing Width 200.")
    src.append("Set Printing Depth 100000.")
    for key in ("run", "prop", "wf"):
        src.append("Eval vm_compute in (bad_indices %s cs)." % fns[key])
    src.append("Eval vm_compute in (filter (fun p => negb (N.eqb (snd p) 0)) (class_from %s 0%%N cs))." % fns["cls"])
    src.append("Eval vm_compute in (tag_hist %s cs)." % fns["tag"])
    p = os.path.join(wd, name + ".v")
    open(p, "w").write("\n".join(src) + "\n")
    rc, out = sh(["coqc", "-noglob", "-Q", COQ, "V", name + ".v"], cwd=wd, timeout=timeout)
    if rc != 0:
        return {"error": out[-3000:], "file": p}
    b = _parse_blocks(out)
    if len(b) != 5:
        return {"error": "unexpected coqc output: " + out[-2000:], "file": p}
    cls = list(zip(b[3][0::2], b[3][1::2]))
    tags = dict(zip(b[4][0::2], b[4][1::2]))
    return {"run": b[0], "prop": b[1], "wf": b[2], "cls": cls, "tags": tags, "file": p}


def eval_cases(pid, header, fns, lines, shard_size=600, jobs=16):
    """Evaluate all case lines; returns indices (global) failing each check."""
    # one directory per process: concurrent runs of the same property must not share case files
    wd = os.path.join(CACHE, "run", "%s.%d" % (pid, os.getpid()))
    shutil.rmtree(wd, ignore_errors=True)
    os.makedirs(wd)
    shards = [lines[i:i + shard_size] for i in range(0, len(lines), shard_size)]
    res = {"run": [], "prop": [], "wf": [], "cls": {}, "tags": {}, "errors": []}
    with ThreadPoolExecutor(max_workers=jobs) as ex:
        futs = [ex.submit(eval_shard, pid, header, fns, s, i, wd) for i, s in enumerate(shards)]
        for i, f in enumerate(futs):
            r = f.result()
            base = i * shard_size
            if "error" in r:
                res["errors"].append(r)
                continue
            for k in ("run", "prop", "wf"):
                res[k] += [base + j for j in r[k]]
            for j, c in r["cls"]:
                res["cls"][base + j] = c
            for t, c in r["tags"].items():
                res["tags"][t] = res["tags"].get(t, 0) + c
    if not res["errors"]:
        shutil.rmtree(wd, ignore_errors=True)
    return res


# --------------------------------------------------------------------------------------------
# Evidence, findings, verdicts
# --------------------------------------------------------------------------------------------

def load_known():
    """known_findings.json plus per-property files known_findings.d/*.json (lists of entries)."""
    out = []
    p = os.path.join(VERIF, "known_findings.json")
    if os.path.exists(p):
        out += json.load(open(p))
    d = os.path.join(VERIF, "known_findings.d")
    if os.path.isdir(d):
        for f in sorted(os.listdir(d)):
            if f.endswith(".json"):
                out += json.load(open(os.path.join(d, f)))
    return out


def write_evidence(pid, ev):
    # evidence/ holds only runs against /repo itself; runs against a scratch checkout
    # (VERIF_REPO, used to evaluate candidate changes) are written elsewhere
    d = EVIDENCE if os.path.realpath(REPO) == "/repo" else os.path.join(CACHE, "evidence-alt")
    os.makedirs(d, exist_ok=True)
    p = os.path.join(d, pid + ".json")
    json.dump(ev, open(p, "w"), indent=1, sort_keys=True)
    return p


def write_replay(pid, seed, obj):
    os.makedirs(REPLAYS, exist_ok=True)
    p = os.path.join(REPLAYS, "%s-%s-%d.json" % (pid, seed, int(time.time())))
    json.dump(obj, open(p, "w"), indent=1)
    return p


def file_sha(path):
    h = hashlib.sha256()
    h.update(open(path, "rb").read())
    return h.hexdigest()[:16]
