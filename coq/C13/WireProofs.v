(** C13 — [Pczt::parse] of [Pczt::serialize] on bytes, through the embedding of logical trees. *)
From V.Lib Require Import Base Hex.
From Coq Require Import Lia.
From V.C13 Require Import Model Spec Proofs Postcard PostcardProofs Wire Roundtrip.
From V.Gen Require Import C13Wire.
Local Open Scope Z_scope.

Section LInd.
  Variable P : ltype -> Prop.
  Hypothesis H1 : P LNum.
  Hypothesis H2 : P LAtom.
  Hypothesis H3 : P LOpt.
  Hypothesis H4 : P LEnum.
  Hypothesis H5 : P LMap.
  Hypothesis H6 : forall ls, Forall P ls -> P (LRec ls).
  Hypothesis H7 : forall l, P l -> P (LVec l).
  Fixpoint ltype_ind' (l : ltype) : P l :=
    match l with
    | LNum => H1 | LAtom => H2 | LOpt => H3 | LEnum => H4 | LMap => H5
    | LRec ls => H6 ls ((fix go (l : list ltype) : Forall P l :=
                           match l with [] => Forall_nil _ | x :: r => Forall_cons _ (ltype_ind' x) (go r) end) ls)
    | LVec l' => H7 l' (ltype_ind' l')
    end.
End LInd.

Section Leaf.
  Variable leaf : N -> wval.
  Variable unleaf : wval -> option N.
  (** the leaf encoding is injective: an atom can be read back from its serde value *)
  Hypothesis UL : forall a, unleaf (leaf a) = Some a.

  Fixpoint emb_fields (ls : list ltype) (ws : list wshape) (l : list D) : option (list wval) :=
    match ls, ws, l with
    | [], [], [] => Some []
    | lt' :: ls', w' :: ws', x :: l' =>
        match emb leaf lt' w' x, emb_fields ls' ws' l' with Some v, Some vs => Some (v :: vs) | _, _ => None end
    | _, _, _ => None
    end.
  Lemma emb_rec ls ws l : emb leaf (LRec ls) (WTup ws) (DS l) = option_map VL (emb_fields ls ws l).
  Proof. reflexivity. Qed.
  Fixpoint unemb_fields (ls : list ltype) (ws : list wshape) (l : list wval) : option (list D) :=
    match ls, ws, l with
    | [], [], [] => Some []
    | lt' :: ls', w' :: ws', x :: l' =>
        match unemb unleaf lt' w' x, unemb_fields ls' ws' l' with Some d, Some ds => Some (d :: ds) | _, _ => None end
    | _, _, _ => None
    end.
  Lemma unemb_rec ls ws l : unemb unleaf (LRec ls) (WTup ws) (VL l) = option_map DS (unemb_fields ls ws l).
  Proof. reflexivity. Qed.

  Lemma sequence_map_rt {A B} (f : A -> option B) (g : B -> option A) :
    forall l r, (forall x y, In x l -> f x = Some y -> g y = Some x) ->
    sequence (map f l) = Some r -> sequence (map g r) = Some l.
  Proof.
    induction l as [|x l IH]; intros r H E; cbn in E.
    - inversion E; reflexivity.
    - destruct (f x) as [y|] eqn:Ex; [|discriminate]. destruct (sequence (map f l)) as [r'|] eqn:Er; [|discriminate].
      inversion E; subst. cbn [map sequence]. rewrite (H x y (or_introl eq_refl) Ex).
      rewrite (IH r' (fun a b Ha => H a b (or_intror Ha)) eq_refl). reflexivity.
  Qed.

  (** reading back what was embedded *)
  Theorem emb_unemb : forall lt w d v, emb leaf lt w d = Some v -> unemb unleaf lt w v = Some d.
  Proof.
    induction lt using ltype_ind'; intros w d v E.
    - destruct d; try discriminate. cbn [emb] in E.
      destruct w; try (destruct (0 <=? z) eqn:G; [|discriminate]; inversion E; subst; cbn [unemb];
                       apply Z.leb_le in G; rewrite Z2N.id by exact G; reflexivity).
      inversion E; subst. reflexivity.
    - destruct d; try discriminate. cbn [emb] in E.
      destruct w; inversion E; subst; cbn [unemb]; rewrite UL; reflexivity.
    - destruct d as [| | |o| | | |]; try discriminate. cbn [emb] in E.
      destruct w; destruct o as [a|]; cbn [option_map] in E; try discriminate; inversion E; subst;
        cbn [unemb option_map]; rewrite ?UL; reflexivity.
    - destruct d as [| | | |t a| | |]; try discriminate. cbn [emb] in E.
      destruct w; try (destruct (N.eqb t 0) eqn:T; [|discriminate]; apply N.eqb_eq in T; subst t;
                       inversion E; subst; cbn [unemb]; rewrite UL; reflexivity).
      inversion E; subst. cbn [unemb]. rewrite UL. cbn [option_map]. rewrite N2Nat.id. reflexivity.
    - destruct d as [| | | | | | |m]; try discriminate. cbn [emb] in E. inversion E; subst. clear E. cbn [unemb].
      assert (G : sequence (map (unpair unleaf) (map (fun kv : N * N => VL [leaf (fst kv); leaf (snd kv)]) m)) = Some m).
      { rewrite map_map. induction m as [|[k x] m IH]; [reflexivity|].
        cbn [map sequence]. rewrite IH. unfold unpair. cbn [fst snd]. rewrite !UL. reflexivity. }
      rewrite G. reflexivity.
    - destruct d as [| | | | |l| |]; try discriminate. destruct w as [| | | | | | |ws| |]; try discriminate.
      rewrite emb_rec in E. destruct (emb_fields ls ws l) as [vs|] eqn:Ef; [|discriminate]. inversion E; subst. clear E.
      rewrite unemb_rec.
      assert (G : unemb_fields ls ws vs = Some l); [|rewrite G; reflexivity].
      revert ws l vs Ef. induction H as [|lt ls Hlt Hls IH]; intros [|w ws] [|x l] vs Ef; try discriminate.
      + inversion Ef; reflexivity.
      + cbn [emb_fields] in Ef. destruct (emb leaf lt w x) as [v0|] eqn:E0; [|discriminate].
        destruct (emb_fields ls ws l) as [vs0|] eqn:E1; [|discriminate]. inversion Ef; subst.
        cbn [unemb_fields]. rewrite (Hlt w x v0 E0), (IH ws l vs0 E1). reflexivity.
    - destruct d as [| | | | | |l|]; try discriminate. destruct w as [| | | | |w'| | | |]; try discriminate.
      cbn [emb] in E. destruct (sequence (map (emb leaf lt w') l)) as [vs|] eqn:Es; [|discriminate]. inversion E; subst.
      cbn [unemb]. rewrite (sequence_map_rt (emb leaf lt w') (unemb unleaf lt w') l vs (fun x y _ => IHlt w' x y) Es). reflexivity.
  Qed.

  (** ** v1 *)
  Lemma orch_v1_rt o0 o o1 : orchard_v1 o0 = Some o -> orch_to_v1 o = Some o1 -> orch_of_v1 o1 = Some o.
  Proof.
    unfold orchard_v1. destruct o0 as [| | | | |l| |]; try discriminate.
    destruct l as [|a1 [|fl [|vs [|an [|nv [|zk [|bsk [|? ?]]]]]]]]; try discriminate;
      try (destruct a1; discriminate).
    destruct a1 as [| | | | | |acts|]; try discriminate.
    destruct (negb (D_eqb nv (DA 1))) eqn:NV; [discriminate|].
    apply negb_false_iff in NV. apply D_eqb_spec in NV. subst nv.
    destruct an as [| | |[x|]| | | |]; try discriminate.
    - destruct (forallb action_v1_ok acts); [|discriminate]. intros E; inversion E; subst o; clear E.
      destruct acts as [|a acts']; destruct (N.eqb x 0) eqn:X; cbn; intros E; inversion E; subst o1; cbn;
        rewrite ?X; try reflexivity.
    - destruct acts as [|a acts']; [|discriminate]. cbn. intros E; inversion E; subst o; clear E.
      cbn. intros E; inversion E; subst o1. reflexivity.
  Qed.

  Lemma emb1_unemb1 p q v : via_v1 p = Some q -> emb1 leaf q = Some v -> unemb1 unleaf v = Some q.
  Proof.
    unfold via_v1. destruct p as [| | | | |l| |]; try discriminate.
    destruct l as [|g [|t [|s [|o [|i [|? ?]]]]]]; try discriminate;
      try (destruct g as [| | | | |[|[] ?]| |]; discriminate).
    destruct g as [| | | | |gl| |]; try discriminate. destruct gl as [|g0 grest]; try discriminate.
    destruct g0 as [txv| | | | | | |]; try discriminate.
    destruct ((txv =? 6) || negb (D_eqb i empty_ironwood)); [discriminate|].
    destruct (sapling_v1 s) as [s'|]; [|discriminate].
    destruct (orchard_v1 o) as [o'|] eqn:Eo; [|discriminate].
    intros E; inversion E; subst q; clear E.
    unfold emb1. rewrite D_eqb_refl. destruct (orch_to_v1 o') as [o1|] eqn:E1; [|discriminate]. cbn [obind].
    intros E. unfold unemb1. rewrite (emb_unemb L_v1 W_v1 _ v E). cbn [obind].
    rewrite (orch_v1_rt o o' o1 Eo E1). reflexivity.
  Qed.

  (** ** v2 *)
  Lemma emb_opt_rt e lt w b v : emb_opt leaf e lt w b = Some v -> unemb_opt unleaf e lt w v = Some b.
  Proof.
    unfold emb_opt. destruct (D_eqb b e) eqn:E.
    - apply D_eqb_spec in E. subst. intros H; inversion H; reflexivity.
    - destruct (emb leaf lt w b) as [x|] eqn:Ex; [|discriminate]. intros H; inversion H; subst.
      cbn [unemb_opt]. apply (emb_unemb lt w b x Ex).
  Qed.

  Lemma emb2_unemb2 q v : emb2 leaf q = Some v -> unemb2 unleaf v = Some q.
  Proof.
    unfold emb2. destruct q as [| | | | |l| |]; try discriminate.
    destruct l as [|g [|t [|s [|o [|i [|? ?]]]]]]; try discriminate.
    destruct (emb leaf L_common_Global W_common_Global g) as [vg|] eqn:Eg; [|discriminate].
    destruct (emb_opt leaf empty_transparent L_transparent_Bundle W_transparent_Bundle t) as [vt|] eqn:Et; [|discriminate].
    destruct (emb_opt leaf empty_sapling L_sapling_Bundle W_sapling_Bundle s) as [vs|] eqn:Es; [|discriminate].
    destruct (emb_opt leaf empty_orchard L_orchard_Bundle W_orchard_v2_Bundle o) as [vo|] eqn:Eo; [|discriminate].
    destruct (emb_opt leaf empty_ironwood L_orchard_Bundle W_orchard_v2_Bundle i) as [vi|] eqn:Ei; [|discriminate].
    intros H; inversion H; subst. unfold unemb2.
    rewrite (emb_unemb _ _ _ _ Eg), (emb_opt_rt _ _ _ _ _ Et), (emb_opt_rt _ _ _ _ _ Es),
            (emb_opt_rt _ _ _ _ _ Eo), (emb_opt_rt _ _ _ _ _ Ei). reflexivity.
  Qed.

  (** ** bytes *)
  Theorem parse_serialize_bytes p bs :
    serialize_bytes leaf p = Some bs -> parse_bytes unleaf bs = Ok (snd (serialize_parse p)).
  Proof.
    unfold serialize_bytes, serialize_parse, parse_bytes.
    destruct (via_v1 p) as [q|] eqn:V.
    - unfold wire_of. cbn [N.eqb Pos.eqb]. destruct (emb1 leaf q) as [v|] eqn:E; [|discriminate]. cbn [obind].
      intros S. rewrite (parse_serialize_wire W_v1 W_v2 1 v bs eq_refl eq_refl S). cbn [N.eqb Pos.eqb snd].
      rewrite (emb1_unemb1 p q v V E). reflexivity.
    - unfold wire_of. cbn [N.eqb Pos.eqb]. destruct (emb2 leaf (via_v2 p)) as [v|] eqn:E; [|discriminate]. cbn [obind].
      intros S. rewrite (parse_serialize_wire W_v1 W_v2 2 v bs eq_refl eq_refl S). cbn [N.eqb Pos.eqb snd].
      rewrite (emb2_unemb2 (via_v2 p) v E). reflexivity.
  Qed.

  (** outside the explicitly described anchor class the PCZT itself is read back *)
  Theorem pczt_roundtrip_bytes p bs :
    serialize_bytes leaf p = Some bs -> explicit_quirk p = false -> parse_bytes unleaf bs = Ok p.
  Proof.
    intros S Q. rewrite (parse_serialize_bytes p bs S), (roundtrip_exact_explicit p Q). reflexivity.
  Qed.

  (** the version written in bytes 4..8 is 1 exactly when the v1 conversion is defined *)
  Theorem minimal_version_bytes p bs :
    serialize_bytes leaf p = Some bs ->
    firstn 4 bs = MAGIC /\ (of_le32 (firstn 4 (skipn 4 bs)) = 1%N <-> via_v1 p <> None).
  Proof.
    unfold serialize_bytes, serialize_parse.
    destruct (via_v1 p) as [q|] eqn:V.
    - destruct (wire_of leaf 1 q) as [v|]; [|discriminate]. cbn [obind]. unfold serialize_wire. cbn [N.eqb Pos.eqb].
      destruct (enc W_v1 v) as [body|]; [|discriminate]. intros H; inversion H; subst.
      split; [reflexivity|]. cbn. split; congruence.
    - destruct (wire_of leaf 2 (via_v2 p)) as [v|]; [|discriminate]. cbn [obind]. unfold serialize_wire. cbn [N.eqb Pos.eqb].
      destruct (enc W_v2 v) as [body|]; [|discriminate]. intros H; inversion H; subst.
      split; [reflexivity|]. cbn. split; [discriminate | congruence].
  Qed.
End Leaf.
