(** C13 — executable model of PCZT merging (pczt/src/{common,transparent,sapling,orchard}.rs,
    roles/combiner), of the encoding-version choice and bundle elision (pczt/src/lib.rs) and of the
    field sets the roles may write.  No proofs in this file.

    A PCZT is observed as a generic tree [D] (the shape of Rust's [Debug] output): records are
    positional, leaves are opaque atoms that are only ever compared for equality.  The per-field
    merge rules are NOT written here: they come from [V.Gen.C13Schema], regenerated from the
    [fn merge] bodies on every run. *)
From V.Lib Require Import Base.
From Coq Require Import String.
Local Open Scope Z_scope.

(** * Generic trees *)
Inductive D :=
| DN (z : Z)              (* small integer field *)
| DA (a : N)              (* opaque leaf (interned) *)
| DB (b : bool)           (* one bit of a bitmap (after normalisation) *)
| DO (o : option N)       (* optional opaque leaf *)
| DT (t a : N)            (* enum variant [t] with opaque payload *)
| DS (fs : list D)        (* record, positional *)
| DL (l : list D)         (* vector of records *)
| DM (m : list (N * N)).  (* map: opaque key -> opaque value *)

Definition pairN_eqb (x y : N * N) : bool := N.eqb (fst x) (fst y) && N.eqb (snd x) (snd y).

Fixpoint D_eqb (a b : D) {struct a} : bool :=
  match a, b with
  | DN x, DN y => Z.eqb x y
  | DA x, DA y => N.eqb x y
  | DB x, DB y => Bool.eqb x y
  | DO x, DO y => option_eqb N.eqb x y
  | DT t x, DT u y => N.eqb t u && N.eqb x y
  | DS x, DS y =>
      (fix go (x y : list D) : bool :=
         match x, y with
         | [], [] => true
         | a :: x', b :: y' => D_eqb a b && go x' y'
         | _, _ => false
         end) x y
  | DL x, DL y =>
      (fix go (x y : list D) : bool :=
         match x, y with
         | [], [] => true
         | a :: x', b :: y' => D_eqb a b && go x' y'
         | _, _ => false
         end) x y
  | DM x, DM y => list_eqb pairN_eqb x y
  | _, _ => false
  end.

Definition oD_eqb := option_eqb D_eqb.

(** * Merge kinds (what the schema extractor recognises in a [fn merge] body) *)
Inductive kind :=
| KEq                               (* [if lhs.f != f { return None }] *)
| KOpt                              (* [merge_optional] *)
| KAnd | KOr | KZero                (* bits of [tx_modifiable]: merge towards false / true / must be 0 *)
| KLeft                             (* the left value is kept, the right one is not looked at *)
| KRec (ks : list kind)             (* record, field-wise *)
| KVec (flag : nat) (k : kind).     (* vector: positional, the longer tail is adopted iff the
                                       shorter side's modifiable flag [flag] is set *)

(** Vectors: the common prefix is merged positionally; when one side is exhausted the rest of the
    other is adopted iff the exhausted side's flag allows it. (Rust checks the flag before merging
    the prefix; the result is the same because any failure yields [None].) *)
Section Zipm.
  Variable f : D -> D -> option D.
  Variables xa xb : bool.
  Fixpoint zipm (x y : list D) : option (list D) :=
    match x, y with
    | [], [] => Some []
    | [], _ :: _ => if xa then Some y else None
    | _ :: _, [] => if xb then Some x else None
    | a :: x', b :: y' =>
        match f a b, zipm x' y' with
        | Some c, Some r => Some (c :: r)
        | _, _ => None
        end
    end.
End Zipm.

Section Merge.
  (** [fa i], [fb i]: bit [i] of the left / right party's own [tx_modifiable]. *)
  Variables fa fb : nat -> bool.

  Fixpoint merge (k : kind) (a b : D) {struct k} : option D :=
    match k with
    | KEq => if D_eqb a b then Some a else None
    | KOpt =>
        match a, b with
        | DO _, DO None => Some a
        | DO None, DO (Some _) => Some b
        | DO (Some x), DO (Some y) => if N.eqb x y then Some a else None
        | _, _ => None
        end
    | KAnd => match a, b with DB x, DB y => Some (DB (x && y)) | _, _ => None end
    | KOr => match a, b with DB x, DB y => Some (DB (x || y)) | _, _ => None end
    | KZero => match a, b with DB false, DB false => Some (DB false) | _, _ => None end
    | KLeft => Some a
    | KRec ks =>
        match a, b with
        | DS la, DS lb =>
            option_map DS
              ((fix mf (ks : list kind) (la lb : list D) {struct ks} : option (list D) :=
                  match ks, la, lb with
                  | [], [], [] => Some []
                  | k :: ks', x :: la', y :: lb' =>
                      match merge k x y, mf ks' la' lb' with
                      | Some z, Some r => Some (z :: r)
                      | _, _ => None
                      end
                  | _, _, _ => None
                  end) ks la lb)
        | _, _ => None
        end
    | KVec fl k' =>
        match a, b with
        | DL la, DL lb => option_map DL (zipm (merge k') (fa fl) (fb fl) la lb)
        | _, _ => None
        end
    end.
End Merge.

(** Field-wise merge of two field lists (the [mf] loop above, exposed). *)
Fixpoint merge_fields (fa fb : nat -> bool) (ks : list kind) (la lb : list D) : option (list D) :=
  match ks, la, lb with
  | [], [], [] => Some []
  | k :: ks', x :: la', y :: lb' =>
      match merge fa fb k x y, merge_fields fa fb ks' la' lb' with
      | Some z, Some r => Some (z :: r)
      | _, _ => None
      end
  | _, _, _ => None
  end.

(** * Source-level schema (emitted by the extractor into [V.Gen.C13Schema]) *)
Inductive skind :=
| SEq | SOpt | SMap
| SBits                              (* the [tx_modifiable] bitmap *)
| SLeft                              (* value taken from one side under a bundle-level rule *)
| SRec (fs : list (string * skind))
| SVec (flag : nat) (k : skind).

(** The [tx_modifiable] byte, bit 0 first: inputs-modifiable, outputs-modifiable, has-SIGHASH_SINGLE,
    four reserved bits, shielded-modifiable. *)
Definition bit_kinds : list kind := [KAnd; KAnd; KOr; KZero; KZero; KZero; KZero; KAnd].

(** Maps are finite functions: over the key universe [n] of a case they are records of optional
    values and [merge_map] is [merge_optional] key by key (proved: [merge_map_pointwise]). *)
Fixpoint kind_of (left_as : kind) (n : nat) (s : skind) {struct s} : kind :=
  match s with
  | SEq => KEq
  | SOpt => KOpt
  | SMap => KRec (repeat KOpt n)
  | SBits => KRec bit_kinds
  | SLeft => left_as
  | SRec fs => KRec ((fix go (fs : list (string * skind)) : list kind :=
                        match fs with [] => [] | (_, s') :: r => kind_of left_as n s' :: go r end) fs)
  | SVec fl s' => KVec fl (kind_of left_as n s')
  end.

(** The code as it is: an [SLeft] field keeps the left value. *)
Definition faithful_kind := kind_of KLeft.
(** The lawful reference: an [SLeft] field must be equal on both sides. *)
Definition lawful_kind := kind_of KEq.

(** * Normalisation of observed trees: maps -> records over the key universe, bitmap -> bits *)
Fixpoint lookupN (k : N) (m : list (N * N)) : option N :=
  match m with
  | [] => None
  | (k', v) :: r => if N.eqb k k' then Some v else lookupN k r
  end.

Fixpoint memN (k : N) (l : list N) : bool :=
  match l with [] => false | x :: r => N.eqb k x || memN k r end.

Fixpoint nodupN (l : list N) : bool :=
  match l with [] => true | x :: r => negb (memN x r) && nodupN r end.

Definition bits_of (z : Z) : list D :=
  map (fun i => DB (Z.testbit z (Z.of_nat i))) (seq 0 8).

Fixpoint sequence {A} (l : list (option A)) : option (list A) :=
  match l with
  | [] => Some []
  | None :: _ => None
  | Some x :: r => match sequence r with Some r' => Some (x :: r') | None => None end
  end.

Fixpoint norm (univ : list N) (s : skind) (d : D) {struct s} : option D :=
  match s, d with
  | SMap, DM m =>
      if nodupN (map fst m) && forallb (fun k => memN k univ) (map fst m)
      then Some (DS (map (fun k => DO (lookupN k m)) univ)) else None
  | SMap, _ => None
  | SBits, DN z => if (0 <=? z) && (z <? 256) then Some (DS (bits_of z)) else None
  | SBits, _ => None
  | SOpt, DO _ => Some d
  | SOpt, _ => None
  | SRec fs, DS l =>
      option_map DS
        ((fix go (fs : list (string * skind)) (l : list D) {struct fs} : option (list D) :=
            match fs, l with
            | [], [] => Some []
            | (_, s') :: fs', x :: l' =>
                match norm univ s' x, go fs' l' with
                | Some x', Some r => Some (x' :: r)
                | _, _ => None
                end
            | _, _ => None
            end) fs l)
  | SRec _, _ => None
  | SVec _ s', DL l => option_map DL (sequence (map (norm univ s') l))
  | SVec _ _, _ => None
  | _, _ => Some d
  end.

(** All map keys occurring in a tree. *)
Fixpoint keys_of (d : D) : list N :=
  match d with
  | DM m => map fst m
  | DS l | DL l => (fix go (l : list D) : list N := match l with [] => [] | x :: r => keys_of x ++ go r end) l
  | _ => []
  end.

Fixpoint dedup (l : list N) : list N :=
  match l with [] => [] | x :: r => if memN x r then dedup r else x :: dedup r end.

(** * The faithful merge of whole PCZTs (roles/combiner [merge]) *)

(** Hand-transcribed bundle-level logic.  Field positions ([spends; outputs; value_sum; anchor; bsk]
    and [actions; flags; value_sum; anchor; note_version; zkproof; bsk]) are those of the struct
    declarations; [V.Gen.C13Schema.shape_ok] re-checks the names on every run, and the extractor
    pins the text of this part of the Rust functions. *)

Definition cmp_len (x y : list D) : comparison := Nat.compare (List.length x) (List.length y).
Definition is_some_o (d : D) : bool := match d with DO (Some _) => true | _ => false end.

(** Sapling: the first [match] of [Bundle::merge].  Returns the left bundle with the [value_sum] it
    will carry, or [None] when that [match] rejects. *)
Definition sapling_pre (a b : D) : option D :=
  match a, b with
  | DS [DL sa; DL oa; vsa; ana; bska], DS [DL sb; DL ob; vsb; anb; bskb] =>
      let cs := cmp_len sa sb in
      let co := cmp_len oa ob in
      let same := match cs, co with Eq, Eq => true | _, _ => false end in
      match bska, bskb with
      | DO (Some x), DO (Some y) =>
          if negb (N.eqb x y) then None
          else if negb same || negb (D_eqb vsa vsb) then None
          else Some a
      | DO (Some _), DO None | DO None, DO (Some _) =>
          if negb same || negb (D_eqb vsa vsb) then None else Some a
      | DO None, DO None =>
          match cs, co with
          | Lt, Gt | Gt, Lt => None
          | Eq, Eq => if D_eqb vsa vsb then Some a else None
          | _, _ =>
              let lt := match cs, co with Lt, _ | _, Lt => true | _, _ => false end in
              Some (DS [DL sa; DL oa; (if lt then vsb else vsa); ana; bska])
          end
      | _, _ => None
      end
  | _, _ => None
  end.

(** Orchard / Ironwood. *)
Definition orchard_pre (a b : D) : option D :=
  match a, b with
  | DS [DL xa; fla; vsa; ana; nva; zka; bska], DS [DL xb; flb; vsb; anb; nvb; zkb; bskb] =>
      if negb (D_eqb fla flb) || negb (D_eqb nva nvb) then None else
      let c := cmp_len xa xb in
      let same := match c with Eq => true | _ => false end in
      match bska, bskb with
      | DO (Some x), DO (Some y) =>
          if negb (N.eqb x y) then None
          else if negb same || negb (D_eqb vsa vsb) then None
          else Some a
      | DO (Some _), DO None | DO None, DO (Some _) =>
          if negb same || negb (D_eqb vsa vsb) then None else Some a
      | DO None, DO None =>
          match c with
          | Eq => if D_eqb vsa vsb then Some a else None
          | Lt => Some (DS [DL xa; fla; vsb; ana; nva; zka; bska])
          | Gt => Some a
          end
      | _, _ => None
      end
  | _, _ => None
  end.

Definition obind {A B} (o : option A) (f : A -> option B) : option B :=
  match o with Some x => f x | None => None end.

(** The three modifiable flags of a party. *)
Definition fl3 := (bool * bool * bool)%type.
Definition getf (f : fl3) (i : nat) : bool :=
  let '(a, b, c) := f in
  match i with 0%nat => a | 1%nat => b | 7%nat => c | _ => false end.
Definition and3 (f g : fl3) : fl3 :=
  let '(a, b, c) := f in let '(a', b', c') := g in (a && a', b && b', c && c').
(** bit [i] of the (normalised) [tx_modifiable] of a [Global] record (7th field) *)
Definition bit_at (g : D) (i : nat) : bool :=
  match g with
  | DS fs => match nth 6 fs (DN 0) with
             | DS bits => match nth i bits (DB false) with DB b => b | _ => false end
             | _ => false
             end
  | _ => false
  end.
Definition fl3_of (g : D) : fl3 := (bit_at g 0, bit_at g 1, bit_at g 7).
Definition gl (p : D) : D := match p with DS (g :: _) => g | _ => DN 0 end.
Definition pflags (p : D) : nat -> bool := getf (fl3_of (gl p)).

Section Pczt.
  (** Schemas of the five parts, from the generated file. *)
  Variables S_global S_transparent S_sapling S_orchard : skind.
  Variable n : nat.   (* size of the key universe *)

  (** The merge functions consult a party's [Global] only through [inputs_modifiable()] (bit 0),
      [outputs_modifiable()] (bit 1) and [shielded_modifiable()] (bit 7). *)
  Definition flags_of (g : D) : nat -> bool := getf (fl3_of g).

  Definition bundle_merge (pre : D -> D -> option D) (s : skind) (fa fb : nat -> bool) (a b : D) : option D :=
    obind (pre a b) (fun a' => merge fa fb (faithful_kind n s) a' b).

  (** roles/combiner/mod.rs [merge]: bundles first (each with the two parties' own globals), then
      the globals. *)
  Definition pczt_merge (a b : D) : option D :=
    match a, b with
    | DS [ga; ta; sa; oa; ia], DS [gb; tb; sb; ob; ib] =>
        let fa := flags_of ga in
        let fb := flags_of gb in
        obind (merge fa fb (faithful_kind n S_transparent) ta tb) (fun t =>
        obind (bundle_merge sapling_pre S_sapling fa fb sa sb) (fun s =>
        obind (bundle_merge orchard_pre S_orchard fa fb oa ob) (fun o =>
        obind (bundle_merge orchard_pre S_orchard fa fb ia ib) (fun i =>
        obind (merge fa fb (faithful_kind n S_global) ga gb) (fun g =>
        Some (DS [g; t; s; o; i]))))))
    | _, _ => None
    end.

  (** The lawful reference merge of whole PCZTs: one generic merge over one schema. *)
  Definition S_pczt : skind :=
    SRec [("global", S_global); ("transparent", S_transparent); ("sapling", S_sapling);
          ("orchard", S_orchard); ("ironwood", S_orchard)]%string.

  Definition ref_merge (a b : D) : option D :=
    match a, b with
    | DS (ga :: _), DS (gb :: _) => merge (flags_of ga) (flags_of gb) (lawful_kind n S_pczt) a b
    | _, _ => None
    end.

  (** [Combiner::combine]: left fold; [NoPczts] on the empty list. *)
  Inductive cerr := NoPczts | DataMismatch.
  Fixpoint fold_merge (m : D -> D -> option D) (acc : D) (l : list D) : option D :=
    match l with
    | [] => Some acc
    | p :: r => obind (m acc p) (fun acc' => fold_merge m acc' r)
    end.
  Definition combine_with (m : D -> D -> option D) (l : list D) : outcome D cerr :=
    match l with
    | [] => Err NoPczts
    | p :: r => match fold_merge m p r with Some c => Ok c | None => Err DataMismatch end
    end.
  Definition combine := combine_with pczt_merge.
End Pczt.

(** Nested use of the Combiner (groupings). *)
Inductive expr := EP (i : nat) | EC (l : list expr).

Section Eval.
  Variable m : D -> D -> option D.
  Variable ps : list D.
  Fixpoint eval (e : expr) : option D :=
    match e with
    | EP i => nth_error ps i
    | EC l =>
        obind ((fix go (l : list expr) : option (list D) :=
                  match l with
                  | [] => Some []
                  | x :: r => match eval x, go r with Some v, Some vs => Some (v :: vs) | _, _ => None end
                  end) l)
              (fun vs => match combine_with m vs with Ok c => Some c | Err _ => None | Panic => None end)
    end.
End Eval.

Fixpoint leaves (e : expr) : list nat :=
  match e with
  | EP i => [i]
  | EC l => (fix go (l : list expr) : list nat := match l with [] => [] | x :: r => leaves x ++ go r end) l
  end.
(** no empty [Combiner] call inside an expression (an empty one fails with [NoPczts]) *)
Fixpoint wf_expr (e : expr) : bool :=
  match e with
  | EP _ => true
  | EC l => match l with [] => false | _ :: _ => true end &&
            (fix go (l : list expr) : bool := match l with [] => true | x :: r => wf_expr x && go r end) l
  end.

(** * The bitmap as the Rust code computes it (common.rs [Global::merge]) *)
Definition FLAG_IN := 1. Definition FLAG_OUT := 2. Definition FLAG_SINGLE := 4. Definition FLAG_SHIELDED := 128.
Definition u8_not (x : Z) := 255 - x.
Definition bits_merge (a b : Z) : option Z :=
  let s := a in
  let s := if Z.land b FLAG_IN =? 0 then Z.land s (u8_not FLAG_IN) else s in
  let s := if Z.land b FLAG_OUT =? 0 then Z.land s (u8_not FLAG_OUT) else s in
  let s := if negb (Z.land b FLAG_SINGLE =? 0) then Z.lor s FLAG_SINGLE else s in
  if negb (Z.shiftr (Z.land s (u8_not FLAG_SHIELDED)) 3 =? 0)
     || negb (Z.shiftr (Z.land b (u8_not FLAG_SHIELDED)) 3 =? 0) then None
  else
    let s := if Z.land b FLAG_SHIELDED =? 0 then Z.land s (u8_not FLAG_SHIELDED) else s in
    Some s.

(** * [merge_map] as the Rust code computes it (roles/combiner): association lists *)
Fixpoint merge_map (lhs rhs : list (N * N)) : option (list (N * N)) :=
  match rhs with
  | [] => Some lhs
  | (k, v) :: r =>
      match lookupN k lhs with
      | Some v' => if N.eqb v' v then merge_map lhs r else None
      | None => merge_map (lhs ++ [(k, v)]) r
      end
  end.

(** * Effects: the fields [into_effects] / [extract_tx_data] read *)

(** A mask has the shape of the schema; [true] marks an effecting field. *)
Inductive mask := MLeaf (b : bool) | MRec (ms : list mask) | MVec (m : mask).

Fixpoint mask_of (sel : list string -> bool) (path : list string) (s : skind) {struct s} : mask :=
  match s with
  | SRec fs => MRec ((fix go (fs : list (string * skind)) : list mask :=
                        match fs with
                        | [] => []
                        | (nm, s') :: r => mask_of sel (path ++ [nm]) s' :: go r
                        end) fs)
  | SVec _ s' => MVec (mask_of sel path s')
  | _ => MLeaf (sel path)
  end.

(** Projection to the effecting fields (other leaves are blanked). *)
Fixpoint project (m : mask) (d : D) {struct m} : D :=
  match m with
  | MLeaf true => d
  | MLeaf false => DA 0
  | MRec ms =>
      match d with
      | DS l => DS ((fix go (ms : list mask) (l : list D) {struct ms} : list D :=
                       match ms, l with
                       | m' :: ms', x :: l' => project m' x :: go ms' l'
                       | _, _ => []
                       end) ms l)
      | _ => DA 0
      end
  | MVec m' => match d with DL l => DL (map (project m') l) | _ => DA 0 end
  end.

(** Paths (field names from the root, vectors transparent) where two trees differ.  A difference of
    shape (record or vector of another length) is reported as the path followed by the empty name,
    which no role may write. *)
Definition shape_mark : string := EmptyString.
Definition is_shape (p : list string) : bool := String.eqb (last p "x"%string) shape_mark.
Fixpoint diff_paths (s : skind) (path : list string) (a b : D) {struct s} : list (list string) :=
  match s with
  | SRec fs =>
      match a, b with
      | DS la, DS lb =>
          (fix go (fs : list (string * skind)) (la lb : list D) {struct fs} : list (list string) :=
             match fs, la, lb with
             | [], [], [] => []
             | (nm, s') :: fs', x :: la', y :: lb' => diff_paths s' (path ++ [nm]) x y ++ go fs' la' lb'
             | _, _, _ => [path ++ [shape_mark]]
             end) fs la lb
      | _, _ => [path ++ [shape_mark]]
      end
  | SVec _ s' =>
      match a, b with
      | DL la, DL lb =>
          (fix go (la lb : list D) {struct la} : list (list string) :=
             match la, lb with
             | [], [] => []
             | x :: la', y :: lb' => diff_paths s' path x y ++ go la' lb'
             | _, _ => [path ++ [shape_mark]]
             end) la lb
      | _, _ => [path ++ [shape_mark]]
      end
  | _ => if D_eqb a b then [] else [path]
  end.

Definition str_list_eqb := list_eqb String.eqb.
Definition mem_path (p : list string) (l : list (list string)) : bool := existsb (str_list_eqb p) l.

(** Effecting data of a v5 / v6 transaction as read by [Pczt::extract_tx_data] and the
    [extract_effects] functions of the three protocol crates.  Under v6 (ZIP 374) the shielded
    anchors are authorizing data. *)
Local Open Scope string_scope.
Definition eff_common : list (list string) :=
  [ ["global"; "tx_version"]; ["global"; "version_group_id"]; ["global"; "consensus_branch_id"];
    ["global"; "fallback_lock_time"]; ["global"; "expiry_height"];
    ["transparent"; "inputs"; "prevout_txid"]; ["transparent"; "inputs"; "prevout_index"];
    ["transparent"; "inputs"; "sequence"]; ["transparent"; "inputs"; "required_time_lock_time"];
    ["transparent"; "inputs"; "required_height_lock_time"];
    ["transparent"; "inputs"; "value"]; ["transparent"; "inputs"; "script_pubkey"];
    ["transparent"; "outputs"; "value"]; ["transparent"; "outputs"; "script_pubkey"];
    ["sapling"; "spends"; "cv"]; ["sapling"; "spends"; "nullifier"]; ["sapling"; "spends"; "rk"];
    ["sapling"; "outputs"; "cv"]; ["sapling"; "outputs"; "cmu"]; ["sapling"; "outputs"; "ephemeral_key"];
    ["sapling"; "outputs"; "enc_ciphertext"]; ["sapling"; "outputs"; "out_ciphertext"];
    ["sapling"; "value_sum"];
    ["orchard"; "actions"; "spend"; "nullifier"]; ["orchard"; "actions"; "spend"; "rk"];
    ["orchard"; "actions"; "output"; "ephemeral_key"]; ["orchard"; "actions"; "output"; "out_ciphertext"];
    ["orchard"; "flags"]; ["orchard"; "value_sum"]; ["orchard"; "note_version"];
    ["ironwood"; "actions"; "spend"; "nullifier"]; ["ironwood"; "actions"; "spend"; "rk"];
    ["ironwood"; "actions"; "output"; "ephemeral_key"]; ["ironwood"; "actions"; "output"; "out_ciphertext"];
    ["ironwood"; "flags"]; ["ironwood"; "value_sum"]; ["ironwood"; "note_version"] ].
(** Effecting fields that the v2 encoding lets a Redactor replace by data from which they are
    recomputed ([cv_net], [cmx], [enc_ciphertext] <-> memo plaintext): they are effects, but their
    *representation* may legitimately change, so they are tracked separately. *)
Definition eff_resolvable : list (list string) :=
  [ ["orchard"; "actions"; "cv_net"]; ["orchard"; "actions"; "output"; "cmx"];
    ["orchard"; "actions"; "output"; "enc_ciphertext"];
    ["ironwood"; "actions"; "cv_net"]; ["ironwood"; "actions"; "output"; "cmx"];
    ["ironwood"; "actions"; "output"; "enc_ciphertext"] ].
Definition eff_anchors : list (list string) :=
  [ ["sapling"; "anchor"]; ["orchard"; "anchor"]; ["ironwood"; "anchor"] ].

Definition eff_paths (v6 : bool) : list (list string) :=
  eff_common ++ (if v6 then [] else eff_anchors).

(** Fields each role may write (role ids as in the harness). *)
Definition auth_fields : list (list string) :=
  [ ["global"; "tx_modifiable"];
    ["transparent"; "inputs"; "partial_signatures"]; ["transparent"; "inputs"; "script_sig"];
    ["sapling"; "spends"; "spend_auth_sig"]; ["sapling"; "spends"; "zkproof"]; ["sapling"; "outputs"; "zkproof"];
    ["sapling"; "bsk"]; ["sapling"; "spends"; "dummy_ask"];
    ["orchard"; "actions"; "spend"; "spend_auth_sig"]; ["orchard"; "zkproof"]; ["orchard"; "bsk"];
    ["orchard"; "actions"; "spend"; "dummy_sk"];
    ["ironwood"; "actions"; "spend"; "spend_auth_sig"]; ["ironwood"; "zkproof"]; ["ironwood"; "bsk"];
    ["ironwood"; "actions"; "spend"; "dummy_sk"] ].

(** A role is modelled by the set of field paths it may change: everything except the effecting
    fields.  Roles that re-serialise parsed bundles (IO finaliser, Signer, Updater closures) may in
    addition re-expand the resolvable representations. *)
Definition role_may_write (v6 : bool) (role : N) (p : list string) : bool :=
  negb (mem_path p (eff_paths v6)) && negb (is_shape p) &&
  match role with
  | 1%N | 2%N | 3%N | 4%N | 6%N => true                       (* updater, redactor, io-finaliser, signer, combiner *)
  | 5%N => mem_path p [["transparent"; "inputs"; "script_sig"];
                       ["transparent"; "inputs"; "partial_signatures"];
                       ["transparent"; "inputs"; "redeem_script"];
                       ["transparent"; "inputs"; "bip32_derivation"];
                       ["transparent"; "inputs"; "ripemd160_preimages"];
                       ["transparent"; "inputs"; "sha256_preimages"];
                       ["transparent"; "inputs"; "hash160_preimages"];
                       ["transparent"; "inputs"; "hash256_preimages"]]
      (* spend finaliser (zcash_transparent pczt/spend_finalizer.rs): sets script_sig and clears the
         signing helper data of every input *)
  | _ => false
  end.
Local Close Scope string_scope.

(** * The transaction a PCZT describes ([Pczt::extract_tx_data] with the [extract_effects]
    closures of the three protocol crates) *)

(** Which fields are read, by name. *)
Inductive recipe := RLeaf | RRec (fs : list (string * recipe)) | RVec (r : recipe).

Fixpoint find_field (fs : list (string * skind)) (l : list D) (nm : string) : option (skind * D) :=
  match fs, l with
  | (nm', s') :: fs', x :: l' => if String.eqb nm nm' then Some (s', x) else find_field fs' l' nm
  | _, _ => None
  end.

Fixpoint run_recipe (r : recipe) (s : skind) (d : D) {struct r} : option D :=
  match r with
  | RLeaf => match s with SRec _ | SVec _ _ => None | _ => Some d end
  | RRec rs =>
      match s, d with
      | SRec fs, DS l =>
          option_map DS
            ((fix go (rs : list (string * recipe)) : option (list D) :=
                match rs with
                | [] => Some []
                | (nm, r') :: rs' =>
                    match find_field fs l nm with
                    | Some (s', x) =>
                        match run_recipe r' s' x, go rs' with
                        | Some v, Some vs => Some (v :: vs)
                        | _, _ => None
                        end
                    | None => None
                    end
                end) rs)
      | _, _ => None
      end
  | RVec r' =>
      match s, d with
      | SVec _ s', DL l => option_map DL (sequence (map (run_recipe r' s') l))
      | _, _ => None
      end
  end.

Local Open Scope string_scope.
Definition leafs (l : list string) : list (string * recipe) := map (fun n => (n, RLeaf)) l.
Definition orchard_recipe : recipe :=
  RRec [("actions", RVec (RRec [("cv_net", RLeaf);
                                ("spend", RRec (leafs ["nullifier"; "rk"]));
                                ("output", RRec (leafs ["cmx"; "ephemeral_key"; "enc_ciphertext"; "out_ciphertext"]))]));
        ("flags", RLeaf); ("value_sum", RLeaf); ("anchor", RLeaf)].
Definition tx_recipe : recipe :=
  RRec [("global", RRec (leafs ["tx_version"; "version_group_id"; "consensus_branch_id"; "fallback_lock_time"; "expiry_height"]));
        ("transparent",
         RRec [("inputs", RVec (RRec (leafs ["prevout_txid"; "prevout_index"; "sequence"; "required_time_lock_time";
                                             "required_height_lock_time"; "value"; "script_pubkey"])));
               ("outputs", RVec (RRec (leafs ["value"; "script_pubkey"])))]);
        ("sapling",
         RRec [("spends", RVec (RRec (leafs ["cv"; "nullifier"; "rk"])));
               ("outputs", RVec (RRec (leafs ["cv"; "cmu"; "ephemeral_key"; "enc_ciphertext"; "out_ciphertext"])));
               ("value_sum", RLeaf); ("anchor", RLeaf)]);
        ("orchard", orchard_recipe); ("ironwood", orchard_recipe)].
Local Close Scope string_scope.

(** What is made of the fields read.  Reserved atoms: 4 = the number 0, 5 = 4294967295 (u32::MAX).
    [None]: the model does not determine the transaction (a field that the code would recompute —
    redacted [cv_net] / [cmx], memo plaintext — or an input-required lock time, whose maximum needs
    the numeric values; or the code reports an error). *)
Definition unwrap (d : D) : option D := match d with DO (Some a) => Some (DA a) | _ => None end.
Definition or_default (dflt : N) (d : D) : option D :=
  match d with DO (Some a) => Some (DA a) | DO None => Some (DA dflt) | _ => None end.

Definition tx_input (d : D) : option D :=
  match d with
  | DS [txid; idx; sq; DO None; DO None; val; spk] =>
      option_map (fun sq' => DS [txid; idx; sq'; val; spk]) (or_default 5 sq)
  | _ => None
  end.

Definition tx_action (d : D) : option D :=
  match d with
  | DS [cv; DS [nf; rk]; DS [cmx; epk; DT 0 enc; outc]] =>
      match unwrap cv, unwrap cmx with
      | Some cv', Some cmx' => Some (DS [nf; rk; cmx'; epk; DA enc; outc; cv'])
      | _, _ => None
      end
  | _ => None
  end.

Definition tx_orchard (v6 : bool) (d : D) : option D :=
  match d with
  | DS [DL []; _; _; _] => Some (DA 0)
  | DS [DL acts; fl; vs; an] =>
      match sequence (map tx_action acts), (if v6 then Some (DA 0) else unwrap an) with
      | Some acts', Some an' => Some (DS [DL acts'; fl; vs; an'])
      | _, _ => None
      end
  | _ => None
  end.

Definition tx_sapling (v6 : bool) (d : D) : option D :=
  match d with
  | DS [DL []; DL []; _; _] => Some (DA 0)
  | DS [DL sp; DL ou; vs; an] =>
      match (if v6 then Some (DA 0) else unwrap an) with
      | Some an' => Some (DS [DL sp; (match sp with [] => DA 0 | _ => an' end); DL ou; vs])
      | None => None
      end
  | _ => None
  end.

Definition tx_post (raw : D) : option D :=
  match raw with
  | DS [DS [DN txv; vg; br; flt; ex]; DS [DL ins; DL outs]; sap; orc; iro] =>
      let v6 := txv =? 6 in
      if negb ((txv =? 5) || v6) then None else
      match or_default 4 flt, sequence (map tx_input ins), tx_sapling v6 sap, tx_orchard v6 orc,
            (if v6 then tx_orchard v6 iro else match iro with DS [DL []; _; _; _] => Some (DA 0) | _ => None end) with
      | Some lock, Some ins', Some sap', Some orc', Some iro' =>
          Some (DS [DN txv; vg; br; lock; ex; DL ins'; DL outs; sap'; orc'; iro'])
      | _, _, _, _, _ => None
      end
  | _ => None
  end.

(** * Encoding versions (lib.rs): representability in v1, elision in v2 *)

Definition zero_anchor : D := DO (Some 0%N).
Definition is_empty_l (d : D) : bool := match d with DL [] => true | _ => false end.

(** EMPTY_BUNDLE / EMPTY_ORCHARD / EMPTY_IRONWOOD (orchard.rs, sapling.rs, transparent.rs).  Reserved
    atoms: 0 = 32 zero bytes, 1 = NoteVersion::V2, 2 = NoteVersion::V3, 3 = (0, false). *)
Definition empty_transparent : D := DS [DL []; DL []].
Definition empty_sapling : D := DS [DL []; DL []; DN 0; DO None; DO None].
Definition empty_orchard : D := DS [DL []; DN 3; DA 3; DO None; DA 1; DO None; DO None].
Definition empty_ironwood : D := DS [DL []; DN 7; DA 3; DO None; DA 2; DO None; DO None].

(** v1 sapling: [anchor] is mandatory; an absent anchor of a spend-less bundle is written as zero
    and read back as [Some zero]. *)
Definition sapling_v1 (s : D) : option D :=
  match s with
  | DS [sp; ou; vs; an; bsk] =>
      match an with
      | DO (Some _) => Some s
      | DO None => if is_empty_l sp then Some (DS [sp; ou; vs; zero_anchor; bsk]) else None
      | _ => None
      end
  | _ => None
  end.

Definition action_v1_ok (a : D) : bool :=
  match a with
  | DS [DO (Some _); _; DS (DO (Some _) :: _ :: DT 0 _ :: _); _] => true
  | _ => false
  end.

(** v1 orchard: note version V2 only; anchor mandatory (zero for an action-less bundle, undone when
    reading); every action must carry [cv_net], [cmx] and an encrypted ciphertext. *)
Definition orchard_v1 (o : D) : option D :=
  match o with
  | DS [DL acts; fl; vs; an; nv; zk; bsk] =>
      if negb (D_eqb nv (DA 1)) then None else
      match an with
      | DO (Some x) =>
          if forallb action_v1_ok acts then
            Some (DS [DL acts; fl; vs; (if is_empty_l (DL acts) && N.eqb x 0 then DO None else an); nv; zk; bsk])
          else None
      | DO None => if is_empty_l (DL acts) then Some o else None
      | _ => None
      end
  | _ => None
  end.

(** What a PCZT becomes when written as v1 and read back, or [None] if v1 cannot carry it. *)
Definition via_v1 (p : D) : option D :=
  match p with
  | DS [DS (DN txv :: grest); t; s; o; i] =>
      if (txv =? 6) || negb (D_eqb i empty_ironwood) then None else
      match sapling_v1 s, orchard_v1 o with
      | Some s', Some o' => Some (DS [DS (DN txv :: grest); t; s'; o'; empty_ironwood])
      | _, _ => None
      end
  | _ => None
  end.

(** v2: a bundle equal to its canonical empty form (a zero anchor counting as absent) is omitted and
    read back as the canonical empty form. *)
Definition anchor_norm (an : D) : D := if D_eqb an zero_anchor then DO None else an.
Definition elide_sapling (s : D) : D :=
  match s with
  | DS [sp; ou; vs; an; bsk] => if D_eqb (DS [sp; ou; vs; anchor_norm an; bsk]) empty_sapling then empty_sapling else s
  | _ => s
  end.
Definition elide_orchard (e : D) (o : D) : D :=
  match o with
  | DS [ac; fl; vs; an; nv; zk; bsk] => if D_eqb (DS [ac; fl; vs; anchor_norm an; nv; zk; bsk]) e then e else o
  | _ => o
  end.
Definition via_v2 (p : D) : D :=
  match p with
  | DS [g; t; s; o; i] => DS [g; t; elide_sapling s; elide_orchard empty_orchard o; elide_orchard empty_ironwood i]
  | _ => p
  end.

(** [Pczt::serialize]: v1 whenever representable, else v2; the pair is (version, value read back). *)
Definition serialize_parse (p : D) : N * D :=
  match via_v1 p with
  | Some q => (1%N, q)
  | None => (2%N, via_v2 p)
  end.
