(** C13 — the law that holds for copies of ANY shielded shapes (vector extension included): every
    field an input carried is in the result, except the derived [value_sum] of a copy with fewer
    spends / outputs / actions ([le] at the faithful kind, where [value_sum] is a one-sided field). *)
From V.Lib Require Import Base.
From Coq Require Import String Lia.
From V.C13 Require Import Model Spec Proofs Proofs2 Proofs3 Proofs4.
Local Open Scope Z_scope.

Lemma sapling_pre_shape a b a' : sapling_pre a b = Some a' ->
  exists sp ou vs an bsk vs', a = DS [sp; ou; vs; an; bsk] /\ a' = DS [sp; ou; vs'; an; bsk].
Proof.
  unfold sapling_pre. destruct a as [| | | | |la| |]; try discriminate.
  destruct la as [|x1 [|x2 [|x3 [|x4 [|x5 [|? ?]]]]]]; try discriminate;
    try (destruct x1; try discriminate; destruct x2; discriminate); try (destruct x1; discriminate).
  destruct x1 as [| | | | | |sa|]; try discriminate. destruct x2 as [| | | | | |oa|]; try discriminate.
  destruct b as [| | | | |lb| |]; try discriminate.
  destruct lb as [|y1 [|y2 [|y3 [|y4 [|y5 [|? ?]]]]]]; try discriminate;
    try (destruct y1; try discriminate; destruct y2; discriminate); try (destruct y1; discriminate).
  destruct y1 as [| | | | | |sb|]; try discriminate. destruct y2 as [| | | | | |ob|]; try discriminate.
  intros H. exists (DL sa), (DL oa), x3, x4, x5.
  destruct x5 as [| | |[p|]| | | |], y5 as [| | |[q|]| | | |]; try discriminate;
    repeat match type of H with
           | (if ?c then _ else _) = _ => destruct c
           | match ?c with _ => _ end = _ => destruct c
           end; try discriminate; inversion H; subst; eexists; split; reflexivity.
Qed.

Lemma orchard_pre_shape a b a' : orchard_pre a b = Some a' ->
  exists ac fl vs an nv zk bsk vs', a = DS [ac; fl; vs; an; nv; zk; bsk] /\ a' = DS [ac; fl; vs'; an; nv; zk; bsk].
Proof.
  unfold orchard_pre. destruct a as [| | | | |la| |]; try discriminate.
  destruct la as [|x1 [|x2 [|x3 [|x4 [|x5 [|x6 [|x7 [|? ?]]]]]]]]; try discriminate; try (destruct x1; discriminate).
  destruct x1 as [| | | | | |xa|]; try discriminate.
  destruct b as [| | | | |lb| |]; try discriminate.
  destruct lb as [|y1 [|y2 [|y3 [|y4 [|y5 [|y6 [|y7 [|? ?]]]]]]]]; try discriminate; try (destruct y1; discriminate).
  destruct y1 as [| | | | | |xb|]; try discriminate.
  intros H. exists (DL xa), x2, x3, x4, x5, x6, x7.
  destruct (negb (D_eqb x2 y2) || negb (D_eqb x5 y5)); [discriminate|].
  destruct x7 as [| | |[p|]| | | |], y7 as [| | |[q|]| | | |]; try discriminate;
    repeat match type of H with
           | (if ?c then _ else _) = _ => destruct c
           | match ?c with _ => _ end = _ => destruct c
           end; try discriminate; inversion H; subst; eexists; split; reflexivity.
Qed.

Section KeepsAny.
  Variable n : nat.
  Variable fsg : list (string * skind).
  Variables St ss so sact : skind.
  Hypothesis Lg : slawful (SRec fsg) = true.
  Hypothesis Lt : slawful St = true.
  Hypothesis Lss : slawful ss = true.
  Hypothesis Lso : slawful so = true.
  Hypothesis Lsa : slawful sact = true.

  Let KF : kind := faithful_kind n (S_pczt (SRec fsg) St (Ssap ss so) (Sorc sact)).
  Let PMf := pczt_merge (SRec fsg) St (Ssap ss so) (Sorc sact) n.

  Lemma KF_eq : KF = KRec [faithful_kind n (SRec fsg); faithful_kind n St; faithful_kind n (Ssap ss so);
                           faithful_kind n (Sorc sact); faithful_kind n (Sorc sact)].
  Proof. unfold KF, faithful_kind, S_pczt. rewrite kind_of_rec. reflexivity. Qed.

  (** a bundle: the pre-step changes at most the one-sided [value_sum] *)
  Lemma bundle_keeps_sap fa fb a b c :
    shaped (faithful_kind n (Ssap ss so)) a = true -> shaped (faithful_kind n (Ssap ss so)) b = true ->
    bundle_merge n sapling_pre (Ssap ss so) fa fb a b = Some c ->
    shaped (faithful_kind n (Ssap ss so)) c = true /\
    le (faithful_kind n (Ssap ss so)) a c = true /\ le (faithful_kind n (Ssap ss so)) b c = true.
  Proof.
    unfold bundle_merge. rewrite (Kf_sap n ss so Lss Lso). intros Sa Sb M.
    destruct (sapling_pre a b) as [a'|] eqn:P; [|discriminate]. cbn [obind] in M.
    destruct (sapling_pre_shape a b a' P) as (sp & ou & vs & an & bsk & vs' & -> & ->).
    assert (Sa' : shaped (KRec [KVec 7 (lawful_kind n ss); KVec 7 (lawful_kind n so); KLeft; KOpt; KOpt])
                    (DS [sp; ou; vs'; an; bsk]) = true).
    { rewrite shaped_rec in *. cbn [shaped_fields] in *. cbn [shaped] in Sa |- *. exact Sa. }
    destruct (merge_keeps _ fa fb _ _ c Sa' Sb M) as [L1 L2].
    split; [exact (merge_shaped _ fa fb _ _ c Sa' Sb M)|]. split; [|exact L2].
    destruct c as [| | | | |lc| |]; try discriminate. rewrite le_rec in *.
    destruct lc as [|c1 [|c2 [|c3 [|c4 [|c5 [|? ?]]]]]]; try discriminate;
      cbn [le_fields] in *; rewrite ?andb_false_r in L1; try discriminate.
    cbn [le] in *. exact L1.
  Qed.

  Lemma bundle_keeps_orc fa fb a b c :
    shaped (faithful_kind n (Sorc sact)) a = true -> shaped (faithful_kind n (Sorc sact)) b = true ->
    bundle_merge n orchard_pre (Sorc sact) fa fb a b = Some c ->
    shaped (faithful_kind n (Sorc sact)) c = true /\
    le (faithful_kind n (Sorc sact)) a c = true /\ le (faithful_kind n (Sorc sact)) b c = true.
  Proof.
    unfold bundle_merge. rewrite (Kf_orc n sact Lsa). intros Sa Sb M.
    destruct (orchard_pre a b) as [a'|] eqn:P; [|discriminate]. cbn [obind] in M.
    destruct (orchard_pre_shape a b a' P) as (ac & fl & vs & an & nv & zk & bsk & vs' & -> & ->).
    assert (Sa' : shaped (KRec [KVec 7 (lawful_kind n sact); KEq; KLeft; KOpt; KEq; KOpt; KOpt])
                    (DS [ac; fl; vs'; an; nv; zk; bsk]) = true).
    { rewrite shaped_rec in *. cbn [shaped_fields] in *. cbn [shaped] in Sa |- *. exact Sa. }
    destruct (merge_keeps _ fa fb _ _ c Sa' Sb M) as [L1 L2].
    split; [exact (merge_shaped _ fa fb _ _ c Sa' Sb M)|]. split; [|exact L2].
    destruct c as [| | | | |lc| |]; try discriminate. rewrite le_rec in *.
    destruct lc as [|c1 [|c2 [|c3 [|c4 [|c5 [|c6 [|c7 [|? ?]]]]]]]]; try discriminate;
      cbn [le_fields] in *; rewrite ?andb_false_r in L1; try discriminate.
    cbn [le] in *. exact L1.
  Qed.

  (** whole PCZTs, any shapes *)
  Theorem pczt_merge_keeps_any a b c :
    shaped KF a = true -> shaped KF b = true -> PMf a b = Some c ->
    shaped KF c = true /\ le KF a c = true /\ le KF b c = true.
  Proof.
    rewrite KF_eq. intros Sa Sb M.
    destruct a as [| | | | |la| |]; try discriminate. destruct b as [| | | | |lb| |]; try discriminate.
    rewrite shaped_rec in Sa, Sb. pose proof Sa as Sa'. pose proof Sb as Sb'.
    len_destruct Sa' la. len_destruct Sb' lb.
    cbn [shaped_fields] in Sa, Sb. rewrite !andb_true_iff in Sa, Sb.
    destruct Sa as (Sg1 & St1 & Ss1 & So1 & Si1 & _). destruct Sb as (Sg2 & St2 & Ss2 & So2 & Si2 & _).
    unfold PMf, pczt_merge in M.
    match type of M with obind ?x _ = _ => destruct x as [t|] eqn:Et; [|discriminate] end. cbn [obind] in M.
    match type of M with obind ?x _ = _ => destruct x as [s|] eqn:Es; [|discriminate] end. cbn [obind] in M.
    match type of M with obind ?x _ = _ => destruct x as [o|] eqn:Eo; [|discriminate] end. cbn [obind] in M.
    match type of M with obind ?x _ = _ => destruct x as [i|] eqn:Ei; [|discriminate] end. cbn [obind] in M.
    match type of M with obind ?x _ = _ => destruct x as [g|] eqn:Eg; [|discriminate] end. cbn [obind] in M.
    inversion M; subst c; clear M.
    destruct (merge_keeps _ _ _ _ _ t St1 St2 Et) as [T1 T2].
    destruct (bundle_keeps_sap _ _ _ _ s Ss1 Ss2 Es) as (S0 & S1 & S2).
    destruct (bundle_keeps_orc _ _ _ _ o So1 So2 Eo) as (O0 & O1 & O2).
    destruct (bundle_keeps_orc _ _ _ _ i Si1 Si2 Ei) as (I0 & I1 & I2).
    destruct (merge_keeps _ _ _ _ _ g Sg1 Sg2 Eg) as [G1 G2].
    rewrite shaped_rec, !le_rec. cbn [shaped_fields le_fields].
    rewrite (merge_shaped _ _ _ _ _ g Sg1 Sg2 Eg), (merge_shaped _ _ _ _ _ t St1 St2 Et), S0, O0, I0,
            G1, G2, T1, T2, S1, S2, O1, O2, I1, I2. auto.
  Qed.

  (** folds and nested Combiner expressions, any shapes *)
  Lemma fold_keeps_any : forall l p c, shaped KF p = true -> Forall (fun q => shaped KF q = true) l ->
    fold_merge PMf p l = Some c ->
    shaped KF c = true /\ le KF p c = true /\ Forall (fun q => le KF q c = true) l.
  Proof.
    induction l as [|q l IH]; intros p c Sp Sl F.
    - cbn in F. inversion F; subst. repeat split; [exact Sp | apply le_refl; exact Sp | constructor].
    - inversion Sl as [|? ? Sq Sl']; subst. cbn [fold_merge] in F.
      destruct (PMf p q) as [x|] eqn:E; [|discriminate]. cbn [obind] in F.
      destruct (pczt_merge_keeps_any p q x Sp Sq E) as (Sx & Lp & Lq).
      destruct (IH x c Sx Sl' F) as (Sc & Lx & Ll).
      repeat split; [exact Sc | exact (le_trans KF p x c Lp Lx) |].
      constructor; [exact (le_trans KF q x c Lq Lx) | exact Ll].
  Qed.

  Theorem eval_keeps_any P : Forall (fun q => shaped KF q = true) P -> forall e c,
    eval PMf P e = Some c ->
    shaped KF c = true /\ Forall (fun i => (i < List.length P)%nat -> le KF (party P i) c = true) (leaves e).
  Proof.
    intros HP. induction e using expr_ind'; intros c E.
    - cbn [eval] in E. cbn [leaves]. split.
      + rewrite Forall_forall in HP. apply HP. eapply nth_error_In; exact E.
      + constructor; [|constructor]. intros _. unfold party. rewrite (nth_error_nth _ _ _ (DA 0) E).
        apply le_refl. rewrite Forall_forall in HP. apply HP. eapply nth_error_In; exact E.
    - destruct l as [|x r].
      { cbn in E. discriminate. }
      rewrite eval_EC_cons in E.
      destruct (eval PMf P x) as [v|] eqn:Ex; [|discriminate]. cbn [obind] in E.
      destruct (sequence (map (eval PMf P) r)) as [vs|] eqn:Er; [|discriminate]. cbn [obind] in E.
      inversion H as [|? ? Hx Hr]; subst. clear H.
      destruct (Hx v Ex) as (Sv & Lv).
      (* the children of [r] *)
      assert (G : Forall (fun q => shaped KF q = true) vs /\
                  Forall2 (fun y w => Forall (fun i => (i < List.length P)%nat -> le KF (party P i) w = true) (leaves y)) r vs).
      { clear E Ex Hx Lv Sv. revert vs Er. induction r as [|y r IHr]; intros vs Er.
        - cbn in Er. inversion Er; subst. split; constructor.
        - cbn [map sequence] in Er. destruct (eval PMf P y) as [w|] eqn:Ey; [|discriminate].
          destruct (sequence (map (eval PMf P) r)) as [ws|] eqn:Es; [|discriminate]. inversion Er; subst.
          inversion Hr as [|? ? Hy Hr']; subst. destruct (Hy w Ey) as (Sw & Lw).
          destruct (IHr Hr' ws eq_refl) as (A & B). split; constructor; assumption. }
      destruct G as (Svs & Lvs).
      destruct (fold_keeps_any vs v c Sv Svs E) as (Sc & Lvc & Lvsc).
      split; [exact Sc|].
      rewrite leaves_EC. cbn [map List.concat]. apply Forall_app. split.
      + rewrite Forall_forall in *. intros i Hi Hlt. exact (le_trans KF _ v c (Lv i Hi Hlt) Lvc).
      + clear Ex Hx Lv E Er Hr. revert vs Lvs Lvsc Svs. induction r as [|y r IHr]; intros vs Lvs Lvsc Svs.
        * constructor.
        * inversion Lvs as [|? w ? ws Ly Lr]; subst. inversion Lvsc as [|? ? Lw Lws]; subst.
          inversion Svs as [|? ? _ Sws]; subst.
          cbn [map List.concat]. apply Forall_app. split.
          -- rewrite Forall_forall in *. intros i Hi Hlt. exact (le_trans KF _ w c (Ly i Hi Hlt) Lw).
          -- apply (IHr ws Lr Lws Sws).
  Qed.
End KeepsAny.
