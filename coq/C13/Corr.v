(** C13 — correspondence cases.  [run_case]: the model reproduces what the implementation did.
    [prop_case]: the property evaluated on the implementation's results alone (with [Spec]'s order
    and compatibility relation, never with [merge]). *)
From V.Lib Require Import Base Hex.
From Coq Require Import String.
From V.C13 Require Import Model Spec Postcard Wire.
From V.Gen Require Import C13Schema C13Wire.
Local Open Scope Z_scope.

(** Printer helpers used by the harness. *)
Definition DOS (a : N) : D := DO (Some a).
Definition DON : D := DO None.
Definition KV (k v : N) : N * N := (k, v).

Definition imp_res := outcome (option Z) unit.

Inductive case :=
| CShape (t : list (string * string * list string))
| CCombine (ps tbl : list D) (rs : list (expr * imp_res))
| CRole (role sub : N) (before : D) (after : option D) (xb xa : option Z)
| CExtract (p : D) (xp xt : option Z)
| CSer (p : D) (o : outcome (option (Z * bool * option D * bool)) unit) (v1 v2 : option (option D))
| CParse (head : list N) (len : Z) (o : outcome (option (D * option D)) unit)
| CEffects (p : D) (t : option D)
| CBytes (ver : Z) (v : wval) (b : list N)
| CMut (b : list N) (impl_ok : bool)
| CResolved (role : N) (rb ra : D)
| CSerB (p : D) (tbl : list wval) (b : list N) (back : option D) (v1ok : bool).

(** ** Shape *)
Definition shape_entry_eqb (x y : string * string * list string) : bool :=
  String.eqb (fst (fst x)) (fst (fst y)) && String.eqb (snd (fst x)) (snd (fst y)) && list_eqb String.eqb (snd x) (snd y).
Definition shape_ok (t : list (string * string * list string)) : bool :=
  forallb (fun e => existsb (shape_entry_eqb e) shape_table) t.

(** ** Combination *)
Definition universe (l : list D) : list N := dedup (flat_map keys_of l).
Definition norm_all (u : list N) (l : list D) : option (list D) := sequence (map (norm u pczt_schema) l).

Definition M (n : nat) := pczt_merge S_global S_transparent S_sapling S_orchard n.
Definition Kl (n : nat) := lawful_kind n pczt_schema.
Definition Kf (n : nat) := faithful_kind n pczt_schema.
Definition gflags : D -> nat -> bool := pflags.

Definition res_matches (all : list D) (m : option D) (o : imp_res) : bool :=
  match o, m with
  | Ok None, None => true
  | Ok (Some i), Some c => match nth_error all (Z.to_nat i) with Some c' => D_eqb c c' | None => false end
  | _, _ => false
  end.

Fixpoint insert_nat (x : nat) (l : list nat) : list nat :=
  match l with [] => [x] | y :: r => if Nat.leb x y then x :: l else y :: insert_nat x r end.
Definition sort_nat (l : list nat) : list nat := fold_right insert_nat [] l.
Definition res_eqb (a b : imp_res) : bool := outcome_eqb (option_eqb Z.eqb) (fun _ _ => true) a b.

Fixpoint all_pairs {A} (f : A -> A -> bool) (l : list A) : bool :=
  match l with [] => true | x :: r => forallb (f x) r && all_pairs f r end.

Definition with_norm {A} (ps tbl : list D) (dflt : A) (f : nat -> list D -> list D -> A) : A :=
  let u := universe (ps ++ tbl) in
  match norm_all u ps, norm_all u tbl with
  | Some nps, Some ntbl => f (List.length u) nps ntbl
  | _, _ => dflt
  end.

Definition run_combine (ps tbl : list D) (rs : list (expr * imp_res)) : bool :=
  with_norm ps tbl false (fun n nps ntbl =>
    forallb (fun eo => res_matches (nps ++ ntbl) (eval (M n) nps (fst eo)) (snd eo)) rs).

Definition nthD (l : list D) (i : nat) : D := nth i l (DA 0).

Definition prop_combine (ps tbl : list D) (rs : list (expr * imp_res)) : bool :=
  with_norm ps tbl false (fun n nps ntbl =>
    let all := nps ++ ntbl in
    let K := Kl n in
    let uniform := all_pairs same_len nps in
    (* no panic *)
    forallb (fun eo => match snd eo with Panic => false | _ => true end) rs &&
    (* order and grouping independence (copies of one shielded transaction shape) *)
    (negb uniform ||
     all_pairs (fun x y => negb (list_eqb Nat.eqb (sort_nat (leaves (fst x))) (sort_nat (leaves (fst y))))
                           || res_eqb (snd x) (snd y)) rs) &&
    forallb (fun eo =>
      match fst eo, snd eo with
      (* idempotence *)
      | EC [EP i; EP j], o =>
          (if Nat.eqb i j then
             negb (typed K (nthD nps i)) ||
             match o with Ok (Some r) => D_eqb (nthD all (Z.to_nat r)) (nthD nps i) | _ => false end
           else
             (* success iff the two copies are compatible *)
             negb (same_len (nthD nps i) (nthD nps j)) ||
             Bool.eqb (match o with Ok (Some _) => true | _ => false end)
                      (compat (gflags (nthD nps i)) (gflags (nthD nps j)) K (nthD nps i) (nthD nps j)))
      | _, _ => true
      end &&
      (* every field any input carried is in the result *)
      match snd eo with
      | Ok (Some r) =>
          (* ([value_sum] is derived from the spends and outputs: a copy with fewer of them does not
             contribute its own) *)
          forallb (fun i => let c := nthD all (Z.to_nat r) in
                            le (if same_len (nthD nps i) c then K else Kf n) (nthD nps i) c) (leaves (fst eo))
      | _ => true
      end) rs).

(** ** Roles *)
Definition is_v6 (p : D) : bool := match p with DS (DS (DN v :: _) :: _) => v =? 6 | _ => false end.
Definition emask5 : mask := Eval vm_compute in mask_of (fun p => mem_path p (eff_paths false)) [] pczt_schema.
Definition emask6 : mask := Eval vm_compute in mask_of (fun p => mem_path p (eff_paths true)) [] pczt_schema.
Definition effects (p : D) : D := project (if is_v6 p then emask6 else emask5) p.

Definition run_role (role : N) (b : D) (a : option D) : bool :=
  match a with
  | None => true
  | Some a' => forallb (role_may_write (is_v6 b) role) (diff_paths pczt_schema [] b a')
  end.

Definition oz_eqb := option_eqb Z.eqb.
Definition prop_role (role : N) (b : D) (a : option D) (xb xa : option Z) : bool :=
  match a with
  | None => true
  | Some a' =>
      D_eqb (effects b) (effects a') &&
      match xb, xa with
      | Some x, Some y => x =? y
      | Some _, None => N.eqb role 2    (* only a redaction may make the identifier uncomputable *)
      | None, _ => true
      end
  end.

(** ** Encoding *)
(** Inputs on which a round trip is not the identity because the encodings identify an absent anchor
    with the zero anchor on bundles without spends / actions (known-finding class 1). *)
Definition anchor_quirk (p : D) : bool := negb (D_eqb (snd (serialize_parse p)) p).

(** writing again what was read back gives the same bytes iff the same version is chosen and the
    value is read back unchanged *)
Definition model_stable (p : D) : bool :=
  let m := serialize_parse p in
  let m' := serialize_parse (snd m) in
  N.eqb (fst m') (fst m) && D_eqb (snd m') (snd m).
Definition run_ser (p : D) (o : outcome (option (Z * bool * option D * bool)) unit) (v1 v2 : option (option D)) : bool :=
  match o with
  | Ok (Some (ver, magic, Some q, stable)) =>
      let m := serialize_parse p in
      (ver =? Z.of_N (fst m)) && D_eqb q (snd m) && magic && Bool.eqb stable (model_stable p)
  | _ => false
  end &&
  option_eqb (option_eqb D_eqb) v1 (option_map Some (via_v1 p)) &&
  option_eqb (option_eqb D_eqb) v2 (Some (Some (via_v2 p))).

Definition prop_ser (p : D) (o : outcome (option (Z * bool * option D * bool)) unit) (v1 v2 : option (option D)) : bool :=
  match o with
  | Ok (Some (ver, magic, Some q, stable)) =>
      magic && stable && D_eqb q p &&
      (* the older encoding whenever it can represent the content *)
      Bool.eqb (ver =? 1) (match v1 with Some _ => true | None => false end) &&
      ((ver =? 1) || (ver =? 2)) &&
      (* both explicit encodings parse *)
      match v1 with Some None => false | _ => true end &&
      match v2 with Some (Some _) => true | _ => false end
  | _ => false
  end.

Definition prop_parse (o : outcome (option (D * option D)) unit) : bool :=
  match o with
  | Panic => false
  | Ok None => true
  | Ok (Some (p, Some q)) => true
  | Ok (Some (_, None)) => false     (* what parses can be serialised and parsed again *)
  | Err _ => false
  end.

Definition run_parse (head : list N) (len : Z) (o : outcome (option (D * option D)) unit) : bool :=
  let magic := hex "50435a54" in
  let hd_ok := (8 <=? len) && bytes_eqb (firstn 4 head) magic in
  let ver := match skipn 4 head with [a; b; c; d] => (a + 256 * (b + 256 * (c + 256 * d)))%N | _ => 0%N end in
  match o with
  | Panic | Err _ => false
  | Ok None => true
  | Ok (Some (p, q)) =>
      hd_ok && (N.eqb ver 1 || N.eqb ver 2) &&
      match q with Some q' => D_eqb q' (snd (serialize_parse p)) | None => false end
  end.

(** ** The transaction described (observed through [Pczt::into_effects]) *)
Definition tx_of (p : D) : option D := obind (run_recipe tx_recipe pczt_schema p) tx_post.

Fixpoint recipe_paths (path : list string) (r : recipe) {struct r} : list (list string) :=
  match r with
  | RLeaf => [path]
  | RRec rs => (fix go (rs : list (string * recipe)) : list (list string) :=
                  match rs with [] => [] | (nm, r') :: rs' => recipe_paths (path ++ [nm]) r' ++ go rs' end) rs
  | RVec r' => recipe_paths path r'
  end.
Definition tx_paths : list (list string) := Eval vm_compute in recipe_paths [] tx_recipe.
Definition tx_mask : mask := Eval vm_compute in mask_of (fun p => mem_path p tx_paths) [] pczt_schema.
(** the fields the extraction reads, everything else blanked *)
Definition txfields (p : D) : D := project tx_mask p.

Definition run_effects (p : D) (t : option D) : bool :=
  match tx_of p, t with
  | Some m, Some t' => D_eqb m t'
  | Some _, None => false
  | None, _ => true
  end.
Definition prop_effects (p : D) (t : option D) : bool :=
  match t, tx_of (txfields p) with
  | Some t', Some m => D_eqb m t'
  | _, _ => true
  end.

(** ** The byte layer: the serde tree of [v1::Pczt] / [v2::Pczt] and the bytes written *)
Definition wval_eqb_fuel := 0%nat.
Fixpoint wval_eqb (a b : wval) {struct a} : bool :=
  match a, b with
  | VN x, VN y => N.eqb x y
  | VZ x, VZ y => Z.eqb x y
  | VB x, VB y => Bool.eqb x y
  | VL x, VL y => (fix go (x y : list wval) : bool :=
                     match x, y with [], [] => true | a' :: x', b' :: y' => wval_eqb a' b' && go x' y' | _, _ => false end) x y
  | VO None, VO None => true
  | VO (Some x), VO (Some y) => wval_eqb x y
  | VE t x, VE u y => Nat.eqb t u && wval_eqb x y
  | _, _ => false
  end.
Definition run_bytes (ver : Z) (v : wval) (b : list N) : bool :=
  option_eqb bytes_eqb (serialize_wire W_v1 W_v2 (Z.to_N ver) v) (Some b) &&
  match parse_wire W_v1 W_v2 b with
  | Ok (ver', v') => N.eqb ver' (Z.to_N ver) && wval_eqb v' v
  | _ => false
  end.
Definition prop_bytes (ver : Z) (b : list N) : bool :=
  bytes_eqb (firstn 4 b) MAGIC && ((ver =? 1) || (ver =? 2)) && N.eqb (of_le32 (firstn 4 (skipn 4 b))) (Z.to_N ver).

(** mutated encodings: whatever the implementation accepts, the wire model accepts (the model does
    not check UTF-8 nor the required v2 fields, so it may accept more) *)
Definition run_mut (b : list N) (impl_ok : bool) : bool :=
  implb impl_ok (match parse_wire W_v1 W_v2 b with Ok _ => true | _ => false end).
Definition prop_mut (b : list N) (impl_ok : bool) : bool :=
  implb impl_ok (Nat.leb 8 (List.length b) && bytes_eqb (firstn 4 b) MAGIC &&
                 (let v := of_le32 (firstn 4 (skipn 4 b)) in N.eqb v 1 || N.eqb v 2)).

(** ** A role step seen after [Pczt::resolve_fields]: the effecting fields INCLUDING the resolvable
    representations ([cv_net], [cmx], [enc_ciphertext]) are unchanged *)
Definition emask5f : mask := Eval vm_compute in mask_of (fun p => mem_path p (eff_paths false ++ eff_resolvable)) [] pczt_schema.
Definition emask6f : mask := Eval vm_compute in mask_of (fun p => mem_path p (eff_paths true ++ eff_resolvable)) [] pczt_schema.
Definition effects_full (p : D) : D := project (if is_v6 p then emask6f else emask5f) p.
Definition prop_resolved (rb ra : D) : bool := D_eqb (effects_full rb) (effects_full ra).
Definition run_resolved (rb ra : D) : bool :=
  forallb (fun p => negb (is_shape p)) (diff_paths pczt_schema [] rb ra).

(** ** [Pczt::serialize] / [Pczt::parse] on bytes through the embedding of the logical tree *)
Definition run_serb (p : D) (tbl : list wval) (b : list N) (back : option D) (v1ok : bool) : bool :=
  let lf := leaf_of tbl in
  option_eqb bytes_eqb (serialize_bytes lf p) (Some b) &&
  Bool.eqb v1ok (match via_v1 p with Some _ => true | None => false end) &&
  match back, parse_wire W_v1 W_v2 b with
  | Some q, Ok (ver, v) =>
      D_eqb q (snd (serialize_parse p)) &&
      match wire_of lf ver q with Some v' => wval_eqb v' v | None => false end
  | _, _ => false
  end.
Definition prop_serb (b : list N) (back : option D) (v1ok : bool) : bool :=
  bytes_eqb (firstn 4 b) MAGIC &&
  Bool.eqb (N.eqb (of_le32 (firstn 4 (skipn 4 b))) 1) v1ok &&
  match back with Some _ => true | None => false end.

Definition run_case (c : case) : bool :=
  match c with
  | CShape t => shape_ok t
  | CCombine ps tbl rs => run_combine ps tbl rs
  | CRole role _ b a _ _ => run_role role b a
  | CExtract _ _ _ => true
  | CSer p o v1 v2 => run_ser p o v1 v2
  | CParse h l o => run_parse h l o
  | CEffects p t => run_effects p t
  | CBytes ver v b => run_bytes ver v b
  | CMut b ok => run_mut b ok
  | CResolved _ rb ra => run_resolved rb ra
  | CSerB p tbl b back v1ok => run_serb p tbl b back v1ok
  end.

Definition prop_case (c : case) : bool :=
  match c with
  | CShape _ => true
  | CCombine ps tbl rs => prop_combine ps tbl rs
  | CRole role _ b a xb xa => prop_role role b a xb xa
  | CExtract _ xp xt => match xt with Some y => oz_eqb xp (Some y) | None => true end
  | CSer p o v1 v2 => prop_ser p o v1 v2
  | CParse _ _ o => prop_parse o
  | CEffects p t => prop_effects p t
  | CBytes ver _ b => prop_bytes ver b
  | CMut b ok => prop_mut b ok
  | CResolved _ rb ra => prop_resolved rb ra
  | CSerB _ _ b back v1ok => prop_serb b back v1ok
  end.

(** Class 1 is forgiven only when the round trip fails in exactly the listed way: everything else
    holds and the value read back differs from the one written in anchor fields only. *)
Local Open Scope string_scope.
Definition anchor_paths : list (list string) := [["sapling"; "anchor"]; ["orchard"; "anchor"]; ["ironwood"; "anchor"]].
Local Close Scope string_scope.
Definition ser_only_anchor_differs (p : D) (o : outcome (option (Z * bool * option D * bool)) unit) (v1 v2 : option (option D)) : bool :=
  match o with
  | Ok (Some (ver, magic, Some q, stable)) =>
      magic && stable &&
      forallb (fun d => mem_path d anchor_paths) (diff_paths pczt_schema [] p q) &&
      Bool.eqb (ver =? 1) (match v1 with Some _ => true | None => false end) &&
      ((ver =? 1) || (ver =? 2)) &&
      match v1 with Some None => false | _ => true end &&
      match v2 with Some (Some _) => true | _ => false end
  | _ => false
  end.
Definition known_class (c : case) : N :=
  match c with
  | CSer p o v1 v2 => if anchor_quirk p && ser_only_anchor_differs p o v1 v2 then 1%N else 0%N
  | _ => 0%N
  end.

Definition tag_case (c : case) : N :=
  match c with
  | CShape _ => 1
  | CCombine ps _ rs =>
      let ok := existsb (fun eo => match fst eo, snd eo with EC (_ :: _ :: _), Ok (Some _) => true | _, _ => false end) rs in
      let ko := existsb (fun eo => match fst eo, snd eo with EC (_ :: _ :: _), Ok None => true | _, _ => false end) rs in
      let ext := with_norm ps [] false (fun _ nps _ => negb (all_pairs same_len nps)) in
      10 + N.of_nat (List.length ps) + (if ok then 10 else 0) + (if ko then 20 else 0) + (if ext then 40 else 0)
  | CRole role _ b a xb xa =>
      100 + 10 * role + (match a with Some _ => 1 | None => 0 end) + (match xb with Some _ => 2 | None => 0 end)
      + (if is_v6 b then 4 else 0)
  | CExtract _ _ xt => 200 + match xt with Some _ => 1 | None => 0 end
  | CSer p o _ _ => 210 + (match o with Ok (Some (v, _, _, _)) => Z.to_N v | _ => 0 end) + (if anchor_quirk p then 4 else 0)
  | CParse _ _ o => 220 + match o with Ok None => 0 | Ok (Some _) => 1 | _ => 2 end
  | CEffects p t => 230 + (match tx_of p with Some _ => 1 | None => 0 end) + (match t with Some _ => 2 | None => 0 end)
                    + (if is_v6 p then 4 else 0)
  | CBytes ver _ _ => 240 + Z.to_N ver
  | CResolved role rb ra => 270 + role + (if D_eqb rb ra then 0 else 10)
  | CSerB p _ b _ _ => 300 + of_le32 (firstn 4 (skipn 4 b)) + (if anchor_quirk p then 4 else 0)
  | CMut b ok => 250 + (if ok then 1 else 0) + (match parse_wire W_v1 W_v2 b with Ok _ => 2 | Err TooShort => 4 | Err NotPczt => 6 | Err (UnknownVersion _) => 8 | _ => 0 end)
  end%N.
