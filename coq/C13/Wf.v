(** C13 — domain of the theorems as a boolean on cases: the observed trees have the shape of the
    regenerated schema (normalisation succeeds, every tree is typed by the faithful kind). *)
From V.Lib Require Import Base Hex.
From V.C13 Require Import Model Spec Corr.
From V.Gen Require Import C13Schema.

Definition wf_tree (p : D) : bool :=
  match norm (universe [p]) pczt_schema p with Some _ => true | None => false end.

Definition wf_case (c : case) : bool :=
  match c with
  | CShape _ => true
  | CCombine ps tbl rs =>
      with_norm ps tbl false (fun n nps ntbl =>
        forallb (fun eo => forallb (fun i => Nat.ltb i (List.length ps)) (leaves (fst eo))) rs)
  | CRole _ _ b a _ _ => wf_tree b && match a with Some a' => wf_tree a' | None => true end
  | CExtract p _ _ => wf_tree p
  | CSer p _ _ _ => wf_tree p
  | CParse _ _ _ => true
  end.
