(** C13 — domain of the theorems as a boolean on cases: the observed trees have the shape of the
    regenerated schema (normalisation succeeds, every tree is typed by the faithful kind). *)
From V.Lib Require Import Base Hex.
From V.C13 Require Import Model Spec Corr.
From V.Gen Require Import C13Schema.

Definition wf_tree (p : D) : bool :=
  match norm (universe [p]) pczt_schema p with Some _ => true | None => false end.

(** the harness reports a result tree by the first index at which it occurs in [parties ++ table] *)
Fixpoint index_of (d : D) (l : list D) : option nat :=
  match l with
  | [] => None
  | x :: r => if D_eqb d x then Some 0%nat else option_map S (index_of d r)
  end.
Definition first_idx (all : list D) (o : imp_res) : bool :=
  match o with
  | Ok (Some i) =>
      match nth_error all (Z.to_nat i) with
      | Some c => option_eqb Nat.eqb (index_of c all) (Some (Z.to_nat i)) && (0 <=? i)%Z
      | None => false
      end
  | _ => true
  end.

(** all parties of a combine case have the same shielded shape *)
Definition uniform_case (c : case) : bool :=
  match c with
  | CCombine ps tbl _ => with_norm ps tbl false (fun _ nps _ => all_pairs same_len nps)
  | _ => true
  end.

Definition wf_case (c : case) : bool :=
  match c with
  | CShape _ => true
  | CCombine ps tbl rs =>
      with_norm ps tbl false (fun n nps ntbl =>
        let all := nps ++ ntbl in
        forallb (fun eo => wf_expr (fst eo) &&
                           forallb (fun i => Nat.ltb i (List.length nps)) (leaves (fst eo)) &&
                           first_idx all (snd eo)) rs)
  | CRole _ _ b a _ _ => wf_tree b && match a with Some a' => wf_tree a' | None => true end
  | CExtract p _ _ => wf_tree p
  | CSer p _ _ _ => wf_tree p
  | CParse _ _ _ => true
  | CEffects p _ => wf_tree p
  | CBytes _ _ _ => true
  | CMut _ _ => true
  | CResolved _ rb ra => wf_tree rb && wf_tree ra
  | CSerB p _ _ _ _ => wf_tree p
  end.
