(** C13 — bridge for combine cases whose parties have ANY shielded shapes (Creator templates used for
    vector extension): agreement with the model implies the clauses of the property that do not
    depend on one common shape — no panic, idempotence, success iff compatible for two copies of
    equal shape, and every field kept except the derived [value_sum]. *)
From V.Lib Require Import Base Hex.
From Coq Require Import String Lia.
From V.C13 Require Import Model Spec Corr Wf Proofs Proofs2 Proofs3 Proofs4 Proofs5 Bridge Keeps.
From V.Gen Require Import C13Schema.
Local Open Scope Z_scope.

Definition prop_combine_any (ps tbl : list D) (rs : list (expr * imp_res)) : bool :=
  with_norm ps tbl false (fun n nps ntbl =>
    let all := nps ++ ntbl in
    forallb (fun eo => match snd eo with Panic => false | _ => true end) rs &&
    forallb (fun eo =>
      match fst eo, snd eo with
      | EC [EP i; EP j], o =>
          (if Nat.eqb i j then
             negb (typed (Kl n) (nthD nps i)) ||
             match o with Ok (Some r) => D_eqb (nthD all (Z.to_nat r)) (nthD nps i) | _ => false end
           else
             negb (same_len (nthD nps i) (nthD nps j)) ||
             Bool.eqb (match o with Ok (Some _) => true | _ => false end)
                      (compat (gflags (nthD nps i)) (gflags (nthD nps j)) (Kl n) (nthD nps i) (nthD nps j)))
      | _, _ => true
      end &&
      match snd eo with
      | Ok (Some r) => forallb (fun i => le (Kf n) (nthD nps i) (nthD all (Z.to_nat r))) (leaves (fst eo))
      | _ => true
      end) rs).

Lemma Kf_is n : Kf n = faithful_kind n (S_pczt (SRec fsg) S_transparent (Ssap S_s_spend S_s_output) (Sorc S_o_action)).
Proof. reflexivity. Qed.

Theorem gen_eval_keeps_any n P : Forall (fun q => shaped (Kf n) q = true) P -> forall e c,
  eval (M n) P e = Some c ->
  shaped (Kf n) c = true /\ Forall (fun i => (i < List.length P)%nat -> le (Kf n) (party P i) c = true) (leaves e).
Proof. exact (eval_keeps_any n fsg S_transparent S_s_spend S_s_output S_o_action Hss Hso Hsa P). Qed.

Lemma norm_all_shaped_f u l nl : norm_all u l = Some nl ->
  Forall (fun p => shaped (Kf (List.length u)) p = true) nl.
Proof.
  unfold norm_all. intros H. apply sequence_some in H.
  revert nl H. induction l as [|x l IH]; intros nl H; inversion H; subst; constructor.
  - apply (norm_shaped KLeft u (fun _ => eq_refl) pczt_schema x y H2).
  - apply IH; assumption.
Qed.

Lemma eval_pair m P i j pi pj : nth_error P i = Some pi -> nth_error P j = Some pj ->
  eval m P (EC [EP i; EP j]) = m pi pj.
Proof.
  intros Hi Hj. rewrite eval_EC_cons. cbn [eval map sequence]. rewrite Hi, Hj. cbn [obind fold_merge].
  destruct (m pi pj); reflexivity.
Qed.

Theorem combine_bridge_any ps tbl rs :
  wf_case (CCombine ps tbl rs) = true -> run_case (CCombine ps tbl rs) = true ->
  prop_combine_any ps tbl rs = true.
Proof.
  cbn [wf_case run_case]. unfold run_combine, prop_combine_any, with_norm.
  set (u := universe (ps ++ tbl)).
  destruct (norm_all u ps) as [nps|] eqn:Eps; [|discriminate].
  destruct (norm_all u tbl) as [ntbl|] eqn:Etbl; [|discriminate].
  intros W R. cbv zeta.
  pose proof (norm_all_shaped u ps nps Eps) as SL. pose proof (norm_all_shaped_f u ps nps Eps) as SF.
  set (n := List.length u) in *.
  assert (HW : forall eo, In eo rs ->
             Forall (fun i => (i < List.length nps)%nat) (leaves (fst eo))).
  { rewrite forallb_forall in W. intros eo I. specialize (W eo I).
    apply andb_true_iff in W. destruct W as [W _]. apply andb_true_iff in W. destruct W as [_ W2].
    rewrite forallb_forall in W2. apply Forall_forall. intros i Hi. apply Nat.ltb_lt. apply W2; exact Hi. }
  assert (HR : forall eo, In eo rs -> res_matches (nps ++ ntbl) (eval (M n) nps (fst eo)) (snd eo) = true).
  { rewrite forallb_forall in R. exact R. }
  apply andb_true_iff. split.
  - exact (no_panic n nps ntbl rs HR).
  - apply forallb_forall. intros eo I. pose proof (HR eo I) as Mx. pose proof (HW eo I) as Rg.
    destruct eo as [e o]. cbn [fst snd] in Mx, Rg |- *.
    apply andb_true_iff. split.
    + (* two copies *)
      destruct e as [k|l]; [reflexivity|].
      destruct l as [|[i|?] [|[j|?] [|? ?]]]; try reflexivity.
      cbn [leaves app] in Rg. inversion Rg as [|? ? Ri R']; subst. inversion R' as [|? ? Rj _]; subst.
      assert (Ni : nth_error nps i = Some (nthD nps i)) by (apply nth_error_nth'; exact Ri).
      assert (Nj : nth_error nps j = Some (nthD nps j)) by (apply nth_error_nth'; exact Rj).
      rewrite (eval_pair (M n) nps i j _ _ Ni Nj) in Mx.
      assert (Si : shaped (Kl n) (nthD nps i) = true) by (rewrite Forall_forall in SL; apply SL, nth_In, Ri).
      assert (Sj : shaped (Kl n) (nthD nps j) = true) by (rewrite Forall_forall in SL; apply SL, nth_In, Rj).
      apply res_matches_inv in Mx.
      destruct (Nat.eqb i j) eqn:Eij.
      * apply Nat.eqb_eq in Eij. subst j.
        destruct (typed (Kl n) (nthD nps i)) eqn:T; [|reflexivity]. cbn [negb orb].
        rewrite (gen_pczt_merge_idem n _ T) in Mx.
        destruct Mx as [[_ E]|(r & c & O & E & Nc)]; [discriminate|]. rewrite O. inversion E; subst c.
        rewrite (nthD_nth_error _ _ _ Nc). apply D_eqb_refl.
      * destruct (same_len (nthD nps i) (nthD nps j)) eqn:SLen; [|reflexivity]. cbn [negb orb].
        pose proof (gen_pczt_merge_conflict n _ _ Si Sj SLen) as C. unfold gflags.
        destruct Mx as [[O E]|(r & c & O & E & Nc)]; rewrite O.
        -- destruct (compat (pflags (nthD nps i)) (pflags (nthD nps j)) (Kl n) (nthD nps i) (nthD nps j)) eqn:EC; [|reflexivity].
           exfalso. apply (proj2 C eq_refl). exact E.
        -- assert (M n (nthD nps i) (nthD nps j) <> None) as NN by congruence.
           rewrite (proj1 C NN). reflexivity.
    + (* every field kept, whatever the shapes *)
      apply res_matches_inv in Mx. destruct Mx as [[O _]|(r & c & O & E & Nc)]; rewrite O; [reflexivity|].
      rewrite (nthD_nth_error _ _ _ Nc).
      destruct (gen_eval_keeps_any n nps SF e c E) as (_ & K).
      apply forallb_forall. intros i Hi. rewrite Forall_forall in K, Rg. exact (K i Hi (Rg i Hi)).
Qed.

Theorem gen_pczt_merge_keeps_any n a b c :
  shaped (Kf n) a = true -> shaped (Kf n) b = true -> M n a b = Some c ->
  shaped (Kf n) c = true /\ le (Kf n) a c = true /\ le (Kf n) b c = true.
Proof. exact (pczt_merge_keeps_any n fsg S_transparent S_s_spend S_s_output S_o_action Hss Hso Hsa a b c). Qed.
