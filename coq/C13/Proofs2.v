(** C13 — the bitmap, maps as finite functions, lawfulness of generated kinds, effects. *)
From V.Lib Require Import Base.
From Coq Require Import String.
From V.C13 Require Import Model Spec Proofs.
Local Open Scope Z_scope.

(** * The bitmap: the Rust byte arithmetic is the bit-wise merge *)
Definition ff (_ : nat) := false.
Definition oDl_eqb := option_eqb Dl_eqb.
Definition bytes_range : list Z := map Z.of_nat (seq 0 256).

Lemma bits_table :
  forallb (fun a => forallb (fun b =>
     oDl_eqb (option_map bits_of (bits_merge a b)) (merge_fields ff ff bit_kinds (bits_of a) (bits_of b)))
     bytes_range) bytes_range = true.
Proof. vm_compute. reflexivity. Qed.

Lemma in_bytes_range z : 0 <= z < 256 -> In z bytes_range.
Proof.
  intros H. unfold bytes_range. apply in_map_iff. exists (Z.to_nat z). split; [lia|].
  apply in_seq. lia.
Qed.

Lemma Dl_eqb_spec x y : Dl_eqb x y = true <-> x = y.
Proof.
  rewrite <- D_eqb_DS, D_eqb_spec. split; [intros E; inversion E; reflexivity | intros ->; reflexivity].
Qed.

Theorem bits_merge_bitwise a b : 0 <= a < 256 -> 0 <= b < 256 ->
  option_map bits_of (bits_merge a b) = merge_fields ff ff bit_kinds (bits_of a) (bits_of b).
Proof.
  intros Ha Hb. pose proof bits_table as T. rewrite forallb_forall in T.
  specialize (T a (in_bytes_range a Ha)). rewrite forallb_forall in T. specialize (T b (in_bytes_range b Hb)).
  unfold oDl_eqb in T. apply (option_eqb_spec Dl_eqb Dl_eqb_spec) in T. exact T.
Qed.

(** the merged flags are the conjunction of the parties' flags on the modifiable bits (0, 1, 7) *)
Lemma bits_flags_table :
  forallb (fun a => forallb (fun b =>
     match bits_merge a b with
     | Some c => forallb (fun i => Bool.eqb (Z.testbit c i) (Z.testbit a i && Z.testbit b i)) [0; 1; 7]
     | None => true
     end) bytes_range) bytes_range = true.
Proof. vm_compute. reflexivity. Qed.

Theorem bits_merge_flags a b c i : 0 <= a < 256 -> 0 <= b < 256 -> In i [0; 1; 7] ->
  bits_merge a b = Some c -> Z.testbit c i = (Z.testbit a i && Z.testbit b i)%bool.
Proof.
  intros Ha Hb Hi E. pose proof bits_flags_table as T. rewrite forallb_forall in T.
  specialize (T a (in_bytes_range a Ha)). rewrite forallb_forall in T. specialize (T b (in_bytes_range b Hb)).
  rewrite E in T. rewrite forallb_forall in T. specialize (T i Hi). apply Bool.eqb_prop in T. exact T.
Qed.

(** * [merge_map] is [merge_optional] key by key *)
Definition merge_opt (x y : option N) : option (option N) :=
  match x, y with
  | _, None => Some x
  | None, Some _ => Some y
  | Some a, Some b => if N.eqb a b then Some x else None
  end.

Lemma lookupN_app k l1 l2 :
  lookupN k (l1 ++ l2) = match lookupN k l1 with Some v => Some v | None => lookupN k l2 end.
Proof. induction l1 as [|[k' v] l1 IH]; [reflexivity|]. cbn. destruct (N.eqb k k'); [reflexivity | exact IH]. Qed.

Theorem merge_map_pointwise : forall rhs lhs r,
  nodupN (map fst rhs) = true ->
  merge_map lhs rhs = Some r ->
  forall k, Some (lookupN k r) = merge_opt (lookupN k lhs) (lookupN k rhs).
Proof.
  induction rhs as [|[k0 v0] rhs IH]; intros lhs r ND M k.
  - cbn in M. inversion M; subst. cbn. destruct (lookupN k r); reflexivity.
  - cbn [map fst nodupN] in ND. apply andb_true_iff in ND. destruct ND as [NM ND].
    cbn [merge_map] in M. cbn [lookupN].
    destruct (lookupN k0 lhs) as [v'|] eqn:L0.
    + destruct (N.eqb v' v0) eqn:EV; [|discriminate]. apply N.eqb_eq in EV; subst v'.
      rewrite (IH lhs r ND M k). destruct (N.eqb k k0) eqn:EK.
      * apply N.eqb_eq in EK; subst k. rewrite L0.
        assert (lookupN k0 rhs = None) as ->.
        { clear -NM. induction rhs as [|[k1 v1] rhs IH]; [reflexivity|]. cbn in *.
          apply negb_true_iff in NM. apply orb_false_iff in NM. destruct NM as [N1 N2]. rewrite N1.
          apply IH. rewrite N2. reflexivity. }
        cbn. rewrite N.eqb_refl. reflexivity.
      * reflexivity.
    + rewrite (IH (lhs ++ [(k0, v0)]) r ND M k). rewrite lookupN_app. cbn [lookupN].
      destruct (N.eqb k k0) eqn:EK.
      * apply N.eqb_eq in EK; subst k. rewrite L0.
        assert (lookupN k0 rhs = None) as ->.
        { clear -NM. induction rhs as [|[k1 v1] rhs IH]; [reflexivity|]. cbn in *.
          apply negb_true_iff in NM. apply orb_false_iff in NM. destruct NM as [N1 N2]. rewrite N1.
          apply IH. rewrite N2. reflexivity. }
        reflexivity.
      * destruct (lookupN k lhs); reflexivity.
Qed.

(** * Kinds generated from a schema *)
Section SInd.
  Variable P : skind -> Prop.
  Hypothesis HEq : P SEq.
  Hypothesis HOpt : P SOpt.
  Hypothesis HMap : P SMap.
  Hypothesis HBits : P SBits.
  Hypothesis HLeft : P SLeft.
  Hypothesis HRec : forall fs, Forall (fun x => P (snd x)) fs -> P (SRec fs).
  Hypothesis HVec : forall f k, P k -> P (SVec f k).
  Fixpoint skind_ind' (s : skind) : P s :=
    match s with
    | SEq => HEq | SOpt => HOpt | SMap => HMap | SBits => HBits | SLeft => HLeft
    | SRec fs => HRec fs ((fix go (l : list (string * skind)) : Forall (fun x => P (snd x)) l :=
                             match l with [] => Forall_nil _ | x :: r => Forall_cons _ (skind_ind' (snd x)) (go r) end) fs)
    | SVec f k' => HVec f k' (skind_ind' k')
    end.
End SInd.

Fixpoint kinds_of (left_as : kind) (n : nat) (fs : list (string * skind)) : list kind :=
  match fs with [] => [] | (_, s') :: r => kind_of left_as n s' :: kinds_of left_as n r end.
Lemma kind_of_rec left_as n fs : kind_of left_as n (SRec fs) = KRec (kinds_of left_as n fs).
Proof.
  cbn [kind_of]. f_equal. induction fs as [|[nm s] fs IH]; [reflexivity|]. cbn [kinds_of]. rewrite <- IH. reflexivity.
Qed.

Lemma lawful_repeat_opt n : lawful_list (repeat KOpt n) = true.
Proof. induction n; [reflexivity|]. cbn. exact IHn. Qed.

(** the lawful reference kind of any schema is lawful *)
Theorem lawful_kind_lawful n : forall s, lawful (lawful_kind n s) = true.
Proof.
  unfold lawful_kind. induction s using skind_ind'; try reflexivity.
  - cbn [kind_of]. rewrite lawful_rec. apply lawful_repeat_opt.
  - rewrite kind_of_rec, lawful_rec. induction H as [|[nm s] fs Hs Hfs IH]; [reflexivity|].
    cbn [kinds_of lawful_list]. cbn [snd] in Hs. rewrite Hs, IH. reflexivity.
  - cbn [kind_of lawful]. exact IHs.
Qed.

(** a schema without [SLeft] fields: the code's merge IS the lawful merge *)
Fixpoint slawful (s : skind) : bool :=
  match s with
  | SLeft => false
  | SRec fs => (fix go (fs : list (string * skind)) : bool :=
                  match fs with [] => true | (_, s') :: r => slawful s' && go r end) fs
  | SVec _ s' => slawful s'
  | _ => true
  end.
Fixpoint slawful_fields (fs : list (string * skind)) : bool :=
  match fs with [] => true | (_, s') :: r => slawful s' && slawful_fields r end.
Lemma slawful_rec fs : slawful (SRec fs) = slawful_fields fs.
Proof. cbn [slawful]. induction fs as [|[nm s] fs IH]; [reflexivity|]. cbn [slawful_fields]. rewrite <- IH. reflexivity. Qed.

Theorem faithful_is_lawful n : forall s, slawful s = true -> faithful_kind n s = lawful_kind n s.
Proof.
  unfold faithful_kind, lawful_kind. induction s using skind_ind'; intros L; try reflexivity; try discriminate.
  - rewrite slawful_rec in L. rewrite !kind_of_rec. f_equal.
    induction H as [|[nm s] fs Hs Hfs IH]; [reflexivity|].
    cbn [slawful_fields] in L. apply andb_true_iff in L. destruct L as [L1 L2].
    cbn [kinds_of]. cbn [snd] in Hs. rewrite (Hs L1), (IH L2). reflexivity.
  - cbn [slawful] in L. cbn [kind_of]. rewrite (IHs L). reflexivity.
Qed.

(** * Effects: a role that writes only non-effecting fields leaves the effects unchanged *)
Fixpoint masks_of (sel : list string -> bool) (path : list string) (fs : list (string * skind)) : list mask :=
  match fs with [] => [] | (nm, s') :: r => mask_of sel (path ++ [nm]) s' :: masks_of sel path r end.
Lemma mask_of_rec sel path fs : mask_of sel path (SRec fs) = MRec (masks_of sel path fs).
Proof.
  cbn [mask_of]. f_equal. induction fs as [|[nm s] fs IH]; [reflexivity|]. cbn [masks_of]. rewrite <- IH. reflexivity.
Qed.
Fixpoint project_fields (ms : list mask) (l : list D) : list D :=
  match ms, l with m' :: ms', x :: l' => project m' x :: project_fields ms' l' | _, _ => [] end.
Lemma project_rec ms l : project (MRec ms) (DS l) = DS (project_fields ms l).
Proof. reflexivity. Qed.
Fixpoint diff_fields (fs : list (string * skind)) (path : list string) (la lb : list D) : list (list string) :=
  match fs, la, lb with
  | [], [], [] => []
  | (nm, s') :: fs', x :: la', y :: lb' => diff_paths s' (path ++ [nm]) x y ++ diff_fields fs' path la' lb'
  | _, _, _ => [path ++ [shape_mark]]
  end.
Lemma diff_rec fs path la lb : diff_paths (SRec fs) path (DS la) (DS lb) = diff_fields fs path la lb.
Proof.
  cbn [diff_paths]. revert la lb. induction fs as [|[nm s] fs IH]; intros [|x la] [|y lb]; try reflexivity.
  cbn [diff_fields]. rewrite <- IH. reflexivity.
Qed.
Fixpoint diff_list (s : skind) (path : list string) (la lb : list D) : list (list string) :=
  match la, lb with
  | [], [] => []
  | x :: la', y :: lb' => diff_paths s path x y ++ diff_list s path la' lb'
  | _, _ => [path ++ [shape_mark]]
  end.
Lemma diff_vec f s path la lb : diff_paths (SVec f s) path (DL la) (DL lb) = diff_list s path la lb.
Proof.
  cbn [diff_paths]. revert lb. induction la as [|x la IH]; intros [|y lb]; try reflexivity.
  cbn [diff_list]. rewrite <- IH. reflexivity.
Qed.

Lemma is_shape_mark path : is_shape (path ++ [shape_mark]) = true.
Proof. unfold is_shape. rewrite last_last. reflexivity. Qed.

Definition allowed (sel : list string -> bool) (p : list string) : bool := negb (sel p) && negb (is_shape p).

Lemma not_allowed_shape sel path : allowed sel (path ++ [shape_mark]) = false.
Proof. unfold allowed. rewrite is_shape_mark. apply andb_false_r. Qed.

(** If every path at which two trees differ is a non-effecting leaf, their effects are equal. *)
Theorem unchanged_outside_effects (sel : list string -> bool) : forall s path a b,
  forallb (allowed sel) (diff_paths s path a b) = true ->
  project (mask_of sel path s) a = project (mask_of sel path s) b.
Proof.
  assert (LEAF : forall path a b,
     forallb (allowed sel) (if D_eqb a b then [] else [path]) = true ->
     project (MLeaf (sel path)) a = project (MLeaf (sel path)) b).
  { intros path a b H. destruct (D_eqb a b) eqn:E; [apply D_eqb_spec in E; subst; reflexivity|].
    cbn in H. unfold allowed in H. destruct (sel path); [discriminate | reflexivity]. }
  induction s using skind_ind'; intros path a b Hd; try (apply LEAF; exact Hd).
  - rewrite mask_of_rec.
    destruct a as [| | | | |la| |], b as [| | | | |lb| |];
      try (cbn [diff_paths forallb] in Hd; rewrite not_allowed_shape in Hd; discriminate).
    rewrite diff_rec in Hd. rewrite !project_rec. f_equal.
    revert la lb Hd. induction H as [|[nm s] fs Hs Hfs IH]; intros [|x la] [|y lb] Hd;
      try reflexivity; try (cbn [diff_fields forallb] in Hd; rewrite not_allowed_shape in Hd; discriminate).
    cbn [diff_fields] in Hd. rewrite forallb_app in Hd. apply andb_true_iff in Hd. destruct Hd as [H1 H2].
    cbn [masks_of project_fields]. cbn [snd] in Hs. rewrite (Hs _ _ _ H1), (IH _ _ H2). reflexivity.
  - cbn [mask_of].
    destruct a as [| | | | | |la|], b as [| | | | | |lb|];
      try (cbn [diff_paths forallb] in Hd; rewrite not_allowed_shape in Hd; discriminate).
    rewrite diff_vec in Hd. cbn [project]. f_equal.
    revert lb Hd. induction la as [|x la IH]; intros [|y lb] Hd;
      try reflexivity; try (cbn [diff_list forallb] in Hd; rewrite not_allowed_shape in Hd; discriminate).
    cbn [diff_list] in Hd. rewrite forallb_app in Hd. apply andb_true_iff in Hd. destruct Hd as [H1 H2].
    cbn [map]. rewrite (IHs _ _ _ H1), (IH _ H2). reflexivity.
Qed.

(** * Roles write outside the effects *)
From V.C13 Require Import Corr Wf.
From V.Gen Require Import C13Schema.

Lemma role_write_allowed v6 role p :
  role_may_write v6 role p = true -> allowed (fun q => mem_path q (eff_paths v6)) p = true.
Proof.
  unfold role_may_write, allowed. intros H. apply andb_true_iff in H. destruct H as [H _]. exact H.
Qed.

(** * Encoding version *)
Lemma minimal_version p : fst (serialize_parse p) = 1%N <-> via_v1 p <> None.
Proof. unfold serialize_parse. destruct (via_v1 p); cbn; split; congruence. Qed.

Lemma roundtrip_exact p : anchor_quirk p = false -> snd (serialize_parse p) = p.
Proof. unfold anchor_quirk. intros H. apply negb_false_iff in H. apply D_eqb_spec in H. exact H. Qed.

Definition quirk_witness : D :=
  DS [DS [DN 5; DN 0; DN 0; DO None; DN 0; DN 0; DN 0; DM []];
      DS [DL []; DL []];
      DS [DL []; DL []; DN 0; DO None; DO None];
      DS [DL []; DN 3; DA 3; DO None; DA 1; DO None; DO None];
      DS [DL []; DN 7; DA 3; DO None; DA 2; DO None; DO None]].

Lemma roundtrip_refuted : exists p, wf_tree p = true /\ fst (serialize_parse p) = 1%N /\ snd (serialize_parse p) <> p.
Proof.
  exists quirk_witness. split; [vm_compute; reflexivity|]. split; [vm_compute; reflexivity|].
  intros E. apply D_eqb_spec in E. vm_compute in E. discriminate.
Qed.

(** * Order dependence outside [same_len] *)
Definition g0 (fl : Z) : D := DS [DN 5; DN 0; DN 0; DO None; DN 0; DN 0; DS (bits_of fl); DS []].
Definition tb : D := DS [DL []; DL []].
Definition sb : D := DS [DL []; DL []; DN 0; DO None; DO None].
Definition ib : D := DS [DL []; DN 7; DA 3; DO None; DA 2; DO None; DO None].
Definition act (sig : option N) : D :=
  DS [DO (Some 9%N);
      DS [DA 10; DA 11; DO sig; DO None; DO None; DO None; DO None; DO None; DO None; DO None; DO None; DO None; DS []];
      DS [DO (Some 12%N); DA 13; DT 0 14; DA 15; DO None; DO None; DO None; DO None; DO None; DO None; DS []];
      DO None].
Definition ob (acts : list D) (vs : N) (bsk : option N) : D :=
  DS [DL acts; DN 3; DA vs; DO (Some 20%N); DA 1; DO None; DO bsk].
(** a: modifiable, no actions; b: one action; c: b after IO finalisation *)
Definition pa : D := DS [g0 131; tb; sb; ob [] 3 None; ib].
Definition pb : D := DS [g0 128; tb; sb; ob [act None] 30 None; ib].
Definition pc : D := DS [g0 0; tb; sb; ob [act (Some 40%N)] 30 (Some 41%N); ib].

Lemma order_dependence_refuted :
  exists a b c n, same_len a b = false /\ fold_merge (M n) a [b; c] <> fold_merge (M n) b [c; a].
Proof.
  exists pa, pb, pc, 0%nat. split; [vm_compute; reflexivity|].
  intros E. assert (oD_eqb (fold_merge (M 0) pa [pb; pc]) (fold_merge (M 0) pb [pc; pa]) = true) as H.
  { rewrite E. unfold oD_eqb. destruct (fold_merge (M 0) pb [pc; pa]); cbn; [apply D_eqb_refl | reflexivity]. }
  vm_compute in H. discriminate.
Qed.
