(** C13 — the code's bundle-level merges are the lawful reference merge on copies of equal
    shielded shape; the laws transfer to [pczt_merge]. *)
From V.Lib Require Import Base.
From Coq Require Import String Permutation Lia.
From V.C13 Require Import Model Spec Proofs Proofs2 Proofs3.
Local Open Scope Z_scope.

Lemma shaped_fields_len ks la : shaped_fields ks la = true -> List.length la = List.length ks.
Proof.
  revert la. induction ks as [|k ks IH]; intros [|x la] H; try discriminate; [reflexivity|].
  cbn in H. apply andb_true_iff in H. destruct H as [_ H]. cbn. f_equal. apply IH; exact H.
Qed.

Ltac len_destruct H la :=
  apply shaped_fields_len in H; cbn [List.length] in H;
  repeat (destruct la as [|? la]; cbn [List.length] in H; try lia).

Section Ident.
  Variable n : nat.
  Variables ss so sact : skind.
  Hypothesis Lss : slawful ss = true.
  Hypothesis Lso : slawful so = true.
  Hypothesis Lsa : slawful sact = true.

  Definition Ssap : skind :=
    SRec [("spends", SVec 7 ss); ("outputs", SVec 7 so); ("value_sum", SLeft); ("anchor", SOpt); ("bsk", SOpt)]%string.
  Definition Sorc : skind :=
    SRec [("actions", SVec 7 sact); ("flags", SEq); ("value_sum", SLeft); ("anchor", SOpt);
          ("note_version", SEq); ("zkproof", SOpt); ("bsk", SOpt)]%string.

  Let ks := lawful_kind n ss.
  Let ko := lawful_kind n so.
  Let ka := lawful_kind n sact.

  Lemma Kf_sap : faithful_kind n Ssap = KRec [KVec 7 ks; KVec 7 ko; KLeft; KOpt; KOpt].
  Proof.
    unfold faithful_kind, Ssap. rewrite kind_of_rec. cbn [kinds_of kind_of].
    fold (faithful_kind n ss). fold (faithful_kind n so).
    rewrite (faithful_is_lawful n ss Lss), (faithful_is_lawful n so Lso). reflexivity.
  Qed.
  Lemma Kl_sap : lawful_kind n Ssap = KRec [KVec 7 ks; KVec 7 ko; KEq; KOpt; KOpt].
  Proof. unfold lawful_kind, Ssap. rewrite kind_of_rec. reflexivity. Qed.
  Lemma Kf_orc : faithful_kind n Sorc = KRec [KVec 7 ka; KEq; KLeft; KOpt; KEq; KOpt; KOpt].
  Proof.
    unfold faithful_kind, Sorc. rewrite kind_of_rec. cbn [kinds_of kind_of].
    fold (faithful_kind n sact). rewrite (faithful_is_lawful n sact Lsa). reflexivity.
  Qed.
  Lemma Kl_orc : lawful_kind n Sorc = KRec [KVec 7 ka; KEq; KEq; KOpt; KEq; KOpt; KOpt].
  Proof. unfold lawful_kind, Sorc. rewrite kind_of_rec. reflexivity. Qed.


  Lemma sapling_ident fa fb a b :
    shaped (lawful_kind n Ssap) a = true -> shaped (lawful_kind n Ssap) b = true ->
    len1 a = len1 b -> len2 a = len2 b ->
    bundle_merge n sapling_pre Ssap fa fb a b = merge fa fb (lawful_kind n Ssap) a b.
  Proof.
    unfold bundle_merge. rewrite Kf_sap, Kl_sap. intros Sa Sb L1 L2.
    destruct a as [| | | | |la| |]; try discriminate. destruct b as [| | | | |lb| |]; try discriminate.
    rewrite shaped_rec in Sa, Sb.
    pose proof Sa as Sa'. pose proof Sb as Sb'.
    len_destruct Sa' la. len_destruct Sb' lb.
    rename d into x1, d0 into x2, d1 into x3, d2 into x4, d3 into x5.
    rename d4 into y1, d5 into y2, d6 into y3, d7 into y4, d8 into y5.
    cbn [shaped_fields shaped] in Sa, Sb.
    destruct x1 as [| | | | | |sa'|]; try discriminate. destruct x2 as [| | | | | |oa'|]; try (rewrite ?andb_false_r in Sa; discriminate).
    destruct y1 as [| | | | | |sb'|]; try discriminate. destruct y2 as [| | | | | |ob'|]; try (rewrite ?andb_false_r in Sb; discriminate).
    destruct x4 as [| | |an_a| | | |]; try (rewrite ?andb_false_r in Sa; cbn in Sa; rewrite ?andb_false_r in Sa; discriminate).
    destruct x5 as [| | |bsk_a| | | |]; try (rewrite ?andb_false_r in Sa; cbn in Sa; rewrite ?andb_false_r in Sa; discriminate).
    destruct y4 as [| | |an_b| | | |]; try (rewrite ?andb_false_r in Sb; cbn in Sb; rewrite ?andb_false_r in Sb; discriminate).
    destruct y5 as [| | |bsk_b| | | |]; try (rewrite ?andb_false_r in Sb; cbn in Sb; rewrite ?andb_false_r in Sb; discriminate).
    cbn [len1 len2 len_of] in L1, L2.
    rewrite !merge_rec. cbn [merge_fields].
    remember (merge fa fb (KVec 7 ks) (DL sa') (DL sb')) as o1.
    remember (merge fa fb (KVec 7 ko) (DL oa') (DL ob')) as o2.
    unfold sapling_pre, cmp_len. rewrite L1, L2, !Nat.compare_refl.
    destruct bsk_a as [p|], bsk_b as [q|]; destruct (D_eqb x3 y3) eqn:EV;
      try (destruct (N.eqb p q) eqn:EB); cbn [negb orb andb obind];
      rewrite ?merge_rec; cbn [merge_fields]; rewrite <- ?Heqo1, <- ?Heqo2;
      try (apply D_eqb_spec in EV; subst y3);
      cbn [merge]; rewrite ?EV, ?EB, ?D_eqb_refl;
      destruct o1, o2, an_a, an_b; cbn; try reflexivity;
      repeat match goal with |- context [N.eqb ?u ?v] => destruct (N.eqb u v) end; reflexivity.
  Qed.

  Lemma orchard_ident fa fb a b :
    shaped (lawful_kind n Sorc) a = true -> shaped (lawful_kind n Sorc) b = true ->
    len1 a = len1 b ->
    bundle_merge n orchard_pre Sorc fa fb a b = merge fa fb (lawful_kind n Sorc) a b.
  Proof.
    unfold bundle_merge. rewrite Kf_orc, Kl_orc. intros Sa Sb L1.
    destruct a as [| | | | |la| |]; try discriminate. destruct b as [| | | | |lb| |]; try discriminate.
    rewrite shaped_rec in Sa, Sb.
    pose proof Sa as Sa'. pose proof Sb as Sb'.
    len_destruct Sa' la. len_destruct Sb' lb.
    rename d into x1, d0 into x2, d1 into x3, d2 into x4, d3 into x5, d4 into x6, d5 into x7.
    rename d6 into y1, d7 into y2, d8 into y3, d9 into y4, d10 into y5, d11 into y6, d12 into y7.
    cbn [shaped_fields shaped] in Sa, Sb.
    destruct x1 as [| | | | | |xa'|]; try discriminate.
    destruct y1 as [| | | | | |xb'|]; try discriminate.
    destruct x4 as [| | |an_a| | | |]; try (cbn in Sa; rewrite ?andb_false_r in Sa; discriminate).
    destruct x6 as [| | |zk_a| | | |]; try (cbn in Sa; rewrite ?andb_false_r in Sa; discriminate).
    destruct x7 as [| | |bsk_a| | | |]; try (cbn in Sa; rewrite ?andb_false_r in Sa; discriminate).
    destruct y4 as [| | |an_b| | | |]; try (cbn in Sb; rewrite ?andb_false_r in Sb; discriminate).
    destruct y6 as [| | |zk_b| | | |]; try (cbn in Sb; rewrite ?andb_false_r in Sb; discriminate).
    destruct y7 as [| | |bsk_b| | | |]; try (cbn in Sb; rewrite ?andb_false_r in Sb; discriminate).
    cbn [len1 len_of] in L1.
    rewrite !merge_rec. cbn [merge_fields].
    remember (merge fa fb (KVec 7 ka) (DL xa') (DL xb')) as o1.
    unfold orchard_pre, cmp_len. rewrite L1, !Nat.compare_refl.
    destruct (D_eqb x2 y2) eqn:EF, (D_eqb x5 y5) eqn:EN; cbn [negb orb andb obind];
      destruct bsk_a as [p|], bsk_b as [q|]; destruct (D_eqb x3 y3) eqn:EV;
      try (destruct (N.eqb p q) eqn:EB); cbn [negb orb andb obind];
      rewrite ?merge_rec; cbn [merge_fields]; rewrite <- ?Heqo1;
      try (apply D_eqb_spec in EV; subst y3);
      cbn [merge]; rewrite ?EV, ?EB, ?EF, ?EN, ?D_eqb_refl;
      destruct o1, an_a, an_b, zk_a, zk_b; cbn; try reflexivity;
      repeat match goal with |- context [N.eqb ?u ?v] => destruct (N.eqb u v) end; reflexivity.
  Qed.
End Ident.

(** * Generic preservation lemmas *)
Lemma typed_shaped : forall k a, typed k a = true -> shaped k a = true.
Proof.
  induction k using kind_ind'; intros a T; try reflexivity; try exact T.
  - destruct a as [| |[|]| | | | |]; try discriminate; reflexivity.
  - destruct a as [| | | | |la| |]; try discriminate. rewrite typed_rec in T. rewrite shaped_rec.
    revert la T. induction H as [|k ks Hk Hks IH]; intros [|x la] T; try discriminate; [reflexivity|].
    cbn [typed_fields] in T. apply andb_true_iff in T. destruct T as [T1 T2].
    cbn [shaped_fields]. rewrite (Hk x T1), (IH la T2). reflexivity.
  - destruct a as [| | | | | |la|]; try discriminate. cbn [typed] in T. cbn [shaped].
    rewrite forallb_forall in *. intros x Hx. apply IHk. apply T. exact Hx.
Qed.

Lemma zipm_shaped (f : D -> D -> option D) (P : D -> bool) xa xb :
  (forall x y z, P x = true -> P y = true -> f x y = Some z -> P z = true) ->
  forall la lb lc, forallb P la = true -> forallb P lb = true ->
  zipm f xa xb la lb = Some lc -> forallb P lc = true.
Proof.
  intros Hf. induction la as [|x la IH]; intros [|y lb] lc Ha Hb Z; cbn [zipm] in Z.
  - inversion Z; reflexivity.
  - destruct xa; [|discriminate]. inversion Z; subst. exact Hb.
  - destruct xb; [|discriminate]. inversion Z; subst. exact Ha.
  - cbn [forallb] in Ha, Hb. apply andb_true_iff in Ha, Hb. destruct Ha as [Hx Hla], Hb as [Hy Hlb].
    destruct (f x y) as [z|] eqn:E; [|discriminate]. destruct (zipm f xa xb la lb) as [r|] eqn:Er; [|discriminate].
    inversion Z; subst. cbn [forallb]. rewrite (Hf x y z Hx Hy E), (IH lb r Hla Hlb Er). reflexivity.
Qed.

Theorem merge_shaped : forall k fa fb a b c,
  shaped k a = true -> shaped k b = true -> merge fa fb k a b = Some c -> shaped k c = true.
Proof.
  induction k using kind_ind'; intros fa fb a b c Sa Sb M; try reflexivity.
  - cbn [merge] in M. destruct a as [| | |[x|]| | | |], b as [| | |[y|]| | | |]; try discriminate;
      try (destruct (N.eqb x y); [|discriminate]); inversion M; reflexivity.
  - cbn [merge] in M. destruct a, b; try discriminate. inversion M; reflexivity.
  - cbn [merge] in M. destruct a, b; try discriminate. inversion M; reflexivity.
  - cbn [merge] in M. destruct a as [| |[|]| | | | |], b as [| |[|]| | | | |]; try discriminate. inversion M; reflexivity.
  - destruct a as [| | | | |la| |], b as [| | | | |lb| |]; try discriminate.
    rewrite merge_rec in M. destruct (merge_fields fa fb ks la lb) as [lc|] eqn:E; [|discriminate].
    cbn in M; inversion M; subst c; clear M. rewrite shaped_rec in *.
    revert la lb lc Sa Sb E. induction H as [|k ks Hk Hks IH]; intros [|x la] [|y lb] lc Sa Sb E; try discriminate.
    + inversion E; reflexivity.
    + cbn [shaped_fields] in Sa, Sb. apply andb_true_iff in Sa, Sb. destruct Sa as [Sx Sla], Sb as [Sy Slb].
      cbn [merge_fields] in E. destruct (merge fa fb k x y) as [z|] eqn:Ez; [|discriminate].
      destruct (merge_fields fa fb ks la lb) as [r|] eqn:Er; [|discriminate]. inversion E; subst.
      cbn [shaped_fields]. rewrite (Hk fa fb x y z Sx Sy Ez), (IH la lb r Sla Slb Er). reflexivity.
  - destruct a as [| | | | | |la|], b as [| | | | | |lb|]; try discriminate.
    rewrite merge_vec in M. destruct (zipm (merge fa fb k) (fa f) (fb f) la lb) as [lc|] eqn:E; [|discriminate].
    cbn in M; inversion M; subst c; clear M. cbn [shaped] in *.
    eapply zipm_shaped; [|exact Sa|exact Sb|exact E]. intros x y z; apply IHk.
Qed.

Lemma zipm_len_eq f xa xb : forall la lb lc,
  List.length la = List.length lb -> zipm f xa xb la lb = Some lc -> List.length lc = List.length la.
Proof.
  induction la as [|x la IH]; intros [|y lb] lc L Z; try discriminate L; cbn [zipm] in Z.
  - inversion Z; reflexivity.
  - destruct (f x y); [|discriminate]. destruct (zipm f xa xb la lb) as [r|] eqn:Er; [|discriminate].
    inversion Z; subst. cbn. f_equal. eapply IH; [|exact Er]. cbn in L. lia.
Qed.

Lemma merge_fields_nth fa fb : forall ks la lb lc i k,
  merge_fields fa fb ks la lb = Some lc -> nth_error ks i = Some k ->
  exists x y z, nth_error la i = Some x /\ nth_error lb i = Some y /\ nth_error lc i = Some z /\
                merge fa fb k x y = Some z.
Proof.
  induction ks as [|k0 ks IH]; intros [|x la] [|y lb] lc i k M N; try discriminate; try (destruct i; discriminate).
  cbn [merge_fields] in M. destruct (merge fa fb k0 x y) as [z|] eqn:Ez; [|discriminate].
  destruct (merge_fields fa fb ks la lb) as [r|] eqn:Er; [|discriminate]. inversion M; subst.
  destruct i as [|i]; cbn [nth_error] in *.
  - inversion N; subst. exists x, y, z. auto.
  - apply (IH la lb r i k Er N).
Qed.

Lemma nth_error_nth {A} (l : list A) i x d : nth_error l i = Some x -> nth i l d = x.
Proof. revert i. induction l as [|a l IH]; intros [|i] H; try discriminate; cbn in *; [congruence | apply IH; exact H]. Qed.

Lemma kinds_of_nth l n fs i :
  nth_error (kinds_of l n fs) i = option_map (fun x => kind_of l n (snd x)) (nth_error fs i).
Proof.
  revert i. induction fs as [|[nm s] fs IH]; intros [|i]; try reflexivity. cbn [kinds_of nth_error]. apply IH.
Qed.

(** the merged [tx_modifiable] bits 0, 1, 7 are the conjunctions *)
Lemma bits_and fa fb x y z j :
  In j [0; 1; 7]%nat -> merge fa fb (KRec bit_kinds) x y = Some z ->
  (match z with DS bits => match nth j bits (DB false) with DB b => b | _ => false end | _ => false end) =
  (match x with DS bits => match nth j bits (DB false) with DB b => b | _ => false end | _ => false end) &&
  (match y with DS bits => match nth j bits (DB false) with DB b => b | _ => false end | _ => false end).
Proof.
  intros Hj M. destruct x as [| | | | |bx| |], y as [| | | | |by'| |]; try discriminate.
  rewrite merge_rec in M. destruct (merge_fields fa fb bit_kinds bx by') as [bz|] eqn:E; [|discriminate].
  cbn in M; inversion M; subst z; clear M.
  assert (N : nth_error bit_kinds j = Some KAnd).
  { cbn in Hj. destruct Hj as [<-|[<-|[<-|[]]]]; reflexivity. }
  destruct (merge_fields_nth fa fb bit_kinds bx by' bz j KAnd E N) as (u & v & w & Hu & Hv & Hw & Mw).
  rewrite (nth_error_nth _ _ _ (DB false) Hu), (nth_error_nth _ _ _ (DB false) Hv), (nth_error_nth _ _ _ (DB false) Hw).
  cbn [merge] in Mw. destruct u, v; try discriminate. inversion Mw; reflexivity.
Qed.

(** lengths of the first / second vector of a record are preserved by a merge of equal lengths *)
Lemma len1_merge fa fb f k rest a b c :
  merge fa fb (KRec (KVec f k :: rest)) a b = Some c -> len1 a = len1 b -> len1 c = len1 a.
Proof.
  intros M L. destruct a as [| | | | |la| |], b as [| | | | |lb| |]; try discriminate.
  rewrite merge_rec in M. destruct la as [|x la], lb as [|y lb]; try discriminate.
  cbn [merge_fields] in M. destruct (merge fa fb (KVec f k) x y) as [z|] eqn:Ez; [|discriminate].
  destruct (merge_fields fa fb rest la lb) as [r|]; [|discriminate]. cbn in M. inversion M; subst c.
  destruct x as [| | | | | |vx|], y as [| | | | | |vy|]; try discriminate.
  rewrite merge_vec in Ez. destruct (zipm (merge fa fb k) (fa f) (fb f) vx vy) as [vz|] eqn:Z; [|discriminate].
  cbn in Ez. inversion Ez; subst z. cbn [len1 len_of] in *. eapply zipm_len_eq; eassumption.
Qed.
Lemma len2_merge fa fb k1 f k rest a b c :
  merge fa fb (KRec (k1 :: KVec f k :: rest)) a b = Some c -> len2 a = len2 b -> len2 c = len2 a.
Proof.
  intros M L. destruct a as [| | | | |la| |], b as [| | | | |lb| |]; try discriminate.
  rewrite merge_rec in M. destruct la as [|x1 [|x la]], lb as [|y1 [|y lb]]; try discriminate;
    try (cbn [merge_fields] in M; destruct (merge fa fb k1 x1 y1); discriminate).
  cbn [merge_fields] in M. destruct (merge fa fb k1 x1 y1) as [z1|]; [|discriminate].
  destruct (merge fa fb (KVec f k) x y) as [z|] eqn:Ez; [|discriminate].
  destruct (merge_fields fa fb rest la lb) as [r|]; [|discriminate]. cbn in M. inversion M; subst c.
  destruct x as [| | | | | |vx|], y as [| | | | | |vy|]; try discriminate.
  rewrite merge_vec in Ez. destruct (zipm (merge fa fb k) (fa f) (fb f) vx vy) as [vz|] eqn:Z; [|discriminate].
  cbn in Ez. inversion Ez; subst z. cbn [len2 len_of] in *. eapply zipm_len_eq; eassumption.
Qed.

Lemma list_eqb_nat_refl l : list_eqb Nat.eqb l l = true.
Proof. apply (list_eqb_spec Nat.eqb Nat.eqb_eq). reflexivity. Qed.


(** * Expressions *)
Section EInd.
  Variable P : expr -> Prop.
  Hypothesis HP : forall i, P (EP i).
  Hypothesis HC : forall l, Forall P l -> P (EC l).
  Fixpoint expr_ind' (e : expr) : P e :=
    match e with
    | EP i => HP i
    | EC l => HC l ((fix go (l : list expr) : Forall P l :=
                       match l with [] => Forall_nil _ | x :: r => Forall_cons _ (expr_ind' x) (go r) end) l)
    end.
End EInd.

Lemma leaves_EC l : leaves (EC l) = List.concat (map leaves l).
Proof. cbn [leaves]. induction l as [|x r IH]; [reflexivity|]. cbn [map List.concat]. rewrite <- IH. reflexivity. Qed.

Fixpoint wf_exprs (l : list expr) : bool := match l with [] => true | x :: r => wf_expr x && wf_exprs r end.
Lemma wf_expr_EC l : wf_expr (EC l) = match l with [] => false | _ :: _ => true end && wf_exprs l.
Proof. reflexivity. Qed.

Lemma leaves_nonempty : forall e, wf_expr e = true -> leaves e <> [].
Proof.
  induction e using expr_ind'; intros W; [discriminate|].
  rewrite wf_expr_EC in W. rewrite leaves_EC. destruct l as [|x r]; [discriminate|].
  cbn [andb wf_exprs] in W. apply andb_true_iff in W. destruct W as [Wx _].
  inversion H as [|? ? Hx _]; subst. cbn [map List.concat]. specialize (Hx Wx).
  destruct (leaves x); [congruence | discriminate].
Qed.

Lemma eval_EC_cons m ps x r :
  eval m ps (EC (x :: r)) =
  obind (eval m ps x) (fun v => obind (sequence (map (eval m ps) r)) (fun vs => fold_merge m v vs)).
Proof.
  cbn [eval].
  assert (G : forall l, (fix go (l : list expr) : option (list D) :=
                  match l with
                  | [] => Some []
                  | x :: r => match eval m ps x, go r with Some v, Some vs => Some (v :: vs) | _, _ => None end
                  end) l = sequence (map (eval m ps) l)).
  { induction l as [|y l IH]; [reflexivity|]. cbn [map sequence]. rewrite IH.
    destruct (eval m ps y), (sequence (map (eval m ps) l)); reflexivity. }
  rewrite G. destruct (eval m ps x) as [v|]; cbn [obind]; [|reflexivity].
  destruct (sequence (map (eval m ps) r)) as [vs|]; cbn [obind]; [|reflexivity].
  unfold combine_with. destruct (fold_merge m v vs); reflexivity.
Qed.

(** * The laws for [pczt_merge] itself *)
Section PcztLevel.
  Variable n : nat.
  Variable fsg : list (string * skind).
  Variables St ss so sact : skind.
  Hypothesis Lg : slawful (SRec fsg) = true.
  Hypothesis Hbits : exists nm, nth_error fsg 6 = Some (nm, SBits).
  Hypothesis Lt : slawful St = true.
  Hypothesis Lss : slawful ss = true.
  Hypothesis Lso : slawful so = true.
  Hypothesis Lsa : slawful sact = true.

  Definition PK : kind := lawful_kind n (S_pczt (SRec fsg) St (Ssap ss so) (Sorc sact)).
  Definition PM : D -> D -> option D := pczt_merge (SRec fsg) St (Ssap ss so) (Sorc sact) n.
  Definition RM : D -> D -> option D := ref_merge (SRec fsg) St (Ssap ss so) (Sorc sact) n.

  Lemma PK_eq : PK = KRec [lawful_kind n (SRec fsg); lawful_kind n St; lawful_kind n (Ssap ss so);
                           lawful_kind n (Sorc sact); lawful_kind n (Sorc sact)].
  Proof. unfold PK, lawful_kind, S_pczt. rewrite kind_of_rec. reflexivity. Qed.

  Lemma PK_lawful : lawful PK = true.
  Proof. apply lawful_kind_lawful. Qed.

  Lemma same_len_sym a b : same_len a b = same_len b a.
  Proof.
    unfold same_len. destruct (list_eqb Nat.eqb (shielded_lens a) (shielded_lens b)) eqn:E.
    - apply (list_eqb_spec Nat.eqb Nat.eqb_eq) in E. rewrite E. symmetry. apply list_eqb_nat_refl.
    - destruct (list_eqb Nat.eqb (shielded_lens b) (shielded_lens a)) eqn:E2; [|reflexivity].
      apply (list_eqb_spec Nat.eqb Nat.eqb_eq) in E2. rewrite E2, list_eqb_nat_refl in E. discriminate.
  Qed.

  Ltac shape5 S p l :=
    destruct p as [| | | | |l| |]; try discriminate; rewrite shaped_rec in S;
    let S' := fresh "S'" in pose proof S as S'; len_destruct S' l;
    cbn [shaped_fields] in S; rewrite !andb_true_iff in S.

  (** the code's merge of two well-shaped PCZTs of equal shielded shape is the lawful reference merge *)
  Theorem pczt_is_ref a b :
    shaped PK a = true -> shaped PK b = true -> same_len a b = true -> PM a b = RM a b.
  Proof.
    rewrite PK_eq. intros Sa Sb SL.
    shape5 Sa a la. shape5 Sb b lb.
    destruct Sa as (Sg1 & St1 & Ss1 & So1 & Si1 & _). destruct Sb as (Sg2 & St2 & Ss2 & So2 & Si2 & _).
    unfold same_len, shielded_lens in SL. apply (list_eqb_spec Nat.eqb Nat.eqb_eq) in SL. inversion SL as [[E1 E2 E3 E4]].
    unfold PM, pczt_merge, RM, ref_merge.
    rewrite (faithful_is_lawful n (SRec fsg) Lg), (faithful_is_lawful n St Lt).
    rewrite (sapling_ident n ss so Lss Lso _ _ _ _ Ss1 Ss2 E1 E2).
    rewrite (orchard_ident n sact Lsa _ _ _ _ So1 So2 E3).
    rewrite (orchard_ident n sact Lsa _ _ _ _ Si1 Si2 E4).
    fold PK. rewrite PK_eq, merge_rec. cbn [merge_fields].
    repeat match goal with |- context [merge ?f ?g ?k ?x ?y] => destruct (merge f g k x y) end; reflexivity.
  Qed.

  Lemma RM_merge a b : shaped PK a = true -> shaped PK b = true ->
    RM a b = merge (pflags a) (pflags b) PK a b.
  Proof.
    rewrite PK_eq. intros Sa Sb. shape5 Sa a la. shape5 Sb b lb. unfold RM, ref_merge. fold PK. reflexivity.
  Qed.

  Theorem pczt_merge_comm a b :
    shaped PK a = true -> shaped PK b = true -> same_len a b = true -> PM a b = PM b a.
  Proof.
    intros Sa Sb SL. rewrite (pczt_is_ref a b Sa Sb SL), (pczt_is_ref b a Sb Sa) by (rewrite same_len_sym; exact SL).
    rewrite (RM_merge a b Sa Sb), (RM_merge b a Sb Sa). apply merge_comm. apply PK_lawful.
  Qed.

  Lemma same_len_refl a : same_len a a = true.
  Proof. apply list_eqb_nat_refl. Qed.

  Theorem pczt_merge_idem a : typed PK a = true -> PM a a = Some a.
  Proof.
    intros T. pose proof (typed_shaped PK a T) as Sa.
    rewrite (pczt_is_ref a a Sa Sa (same_len_refl a)), (RM_merge a a Sa Sa). apply merge_idem; [apply PK_lawful | exact T].
  Qed.

  Theorem pczt_merge_keeps a b c :
    shaped PK a = true -> shaped PK b = true -> same_len a b = true ->
    PM a b = Some c -> le PK a c = true /\ le PK b c = true.
  Proof.
    intros Sa Sb SL M. rewrite (pczt_is_ref a b Sa Sb SL), (RM_merge a b Sa Sb) in M.
    eapply merge_keeps; eassumption.
  Qed.

  Theorem pczt_merge_conflict a b :
    shaped PK a = true -> shaped PK b = true -> same_len a b = true ->
    (PM a b <> None <-> compat (pflags a) (pflags b) PK a b = true).
  Proof.
    intros Sa Sb SL. rewrite (pczt_is_ref a b Sa Sb SL), (RM_merge a b Sa Sb). apply merge_some_iff_compat.
  Qed.

  (** ** Results of a successful merge: shape, lengths, flags *)
  Hypothesis Hflat : sflat (S_pczt (SRec fsg) St (Ssap ss so) (Sorc sact)) = true.

  Lemma PK_flat : flat PK = true.
  Proof. apply flat_kind_of; [reflexivity | exact Hflat]. Qed.

  Lemma RM_shaped a b c : shaped PK a = true -> shaped PK b = true -> RM a b = Some c -> shaped PK c = true.
  Proof. intros Sa Sb M. rewrite (RM_merge a b Sa Sb) in M. exact (merge_shaped PK _ _ a b c Sa Sb M). Qed.

  Lemma RM_parts a b c : shaped PK a = true -> shaped PK b = true -> RM a b = Some c ->
    exists ga ta sa oa ia gb tb sb ob ib g t s o i,
      a = DS [ga; ta; sa; oa; ia] /\ b = DS [gb; tb; sb; ob; ib] /\ c = DS [g; t; s; o; i] /\
      merge (pflags a) (pflags b) (lawful_kind n (SRec fsg)) ga gb = Some g /\
      merge (pflags a) (pflags b) (lawful_kind n (Ssap ss so)) sa sb = Some s /\
      merge (pflags a) (pflags b) (lawful_kind n (Sorc sact)) oa ob = Some o /\
      merge (pflags a) (pflags b) (lawful_kind n (Sorc sact)) ia ib = Some i.
  Proof.
    intros Sa Sb M. rewrite (RM_merge a b Sa Sb) in M. revert M. generalize (pflags a) (pflags b). intros fa fb M.
    rewrite PK_eq in *. shape5 Sa a la. shape5 Sb b lb.
    rewrite merge_rec in M. cbn [merge_fields] in M.
    repeat match type of M with context [merge ?f ?g ?k ?x ?y] => destruct (merge f g k x y) eqn:? end; try discriminate.
    cbn in M. inversion M; subst c. repeat eexists; eassumption.
  Qed.

  Lemma RM_lens a b c : shaped PK a = true -> shaped PK b = true -> same_len a b = true ->
    RM a b = Some c -> shielded_lens c = shielded_lens a.
  Proof.
    intros Sa Sb SL M.
    destruct (RM_parts a b c Sa Sb M) as (ga&ta&sa&oa&ia&gb&tb&sb&ob&ib&g&t&s&o&i&Ea&Eb&Ec&Mg&Ms&Mo&Mi).
    subst a b c. unfold same_len, shielded_lens in SL. apply (list_eqb_spec Nat.eqb Nat.eqb_eq) in SL.
    inversion SL as [[E1 E2 E3 E4]]. unfold shielded_lens.
    rewrite Kl_sap in Ms. rewrite Kl_orc in Mo, Mi.
    rewrite (len1_merge _ _ _ _ _ _ _ _ Ms E1), (len2_merge _ _ _ _ _ _ _ _ _ Ms E2),
            (len1_merge _ _ _ _ _ _ _ _ Mo E3), (len1_merge _ _ _ _ _ _ _ _ Mi E4). reflexivity.
  Qed.

  Lemma bit_at_merge fa fb ga gb g j : In j [0; 1; 7]%nat ->
    merge fa fb (lawful_kind n (SRec fsg)) ga gb = Some g -> bit_at g j = bit_at ga j && bit_at gb j.
  Proof.
    intros Hj M. unfold lawful_kind in M. rewrite kind_of_rec in M.
    destruct ga as [| | | | |la| |], gb as [| | | | |lb| |]; try discriminate.
    rewrite merge_rec in M. destruct (merge_fields fa fb (kinds_of KEq n fsg) la lb) as [lc|] eqn:E; [|discriminate].
    cbn in M. inversion M; subst g.
    destruct Hbits as [nm Hb].
    assert (N : nth_error (kinds_of KEq n fsg) 6 = Some (KRec bit_kinds)).
    { rewrite kinds_of_nth, Hb. reflexivity. }
    destruct (merge_fields_nth fa fb _ la lb lc 6%nat _ E N) as (x & y & z & Hx & Hy & Hz & Mz).
    unfold bit_at. rewrite (nth_error_nth _ _ _ (DN 0) Hx), (nth_error_nth _ _ _ (DN 0) Hy), (nth_error_nth _ _ _ (DN 0) Hz).
    apply (bits_and fa fb x y z j Hj Mz).
  Qed.

  Lemma RM_flags a b c : shaped PK a = true -> shaped PK b = true -> RM a b = Some c ->
    fl3_of (gl c) = and3 (fl3_of (gl a)) (fl3_of (gl b)).
  Proof.
    intros Sa Sb M.
    destruct (RM_parts a b c Sa Sb M) as (ga&ta&sa&oa&ia&gb&tb&sb&ob&ib&g&t&s&o&i&Ea&Eb&Ec&Mg&Ms&Mo&Mi).
    subst a b c. cbn [gl]. unfold fl3_of, and3.
    rewrite (bit_at_merge _ _ _ _ _ 0%nat ltac:(cbn; auto) Mg), (bit_at_merge _ _ _ _ _ 1%nat ltac:(cbn; auto) Mg),
            (bit_at_merge _ _ _ _ _ 7%nat ltac:(cbn; auto) Mg). reflexivity.
  Qed.

  (** ** [ref_merge] is an instance of the generic merge of items *)
  Definition item_of (p : D) : item := (fl3_of (gl p), p).

  Lemma imerge_item a b : shaped PK a = true -> shaped PK b = true ->
    imerge PK (item_of a) (item_of b) = option_map item_of (RM a b).
  Proof.
    intros Sa Sb. unfold imerge, item_of. cbn [fst snd].
    pose proof (RM_merge a b Sa Sb) as R. unfold pflags, flags_of in R. rewrite <- R.
    destruct (RM a b) as [c|] eqn:E; cbn [option_map]; [|reflexivity].
    rewrite (RM_flags a b c Sa Sb E). reflexivity.
  Qed.

  Lemma option_map_item_inj u v : option_map item_of u = option_map item_of v -> u = v.
  Proof. destruct u, v; cbn; intros H; inversion H; reflexivity. Qed.

  Lemma same_len_trans_lens a b : same_len a b = true -> shielded_lens a = shielded_lens b.
  Proof. apply (list_eqb_spec Nat.eqb Nat.eqb_eq). Qed.
  Lemma lens_same_len a b : shielded_lens a = shielded_lens b -> same_len a b = true.
  Proof. apply (list_eqb_spec Nat.eqb Nat.eqb_eq). Qed.

  Theorem pczt_merge_assoc a b c :
    shaped PK a = true -> shaped PK b = true -> shaped PK c = true ->
    same_len a b = true -> same_len b c = true ->
    obind (PM a b) (fun x => PM x c) = obind (PM b c) (fun y => PM a y).
  Proof.
    intros Sa Sb Sc Lab Lbc.
    pose proof (same_len_trans_lens a b Lab) as Eab. pose proof (same_len_trans_lens b c Lbc) as Ebc.
    assert (L : obind (PM a b) (fun x => PM x c) = obind (RM a b) (fun x => RM x c)).
    { rewrite (pczt_is_ref a b Sa Sb Lab). destruct (RM a b) as [x|] eqn:E; cbn [obind]; [|reflexivity].
      apply pczt_is_ref; [exact (RM_shaped a b x Sa Sb E) | exact Sc |].
      apply lens_same_len. rewrite (RM_lens a b x Sa Sb Lab E). congruence. }
    assert (R : obind (PM b c) (fun y => PM a y) = obind (RM b c) (fun y => RM a y)).
    { rewrite (pczt_is_ref b c Sb Sc Lbc). destruct (RM b c) as [y|] eqn:E; cbn [obind]; [|reflexivity].
      apply pczt_is_ref; [exact Sa | exact (RM_shaped b c y Sb Sc E) |].
      apply lens_same_len. rewrite (RM_lens b c y Sb Sc Lbc E). congruence. }
    rewrite L, R. apply option_map_item_inj.
    pose proof (imerge_assoc PK PK_lawful PK_flat (item_of a) (item_of b) (item_of c)) as A.
    rewrite (imerge_item a b Sa Sb), (imerge_item b c Sb Sc) in A.
    destruct (RM a b) as [x|] eqn:Ex, (RM b c) as [y|] eqn:Ey; cbn [obind option_map] in A |- *.
    - rewrite (imerge_item x c (RM_shaped a b x Sa Sb Ex) Sc), (imerge_item a y Sa (RM_shaped b c y Sb Sc Ey)) in A. exact A.
    - rewrite (imerge_item x c (RM_shaped a b x Sa Sb Ex) Sc) in A. exact A.
    - rewrite (imerge_item a y Sa (RM_shaped b c y Sb Sc Ey)) in A. exact A.
    - reflexivity.
  Qed.

  (** ** [Combiner::combine] on copies of one shielded shape *)
  Definition okp (L : list nat) (p : D) : Prop := shaped PK p = true /\ shielded_lens p = L.

  Lemma PM_okp L a b c : okp L a -> okp L b -> PM a b = Some c -> okp L c /\ RM a b = Some c.
  Proof.
    intros [Sa La] [Sb Lb] M. assert (SL : same_len a b = true) by (apply lens_same_len; congruence).
    rewrite (pczt_is_ref a b Sa Sb SL) in M. split; [|exact M]. split; [exact (RM_shaped a b c Sa Sb M)|].
    rewrite (RM_lens a b c Sa Sb SL M). exact La.
  Qed.

  Lemma fold_items L : forall l p, okp L p -> Forall (okp L) l ->
    option_map item_of (fold_merge PM p l) = ifold PK (item_of p) (map item_of l).
  Proof.
    induction l as [|q l IH]; intros p Hp Hl; [reflexivity|].
    inversion Hl as [|? ? Hq Hl']; subst. cbn [fold_merge map ifold].
    destruct Hp as [Sp Lp]. destruct Hq as [Sq Lq].
    assert (SL : same_len p q = true) by (apply lens_same_len; congruence).
    rewrite (imerge_item p q Sp Sq), (pczt_is_ref p q Sp Sq SL).
    destruct (RM p q) as [x|] eqn:E; cbn [obind option_map]; [|reflexivity].
    apply IH; [|exact Hl']. split; [exact (RM_shaped p q x Sp Sq E)|]. rewrite (RM_lens p q x Sp Sq SL E). exact Lp.
  Qed.

  Definition fold1 (l : list D) : option D := match l with [] => None | p :: r => fold_merge PM p r end.
  Lemma fold1_items L l : Forall (okp L) l -> option_map item_of (fold1 l) = icombine PK (map item_of l).
  Proof.
    destruct l as [|p r]; intros H; [reflexivity|]. inversion H; subst. cbn [fold1 map icombine]. eapply fold_items; eassumption.
  Qed.

  Lemma combine_fold1 l : combine_with PM l =
    match l with [] => Err NoPczts | _ :: _ => match fold1 l with Some c => Ok c | None => Err DataMismatch end end.
  Proof. destruct l; reflexivity. Qed.

  Theorem pczt_combine_perm L l l' :
    Forall (okp L) l -> Permutation l l' -> combine_with PM l = combine_with PM l'.
  Proof.
    intros H P.
    assert (H' : Forall (okp L) l').
    { rewrite Forall_forall in *. intros x Hx. apply H. eapply Permutation_in; [apply Permutation_sym; exact P | exact Hx]. }
    assert (F : fold1 l = fold1 l').
    { apply option_map_item_inj. rewrite (fold1_items L l H), (fold1_items L l' H').
      apply icombine_perm; [apply PK_lawful | apply PK_flat | apply Permutation_map; exact P]. }
    rewrite !combine_fold1, F. destruct l as [|p r], l' as [|p' r']; try reflexivity.
    - apply Permutation_nil in P. discriminate.
    - apply Permutation_sym, Permutation_nil in P. discriminate.
  Qed.

  (** ** Folds over copies of one shape: invariants, field keeping, grouping *)
  Lemma fold_okp L : forall l p c, okp L p -> Forall (okp L) l -> fold_merge PM p l = Some c -> okp L c.
  Proof.
    induction l as [|q l IH]; intros p c Hp Hl F.
    - cbn in F. inversion F; subst. exact Hp.
    - inversion Hl as [|? ? Hq Hl']; subst. cbn [fold_merge] in F.
      destruct (PM p q) as [x|] eqn:E; [|discriminate]. cbn [obind] in F.
      apply (IH x c); [exact (proj1 (PM_okp L p q x Hp Hq E)) | exact Hl' | exact F].
  Qed.

  Lemma fold_keeps L : forall l p c, okp L p -> Forall (okp L) l -> fold_merge PM p l = Some c ->
    le PK p c = true /\ Forall (fun q => le PK q c = true) l.
  Proof.
    induction l as [|q l IH]; intros p c Hp Hl F.
    - cbn in F. inversion F; subst. split; [apply le_refl; exact (proj1 Hp) | constructor].
    - inversion Hl as [|? ? Hq Hl']; subst. cbn [fold_merge] in F.
      destruct (PM p q) as [x|] eqn:E; [|discriminate]. cbn [obind] in F.
      destruct (PM_okp L p q x Hp Hq E) as [Hx _].
      destruct (IH x c Hx Hl' F) as [Lx Ll].
      assert (SL : same_len p q = true) by (apply lens_same_len; destruct Hp, Hq; congruence).
      destruct (pczt_merge_keeps p q x (proj1 Hp) (proj1 Hq) SL E) as [Lp Lq].
      split; [exact (le_trans PK p x c Lp Lx)|]. constructor; [exact (le_trans PK q x c Lq Lx) | exact Ll].
  Qed.

  Lemma fold1_perm L l l' : Forall (okp L) l -> Permutation l l' -> fold1 l = fold1 l'.
  Proof.
    intros H P.
    assert (H' : Forall (okp L) l').
    { rewrite Forall_forall in *. intros x Hx. apply H. eapply Permutation_in; [apply Permutation_sym; exact P | exact Hx]. }
    apply option_map_item_inj. rewrite (fold1_items L l H), (fold1_items L l' H').
    apply icombine_perm; [apply PK_lawful | apply PK_flat | apply Permutation_map; exact P].
  Qed.

  Lemma fold1_app L p l1 q l2 : Forall (okp L) (p :: l1) -> Forall (okp L) (q :: l2) ->
    fold_merge PM p (l1 ++ q :: l2) =
    obind (fold_merge PM p l1) (fun a => obind (fold_merge PM q l2) (fun b => PM a b)).
  Proof.
    intros H1 H2. inversion H1 as [|? ? Hp Hl1]; subst. inversion H2 as [|? ? Hq Hl2]; subst.
    apply option_map_item_inj.
    rewrite (fold_items L (l1 ++ q :: l2) p Hp) by (apply Forall_app; split; assumption).
    rewrite map_app. cbn [map]. rewrite ifold_append.
    rewrite <- (ifold_app PK PK_lawful PK_flat (map item_of l2) (item_of p) (item_of q) (map item_of l1)).
    rewrite <- (fold_items L l1 p Hp Hl1), <- (fold_items L l2 q Hq Hl2).
    destruct (fold_merge PM p l1) as [a|] eqn:Ea; cbn [obind option_map]; [|reflexivity].
    destruct (fold_merge PM q l2) as [b|] eqn:Eb; cbn [obind option_map]; [|reflexivity].
    pose proof (fold_okp L l1 p a Hp Hl1 Ea) as [Sa La]. pose proof (fold_okp L l2 q b Hq Hl2 Eb) as [Sb Lb].
    rewrite (imerge_item a b Sa Sb), (pczt_is_ref a b Sa Sb) by (apply lens_same_len; congruence). reflexivity.
  Qed.

  Lemma fold1_groups L : forall (groups : list (list D)) p lA,
    Forall (okp L) (p :: lA) -> Forall (fun g => g <> [] /\ Forall (okp L) g) groups ->
    obind (fold_merge PM p lA) (fun a => obind (sequence (map fold1 groups)) (fun vs => fold_merge PM a vs)) =
    fold_merge PM p (lA ++ List.concat groups).
  Proof.
    induction groups as [|g gs IH]; intros p lA HA HG.
    - cbn. rewrite app_nil_r. destruct (fold_merge PM p lA); reflexivity.
    - inversion HG as [|? ? [Hne Hg] HG']; subst. destruct g as [|q l2]; [congruence|].
      cbn [List.concat]. rewrite app_assoc.
      rewrite <- (IH p (lA ++ q :: l2)); [|inversion HA; subst; constructor; [assumption|apply Forall_app; split; assumption] | exact HG'].
      rewrite (fold1_app L p lA q l2 HA Hg).
      cbn [map sequence fold1].
      destruct (fold_merge PM p lA) as [a|]; cbn [obind]; [|reflexivity].
      destruct (fold_merge PM q l2) as [v|]; cbn [obind]; [|reflexivity].
      destruct (sequence (map fold1 gs)) as [vs|]; cbn [obind fold_merge].
      + reflexivity.
      + destruct (PM a v); reflexivity.
  Qed.

  (** ** Nested uses of the Combiner flatten: an expression over copies of one shape evaluates to
      the fold over its leaves *)
  Definition party (P : list D) (i : nat) : D := nth i P (DA 0).

  Lemma party_okp L P i : Forall (okp L) P -> (i < List.length P)%nat -> okp L (party P i).
  Proof. intros H Hi. rewrite Forall_forall in H. apply H. apply nth_In. exact Hi. Qed.

  Theorem eval_flat L P : Forall (okp L) P -> forall e,
    wf_expr e = true -> Forall (fun i => (i < List.length P)%nat) (leaves e) ->
    eval PM P e = fold1 (map (party P) (leaves e)).
  Proof.
    intros HP. induction e using expr_ind'; intros W R.
    - cbn [leaves map fold1 fold_merge eval]. inversion R; subst.
      unfold party. apply nth_error_nth' with (d := DA 0) in H1. exact H1.
    - rewrite wf_expr_EC in W. destruct l as [|x r]; [discriminate|]. cbn [andb wf_exprs] in W.
      apply andb_true_iff in W. destruct W as [Wx Wr].
      rewrite leaves_EC in R |- *. cbn [map List.concat] in R |- *. apply Forall_app in R. destruct R as [Rx Rr].
      inversion H as [|? ? Hx Hr]; subst. clear H.
      rewrite eval_EC_cons, (Hx Wx Rx).
      (* the children of [r] evaluate to the folds of their own leaves *)
      assert (E : map (eval PM P) r = map fold1 (map (fun y => map (party P) (leaves y)) r)).
      { clear Hx Rx Wx. revert Hr Wr Rr. induction r as [|y r IHr]; intros Hr Wr Rr; [reflexivity|].
        cbn [wf_exprs] in Wr. apply andb_true_iff in Wr. destruct Wr as [Wy Wr].
        cbn [map List.concat] in Rr. apply Forall_app in Rr. destruct Rr as [Ry Rr].
        inversion Hr as [|? ? Hy Hr']; subst. cbn [map]. rewrite (Hy Wy Ry), (IHr Hr' Wr Rr). reflexivity. }
      rewrite E. rewrite map_app, concat_map.
      pose proof (leaves_nonempty x Wx) as Nx. destruct (leaves x) as [|i0 lx] eqn:Elx; [congruence|].
      cbn [map fold1 app]. rewrite (map_map leaves (map (party P)) r).
      apply (fold1_groups L).
      + inversion Rx as [|? ? Ri0 Rlx]; subst. constructor; [apply party_okp; assumption|].
        rewrite Forall_forall. intros q Hq. apply in_map_iff in Hq. destruct Hq as [i [<- Hi]].
        apply party_okp; [exact HP|]. rewrite Forall_forall in Rlx. apply Rlx; exact Hi.
      + clear E Hx Rx Wx Elx Nx. revert Hr Wr Rr. induction r as [|y r IHr]; intros Hr Wr Rr; [constructor|].
        cbn [wf_exprs] in Wr. apply andb_true_iff in Wr. destruct Wr as [Wy Wr].
        cbn [map List.concat] in Rr. apply Forall_app in Rr. destruct Rr as [Ry Rr].
        inversion Hr as [|? ? Hy Hr']; subst. cbn [map]. constructor; [|apply IHr; assumption].
        split.
        * pose proof (leaves_nonempty y Wy). destruct (leaves y); [congruence | discriminate].
        * rewrite Forall_forall. intros q Hq. apply in_map_iff in Hq. destruct Hq as [i [<- Hi]].
          apply party_okp; [exact HP|]. rewrite Forall_forall in Ry. apply Ry; exact Hi.
  Qed.
End PcztLevel.
