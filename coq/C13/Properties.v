(** C13 — property theorems only (each closed by [exact]). *)
From V.Lib Require Import Base.
From Coq Require Import String.
From Coq Require Import Permutation.
From V.C13 Require Import Model Spec Corr Wf Proofs Proofs2 Proofs3 Proofs4 Proofs5 Bridge Extract Postcard PostcardProofs Roundtrip Wire WireProofs Bridge2 Keeps Bridge3.
From V.Gen Require Import C13Wire.
From V.Gen Require Import C13Schema.
Local Open Scope Z_scope.

(** ** Generic laws of schema-directed merging (all kinds without one-sided fields, all values) *)

(** order of the two copies does not matter (each side's own modifiable flags travel with it) *)
Theorem C13_merge_comm : forall k, lawful k = true ->
  forall fa fb a b, merge fa fb k a b = merge fb fa k b a.
Proof. exact merge_comm. Qed.

(** combining a well-formed copy with itself gives it back *)
Theorem C13_merge_idem : forall k, lawful k = true ->
  forall g a, typed k a = true -> merge g g k a a = Some a.
Proof. exact merge_idem. Qed.

(** every field either input carried is in the result (information order [le]) *)
Theorem C13_merge_keeps : forall k fa fb a b c,
  shaped k a = true -> shaped k b = true ->
  merge fa fb k a b = Some c -> le k a c = true /\ le k b c = true.
Proof. exact merge_keeps. Qed.

(** merging succeeds exactly when the copies are compatible; conflicting copies are rejected *)
Theorem C13_merge_some_iff_compat : forall k fa fb a b,
  (merge fa fb k a b <> None) <-> compat fa fb k a b = true.
Proof. exact merge_some_iff_compat. Qed.
Theorem C13_merge_conflict : forall k fa fb a b, compat fa fb k a b = false -> merge fa fb k a b = None.
Proof. exact merge_conflict. Qed.

(** grouping does not matter: merging (a.b) with c is merging a with (b.c); the flags of a merged
    copy are the conjunction of its constituents' flags — this is the lemma where a wrong rule for
    adopting a longer vector under the modifiable flags would surface *)
Theorem C13_merge_assoc : forall k, lawful k = true -> flat k = true ->
  forall fa fb fc a b c,
  obind (merge fa fb k a b) (fun x => merge (andf fa fb) fc k x c) =
  obind (merge fb fc k b c) (fun y => merge fa (andf fb fc) k a y).
Proof. exact merge_assoc. Qed.

(** [Combiner::combine] (left fold over copies, each carrying its own flags) is invariant under
    every permutation of the copies *)
Theorem C13_combine_perm : forall k, lawful k = true -> flat k = true ->
  forall l l', Permutation l l' -> icombine k l = icombine k l'.
Proof. exact icombine_perm. Qed.

(** ... and under grouping: combining p,l1 and q,l2 separately and then together is combining the
    whole sequence *)
Theorem C13_combine_grouping : forall k, lawful k = true -> flat k = true ->
  forall l2 p q l1,
  obind (ifold k p l1) (fun a => obind (ifold k q l2) (fun b => imerge k a b)) =
  obind (ifold k p l1) (fun a => ifold k a (q :: l2)).
Proof. exact ifold_app. Qed.

(** ** Instantiation: the schema regenerated from the Rust source *)

(** vectors of the generated schema are not nested *)
Theorem C13_schema_flat : forall n, flat (lawful_kind n pczt_schema) = true.
Proof. exact (fun n => flat_kind_of KEq n eq_refl pczt_schema eq_refl). Qed.


(** the reference kind of the generated schema is lawful, for every size of the key universe *)
Theorem C13_schema_lawful : forall n, lawful (lawful_kind n pczt_schema) = true.
Proof. exact (fun n => lawful_kind_lawful n pczt_schema). Qed.

(** [Global] and the transparent bundle have no one-sided field: there the code's merge is the
    lawful merge, with vector extension under the modifiable flags included *)
Theorem C13_global_transparent_faithful : forall n,
  faithful_kind n S_global = lawful_kind n S_global /\
  faithful_kind n S_transparent = lawful_kind n S_transparent.
Proof. exact (fun n => conj (faithful_is_lawful n S_global eq_refl) (faithful_is_lawful n S_transparent eq_refl)). Qed.

(** ** The laws for the code's merge of whole PCZTs ([M n] = roles/combiner [merge] with the
    regenerated schema), on well-shaped copies of equal shielded shape ([same_len]) *)

(** the code's merge — including the hand-transcribed bsk / value_sum / length rules of the
    Sapling and Orchard [Bundle::merge] — IS the lawful reference merge *)
Theorem C13_pczt_merge_is_reference : forall n a b,
  shaped (Kl n) a = true -> shaped (Kl n) b = true -> same_len a b = true ->
  M n a b = ref_merge S_global S_transparent S_sapling S_orchard n a b.
Proof. exact gen_pczt_is_ref. Qed.

Theorem C13_pczt_merge_comm : forall n a b,
  shaped (Kl n) a = true -> shaped (Kl n) b = true -> same_len a b = true -> M n a b = M n b a.
Proof. exact gen_pczt_merge_comm. Qed.

Theorem C13_pczt_merge_idem : forall n a, typed (Kl n) a = true -> M n a a = Some a.
Proof. exact gen_pczt_merge_idem. Qed.

Theorem C13_pczt_merge_keeps : forall n a b c,
  shaped (Kl n) a = true -> shaped (Kl n) b = true -> same_len a b = true ->
  M n a b = Some c -> le (Kl n) a c = true /\ le (Kl n) b c = true.
Proof. exact gen_pczt_merge_keeps. Qed.

Theorem C13_pczt_merge_conflict : forall n a b,
  shaped (Kl n) a = true -> shaped (Kl n) b = true -> same_len a b = true ->
  (M n a b <> None <-> compat (pflags a) (pflags b) (Kl n) a b = true).
Proof. exact gen_pczt_merge_conflict. Qed.

Theorem C13_pczt_merge_assoc : forall n a b c,
  shaped (Kl n) a = true -> shaped (Kl n) b = true -> shaped (Kl n) c = true ->
  same_len a b = true -> same_len b c = true ->
  obind (M n a b) (fun x => M n x c) = obind (M n b c) (fun y => M n a y).
Proof. exact gen_pczt_merge_assoc. Qed.

(** [Combiner::combine] on copies of one shielded shape [L] is invariant under permutation *)
Theorem C13_pczt_combine_perm : forall n L l l',
  Forall (okP n L) l -> Permutation l l' -> combine_with (M n) l = combine_with (M n) l'.
Proof. exact gen_pczt_combine_perm. Qed.

(** grouping: every nesting of [Combiner] calls (without an empty call) over copies of one shielded
    shape evaluates to the plain left fold over its leaves *)
Theorem C13_pczt_grouping : forall n L P, Forall (okP n L) P -> forall e,
  wf_expr e = true -> Forall (fun i => (i < List.length P)%nat) (leaves e) ->
  eval (M n) P e = F1 n (map (party P) (leaves e)).
Proof. exact gen_eval_flat. Qed.

(** ** Bridge (combine cases): on a well-formed case whose parties have one shielded shape,
    agreement of the implementation with the model implies the property on the implementation's
    own results (no panic; order and grouping independence; idempotence; success iff compatible;
    every field kept) *)
Theorem C13_combine_agree_implies_property : forall ps tbl rs,
  wf_case (CCombine ps tbl rs) = true -> known_class (CCombine ps tbl rs) = 0%N ->
  uniform_case (CCombine ps tbl rs) = true ->
  run_case (CCombine ps tbl rs) = true -> prop_case (CCombine ps tbl rs) = true.
Proof. exact (fun ps tbl rs W _ U R => combine_bridge ps tbl rs W U R). Qed.

(** the byte arithmetic of [Global::merge] on [tx_modifiable] is the bit-wise merge
    (bits 0, 1, 7 towards false, bit 2 towards true, bits 3-6 must be zero) *)
Theorem C13_bits_merge_bitwise : forall a b, 0 <= a < 256 -> 0 <= b < 256 ->
  option_map bits_of (bits_merge a b) = merge_fields ff ff bit_kinds (bits_of a) (bits_of b).
Proof. exact bits_merge_bitwise. Qed.

(** the merged modifiable flags are the conjunction of the parties' flags *)
Theorem C13_bits_merge_flags : forall a b c i, 0 <= a < 256 -> 0 <= b < 256 -> In i [0; 1; 7] ->
  bits_merge a b = Some c -> Z.testbit c i = (Z.testbit a i && Z.testbit b i)%bool.
Proof. exact bits_merge_flags. Qed.

(** [merge_map] (the loop over an association list) is [merge_optional] key by key *)
Theorem C13_merge_map_pointwise : forall rhs lhs r,
  nodupN (map fst rhs) = true -> merge_map lhs rhs = Some r ->
  forall k, Some (lookupN k r) = merge_opt (lookupN k lhs) (lookupN k rhs).
Proof. exact merge_map_pointwise. Qed.

(** ** Roles *)

(** a role whose writes stay outside the effecting fields (and keep the shape) leaves the effects,
    hence the implied identifier, unchanged — for any schema and any selection of effecting paths *)
Theorem C13_role_preserves_effects : forall (sel : list string -> bool) s path a b,
  forallb (allowed sel) (diff_paths s path a b) = true ->
  project (mask_of sel path s) a = project (mask_of sel path s) b.
Proof. exact unchanged_outside_effects. Qed.

(** no role's write set meets the effecting fields *)
Theorem C13_roles_write_outside_effects : forall v6 role p,
  role_may_write v6 role p = true -> allowed (fun q => mem_path q (eff_paths v6)) p = true.
Proof. exact role_write_allowed. Qed.

(** ** The transaction described ([tx_of]: transcription of [Pczt::extract_tx_data] with the
    [extract_effects] closures; agrees with [Pczt::into_effects] on every generated PCZT) *)

(** the extracted transaction has exactly the effects of the PCZT: it is a function of the effecting
    fields alone (blanking every other field does not change it) *)
Theorem C13_extract_effects : forall p, tx_of (txfields p) = tx_of p.
Proof. exact tx_of_txfields. Qed.
Theorem C13_same_effects_same_tx : forall p q, txfields p = txfields q -> tx_of p = tx_of q.
Proof. exact same_fields_same_tx. Qed.
(** every field the extraction reads is in the list of effecting fields the roles must not write *)
Theorem C13_tx_fields_are_effects :
  forallb (fun p => mem_path p (eff_paths false ++ eff_resolvable)) tx_paths = true.
Proof. exact tx_paths_are_effects. Qed.
(** a step that writes outside those fields leaves the described transaction unchanged *)
Theorem C13_role_preserves_tx : forall a b,
  forallb (allowed (fun p => mem_path p tx_paths)) (diff_paths pczt_schema [] a b) = true -> tx_of a = tx_of b.
Proof. exact role_preserves_tx. Qed.

(** ** Encoding version *)

(** the older encoding is chosen exactly when it can represent the content *)
Theorem C13_minimal_version : forall p, fst (serialize_parse p) = 1%N <-> via_v1 p <> None.
Proof. exact minimal_version. Qed.

(** outside the anchor-normalisation class the value read back is the value written *)
Theorem C13_roundtrip_exact : forall p, anchor_quirk p = false -> snd (serialize_parse p) = p.
Proof. exact roundtrip_exact. Qed.

(** ... with the class described explicitly: v1 reads an absent Sapling anchor back as zero and a
    zero Orchard anchor of an action-less bundle back as absent; v2 elides a bundle that is empty
    except for a zero anchor.  Everything else is read back exactly. *)
Theorem C13_roundtrip_exact_explicit : forall p, explicit_quirk p = false -> snd (serialize_parse p) = p.
Proof. exact roundtrip_exact_explicit. Qed.

(** the anchor-normalisation class is inhabited: a v5 PCZT whose Sapling bundle has no anchor is
    written as v1 and read back with the zero anchor (known finding C13-roundtrip-anchor) *)
Theorem C13_roundtrip_refuted : exists p, wf_tree p = true /\ fst (serialize_parse p) = 1%N /\ snd (serialize_parse p) <> p.
Proof. exact roundtrip_refuted. Qed.

(** ** The byte layer (postcard 1.1 + the PCZT header), for the wire shapes regenerated from the
    Rust type declarations of [v1::Pczt] and [v2::Pczt] *)

(** decoding what was encoded gives the value back and leaves the rest of the input, for every
    wire shape whose sequence elements occupy at least one byte and every value the shape admits *)
Theorem C13_postcard_roundtrip : forall w, wf_shape w = true ->
  forall v bs rest, enc w v = Some bs -> dec w (bs ++ rest) = Some (v, rest).
Proof. exact enc_dec. Qed.

(** varints: the loop of [try_take_varint_*] (accumulate [carry << 7 i]) is the recursive decoder *)
Theorem C13_varint_loop : forall fuel i acc lastmax bs,
  dec_varint_loop fuel i acc lastmax bs =
  match dec_varint fuel lastmax bs with Some (v, r) => Some (acc + v * 2 ^ (7 * i), r)%N | None => None end.
Proof. exact dec_varint_loop_eq. Qed.

(** [Pczt::parse] of what [v1::Pczt::serialize] / [v2::Pczt::serialize] wrote is the same serde
    value and version *)
Theorem C13_pczt_bytes_roundtrip : forall ver v bs,
  serialize_wire W_v1 W_v2 ver v = Some bs -> parse_wire W_v1 W_v2 bs = Ok (ver, v).
Proof. exact (fun ver v bs => parse_serialize_wire W_v1 W_v2 ver v bs eq_refl eq_refl). Qed.

(** parsing never panics: every byte string is answered by a value or by one of
    [TooShort | NotPczt | UnknownVersion | Invalid] *)
Theorem C13_parse_total : forall bs, parse_wire W_v1 W_v2 bs <> Panic.
Proof. exact (parse_wire_total W_v1 W_v2). Qed.
Theorem C13_parse_header_errors : forall bs,
  ((List.length bs < 8)%nat -> parse_wire W_v1 W_v2 bs = Err TooShort) /\
  ((8 <= List.length bs)%nat -> firstn 4 bs <> MAGIC -> parse_wire W_v1 W_v2 bs = Err NotPczt).
Proof. exact (parse_wire_errors W_v1 W_v2). Qed.

(** ** Logical PCZTs on bytes: [Pczt::serialize] = choose the version, embed the logical tree into
    the serde value of [v1::Pczt] / [v2::Pczt] ([wire_of]), encode; [Pczt::parse] = header, decode,
    read the logical tree back.  [leaf] is the serde value of each interned leaf — arbitrary, only
    required to be injective ([unleaf] inverts it).  [serialize_bytes leaf p = Some bs] says that the
    encoder is defined on [p], i.e. every leaf has the wire type of its position. *)

(** the embedding of logical trees into wire values can be read back, at every logical type and
    wire shape *)
Theorem C13_wire_embedding_roundtrip : forall leaf unleaf, (forall a, unleaf (leaf a) = Some a) ->
  forall lt w d v, emb leaf lt w d = Some v -> unemb unleaf lt w v = Some d.
Proof. exact emb_unemb. Qed.

(** parsing the bytes written gives the value the chosen encoding can carry ... *)
Theorem C13_parse_serialize_bytes : forall leaf unleaf, (forall a, unleaf (leaf a) = Some a) ->
  forall p bs, serialize_bytes leaf p = Some bs -> parse_bytes unleaf bs = Ok (snd (serialize_parse p)).
Proof. exact parse_serialize_bytes. Qed.

(** ... which is the PCZT itself outside the explicitly described anchor class *)
Theorem C13_pczt_roundtrip_bytes : forall leaf unleaf, (forall a, unleaf (leaf a) = Some a) ->
  forall p bs, serialize_bytes leaf p = Some bs -> explicit_quirk p = false -> parse_bytes unleaf bs = Ok p.
Proof. exact pczt_roundtrip_bytes. Qed.

(** the bytes start with the magic, and carry version 1 exactly when the v1 conversion is defined *)
Theorem C13_minimal_version_bytes : forall leaf p bs, serialize_bytes leaf p = Some bs ->
  firstn 4 bs = MAGIC /\ (of_le32 (firstn 4 (skipn 4 bs)) = 1%N <-> via_v1 p <> None).
Proof. exact minimal_version_bytes. Qed.

(** ** Bridges for the encoding cases *)
Theorem C13_ser_agree_implies_property : forall p o v1 v2,
  anchor_quirk p = false -> run_case (CSer p o v1 v2) = true -> prop_case (CSer p o v1 v2) = true.
Proof. exact ser_bridge. Qed.
Theorem C13_bytes_agree_implies_property : forall ver v b,
  run_case (CBytes ver v b) = true -> prop_case (CBytes ver v b) = true.
Proof. exact bytes_bridge. Qed.
Theorem C13_serb_agree_implies_property : forall p tbl b back v1ok,
  run_case (CSerB p tbl b back v1ok) = true -> prop_case (CSerB p tbl b back v1ok) = true.
Proof. exact serb_bridge. Qed.

(** ** Copies of ANY shielded shapes (vector extension from Creator templates included) *)

(** every field an input carried is in the result of the code's merge, except the derived
    [value_sum] ([Kf]: the faithful kind, where [value_sum] is a one-sided field); no [same_len] *)
Theorem C13_pczt_merge_keeps_any : forall n a b c,
  shaped (Kf n) a = true -> shaped (Kf n) b = true -> M n a b = Some c ->
  shaped (Kf n) c = true /\ le (Kf n) a c = true /\ le (Kf n) b c = true.
Proof. exact gen_pczt_merge_keeps_any. Qed.

(** ... and so for every nesting of Combiner calls over any well-shaped copies *)
Theorem C13_eval_keeps_any : forall n P, Forall (fun q => shaped (Kf n) q = true) P -> forall e c,
  eval (M n) P e = Some c ->
  shaped (Kf n) c = true /\ Forall (fun i => (i < List.length P)%nat -> le (Kf n) (party P i) c = true) (leaves e).
Proof. exact gen_eval_keeps_any. Qed.

(** bridge without the one-shape guard: agreement with the model implies the clauses of the property
    that do not need one common shape ([prop_combine_any]: no panic, idempotence, success iff
    compatible for two copies of equal shape, every field kept except the derived [value_sum]) *)
Theorem C13_combine_agree_implies_property_any : forall ps tbl rs,
  wf_case (CCombine ps tbl rs) = true -> run_case (CCombine ps tbl rs) = true ->
  prop_combine_any ps tbl rs = true.
Proof. exact combine_bridge_any. Qed.

(** ** Outside the domain: copies of different shielded shape *)

(** once one copy is IO-finalised (carries [bsk]) a shorter copy can no longer be combined with it,
    although it can be combined with the unfinalised copy first: order matters outside [same_len] *)
Theorem C13_order_dependence_outside_same_len_refuted :
  exists a b c n, same_len a b = false /\
    fold_merge (M n) a [b; c] <> fold_merge (M n) b [c; a].
Proof. exact order_dependence_refuted. Qed.

(** ** Non-vacuity *)
Example C13_nonvacuous :
  lawful (lawful_kind 1 pczt_schema) = true /\
  slawful S_global = true /\ slawful S_transparent = true /\ slawful S_sapling = false /\
  shape_ok shape_table = true.
Proof. vm_compute. repeat split. Qed.
