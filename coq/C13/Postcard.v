(** C13 — executable model of the byte layer: postcard 1.1 (varint, zig-zag, bool, option, sequence,
    tuple / struct, enum) driven by a wire shape, and the PCZT header (lib.rs [parse_header],
    [serialize_header], [Pczt::parse]).  No proofs in this file.

    Wire shapes of the two encodings are regenerated from the Rust struct declarations into
    [V.Gen.C13Wire]. *)
From V.Lib Require Import Base Hex.
Local Open Scope N_scope.

(** * Wire shapes and wire values *)
Inductive wshape :=
| WU8                               (* u8: one raw byte *)
| WVar (bits : N)                   (* u16 / u32 / u64 / u128: LEB128-style varint *)
| WZig (bits : N)                   (* i16 .. i128: zig-zag, then varint *)
| WBool
| WArr (n : nat) (w : wshape)       (* [T; n] and serde_with [_; n]: n elements, no prefix *)
| WSeq (w : wshape)                 (* Vec<T>, String, BTreeMap (as pairs): varint(usize) length, elements *)
| WOpt (w : wshape)                 (* Option<T>: 0 | 1 value *)
| WTup (ws : list wshape)           (* struct, tuple: the fields in order *)
| WEnum (vs : list wshape)          (* enum: varint(u32) variant index, payload *)
| WCheck (id : N) (w : wshape).     (* a Deserialize impl that validates the decoded value *)

Inductive wval :=
| VN (n : N)
| VZ (z : Z)
| VB (b : bool)
| VL (l : list wval)                (* array, sequence, tuple *)
| VO (o : option wval)
| VE (tag : nat) (v : wval).

(** Logical type of a field of the logical [Pczt] (how the Debug tree carries it): integer, opaque
    leaf, optional opaque leaf, [EncCiphertext], map of opaque leaves, record, vector of records. *)
Inductive ltype := LNum | LAtom | LOpt | LEnum | LMap | LRec (ls : list ltype) | LVec (l : ltype).

(** * Varints (postcard/src/varint.rs, de/deserializer.rs [try_take_varint_*]) *)
Definition varint_max (bits : N) : nat := N.to_nat ((bits + 6) / 7).
Definition max_of_last_byte (bits : N) : N := 2 ^ (bits mod 7) - 1.
Definition var_bits_ok (bits : N) : bool := (bits =? 16) || (bits =? 32) || (bits =? 64) || (bits =? 128).

(** [varint_uN]: low seven bits first, continuation bit 0x80 on all but the last byte. *)
Fixpoint enc_varint (fuel : nat) (n : N) : bytes :=
  match fuel with
  | O => []
  | S f => if n <? 128 then [n] else (128 + n mod 128) :: enc_varint f (n / 128)
  end.

(** [try_take_varint_uN]: at most [fuel] bytes; the byte in the last position may not exceed
    [lastmax]; a missing byte is an error.  (The value is accumulated low group first; written here
    as the equivalent recursion from the tail.) *)
Fixpoint dec_varint (fuel : nat) (lastmax : N) (bs : bytes) : option (N * bytes) :=
  match fuel with
  | O => None
  | S f =>
      match bs with
      | [] => None
      | b :: r =>
          if b <? 128 then
            (match f with O => if lastmax <? b then None else Some (b, r) | S _ => Some (b, r) end)
          else
            match dec_varint f lastmax r with
            | Some (hi, r') => Some (b mod 128 + 128 * hi, r')
            | None => None
            end
      end
  end.

(** the same decoder as the loop in the Rust source: accumulate [carry << (7 * i)] *)
Fixpoint dec_varint_loop (fuel : nat) (i : N) (acc : N) (lastmax : N) (bs : bytes) : option (N * bytes) :=
  match fuel with
  | O => None
  | S f =>
      match bs with
      | [] => None
      | b :: r =>
          let acc' := acc + (b mod 128) * 2 ^ (7 * i) in
          if b <? 128 then
            (match f with O => if lastmax <? b then None else Some (acc', r) | S _ => Some (acc', r) end)
          else dec_varint_loop f (i + 1) acc' lastmax r
      end
  end.

Definition zigzag (bits : N) (z : Z) : N := if (0 <=? z)%Z then Z.to_N (2 * z) else Z.to_N (- 2 * z - 1).
Definition unzigzag (n : N) : Z := if N.even n then Z.of_N (n / 2) else (- Z.of_N ((n + 1) / 2))%Z.

(** * Validating deserialisers *)
(** id 1: [MemoPlaintext] (orchard.rs [from_stripped_bytes]): at most 512 bytes, no trailing zero. *)
Definition MEMO_SIZE : N := 512.
Definition wcheck (id : N) (v : wval) : bool :=
  match id, v with
  | 1, VL l => (N.of_nat (List.length l) <=? MEMO_SIZE) &&
               match last l (VN 1) with VN 0 => false | _ => true end
  | _, _ => false
  end.

(** * Encoding *)
Fixpoint concat_opt (l : list (option bytes)) : option bytes :=
  match l with
  | [] => Some []
  | None :: _ => None
  | Some x :: r => match concat_opt r with Some y => Some (x ++ y) | None => None end
  end.

Fixpoint enc (w : wshape) (v : wval) {struct w} : option bytes :=
  match w, v with
  | WU8, VN n => if n <? 256 then Some [n] else None
  | WVar bits, VN n => if var_bits_ok bits && (n <? 2 ^ bits) then Some (enc_varint (varint_max bits) n) else None
  | WZig bits, VZ z =>
      if var_bits_ok bits && (- 2 ^ (Z.of_N bits - 1) <=? z)%Z && (z <? 2 ^ (Z.of_N bits - 1))%Z
      then Some (enc_varint (varint_max bits) (zigzag bits z)) else None
  | WBool, VB b => Some [if b then 1 else 0]
  | WArr n w', VL l =>
      if Nat.eqb (List.length l) n then concat_opt (map (enc w') l) else None
  | WSeq w', VL l =>
      if N.of_nat (List.length l) <? 2 ^ 64 then
        match concat_opt (map (enc w') l) with
        | Some b => Some (enc_varint (varint_max 64) (N.of_nat (List.length l)) ++ b)
        | None => None
        end
      else None
  | WOpt _, VO None => Some [0]
  | WOpt w', VO (Some x) => match enc w' x with Some b => Some (1 :: b) | None => None end
  | WTup ws, VL l =>
      (fix go (ws : list wshape) (l : list wval) {struct ws} : option bytes :=
         match ws, l with
         | [], [] => Some []
         | w' :: ws', x :: l' =>
             match enc w' x, go ws' l' with Some a, Some b => Some (a ++ b) | _, _ => None end
         | _, _ => None
         end) ws l
  | WEnum vs, VE tag x =>
      (fix pick (vs : list wshape) (k : nat) {struct vs} : option bytes :=
         match vs with
         | [] => None
         | w' :: r =>
             match k with
             | O => match enc w' x with
                    | Some b => if N.of_nat tag <? 2 ^ 32 then Some (enc_varint (varint_max 32) (N.of_nat tag) ++ b) else None
                    | None => None
                    end
             | S k' => pick r k'
             end
         end) vs tag
  | WCheck id w', _ => if wcheck id v then enc w' v else None
  | _, _ => None
  end.

(** * Decoding *)
Section DecN.
  Variable dec1 : bytes -> option (wval * bytes).
  Fixpoint dec_n (n : nat) (bs : bytes) : option (list wval * bytes) :=
    match n with
    | O => Some ([], bs)
    | S n' =>
        match dec1 bs with
        | Some (x, r) => match dec_n n' r with Some (l, r') => Some (x :: l, r') | None => None end
        | None => None
        end
    end.
End DecN.

Fixpoint dec (w : wshape) (bs : bytes) {struct w} : option (wval * bytes) :=
  match w with
  | WU8 => match bs with b :: r => Some (VN b, r) | [] => None end
  | WVar bits =>
      match dec_varint (varint_max bits) (max_of_last_byte bits) bs with
      | Some (n, r) => Some (VN n, r)
      | None => None
      end
  | WZig bits =>
      match dec_varint (varint_max bits) (max_of_last_byte bits) bs with
      | Some (n, r) => Some (VZ (unzigzag n), r)
      | None => None
      end
  | WBool => match bs with 0 :: r => Some (VB false, r) | 1 :: r => Some (VB true, r) | _ => None end
  | WArr n w' => match dec_n (dec w') n bs with Some (l, r) => Some (VL l, r) | None => None end
  | WSeq w' =>
      match dec_varint (varint_max 64) (max_of_last_byte 64) bs with
      | Some (len, r) =>
          (* every element of a PCZT sequence occupies at least one byte: a length beyond the
             remaining input cannot succeed (postcard would fail with an end-of-input error) *)
          if N.of_nat (List.length r) <? len then None
          else match dec_n (dec w') (N.to_nat len) r with Some (l, r') => Some (VL l, r') | None => None end
      | None => None
      end
  | WOpt w' =>
      match bs with
      | 0 :: r => Some (VO None, r)
      | 1 :: r => match dec w' r with Some (x, r') => Some (VO (Some x), r') | None => None end
      | _ => None
      end
  | WTup ws =>
      match (fix go (ws : list wshape) (bs : bytes) {struct ws} : option (list wval * bytes) :=
               match ws with
               | [] => Some ([], bs)
               | w' :: ws' =>
                   match dec w' bs with
                   | Some (x, r) => match go ws' r with Some (l, r') => Some (x :: l, r') | None => None end
                   | None => None
                   end
               end) ws bs with
      | Some (l, r) => Some (VL l, r)
      | None => None
      end
  | WEnum vs =>
      match dec_varint (varint_max 32) (max_of_last_byte 32) bs with
      | Some (tag, r) =>
          (fix pick (vs : list wshape) (k : nat) {struct vs} : option (wval * bytes) :=
             match vs with
             | [] => None
             | w' :: t =>
                 match k with
                 | O => match dec w' r with Some (x, r') => Some (VE (N.to_nat tag) x, r') | None => None end
                 | S k' => pick t k'
                 end
             end) vs (N.to_nat (N.min tag (N.of_nat (List.length vs))))
      | None => None
      end
  | WCheck id w' =>
      match dec w' bs with
      | Some (x, r) => if wcheck id x then Some (x, r) else None
      | None => None
      end
  end.

(** * The PCZT header and [Pczt::parse] at the wire level *)
Definition MAGIC : bytes := [80; 67; 90; 84].    (* "PCZT" *)
Definition le32 (v : N) : bytes := [v mod 256; (v / 256) mod 256; (v / 65536) mod 256; (v / 16777216) mod 256].
Definition of_le32 (b : bytes) : N :=
  match b with [a; b; c; d] => a + 256 * (b + 256 * (c + 256 * d)) | _ => 0 end.

Inductive perr := TooShort | NotPczt | UnknownVersion (v : N) | Invalid.

Section Wire.
  Variables W1 W2 : wshape.    (* v1::Pczt, v2::Pczt *)

  Definition serialize_wire (ver : N) (v : wval) : option bytes :=
    match (if ver =? 1 then enc W1 v else if ver =? 2 then enc W2 v else None) with
    | Some body => Some (MAGIC ++ le32 ver ++ body)
    | None => None
    end.

  (** [postcard::from_bytes] does not look at what follows the value. *)
  Definition parse_wire (bs : bytes) : outcome (N * wval) perr :=
    if Nat.ltb (List.length bs) 8 then Err TooShort
    else if negb (bytes_eqb (firstn 4 bs) MAGIC) then Err NotPczt
    else
      let ver := of_le32 (firstn 4 (skipn 4 bs)) in
      let body := skipn 8 bs in
      if ver =? 1 then match dec W1 body with Some (v, _) => Ok (1, v) | None => Err Invalid end
      else if ver =? 2 then match dec W2 body with Some (v, _) => Ok (2, v) | None => Err Invalid end
      else Err (UnknownVersion ver).
End Wire.
