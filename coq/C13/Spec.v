(** C13 — the property, stated independently of [merge]: an information order on PCZT trees
    ([le]: every field the input carried is in the result), pairwise compatibility ([compat]:
    the two copies do not conflict), equality of effects. *)
From V.Lib Require Import Base.
From V.C13 Require Import Model.
Local Open Scope Z_scope.

Fixpoint le (k : kind) (a c : D) {struct k} : bool :=
  match k with
  | KEq => D_eqb a c
  | KOpt => match a, c with
            | DO None, DO _ => true
            | DO (Some x), DO (Some y) => N.eqb x y
            | _, _ => false
            end
  | KAnd => match a, c with DB x, DB y => implb y x | _, _ => false end   (* merged towards false *)
  | KOr => match a, c with DB x, DB y => implb x y | _, _ => false end    (* merged towards true *)
  | KZero => match a, c with DB x, DB y => Bool.eqb x y | _, _ => false end
  | KLeft => true
  | KRec ks =>
      match a, c with
      | DS la, DS lc =>
          (fix go (ks : list kind) (la lc : list D) {struct ks} : bool :=
             match ks, la, lc with
             | [], [], [] => true
             | k' :: ks', x :: la', y :: lc' => le k' x y && go ks' la' lc'
             | _, _, _ => false
             end) ks la lc
      | _, _ => false
      end
  | KVec _ k' =>
      match a, c with
      | DL la, DL lc =>
          (fix go (la lc : list D) {struct la} : bool :=
             match la, lc with
             | [], _ => true
             | x :: la', y :: lc' => le k' x y && go la' lc'
             | _ :: _, [] => false
             end) la lc
      | _, _ => false
      end
  end.

Section Compat.
  Variables fa fb : nat -> bool.
  Fixpoint compat (k : kind) (a b : D) {struct k} : bool :=
    match k with
    | KEq => D_eqb a b
    | KOpt => match a, b with
              | DO (Some x), DO (Some y) => N.eqb x y
              | DO _, DO _ => true
              | _, _ => false
              end
    | KAnd | KOr => match a, b with DB _, DB _ => true | _, _ => false end
    | KZero => match a, b with DB false, DB false => true | _, _ => false end
    | KLeft => true
    | KRec ks =>
        match a, b with
        | DS la, DS lb =>
            (fix go (ks : list kind) (la lb : list D) {struct ks} : bool :=
               match ks, la, lb with
               | [], [], [] => true
               | k' :: ks', x :: la', y :: lb' => compat k' x y && go ks' la' lb'
               | _, _, _ => false
               end) ks la lb
        | _, _ => false
        end
    | KVec fl k' =>
        match a, b with
        | DL la, DL lb =>
            (fix go (la lb : list D) {struct la} : bool :=
               match la, lb with
               | [], [] => true
               | [], _ :: _ => fa fl
               | _ :: _, [] => fb fl
               | x :: la', y :: lb' => compat k' x y && go la' lb'
               end) la lb
        | _, _ => false
        end
    end.
End Compat.

(** A tree has the shape its kind prescribes. *)
Fixpoint typed (k : kind) (a : D) {struct k} : bool :=
  match k with
  | KEq | KLeft => true
  | KOpt => match a with DO _ => true | _ => false end
  | KAnd | KOr => match a with DB _ => true | _ => false end
  | KZero => match a with DB false => true | _ => false end   (* reserved bits are zero *)
  | KRec ks =>
      match a with
      | DS la =>
          (fix go (ks : list kind) (la : list D) {struct ks} : bool :=
             match ks, la with
             | [], [] => true
             | k' :: ks', x :: la' => typed k' x && go ks' la'
             | _, _ => false
             end) ks la
      | _ => false
      end
  | KVec _ k' => match a with DL la => forallb (typed k') la | _ => false end
  end.

(** Shape only: like [typed], but the reserved bits may hold anything. *)
Fixpoint shaped (k : kind) (a : D) {struct k} : bool :=
  match k with
  | KEq | KLeft => true
  | KOpt => match a with DO _ => true | _ => false end
  | KAnd | KOr | KZero => match a with DB _ => true | _ => false end
  | KRec ks =>
      match a with
      | DS la =>
          (fix go (ks : list kind) (la : list D) {struct ks} : bool :=
             match ks, la with
             | [], [] => true
             | k' :: ks', x :: la' => shaped k' x && go ks' la'
             | _, _ => false
             end) ks la
      | _ => false
      end
  | KVec _ k' => match a with DL la => forallb (shaped k') la | _ => false end
  end.

(** A kind with lawful merging: no field is taken from one side only. *)
Fixpoint lawful (k : kind) : bool :=
  match k with
  | KLeft => false
  | KRec ks => (fix go (ks : list kind) : bool := match ks with [] => true | k' :: r => lawful k' && go r end) ks
  | KVec _ k' => lawful k'
  | _ => true
  end.

(** Two PCZTs have shielded vectors of the same lengths (they describe the same shielded
    transaction shape). Positions: Pczt = [global; transparent; sapling; orchard; ironwood]. *)
Definition len_of (d : D) : nat := match d with DL l => List.length l | _ => 0 end.
Definition len1 (d : D) : nat := match d with DS (x :: _) => len_of x | _ => 0 end.
Definition len2 (d : D) : nat := match d with DS (_ :: y :: _) => len_of y | _ => 0 end.
Definition shielded_lens (p : D) : list nat :=
  match p with
  | DS [_; _; s; o; i] => [len1 s; len2 s; len1 o; len1 i]
  | _ => []
  end.
Definition same_len (a b : D) : bool := list_eqb Nat.eqb (shielded_lens a) (shielded_lens b).
