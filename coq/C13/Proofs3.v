(** C13 — associativity of schema-directed merging and invariance of [combine] under permutation. *)
From V.Lib Require Import Base.
From Coq Require Import String Permutation.
From V.C13 Require Import Model Spec Proofs.
Local Open Scope Z_scope.

(** Vectors of the PCZT schema are not nested: the elements of a vector contain no vector. *)
Fixpoint novec (k : kind) : bool :=
  match k with
  | KVec _ _ => false
  | KRec ks => (fix go (ks : list kind) : bool := match ks with [] => true | k' :: r => novec k' && go r end) ks
  | _ => true
  end.
Fixpoint flat (k : kind) : bool :=
  match k with
  | KVec _ k' => novec k'
  | KRec ks => (fix go (ks : list kind) : bool := match ks with [] => true | k' :: r => flat k' && go r end) ks
  | _ => true
  end.
Fixpoint novec_list (ks : list kind) : bool := match ks with [] => true | k :: r => novec k && novec_list r end.
Fixpoint flat_list (ks : list kind) : bool := match ks with [] => true | k :: r => flat k && flat_list r end.
Lemma novec_rec ks : novec (KRec ks) = novec_list ks.
Proof. cbn [novec]. induction ks as [|k ks IH]; [reflexivity|]. cbn [novec_list]. rewrite <- IH. reflexivity. Qed.
Lemma flat_rec ks : flat (KRec ks) = flat_list ks.
Proof. cbn [flat]. induction ks as [|k ks IH]; [reflexivity|]. cbn [flat_list]. rewrite <- IH. reflexivity. Qed.

Definition andf (f g : nat -> bool) : nat -> bool := fun i => f i && g i.

(** without vectors the flags are not consulted *)
Lemma merge_novec_flags : forall k, novec k = true ->
  forall fa fb fa' fb' a b, merge fa fb k a b = merge fa' fb' k a b.
Proof.
  induction k using kind_ind'; intros NV fa fb fa' fb' a b; try reflexivity; try discriminate.
  rewrite novec_rec in NV.
  destruct a as [| | | | |la| |], b as [| | | | |lb| |]; try reflexivity.
  rewrite !merge_rec. f_equal.
  revert la lb. induction H as [|k ks Hk Hks IH]; intros [|x la] [|y lb]; try reflexivity.
  cbn [novec_list] in NV. apply andb_true_iff in NV. destruct NV as [N1 N2].
  cbn [merge_fields]. rewrite (Hk N1 fa fb fa' fb' x y), (IH N2 la lb). reflexivity.
Qed.

Lemma zipm_nil_true f xb l : zipm f true xb [] l = Some l.
Proof. destruct l; reflexivity. Qed.

Ltac fin Hf IH :=
  cbn [obind] in Hf, IH |- *;
  first [rewrite Hf | rewrite <- Hf | idtac]; first [rewrite IH | rewrite <- IH | idtac];
  repeat match goal with |- context [match ?e with _ => _ end] => destruct e eqn:? end; first [reflexivity | congruence].

Lemma zipm_assoc (f : D -> D -> option D) (xa xb xc : bool) :
  (forall x y w, obind (f x y) (fun z => f z w) = obind (f y w) (fun z => f x z)) ->
  forall lx ly lz,
  obind (zipm f xa xb lx ly) (fun l => zipm f (xa && xb) xc l lz) =
  obind (zipm f xb xc ly lz) (fun l => zipm f xa (xb && xc) lx l).
Proof.
  intros Hf. induction lx as [|x lx IH]; intros [|y ly] [|w lz].
  - reflexivity.
  - cbn. destruct xa, xb, xc; reflexivity.
  - cbn. destruct xa, xb, xc; reflexivity.
  - destruct xa.
    + cbn [andb]. change (zipm f true xb [] (y :: ly)) with (Some (y :: ly)). cbn [obind].
      destruct (zipm f xb xc (y :: ly) (w :: lz)) as [l|]; cbn [obind]; [rewrite zipm_nil_true|]; reflexivity.
    + change (zipm f false xb [] (y :: ly)) with (@None (list D)). cbn [obind].
      cbn [zipm]. destruct (f y w), (zipm f xb xc ly lz); reflexivity.
  - cbn. destruct xa, xb, xc; reflexivity.
  - cbn [zipm obind]. destruct xb; cbn [obind andb]; [rewrite andb_true_r; reflexivity | reflexivity].
  - cbn [zipm obind]. destruct xc; cbn [obind].
    + rewrite andb_true_r. destruct (f x y), (zipm f xa xb lx ly); reflexivity.
    + destruct (f x y), (zipm f xa xb lx ly); reflexivity.
  - specialize (Hf x y w). specialize (IH ly lz). cbn [zipm].
    destruct (f x y) as [c|], (zipm f xa xb lx ly) as [r|], (f y w) as [c'|], (zipm f xb xc ly lz) as [r'|];
      cbn [zipm obind] in *; fin Hf IH.
Qed.

Lemma zipm_ext f g xa xb : (forall x y, f x y = g x y) -> forall l1 l2, zipm f xa xb l1 l2 = zipm g xa xb l1 l2.
Proof.
  intros E. induction l1 as [|x l1 IH]; intros [|y l2]; try reflexivity.
  cbn [zipm]. rewrite E, IH. reflexivity.
Qed.

Lemma novec_flat : forall k, novec k = true -> flat k = true.
Proof.
  induction k using kind_ind'; intros NV; try reflexivity; try discriminate.
  rewrite novec_rec in NV. rewrite flat_rec.
  induction H as [|k ks Hk Hks IH]; [reflexivity|].
  cbn [novec_list] in NV. apply andb_true_iff in NV. destruct NV as [N1 N2].
  cbn [flat_list]. rewrite (Hk N1), (IH N2). reflexivity.
Qed.

Theorem merge_assoc : forall k, lawful k = true -> flat k = true ->
  forall fa fb fc a b c,
  obind (merge fa fb k a b) (fun x => merge (andf fa fb) fc k x c) =
  obind (merge fb fc k b c) (fun y => merge fa (andf fb fc) k a y).
Proof.
  induction k using kind_ind'; intros L F fa fb fc a b c; try discriminate.
  - cbn [merge]. destruct (D_eqb a b) eqn:E1, (D_eqb b c) eqn:E2; cbn [obind].
    + apply D_eqb_spec in E1, E2; subst. rewrite !D_eqb_refl. reflexivity.
    + apply D_eqb_spec in E1; subst. rewrite E2. reflexivity.
    + apply D_eqb_spec in E2; subst. rewrite E1. reflexivity.
    + reflexivity.
  - cbn [merge]. destruct a as [| | |[x|]| | | |], b as [| | |[y|]| | | |], c as [| | |[w|]| | | |]; cbn [obind]; try reflexivity;
      repeat match goal with
             | |- context [N.eqb ?p ?q] => destruct (N.eqb_spec p q); subst; cbn [obind]
             end; try reflexivity; try congruence;
      try (destruct (N.eqb_spec x y); congruence); try (destruct (N.eqb_spec y w); congruence).
  - cbn [merge]. destruct a, b, c; cbn; try reflexivity. rewrite andb_assoc. reflexivity.
  - cbn [merge]. destruct a, b, c; cbn; try reflexivity. rewrite orb_assoc. reflexivity.
  - cbn [merge]. destruct a as [| |[|]| | | | |], b as [| |[|]| | | | |], c as [| |[|]| | | | |]; reflexivity.
  - rewrite lawful_rec in L. rewrite flat_rec in F.
    destruct a as [| | | | |la| |], b as [| | | | |lb| |], c as [| | | | |lc| |];
      try reflexivity; try (rewrite !merge_rec; destruct (merge_fields _ _ _ _ _); reflexivity).
    rewrite !merge_rec.
    assert (E : obind (merge_fields fa fb ks la lb) (fun l => merge_fields (andf fa fb) fc ks l lc) =
                obind (merge_fields fb fc ks lb lc) (fun l => merge_fields fa (andf fb fc) ks la l)).
    { revert la lb lc. induction H as [|k ks Hk Hks IH]; intros [|x la] [|y lb] [|w lc]; try reflexivity;
        try (cbn [merge_fields obind]; repeat match goal with |- context [match ?e with _ => _ end] => destruct e end; reflexivity).
      cbn [lawful_list flat_list] in L, F. apply andb_true_iff in L, F. destruct L as [L1 L2], F as [F1 F2].
      specialize (Hk L1 F1 fa fb fc x y w). specialize (IH L2 F2 la lb lc). cbn [merge_fields].
      destruct (merge fa fb k x y) as [z|], (merge_fields fa fb ks la lb) as [r|],
               (merge fb fc k y w) as [z'|], (merge_fields fb fc ks lb lc) as [r'|];
        cbn [merge_fields obind] in *; fin Hk IH. }
    destruct (merge_fields fa fb ks la lb) as [r|], (merge_fields fb fc ks lb lc) as [r'|];
      cbn [obind option_map] in *; rewrite ?merge_rec; first [rewrite E | rewrite <- E | idtac]; reflexivity.
  - cbn [lawful] in L. cbn [flat] in F.
    destruct a as [| | | | | |la|], b as [| | | | | |lb|], c as [| | | | | |lc|];
      try reflexivity; try (rewrite !merge_vec; destruct (zipm _ _ _ _ _); reflexivity).
    rewrite !merge_vec.
    set (g := merge (fun _ => false) (fun _ => false) k).
    assert (G : forall f1 f2 xa xb l1 l2, zipm (merge f1 f2 k) xa xb l1 l2 = zipm g xa xb l1 l2).
    { intros. apply zipm_ext. intros. unfold g. apply merge_novec_flags. exact F. }
    rewrite (G fa fb), (G fb fc).
    assert (Hg : forall x y w, obind (g x y) (fun z => g z w) = obind (g y w) (fun z => g x z)).
    { intros x y w. unfold g. set (o := fun _ : nat => false).
      pose proof (IHk L (novec_flat k F) o o o x y w) as A.
      destruct (merge o o k x y) as [z|], (merge o o k y w) as [z'|]; cbn [obind] in A |- *.
      - rewrite (merge_novec_flags k F (andf o o) o o o z w) in A.
        rewrite (merge_novec_flags k F o (andf o o) o o x z') in A. exact A.
      - rewrite (merge_novec_flags k F (andf o o) o o o z w) in A. exact A.
      - rewrite (merge_novec_flags k F o (andf o o) o o x z') in A. exact A.
      - reflexivity. }
    pose proof (zipm_assoc g (fa f) (fb f) (fc f) Hg la lb lc) as Z.
    destruct (zipm g (fa f) (fb f) la lb) as [r|], (zipm g (fb f) (fc f) lb lc) as [r'|];
      cbn [obind option_map] in *; rewrite ?merge_vec, ?G; try unfold andf; cbn beta;
      first [rewrite Z | rewrite <- Z | idtac]; reflexivity.
Qed.

(** * Combining a list of copies is invariant under permutation *)

Lemma merge_flags_ext : forall k fa fb fa' fb',
  (forall i, fa i = fa' i) -> (forall i, fb i = fb' i) ->
  forall a b, merge fa fb k a b = merge fa' fb' k a b.
Proof.
  induction k using kind_ind'; intros fa fb fa' fb' Ha Hb a b; try reflexivity.
  - destruct a as [| | | | |la| |], b as [| | | | |lb| |]; try reflexivity.
    rewrite !merge_rec. f_equal.
    revert la lb. induction H as [|k ks Hk Hks IH]; intros [|x la] [|y lb]; try reflexivity.
    cbn [merge_fields]. rewrite (Hk fa fb fa' fb' Ha Hb x y), (IH la lb). reflexivity.
  - destruct a as [| | | | | |la|], b as [| | | | | |lb|]; try reflexivity.
    rewrite !merge_vec, Ha, Hb. f_equal. apply zipm_ext. intros; apply IHk; assumption.
Qed.

Lemma getf_and3 f g i : getf (and3 f g) i = andf (getf f) (getf g) i.
Proof.
  destruct f as [[a b] c], g as [[a' b'] c']. unfold andf. cbn.
  do 8 (destruct i as [|i]; [reflexivity|]). reflexivity.
Qed.
Lemma and3_comm f g : and3 f g = and3 g f.
Proof. destruct f as [[a b] c], g as [[a' b'] c']. cbn. rewrite (andb_comm a), (andb_comm b), (andb_comm c). reflexivity. Qed.
Lemma and3_assoc f g h : and3 (and3 f g) h = and3 f (and3 g h).
Proof. destruct f as [[a b] c], g as [[a' b'] c'], h as [[a2 b2] c2]. cbn. rewrite !andb_assoc. reflexivity. Qed.

(** a copy together with its own flags; the merged copy carries the conjunction (this is what
    [Global::merge] computes: [bits_merge_flags]) *)
Definition item := (fl3 * D)%type.
Definition imerge (k : kind) (x y : item) : option item :=
  option_map (fun c => (and3 (fst x) (fst y), c)) (merge (getf (fst x)) (getf (fst y)) k (snd x) (snd y)).
Fixpoint ifold (k : kind) (acc : item) (l : list item) : option item :=
  match l with
  | [] => Some acc
  | p :: r => obind (imerge k acc p) (fun a => ifold k a r)
  end.
Definition icombine (k : kind) (l : list item) : option item :=
  match l with [] => None | p :: r => ifold k p r end.

Lemma imerge_comm k : lawful k = true -> forall x y, imerge k x y = imerge k y x.
Proof.
  intros L [fx x] [fy y]. unfold imerge. cbn [fst snd].
  rewrite (merge_comm k L (getf fx) (getf fy) x y), (and3_comm fx fy). reflexivity.
Qed.

Lemma imerge_assoc k : lawful k = true -> flat k = true -> forall x y z,
  obind (imerge k x y) (fun xy => imerge k xy z) = obind (imerge k y z) (fun yz => imerge k x yz).
Proof.
  intros L F [fx x] [fy y] [fz z]. unfold imerge. cbn [fst snd].
  pose proof (merge_assoc k L F (getf fx) (getf fy) (getf fz) x y z) as A.
  destruct (merge (getf fx) (getf fy) k x y) as [xy|], (merge (getf fy) (getf fz) k y z) as [yz|];
    cbn [obind option_map fst snd] in A |- *.
  - rewrite (merge_flags_ext k (getf (and3 fx fy)) (getf fz) (andf (getf fx) (getf fy)) (getf fz)
               (getf_and3 fx fy) (fun _ => eq_refl)).
    rewrite (merge_flags_ext k (getf fx) (getf (and3 fy fz)) (getf fx) (andf (getf fy) (getf fz))
               (fun _ => eq_refl) (getf_and3 fy fz)).
    rewrite A, and3_assoc. reflexivity.
  - rewrite (merge_flags_ext k (getf (and3 fx fy)) (getf fz) (andf (getf fx) (getf fy)) (getf fz)
               (getf_and3 fx fy) (fun _ => eq_refl)).
    rewrite A. reflexivity.
  - rewrite (merge_flags_ext k (getf fx) (getf (and3 fy fz)) (getf fx) (andf (getf fy) (getf fz))
               (fun _ => eq_refl) (getf_and3 fy fz)).
    rewrite <- A. reflexivity.
  - reflexivity.
Qed.

Lemma obind_assoc {A B C} (o : option A) (f : A -> option B) (g : B -> option C) :
  obind (obind o f) g = obind o (fun a => obind (f a) g).
Proof. destruct o; reflexivity. Qed.

Lemma imerge_swap k : lawful k = true -> flat k = true -> forall acc x y,
  obind (imerge k acc x) (fun a => imerge k a y) = obind (imerge k acc y) (fun a => imerge k a x).
Proof.
  intros L F acc x y.
  rewrite (imerge_assoc k L F acc x y), (imerge_assoc k L F acc y x), (imerge_comm k L x y). reflexivity.
Qed.

Lemma ifold_perm k : lawful k = true -> flat k = true ->
  forall l l', Permutation l l' -> forall acc, ifold k acc l = ifold k acc l'.
Proof.
  intros L F l l' P. induction P as [|x l l' P IH|x y l|l1 l2 l3 P1 IH1 P2 IH2]; intros acc.
  - reflexivity.
  - cbn [ifold]. destruct (imerge k acc x); cbn [obind]; [apply IH | reflexivity].
  - cbn [ifold]. rewrite <- !obind_assoc. rewrite (imerge_swap k L F acc y x). reflexivity.
  - rewrite IH1. apply IH2.
Qed.

Theorem icombine_perm k : lawful k = true -> flat k = true ->
  forall l l', Permutation l l' -> icombine k l = icombine k l'.
Proof.
  intros L F l l' P. induction P as [|x l l' P IH|x y l|l1 l2 l3 P1 IH1 P2 IH2].
  - reflexivity.
  - cbn [icombine]. apply ifold_perm; assumption.
  - cbn [icombine ifold]. rewrite (imerge_comm k L y x). reflexivity.
  - rewrite IH1. exact IH2.
Qed.

(** grouping: combining two already combined halves equals combining everything in sequence *)
Theorem ifold_app k : lawful k = true -> flat k = true ->
  forall l2 p q l1,
  obind (ifold k p l1) (fun a => obind (ifold k q l2) (fun b => imerge k a b)) =
  obind (ifold k p l1) (fun a => ifold k a (q :: l2)).
Proof.
  intros L F. induction l2 as [|y l2 IH]; intros p q l1.
  - destruct (ifold k p l1) as [a|]; cbn [obind ifold]; [destruct (imerge k a q)|]; reflexivity.
  - destruct (ifold k p l1) as [a|] eqn:E; cbn [obind]; [|reflexivity].
    cbn [ifold].
    (* (q.y).l2 folded then merged into a  =  ((a.q).y).l2 *)
    destruct (imerge k q y) as [qy|] eqn:Eqy; cbn [obind].
    + specialize (IH a qy []). cbn [ifold obind] in IH. rewrite IH. cbn [ifold].
      pose proof (imerge_assoc k L F a q y) as A. rewrite Eqy in A. cbn [obind] in A.
      destruct (imerge k a q) as [aq|]; cbn [obind] in A |- *.
      * rewrite A. reflexivity.
      * rewrite <- A. reflexivity.
    + pose proof (imerge_assoc k L F a q y) as A. rewrite Eqy in A. cbn [obind] in A.
      destruct (imerge k a q) as [aq|]; cbn [obind] in A |- *; [rewrite A|]; reflexivity.
Qed.

(** * Flatness of kinds generated from a schema *)
From V.C13 Require Import Proofs2.

Fixpoint snovec (s : skind) : bool :=
  match s with
  | SVec _ _ => false
  | SRec fs => (fix go (fs : list (string * skind)) : bool := match fs with [] => true | (_, s') :: r => snovec s' && go r end) fs
  | _ => true
  end.
Fixpoint sflat (s : skind) : bool :=
  match s with
  | SVec _ s' => snovec s'
  | SRec fs => (fix go (fs : list (string * skind)) : bool := match fs with [] => true | (_, s') :: r => sflat s' && go r end) fs
  | _ => true
  end.
Fixpoint snovec_fields (fs : list (string * skind)) : bool := match fs with [] => true | (_, s') :: r => snovec s' && snovec_fields r end.
Fixpoint sflat_fields (fs : list (string * skind)) : bool := match fs with [] => true | (_, s') :: r => sflat s' && sflat_fields r end.
Lemma snovec_rec fs : snovec (SRec fs) = snovec_fields fs.
Proof. cbn [snovec]. induction fs as [|[nm s] fs IH]; [reflexivity|]. cbn [snovec_fields]. rewrite <- IH. reflexivity. Qed.
Lemma sflat_rec fs : sflat (SRec fs) = sflat_fields fs.
Proof. cbn [sflat]. induction fs as [|[nm s] fs IH]; [reflexivity|]. cbn [sflat_fields]. rewrite <- IH. reflexivity. Qed.

Lemma novec_repeat_opt n : novec_list (repeat KOpt n) = true.
Proof. induction n; [reflexivity|]. cbn. exact IHn. Qed.

Lemma novec_kind_of l n : novec l = true -> forall s, snovec s = true -> novec (kind_of l n s) = true.
Proof.
  intros Hl. induction s using skind_ind'; intros S; try reflexivity; try discriminate; try exact Hl.
  - cbn [kind_of]. rewrite novec_rec. apply novec_repeat_opt.
  - rewrite snovec_rec in S. rewrite kind_of_rec, novec_rec.
    induction H as [|[nm s] fs Hs Hfs IH]; [reflexivity|].
    cbn [snovec_fields] in S. apply andb_true_iff in S. destruct S as [S1 S2].
    cbn [kinds_of novec_list]. cbn [snd] in Hs. rewrite (Hs S1), (IH S2). reflexivity.
Qed.

Lemma flat_kind_of l n : novec l = true -> forall s, sflat s = true -> flat (kind_of l n s) = true.
Proof.
  intros Hl. induction s using skind_ind'; intros S; try reflexivity; try (apply novec_flat; exact Hl).
  - cbn [kind_of]. rewrite flat_rec. apply novec_flat in Hl. clear -n.
    induction n; [reflexivity|]. cbn. exact IHn.
  - rewrite sflat_rec in S. rewrite kind_of_rec, flat_rec.
    induction H as [|[nm s] fs Hs Hfs IH]; [reflexivity|].
    cbn [sflat_fields] in S. apply andb_true_iff in S. destruct S as [S1 S2].
    cbn [kinds_of flat_list]. cbn [snd] in Hs. rewrite (Hs S1), (IH S2). reflexivity.
  - cbn [sflat] in S. cbn [kind_of flat]. apply novec_kind_of; assumption.
Qed.

Lemma ifold_append k : forall l1 l2 p, ifold k p (l1 ++ l2) = obind (ifold k p l1) (fun a => ifold k a l2).
Proof.
  induction l1 as [|x l1 IH]; intros l2 p; [reflexivity|].
  cbn [app ifold]. destruct (imerge k p x) as [a|]; cbn [obind]; [apply IH | reflexivity].
Qed.

Lemma fold_merge_append (m : D -> D -> option D) : forall l1 l2 p,
  fold_merge m p (l1 ++ l2) = obind (fold_merge m p l1) (fun a => fold_merge m a l2).
Proof.
  induction l1 as [|x l1 IH]; intros l2 p; [reflexivity|].
  cbn [app fold_merge]. destruct (m p x) as [a|]; cbn [obind]; [apply IH | reflexivity].
Qed.

Lemma obind_some {A} (o : option A) : obind o Some = o.
Proof. destruct o; reflexivity. Qed.
