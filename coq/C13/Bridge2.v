(** C13 — bridges for the encoding cases: agreement with the model implies the property on the
    implementation's results. *)
From V.Lib Require Import Base Hex.
From Coq Require Import String Lia.
From V.C13 Require Import Model Spec Postcard PostcardProofs Wire WireProofs Roundtrip Corr Wf Proofs.
From V.Gen Require Import C13Schema C13Wire.
Local Open Scope Z_scope.

Lemma bytes_eqb_eq a b : bytes_eqb a b = true -> a = b.
Proof.
  unfold bytes_eqb. revert b. induction a as [|x a IH]; intros [|y b] H; try discriminate; [reflexivity|].
  apply andb_true_iff in H. destruct H as [H1 H2]. apply N.eqb_eq in H1. subst. f_equal. apply IH. exact H2.
Qed.
Lemma bytes_eqb_refl a : bytes_eqb a a = true.
Proof. unfold bytes_eqb. induction a as [|x a IH]; [reflexivity|]. rewrite N.eqb_refl. exact IH. Qed.

Lemma opt_bytes_eq o b : option_eqb bytes_eqb o (Some b) = true -> o = Some b.
Proof. destruct o as [x|]; cbn; [intros H; apply bytes_eqb_eq in H; subst; reflexivity | discriminate]. Qed.

(** ** serde tree + bytes *)
Theorem bytes_bridge ver v b : run_case (CBytes ver v b) = true -> prop_case (CBytes ver v b) = true.
Proof.
  cbn [run_case prop_case]. unfold run_bytes, prop_bytes. intros H. apply andb_true_iff in H. destruct H as [H _].
  apply opt_bytes_eq in H. unfold serialize_wire in H.
  destruct (Z.to_N ver =? 1)%N eqn:E1.
  - apply N.eqb_eq in E1. destruct (enc W_v1 v) as [body|]; [|discriminate]. inversion H; subst b.
    assert (ver = 1) by lia. subst ver. reflexivity.
  - destruct (Z.to_N ver =? 2)%N eqn:E2; [|discriminate].
    apply N.eqb_eq in E2. destruct (enc W_v2 v) as [body|]; [|discriminate]. inversion H; subst b.
    assert (ver = 2) by lia. subst ver. reflexivity.
Qed.

(** ** logical tree + leaf table + bytes *)
Theorem serb_bridge p tbl b back v1ok :
  run_case (CSerB p tbl b back v1ok) = true -> prop_case (CSerB p tbl b back v1ok) = true.
Proof.
  cbn [run_case prop_case]. unfold run_serb, prop_serb. intros H.
  apply andb_true_iff in H. destruct H as [H H3]. apply andb_true_iff in H. destruct H as [H1 H2].
  apply opt_bytes_eq in H1. destruct (minimal_version_bytes (leaf_of tbl) p b H1) as [M V].
  rewrite M, bytes_eqb_refl. cbn [andb].
  apply Bool.eqb_prop in H2. subst v1ok.
  destruct back as [q|]; [|discriminate]. rewrite andb_true_r.
  apply Bool.eqb_true_iff.
  destruct (via_v1 p) as [q1|] eqn:E.
  - apply N.eqb_eq. apply V. discriminate.
  - apply N.eqb_neq. intros C. apply V in C. congruence.
Qed.

(** ** serialise / parse of logical trees *)
Lemma model_stable_exact p : snd (serialize_parse p) = p -> model_stable p = true.
Proof. unfold model_stable. intros E. rewrite E, N.eqb_refl, E, D_eqb_refl. reflexivity. Qed.

Lemma oo_eqb_eq (x y : option (option D)) : option_eqb (option_eqb D_eqb) x y = true -> x = y.
Proof.
  apply (option_eqb_spec (option_eqb D_eqb)). intros a b. apply (option_eqb_spec D_eqb D_eqb_spec).
Qed.

Theorem ser_bridge p o v1 v2 :
  anchor_quirk p = false ->
  run_case (CSer p o v1 v2) = true -> prop_case (CSer p o v1 v2) = true.
Proof.
  intros Q. cbn [run_case prop_case]. unfold run_ser, prop_ser. intros H.
  apply andb_true_iff in H. destruct H as [H H3]. apply andb_true_iff in H. destruct H as [H1 H2].
  apply oo_eqb_eq in H2, H3. subst v1 v2.
  destruct o as [[[[[ver magic] [q|]] stable]|]|e|]; try discriminate.
  apply andb_true_iff in H1. destruct H1 as [H1 S]. apply andb_true_iff in H1. destruct H1 as [H1 Mg].
  apply andb_true_iff in H1. destruct H1 as [Hv Hq].
  apply D_eqb_spec in Hq. apply Z.eqb_eq in Hv. subst magic.
  unfold anchor_quirk in Q. apply negb_false_iff in Q. apply D_eqb_spec in Q.
  rewrite (model_stable_exact p Q) in S. apply Bool.eqb_prop in S. subst stable.
  rewrite Hq, Q, D_eqb_refl. cbn [andb].
  subst ver. unfold serialize_parse. destruct (via_v1 p) as [q1|]; reflexivity.
Qed.
