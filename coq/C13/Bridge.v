(** C13 — bridge for the combine cases: on a well-formed case whose parties have one shielded shape,
    agreement of the implementation with the model ([run_case]) implies the property evaluated on
    the implementation's results ([prop_case]). *)
From V.Lib Require Import Base Hex.
From Coq Require Import String Permutation Lia.
From V.C13 Require Import Model Spec Corr Wf Proofs Proofs2 Proofs3 Proofs4 Proofs5.
From V.Gen Require Import C13Schema.
Local Open Scope Z_scope.

(** * Normalised trees are well shaped *)
Fixpoint norm_fields (u : list N) (fs : list (string * skind)) (l : list D) : option (list D) :=
  match fs, l with
  | [], [] => Some []
  | (_, s') :: fs', x :: l' =>
      match norm u s' x, norm_fields u fs' l' with Some x', Some r => Some (x' :: r) | _, _ => None end
  | _, _ => None
  end.
Lemma norm_rec u fs l : norm u (SRec fs) (DS l) = option_map DS (norm_fields u fs l).
Proof.
  cbn [norm]. f_equal. revert l. induction fs as [|[nm s] fs IH]; intros [|x l]; try reflexivity.
  cbn [norm_fields]. rewrite <- IH. reflexivity.
Qed.

Lemma sequence_some {A} (l : list (option A)) r : sequence l = Some r -> Forall2 (fun o x => o = Some x) l r.
Proof.
  revert r. induction l as [|o l IH]; intros r H; cbn in H.
  - inversion H; constructor.
  - destruct o as [x|]; [|discriminate]. destruct (sequence l) as [r'|]; [|discriminate]. inversion H; subst.
    constructor; [reflexivity | apply IH; reflexivity].
Qed.

Theorem norm_shaped lk u : (forall d, shaped lk d = true) ->
  forall s d d', norm u s d = Some d' -> shaped (kind_of lk (List.length u) s) d' = true.
Proof.
  intros Hl. induction s using skind_ind'; intros d d' N.
  - reflexivity.
  - destruct d; cbn in N; try discriminate. inversion N; subst. reflexivity.
  - destruct d as [| | | | | | |m]; cbn [norm] in N; try discriminate.
    destruct (nodupN (map fst m) && forallb (fun k => memN k u) (map fst m)); [|discriminate].
    inversion N; subst. cbn [kind_of]. rewrite shaped_rec. clear. induction u as [|k u IH]; [reflexivity|]. cbn. exact IH.
  - destruct d; cbn [norm] in N; try discriminate.
    destruct ((0 <=? z) && (z <? 256)); [|discriminate]. inversion N; subst. reflexivity.
  - cbn [kind_of]. apply Hl.
  - destruct d as [| | | | |l| |]; try (cbn in N; discriminate).
    rewrite norm_rec in N. destruct (norm_fields u fs l) as [l'|] eqn:E; [|discriminate].
    cbn in N. inversion N; subst d'. clear N. rewrite kind_of_rec, shaped_rec.
    revert l l' E. induction H as [|[nm s] fs Hs Hfs IH]; intros [|x l] l' E; cbn [norm_fields] in E; try discriminate.
    + inversion E; reflexivity.
    + destruct (norm u s x) as [x'|] eqn:Ex; [|discriminate].
      destruct (norm_fields u fs l) as [r|] eqn:Er; [|discriminate]. inversion E; subst.
      cbn [kinds_of shaped_fields]. cbn [snd] in Hs. rewrite (Hs x x' Ex), (IH l r Er). reflexivity.
  - destruct d as [| | | | | |l|]; try (cbn in N; discriminate).
    cbn [norm] in N. destruct (sequence (map (norm u s) l)) as [l'|] eqn:E; [|discriminate].
    cbn in N. inversion N; subst d'. clear N. cbn [kind_of shaped].
    apply sequence_some in E. revert l' E. induction l as [|x l IH]; intros l' E; inversion E; subst; [reflexivity|].
    cbn [forallb]. rewrite (IHs x y H1), (IH l'0 H3). reflexivity.
Qed.

Lemma norm_all_shaped u l nl : norm_all u l = Some nl ->
  Forall (fun p => shaped (Kl (List.length u)) p = true) nl.
Proof.
  unfold norm_all. intros H. apply sequence_some in H.
  revert nl H. induction l as [|x l IH]; intros nl H; inversion H; subst; constructor.
  - apply (norm_shaped KEq u (fun _ => eq_refl) pczt_schema x y H2).
  - apply IH; assumption.
Qed.

(** * Auxiliary facts about the boolean checkers *)
Lemma insert_perm x l : Permutation (insert_nat x l) (x :: l).
Proof.
  induction l as [|y l IH]; cbn; [apply Permutation_refl|].
  destruct (Nat.leb x y); [apply Permutation_refl|].
  eapply Permutation_trans; [apply perm_skip; exact IH | apply perm_swap].
Qed.
Lemma sort_perm l : Permutation (sort_nat l) l.
Proof.
  induction l as [|x l IH]; cbn; [constructor|].
  eapply Permutation_trans; [apply insert_perm | apply perm_skip; exact IH].
Qed.
Lemma sort_eq_perm l1 l2 : sort_nat l1 = sort_nat l2 -> Permutation l1 l2.
Proof.
  intros E. eapply Permutation_trans; [apply Permutation_sym, sort_perm|]. rewrite E. apply sort_perm.
Qed.

Lemma all_pairs_intro {A} (f : A -> A -> bool) l :
  (forall x y, In x l -> In y l -> f x y = true) -> all_pairs f l = true.
Proof.
  induction l as [|x l IH]; intros H; [reflexivity|]. cbn [all_pairs]. apply andb_true_iff. split.
  - apply forallb_forall. intros y Hy. apply H; [left; reflexivity | right; exact Hy].
  - apply IH. intros a b Ha Hb. apply H; right; assumption.
Qed.

Lemma uniform_lens nps : all_pairs same_len nps = true ->
  exists L, Forall (fun p => shielded_lens p = L) nps.
Proof.
  destruct nps as [|p r]; intros H; [exists []; constructor|].
  exists (shielded_lens p). cbn [all_pairs] in H. apply andb_true_iff in H. destruct H as [H _].
  constructor; [reflexivity|]. rewrite forallb_forall in H. apply Forall_forall. intros q Hq.
  specialize (H q Hq). unfold same_len in H. apply (list_eqb_spec Nat.eqb Nat.eqb_eq) in H. congruence.
Qed.

Lemma res_matches_inv all m o : res_matches all m o = true ->
  (o = Ok None /\ m = None) \/
  (exists i c, o = Ok (Some i) /\ m = Some c /\ nth_error all (Z.to_nat i) = Some c).
Proof.
  unfold res_matches. destruct o as [[i|]|e|]; destruct m as [c|]; try discriminate; intros H.
  - right. destruct (nth_error all (Z.to_nat i)) as [c'|] eqn:E; [|discriminate].
    apply D_eqb_spec in H. subst c'. exists i, c. auto.
  - left. auto.
Qed.

Lemma index_of_nth all c k : index_of c all = Some k -> True.
Proof. trivial. Qed.

Lemma first_idx_unique all i1 i2 c :
  first_idx all (Ok (Some i1)) = true -> first_idx all (Ok (Some i2)) = true ->
  nth_error all (Z.to_nat i1) = Some c -> nth_error all (Z.to_nat i2) = Some c -> i1 = i2.
Proof.
  unfold first_idx. intros F1 F2 N1 N2. rewrite N1 in F1. rewrite N2 in F2.
  apply andb_true_iff in F1, F2. destruct F1 as [A1 B1], F2 as [A2 B2].
  destruct (index_of c all) as [k|]; [|discriminate]. cbn in A1, A2. apply Nat.eqb_eq in A1, A2. lia.
Qed.

Lemma nthD_nth_error l i c : nth_error l i = Some c -> nthD l i = c.
Proof. unfold nthD. apply nth_error_nth. Qed.

(** * The bridge *)
Section Bridge.
  Variable n : nat.
  Variable L : list nat.
  Variables nps ntbl : list D.
  Variable rs : list (expr * imp_res).
  Let all := nps ++ ntbl.
  Hypothesis HP : Forall (okP n L) nps.
  Hypothesis HW : forall eo, In eo rs ->
    wf_expr (fst eo) = true /\
    Forall (fun i => (i < List.length nps)%nat) (leaves (fst eo)) /\
    first_idx all (snd eo) = true.
  Hypothesis HR : forall eo, In eo rs -> res_matches all (eval (M n) nps (fst eo)) (snd eo) = true.

  Lemma ev_flat eo : In eo rs -> eval (M n) nps (fst eo) = F1 n (map (party nps) (leaves (fst eo))).
  Proof. intros I. destruct (HW eo I) as (W & R & _). apply (gen_eval_flat n L nps HP); assumption. Qed.

  Lemma parties_ok ls : Forall (fun i => (i < List.length nps)%nat) ls -> Forall (okP n L) (map (party nps) ls).
  Proof.
    intros H. apply Forall_forall. intros q Hq. apply in_map_iff in Hq. destruct Hq as [i [<- Hi]].
    rewrite Forall_forall in H, HP. apply HP. apply nth_In. apply H; exact Hi.
  Qed.

  Lemma no_panic : forallb (fun eo : expr * imp_res => match snd eo with Panic => false | _ => true end) rs = true.
  Proof.
    apply forallb_forall. intros eo I. specialize (HR eo I). destruct (snd eo) as [o|e|]; try reflexivity.
    unfold res_matches in HR. destruct (eval (M n) nps (fst eo)); discriminate.
  Qed.

  Lemma order_independent :
    all_pairs (fun x y : expr * imp_res =>
                 negb (list_eqb Nat.eqb (sort_nat (leaves (fst x))) (sort_nat (leaves (fst y))))
                 || res_eqb (snd x) (snd y)) rs = true.
  Proof.
    apply all_pairs_intro. intros x y Ix Iy.
    destruct (list_eqb Nat.eqb (sort_nat (leaves (fst x))) (sort_nat (leaves (fst y)))) eqn:E; [|reflexivity].
    cbn [negb orb]. apply (list_eqb_spec Nat.eqb Nat.eqb_eq) in E. apply sort_eq_perm in E.
    destruct (HW x Ix) as (Wx & Rx & Fx). destruct (HW y Iy) as (Wy & Ry & Fy).
    pose proof (HR x Ix) as Mx. pose proof (HR y Iy) as My.
    rewrite (ev_flat x Ix) in Mx. rewrite (ev_flat y Iy) in My.
    rewrite (gen_fold1_perm n L _ (map (party nps) (leaves (fst y))) (parties_ok _ Rx)
               (Permutation_map (party nps) E)) in Mx.
    apply res_matches_inv in Mx, My.
    destruct Mx as [[Ox Ex]|(i1 & c1 & Ox & Ex & N1)], My as [[Oy Ey]|(i2 & c2 & Oy & Ey & N2)];
      rewrite Ox, Oy; try congruence; [reflexivity|].
    assert (c1 = c2) by congruence. subst c2.
    rewrite Ox in Fx. rewrite Oy in Fy. rewrite (first_idx_unique all i1 i2 c1 Fx Fy N1 N2).
    unfold res_eqb. cbn. apply Z.eqb_refl.
  Qed.

  Lemma keeps_ok eo : In eo rs ->
    match snd eo with
    | Ok (Some r) =>
        forallb (fun i => let c := nthD all (Z.to_nat r) in
                          le (if same_len (nthD nps i) c then Kl n else Kf n) (nthD nps i) c) (leaves (fst eo))
    | _ => true
    end = true.
  Proof.
    intros I. pose proof (HR eo I) as Mx. rewrite (ev_flat eo I) in Mx. destruct (HW eo I) as (W & R & _).
    apply res_matches_inv in Mx. destruct Mx as [[O _]|(i & c & O & E & Nc)]; rewrite O; [reflexivity|].
    rewrite (nthD_nth_error _ _ _ Nc). cbn zeta.
    pose proof (parties_ok _ R) as PO.
    destruct (map (party nps) (leaves (fst eo))) as [|p l] eqn:EM; [discriminate|].
    rewrite F1_cons in E. inversion PO as [|? ? Hp Hl]; subst.
    destruct (gen_fold_keeps n L l p c Hp Hl E) as [Lp Ll].
    pose proof (gen_fold_okp n L l p c Hp Hl E) as Hc.
    assert (A : Forall (fun q => le (Kl n) q c = true) (map (party nps) (leaves (fst eo)))).
    { rewrite EM. constructor; assumption. }
    apply forallb_forall. intros j Hj.
    assert (Hq : okP n L (nthD nps j)).
    { rewrite Forall_forall in R, HP. apply HP. apply nth_In. apply R; exact Hj. }
    assert (SL : same_len (nthD nps j) c = true).
    { unfold same_len. destruct Hq as [_ ->], Hc as [_ ->]. apply list_eqb_nat_refl. }
    rewrite SL. rewrite Forall_forall in A. apply A. apply in_map_iff. exists j. split; [reflexivity | exact Hj].
  Qed.

  Lemma pair_ok eo : In eo rs ->
    match fst eo, snd eo with
    | EC [EP i; EP j], o =>
        (if Nat.eqb i j then
           negb (typed (Kl n) (nthD nps i)) ||
           match o with Ok (Some r) => D_eqb (nthD all (Z.to_nat r)) (nthD nps i) | _ => false end
         else
           negb (same_len (nthD nps i) (nthD nps j)) ||
           Bool.eqb (match o with Ok (Some _) => true | _ => false end)
                    (compat (gflags (nthD nps i)) (gflags (nthD nps j)) (Kl n) (nthD nps i) (nthD nps j)))
    | _, _ => true
    end = true.
  Proof.
    intros I. pose proof (HR eo I) as Mx. rewrite (ev_flat eo I) in Mx. destruct (HW eo I) as (W & R & _).
    destruct (fst eo) as [k|l]; [reflexivity|].
    destruct l as [|[i|?] [|[j|?] [|? ?]]]; try reflexivity.
    cbn [leaves app map] in Mx, R. rewrite F1_two in Mx.
    inversion R as [|? ? Ri R']; subst. inversion R' as [|? ? Rj _]; subst.
    assert (Hi : okP n L (nthD nps i)) by (rewrite Forall_forall in HP; apply HP, nth_In, Ri).
    assert (Hj : okP n L (nthD nps j)) by (rewrite Forall_forall in HP; apply HP, nth_In, Rj).
    change (party nps i) with (nthD nps i) in Mx. change (party nps j) with (nthD nps j) in Mx.
    apply res_matches_inv in Mx.
    destruct (Nat.eqb i j) eqn:Eij.
    - apply Nat.eqb_eq in Eij. subst j.
      destruct (typed (Kl n) (nthD nps i)) eqn:T; [|reflexivity]. cbn [negb orb].
      rewrite (gen_pczt_merge_idem n _ T) in Mx.
      destruct Mx as [[_ E]|(r & c & O & E & Nc)]; [discriminate|]. rewrite O. inversion E; subst c.
      rewrite (nthD_nth_error _ _ _ Nc). apply D_eqb_refl.
    - assert (SL : same_len (nthD nps i) (nthD nps j) = true).
      { unfold same_len. destruct Hi as [_ ->], Hj as [_ ->]. apply list_eqb_nat_refl. }
      rewrite SL. cbn [negb orb].
      pose proof (gen_pczt_merge_conflict n _ _ (proj1 Hi) (proj1 Hj) SL) as C.
      unfold gflags.
      destruct Mx as [[O E]|(r & c & O & E & Nc)]; rewrite O.
      + destruct (compat (pflags (nthD nps i)) (pflags (nthD nps j)) (Kl n) (nthD nps i) (nthD nps j)) eqn:EC; [|reflexivity].
        exfalso. apply (proj2 C eq_refl). exact E.
      + assert (M n (nthD nps i) (nthD nps j) <> None) as NN by congruence.
        rewrite (proj1 C NN). reflexivity.
  Qed.
End Bridge.

Theorem combine_bridge ps tbl rs :
  wf_case (CCombine ps tbl rs) = true -> uniform_case (CCombine ps tbl rs) = true ->
  run_case (CCombine ps tbl rs) = true -> prop_case (CCombine ps tbl rs) = true.
Proof.
  cbn [wf_case uniform_case run_case prop_case]. unfold run_combine, prop_combine, with_norm.
  set (u := universe (ps ++ tbl)).
  destruct (norm_all u ps) as [nps|] eqn:Eps; [|discriminate].
  destruct (norm_all u tbl) as [ntbl|] eqn:Etbl; [|discriminate].
  intros W U R.
  destruct (uniform_lens nps U) as [L HL].
  assert (HP : Forall (okP (List.length u) L) nps).
  { pose proof (norm_all_shaped u ps nps Eps) as S. rewrite Forall_forall in *. intros p Hp. split; [apply S | apply HL]; exact Hp. }
  assert (HW : forall eo, In eo rs ->
             wf_expr (fst eo) = true /\ Forall (fun i => (i < List.length nps)%nat) (leaves (fst eo)) /\
             first_idx (nps ++ ntbl) (snd eo) = true).
  { rewrite forallb_forall in W. intros eo I. specialize (W eo I).
    apply andb_true_iff in W. destruct W as [W W3]. apply andb_true_iff in W. destruct W as [W1 W2].
    repeat split; try assumption. rewrite forallb_forall in W2. apply Forall_forall. intros i Hi.
    apply Nat.ltb_lt. apply W2; exact Hi. }
  assert (HR : forall eo, In eo rs -> res_matches (nps ++ ntbl) (eval (M (List.length u)) nps (fst eo)) (snd eo) = true).
  { rewrite forallb_forall in R. exact R. }
  cbv zeta. rewrite U. cbn [negb orb].
  apply andb_true_iff. split; [apply andb_true_iff; split|].
  - exact (no_panic (List.length u) nps ntbl rs HR).
  - exact (order_independent (List.length u) L nps ntbl rs HP HW HR).
  - apply forallb_forall. intros eo I. apply andb_true_iff. split.
    + exact (pair_ok (List.length u) L nps ntbl rs HP HW HR eo I).
    + exact (keeps_ok (List.length u) L nps ntbl rs HP HW HR eo I).
Qed.
