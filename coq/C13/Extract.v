(** C13 — the transaction a PCZT describes is a function of the fields [tx_recipe] lists. *)
From V.Lib Require Import Base.
From Coq Require Import String.
From V.C13 Require Import Model Spec Corr Wf Proofs Proofs2.
From V.Gen Require Import C13Schema.

Section RInd.
  Variable P : recipe -> Prop.
  Hypothesis HL : P RLeaf.
  Hypothesis HR : forall rs, Forall (fun x => P (snd x)) rs -> P (RRec rs).
  Hypothesis HV : forall r, P r -> P (RVec r).
  Fixpoint recipe_ind' (r : recipe) : P r :=
    match r with
    | RLeaf => HL
    | RRec rs => HR rs ((fix go (l : list (string * recipe)) : Forall (fun x => P (snd x)) l :=
                           match l with [] => Forall_nil _ | x :: t => Forall_cons _ (recipe_ind' (snd x)) (go t) end) rs)
    | RVec r' => HV r' (recipe_ind' r')
    end.
End RInd.

Fixpoint run_fields (fs : list (string * skind)) (l : list D) (rs : list (string * recipe)) : option (list D) :=
  match rs with
  | [] => Some []
  | (nm, r') :: rs' =>
      match find_field fs l nm with
      | Some (s', x) =>
          match run_recipe r' s' x, run_fields fs l rs' with
          | Some v, Some vs => Some (v :: vs)
          | _, _ => None
          end
      | None => None
      end
  end.
Lemma run_rec rs fs l : run_recipe (RRec rs) (SRec fs) (DS l) = option_map DS (run_fields fs l rs).
Proof.
  cbn [run_recipe]. f_equal. induction rs as [|[nm r] rs IH]; [reflexivity|].
  cbn [run_fields]. rewrite <- IH. reflexivity.
Qed.

Fixpoint paths_fields (path : list string) (rs : list (string * recipe)) : list (list string) :=
  match rs with [] => [] | (nm, r') :: rs' => recipe_paths (path ++ [nm]) r' ++ paths_fields path rs' end.
Lemma paths_rec path rs : recipe_paths path (RRec rs) = paths_fields path rs.
Proof. cbn [recipe_paths]. induction rs as [|[nm r] rs IH]; [reflexivity|]. cbn [paths_fields]. rewrite <- IH. reflexivity. Qed.

Lemma find_field_project sel path : forall fs l nm,
  find_field fs (project_fields (masks_of sel path fs) l) nm =
  match find_field fs l nm with
  | Some (s', x) => Some (s', project (mask_of sel (path ++ [nm]) s') x)
  | None => None
  end.
Proof.
  induction fs as [|[nm' s'] fs IH]; intros [|x l] nm; try reflexivity.
  cbn [masks_of project_fields find_field].
  destruct (String.eqb nm nm') eqn:E; [apply String.eqb_eq in E; subst; reflexivity | apply IH].
Qed.

Theorem run_recipe_project (sel : list string -> bool) : forall r s path d,
  forallb sel (recipe_paths path r) = true ->
  run_recipe r s (project (mask_of sel path s) d) = run_recipe r s d.
Proof.
  induction r using recipe_ind'; intros s path d Hs.
  - cbn [recipe_paths forallb] in Hs. apply andb_true_iff in Hs. destruct Hs as [Hs _].
    destruct s; try reflexivity; cbn [mask_of project]; rewrite Hs; reflexivity.
  - destruct s as [| | | | |fs|]; try reflexivity.
    rewrite mask_of_rec. destruct d as [| | | | |l| |]; try reflexivity.
    rewrite project_rec, !run_rec. f_equal. rewrite paths_rec in Hs.
    induction H as [|[nm r] rs Hr Hrs IH]; [reflexivity|].
    cbn [paths_fields] in Hs. rewrite forallb_app in Hs. apply andb_true_iff in Hs. destruct Hs as [H1 H2].
    cbn [run_fields]. rewrite find_field_project.
    destruct (find_field fs l nm) as [[s' x]|]; [|reflexivity].
    cbn [snd] in Hr. rewrite (Hr s' (path ++ [nm]) x H1), (IH H2). reflexivity.
  - destruct s as [| | | | | |f s']; try reflexivity.
    cbn [mask_of]. destruct d as [| | | | | |l|]; try reflexivity.
    cbn [project run_recipe]. f_equal. f_equal. rewrite map_map. apply map_ext. intros x.
    apply IHr. exact Hs.
Qed.

Lemma tx_paths_selected : forallb (fun p => mem_path p tx_paths) (recipe_paths [] tx_recipe) = true.
Proof. vm_compute. reflexivity. Qed.

(** the extracted transaction reads only the listed fields ... *)
Theorem tx_of_txfields p : tx_of (txfields p) = tx_of p.
Proof.
  unfold tx_of, txfields. change tx_mask with (mask_of (fun p => mem_path p tx_paths) [] pczt_schema).
  rewrite (run_recipe_project _ tx_recipe pczt_schema [] p tx_paths_selected). reflexivity.
Qed.

(** ... hence two PCZTs that agree on them describe the same transaction *)
Corollary same_fields_same_tx p q : txfields p = txfields q -> tx_of p = tx_of q.
Proof. intros E. rewrite <- (tx_of_txfields p), <- (tx_of_txfields q), E. reflexivity. Qed.

(** every field read is an effecting field (v5 list, plus the resolvable representations) *)
Lemma tx_paths_are_effects :
  forallb (fun p => mem_path p (eff_paths false ++ eff_resolvable)) tx_paths = true.
Proof. vm_compute. reflexivity. Qed.

(** a role step that changes only fields outside the ones read leaves the described transaction
    (hence its identifier) unchanged *)
Theorem role_preserves_tx a b :
  forallb (allowed (fun p => mem_path p tx_paths)) (diff_paths pczt_schema [] a b) = true ->
  tx_of a = tx_of b.
Proof.
  intros H. apply same_fields_same_tx. unfold txfields.
  change tx_mask with (mask_of (fun p => mem_path p tx_paths) [] pczt_schema).
  apply unchanged_outside_effects. exact H.
Qed.
