(** C13 — the logical round trip is exact outside an explicitly described anchor class. *)
From V.Lib Require Import Base.
From Coq Require Import String.
From V.C13 Require Import Model Spec Proofs.
Local Open Scope Z_scope.

(** v1: an absent Sapling anchor is read back as zero; a zero Orchard anchor of an action-less
    bundle is read back as absent.  v2: a bundle that is empty except for a zero anchor is elided. *)
Definition sap_quirk_v1 (s : D) : bool := match s with DS [_; _; _; DO None; _] => true | _ => false end.
Definition orc_quirk_v1 (o : D) : bool := match o with DS [DL []; _; _; DO (Some 0%N); _; _; _] => true | _ => false end.
Definition sap_quirk_v2 (s : D) : bool := D_eqb s (DS [DL []; DL []; DN 0; zero_anchor; DO None]).
Definition orc_quirk_v2 (e o : D) : bool :=
  match e with
  | DS [ac; fl; vs; _; nv; zk; bsk] => D_eqb o (DS [ac; fl; vs; zero_anchor; nv; zk; bsk])
  | _ => false
  end.
Definition explicit_quirk (p : D) : bool :=
  match p with
  | DS [_; _; s; o; i] =>
      match via_v1 p with
      | Some _ => sap_quirk_v1 s || orc_quirk_v1 o
      | None => sap_quirk_v2 s || orc_quirk_v2 empty_orchard o || orc_quirk_v2 empty_ironwood i
      end
  | _ => false
  end.

Lemma anchor_norm_cases an : anchor_norm an = DO None -> an = zero_anchor \/ an = DO None.
Proof.
  unfold anchor_norm. destruct (D_eqb an zero_anchor) eqn:E; [apply D_eqb_spec in E; auto | auto].
Qed.

Lemma elide_sapling_id s : sap_quirk_v2 s = false -> elide_sapling s = s.
Proof.
  intros Q. unfold elide_sapling.
  destruct s as [| | | | |l| |]; try reflexivity.
  destruct l as [|sp [|ou [|vs [|an [|bsk [|? ?]]]]]]; try reflexivity.
  destruct (D_eqb (DS [sp; ou; vs; anchor_norm an; bsk]) empty_sapling) eqn:E; [|reflexivity].
  apply D_eqb_spec in E. unfold empty_sapling in E. inversion E as [[E1 E2 E3 E4 E5]]. subst.
  destruct (anchor_norm_cases an E4) as [->| ->].
  - unfold sap_quirk_v2 in Q. rewrite D_eqb_refl in Q. discriminate.
  - reflexivity.
Qed.

Lemma elide_orchard_id e o :
  (exists ac fl vs nv zk bsk, e = DS [ac; fl; vs; DO None; nv; zk; bsk]) ->
  orc_quirk_v2 e o = false -> elide_orchard e o = o.
Proof.
  intros (ac & fl & vs & nv & zk & bsk & ->) Q. unfold elide_orchard.
  destruct o as [| | | | |l| |]; try reflexivity.
  destruct l as [|a1 [|a2 [|a3 [|an [|a5 [|a6 [|a7 [|? ?]]]]]]]]; try reflexivity.
  destruct (D_eqb (DS [a1; a2; a3; anchor_norm an; a5; a6; a7]) (DS [ac; fl; vs; DO None; nv; zk; bsk])) eqn:E; [|reflexivity].
  apply D_eqb_spec in E. inversion E as [[E1 E2 E3 E4 E5 E6 E7]]. subst.
  destruct (anchor_norm_cases an E4) as [->| ->].
  - unfold orc_quirk_v2 in Q. rewrite D_eqb_refl in Q. discriminate.
  - reflexivity.
Qed.

Theorem roundtrip_exact_explicit p : explicit_quirk p = false -> snd (serialize_parse p) = p.
Proof.
  intros Q. unfold serialize_parse.
  destruct (via_v1 p) as [q|] eqn:V; cbn [snd].
  - (* v1 *)
    pose proof V as V0. unfold via_v1 in V.
    destruct p as [| | | | |l| |]; try discriminate.
    destruct l as [|g [|t [|s [|o [|i [|? ?]]]]]]; try discriminate;
      try (destruct g as [| | | | |[|[] ?]| |]; discriminate).
    destruct g as [| | | | |gl| |]; try discriminate. destruct gl as [|g0 grest]; try discriminate.
    destruct g0 as [txv| | | | | | |]; try discriminate.
    destruct ((txv =? 6) || negb (D_eqb i empty_ironwood)) eqn:G; [discriminate|].
    apply orb_false_iff in G. destruct G as [_ G]. apply negb_false_iff in G. apply D_eqb_spec in G. subst i.
    destruct (sapling_v1 s) as [s'|] eqn:Es; [|discriminate].
    destruct (orchard_v1 o) as [o'|] eqn:Eo; [|discriminate].
    cbn [explicit_quirk] in Q. rewrite V0 in Q. inversion V; subst q; clear V V0.
    apply orb_false_iff in Q. destruct Q as [Q1 Q2].
    assert (s' = s).
    { unfold sapling_v1 in Es. destruct s as [| | | | |sl| |]; try discriminate.
      destruct sl as [|sp [|ou [|vs [|an [|bsk [|? ?]]]]]]; try discriminate.
      destruct an as [| | |[a|]| | | |]; try discriminate; try (cbn in Q1; discriminate).
      inversion Es; reflexivity. }
    assert (o' = o).
    { unfold orchard_v1 in Eo. destruct o as [| | | | |ol| |]; try discriminate.
      destruct ol as [|a1 [|fl [|vs [|an [|nv [|zk [|bsk [|? ?]]]]]]]]; try discriminate;
        try (destruct a1; discriminate).
      destruct a1 as [| | | | | |acts|]; try discriminate.
      destruct (negb (D_eqb nv (DA 1))); [discriminate|].
      destruct an as [| | |[x|]| | | |]; try discriminate.
      - destruct (forallb action_v1_ok acts); [|discriminate]. inversion Eo; subst o'; clear Eo.
        destruct acts as [|a acts]; [|reflexivity]. cbn [is_empty_l andb].
        destruct (N.eqb x 0) eqn:X; [|reflexivity]. apply N.eqb_eq in X. subst x. cbn in Q2. discriminate.
      - destruct (is_empty_l (DL acts)); [inversion Eo; reflexivity | discriminate]. }
    subst. reflexivity.
  - (* v2 *)
    unfold via_v2. destruct p as [| | | | |l| |]; try reflexivity.
    destruct l as [|g [|t [|s [|o [|i [|? ?]]]]]]; try reflexivity.
    cbn [explicit_quirk] in Q. rewrite V in Q.
    apply orb_false_iff in Q. destruct Q as [Q Q3]. apply orb_false_iff in Q. destruct Q as [Q1 Q2].
    rewrite (elide_sapling_id s Q1).
    rewrite (elide_orchard_id empty_orchard o); [|unfold empty_orchard; repeat eexists | exact Q2].
    rewrite (elide_orchard_id empty_ironwood i); [|unfold empty_ironwood; repeat eexists | exact Q3].
    reflexivity.
Qed.
