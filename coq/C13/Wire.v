(** C13 — embedding of logical PCZT trees into wire values, and [Pczt::serialize] / [Pczt::parse] on
    bytes.  No proofs in this file.

    A logical tree carries its leaves as interned atoms; [leaf] gives the serde value of an atom
    (supplied per case by the harness; an arbitrary function in the theorems).  The embedding is
    directed by the logical type of each field and by the wire shape at that position, both
    regenerated from the Rust declarations ([V.Gen.C13Wire]):
    - a mandatory logical field under an optional wire position is wrapped in [Some] (v2
      [nullifier], [rk]); an optional logical field under a mandatory wire position must be present
      (v1 [anchor], [cv_net], [cmx]); [EncCiphertext] under a byte-vector position must be
      [Encrypted] (v1);
    - v1 drops the Ironwood bundle and the Orchard note version and writes an absent Orchard anchor
      of an action-less bundle as zero; v2 omits a bundle that equals its canonical empty form. *)
From V.Lib Require Import Base Hex.
From V.C13 Require Import Model Postcard.
From V.Gen Require Import C13Wire.
Local Open Scope Z_scope.

Section Leaf.
  Variable leaf : N -> wval.
  Variable unleaf : wval -> option N.

  Fixpoint emb (lt : ltype) (w : wshape) (d : D) {struct lt} : option wval :=
    match lt with
    | LNum =>
        match d with
        | DN z => match w with
                  | WZig _ => Some (VZ z)
                  | _ => if 0 <=? z then Some (VN (Z.to_N z)) else None
                  end
        | _ => None
        end
    | LAtom =>
        match d with
        | DA a => match w with WOpt _ => Some (VO (Some (leaf a))) | _ => Some (leaf a) end
        | _ => None
        end
    | LOpt =>
        match d with
        | DO o => match w with WOpt _ => Some (VO (option_map leaf o)) | _ => option_map leaf o end
        | _ => None
        end
    | LEnum =>
        match d with
        | DT t a => match w with
                    | WEnum _ => Some (VE (N.to_nat t) (leaf a))
                    | _ => if N.eqb t 0 then Some (leaf a) else None
                    end
        | _ => None
        end
    | LMap =>
        match d with
        | DM m => Some (VL (map (fun kv => VL [leaf (fst kv); leaf (snd kv)]) m))
        | _ => None
        end
    | LRec ls =>
        match d, w with
        | DS l, WTup ws =>
            option_map VL
              ((fix go (ls : list ltype) (ws : list wshape) (l : list D) {struct ls} : option (list wval) :=
                  match ls, ws, l with
                  | [], [], [] => Some []
                  | lt' :: ls', w' :: ws', x :: l' =>
                      match emb lt' w' x, go ls' ws' l' with
                      | Some v, Some vs => Some (v :: vs)
                      | _, _ => None
                      end
                  | _, _, _ => None
                  end) ls ws l)
        | _, _ => None
        end
    | LVec lt' =>
        match d, w with
        | DL l, WSeq w' => option_map VL (sequence (map (emb lt' w') l))
        | _, _ => None
        end
    end.

  Definition unpair (e : wval) : option (N * N) :=
    match e with
    | VL [k; x] => match unleaf k, unleaf x with Some a, Some b => Some (a, b) | _, _ => None end
    | _ => None
    end.

  Fixpoint unemb (lt : ltype) (w : wshape) (v : wval) {struct lt} : option D :=
    match lt with
    | LNum => match v with VN n => Some (DN (Z.of_N n)) | VZ z => Some (DN z) | _ => None end
    | LAtom =>
        match w with
        | WOpt _ => match v with VO (Some x) => option_map DA (unleaf x) | _ => None end
        | _ => option_map DA (unleaf v)
        end
    | LOpt =>
        match w with
        | WOpt _ => match v with
                    | VO None => Some (DO None)
                    | VO (Some x) => option_map (fun a => DO (Some a)) (unleaf x)
                    | _ => None
                    end
        | _ => option_map (fun a => DO (Some a)) (unleaf v)
        end
    | LEnum =>
        match w with
        | WEnum _ => match v with VE t x => option_map (DT (N.of_nat t)) (unleaf x) | _ => None end
        | _ => option_map (DT 0) (unleaf v)
        end
    | LMap => match v with VL l => option_map DM (sequence (map unpair l)) | _ => None end
    | LRec ls =>
        match v, w with
        | VL l, WTup ws =>
            option_map DS
              ((fix go (ls : list ltype) (ws : list wshape) (l : list wval) {struct ls} : option (list D) :=
                  match ls, ws, l with
                  | [], [], [] => Some []
                  | lt' :: ls', w' :: ws', x :: l' =>
                      match unemb lt' w' x, go ls' ws' l' with
                      | Some d, Some ds => Some (d :: ds)
                      | _, _ => None
                      end
                  | _, _, _ => None
                  end) ls ws l)
        | _, _ => None
        end
    | LVec lt' =>
        match v, w with
        | VL l, WSeq w' => option_map DL (sequence (map (unemb lt' w') l))
        | _, _ => None
        end
    end.

  (** ** v1: [TryFrom<Pczt> for v1::Pczt] / [From<v1::Pczt>] around the generic embedding *)
  Definition L_orchard_v1 : ltype :=
    match L_orchard_Bundle with
    | LRec [ac; fl; vs; an; nv; zk; bsk] => LRec [ac; fl; vs; an; zk; bsk]
    | other => other
    end.
  Definition L_v1 : ltype := LRec [L_common_Global; L_transparent_Bundle; L_sapling_Bundle; L_orchard_v1].

  (** the Orchard bundle as v1 writes it: no note version (it must be V2); an absent anchor (only an
      action-less bundle may lack it) is written as zero *)
  Definition orch_to_v1 (o : D) : option D :=
    match o with
    | DS [ac; fl; vs; an; nv; zk; bsk] =>
        if D_eqb nv (DA 1) then
          Some (DS [ac; fl; vs; (match an with DO None => zero_anchor | _ => an end); zk; bsk])
        else None
    | _ => None
    end.
  Definition orch_of_v1 (o1 : D) : option D :=
    match o1 with
    | DS [ac; fl; vs; an; zk; bsk] =>
        Some (DS [ac; fl; vs; (if is_empty_l ac && D_eqb an zero_anchor then DO None else an); DA 1; zk; bsk])
    | _ => None
    end.

  Definition emb1 (q : D) : option wval :=
    match q with
    | DS [g; t; s; o; i] =>
        if D_eqb i empty_ironwood then
          obind (orch_to_v1 o) (fun o1 => emb L_v1 W_v1 (DS [g; t; s; o1]))
        else None
    | _ => None
    end.
  Definition unemb1 (v : wval) : option D :=
    obind (unemb L_v1 W_v1 v) (fun d =>
      match d with
      | DS [g; t; s; o1] => obind (orch_of_v1 o1) (fun o => Some (DS [g; t; s; o; empty_ironwood]))
      | _ => None
      end).

  (** ** v2: a bundle equal to its canonical empty form is omitted *)
  Definition emb_opt (e : D) (lt : ltype) (w : wshape) (b : D) : option wval :=
    if D_eqb b e then Some (VO None) else option_map (fun v => VO (Some v)) (emb lt w b).
  Definition unemb_opt (e : D) (lt : ltype) (w : wshape) (v : wval) : option D :=
    match v with
    | VO None => Some e
    | VO (Some x) => unemb lt w x
    | _ => None
    end.

  Definition emb2 (q : D) : option wval :=
    match q with
    | DS [g; t; s; o; i] =>
        match emb L_common_Global W_common_Global g,
              emb_opt empty_transparent L_transparent_Bundle W_transparent_Bundle t,
              emb_opt empty_sapling L_sapling_Bundle W_sapling_Bundle s,
              emb_opt empty_orchard L_orchard_Bundle W_orchard_v2_Bundle o,
              emb_opt empty_ironwood L_orchard_Bundle W_orchard_v2_Bundle i with
        | Some vg, Some vt, Some vs, Some vo, Some vi => Some (VL [vg; vt; vs; vo; vi])
        | _, _, _, _, _ => None
        end
    | _ => None
    end.
  Definition unemb2 (v : wval) : option D :=
    match v with
    | VL [vg; vt; vs; vo; vi] =>
        match unemb L_common_Global W_common_Global vg,
              unemb_opt empty_transparent L_transparent_Bundle W_transparent_Bundle vt,
              unemb_opt empty_sapling L_sapling_Bundle W_sapling_Bundle vs,
              unemb_opt empty_orchard L_orchard_Bundle W_orchard_v2_Bundle vo,
              unemb_opt empty_ironwood L_orchard_Bundle W_orchard_v2_Bundle vi with
        | Some g, Some t, Some s, Some o, Some i => Some (DS [g; t; s; o; i])
        | _, _, _, _, _ => None
        end
    | _ => None
    end.

  (** ** [Pczt::serialize] and [Pczt::parse] on bytes *)
  Definition wire_of (ver : N) (q : D) : option wval :=
    if N.eqb ver 1 then emb1 q else if N.eqb ver 2 then emb2 q else None.

  (** choose the version ([serialize_parse]: v1 whenever representable), embed, encode *)
  Definition serialize_bytes (p : D) : option bytes :=
    let '(ver, q) := serialize_parse p in
    obind (wire_of ver q) (fun v => serialize_wire W_v1 W_v2 ver v).

  Definition parse_bytes (bs : bytes) : outcome D perr :=
    match parse_wire W_v1 W_v2 bs with
    | Ok (ver, v) =>
        match (if N.eqb ver 1 then unemb1 v else unemb2 v) with
        | Some d => Ok d
        | None => Err Invalid
        end
    | Err e => Err e
    | Panic => Panic
    end.
End Leaf.

(** the leaf table of a case *)
Definition leaf_of (tbl : list wval) (a : N) : wval := nth (N.to_nat a) tbl (VL []).
