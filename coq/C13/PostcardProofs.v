(** C13 — the byte layer round-trips: postcard encode/decode and the PCZT header. *)
From V.Lib Require Import Base Hex.
From Coq Require Import Lia.
From V.C13 Require Import Postcard.
Local Open Scope N_scope.

(** * Varints *)
Lemma dec_varint_loop_eq : forall fuel i acc lastmax bs,
  dec_varint_loop fuel i acc lastmax bs =
  match dec_varint fuel lastmax bs with
  | Some (v, r) => Some (acc + v * 2 ^ (7 * i), r)
  | None => None
  end.
Proof.
  induction fuel as [|f IH]; intros i acc lastmax bs; [reflexivity|].
  destruct bs as [|b r]; [reflexivity|]. cbn [dec_varint_loop dec_varint].
  destruct (b <? 128) eqn:E.
  - apply N.ltb_lt in E. rewrite (N.mod_small b 128 E). destruct f; [destruct (lastmax <? b)|]; reflexivity.
  - rewrite IH. destruct (dec_varint f lastmax r) as [[hi r']|]; [|reflexivity].
    f_equal. f_equal. replace (7 * (i + 1)) with (7 * i + 7) by lia. rewrite N.pow_add_r.
    change (2 ^ 7) with 128. lia.
Qed.

Lemma enc_dec_varint lastmax : forall fuel n rest,
  (0 < fuel)%nat -> n < (lastmax + 1) * 128 ^ N.of_nat (fuel - 1) -> lastmax < 128 ->
  dec_varint fuel lastmax (enc_varint fuel n ++ rest) = Some (n, rest).
Proof.
  induction fuel as [|f IH]; intros n rest Hf Hn Hl; [lia|].
  cbn [enc_varint]. destruct (n <? 128) eqn:E.
  - cbn [app dec_varint]. rewrite E. destruct f; [|reflexivity].
    change (N.of_nat (1 - 1)) with 0 in Hn. rewrite N.pow_0_r, N.mul_1_r in Hn.
    assert (lastmax <? n = false) as -> by (apply N.ltb_ge; apply N.lt_succ_r; rewrite <- N.add_1_r; exact Hn). reflexivity.
  - apply N.ltb_ge in E. cbn [app dec_varint].
    assert (128 + n mod 128 <? 128 = false) as -> by (apply N.ltb_ge; apply N.le_add_r).
    destruct f as [|f'].
    { change (N.of_nat (1 - 1)) with 0 in Hn. rewrite N.pow_0_r, N.mul_1_r in Hn. lia. }
    rewrite IH.
    + f_equal. f_equal.
      assert (M : (128 + n mod 128) mod 128 = n mod 128).
      { rewrite N.add_mod by discriminate. rewrite N.mod_same by discriminate. rewrite N.add_0_l.
        rewrite !N.mod_mod by discriminate. reflexivity. }
      rewrite M. rewrite N.add_comm. symmetry. apply N.div_mod. discriminate.
    + lia.
    + replace (S (S f') - 1)%nat with (S f') in Hn by lia. replace (S f' - 1)%nat with f' by lia.
      rewrite Nat2N.inj_succ, N.pow_succ_r' in Hn.
      apply N.div_lt_upper_bound; lia.
    + exact Hl.
Qed.

Lemma varint_rt bits n rest : var_bits_ok bits = true -> n < 2 ^ bits ->
  dec_varint (varint_max bits) (max_of_last_byte bits) (enc_varint (varint_max bits) n ++ rest) = Some (n, rest).
Proof.
  intros B Hn. unfold var_bits_ok in B. rewrite !orb_true_iff, !N.eqb_eq in B.
  destruct B as [[[->| ->]| ->]| ->]; apply enc_dec_varint;
    [ vm_compute; lia | eapply N.lt_le_trans; [exact Hn | vm_compute; discriminate] | vm_compute; reflexivity
    | vm_compute; lia | eapply N.lt_le_trans; [exact Hn | vm_compute; discriminate] | vm_compute; reflexivity
    | vm_compute; lia | eapply N.lt_le_trans; [exact Hn | vm_compute; discriminate] | vm_compute; reflexivity
    | vm_compute; lia | eapply N.lt_le_trans; [exact Hn | vm_compute; discriminate] | vm_compute; reflexivity ].
Qed.

Lemma unzigzag_zigzag bits z : unzigzag (zigzag bits z) = z.
Proof.
  unfold zigzag, unzigzag. destruct (0 <=? z)%Z eqn:E.
  - apply Z.leb_le in E.
    assert (H : Z.to_N (2 * z) = 2 * Z.to_N z) by (rewrite Z2N.inj_mul by lia; reflexivity).
    rewrite H. assert (N.even (2 * Z.to_N z) = true) as -> by (rewrite N.even_mul; reflexivity).
    assert (2 * Z.to_N z / 2 = Z.to_N z) as -> by (rewrite N.mul_comm; apply N.div_mul; discriminate).
    apply Z2N.id. exact E.
  - apply Z.leb_gt in E.
    assert (H : Z.to_N (-2 * z - 1) = 2 * Z.to_N (- z - 1) + 1) by lia.
    rewrite H. assert (N.even (2 * Z.to_N (- z - 1) + 1) = false) as ->.
    { rewrite N.even_add, N.even_mul. reflexivity. }
    assert (H2 : 2 * Z.to_N (- z - 1) + 1 + 1 = Z.to_N (- z) * 2) by lia.
    rewrite H2. rewrite N.div_mul by discriminate. rewrite Z2N.id by lia. lia.
Qed.

Lemma zigzag_bound bits z : 0 < bits ->
  (- 2 ^ (Z.of_N bits - 1) <= z < 2 ^ (Z.of_N bits - 1))%Z -> zigzag bits z < 2 ^ bits.
Proof.
  intros Hb H. unfold zigzag.
  assert (P : (2 ^ Z.of_N bits = 2 * 2 ^ (Z.of_N bits - 1))%Z).
  { rewrite <- Z.pow_succ_r by lia. f_equal. lia. }
  assert (Q : Z.of_N (2 ^ bits) = (2 ^ Z.of_N bits)%Z) by (rewrite N2Z.inj_pow; reflexivity).
  destruct (0 <=? z)%Z eqn:E; [apply Z.leb_le in E | apply Z.leb_gt in E]; lia.
Qed.

(** * Shapes *)
Section WInd.
  Variable P : wshape -> Prop.
  Hypothesis H1 : P WU8.
  Hypothesis H2 : forall b, P (WVar b).
  Hypothesis H3 : forall b, P (WZig b).
  Hypothesis H4 : P WBool.
  Hypothesis H5 : forall n w, P w -> P (WArr n w).
  Hypothesis H6 : forall w, P w -> P (WSeq w).
  Hypothesis H7 : forall w, P w -> P (WOpt w).
  Hypothesis H8 : forall ws, Forall P ws -> P (WTup ws).
  Hypothesis H9 : forall vs, Forall P vs -> P (WEnum vs).
  Hypothesis H10 : forall id w, P w -> P (WCheck id w).
  Fixpoint wshape_ind' (w : wshape) : P w :=
    match w with
    | WU8 => H1 | WVar b => H2 b | WZig b => H3 b | WBool => H4
    | WArr n w' => H5 n w' (wshape_ind' w') | WSeq w' => H6 w' (wshape_ind' w') | WOpt w' => H7 w' (wshape_ind' w')
    | WTup ws => H8 ws ((fix go (l : list wshape) : Forall P l :=
                           match l with [] => Forall_nil _ | x :: r => Forall_cons _ (wshape_ind' x) (go r) end) ws)
    | WEnum vs => H9 vs ((fix go (l : list wshape) : Forall P l :=
                            match l with [] => Forall_nil _ | x :: r => Forall_cons _ (wshape_ind' x) (go r) end) vs)
    | WCheck id w' => H10 id w' (wshape_ind' w')
    end.
End WInd.

(** every encoding of a value of this shape has at least one byte *)
Fixpoint wpos (w : wshape) : bool :=
  match w with
  | WU8 | WVar _ | WZig _ | WBool | WSeq _ | WOpt _ | WEnum _ => true
  | WArr n w' => negb (Nat.eqb n 0) && wpos w'
  | WTup ws => (fix go (ws : list wshape) : bool := match ws with [] => false | w' :: r => wpos w' || go r end) ws
  | WCheck _ w' => wpos w'
  end.
(** sequences have elements of positive size (so a declared length beyond the input fails) *)
Fixpoint wf_shape (w : wshape) : bool :=
  match w with
  | WSeq w' => wpos w' && wf_shape w'
  | WArr _ w' | WOpt w' | WCheck _ w' => wf_shape w'
  | WTup ws | WEnum ws => (fix go (ws : list wshape) : bool := match ws with [] => true | w' :: r => wf_shape w' && go r end) ws
  | _ => true
  end.
Fixpoint wf_shapes (ws : list wshape) : bool := match ws with [] => true | w' :: r => wf_shape w' && wf_shapes r end.
Fixpoint wpos_any (ws : list wshape) : bool := match ws with [] => false | w' :: r => wpos w' || wpos_any r end.

Fixpoint enc_tup (ws : list wshape) (l : list wval) : option bytes :=
  match ws, l with
  | [], [] => Some []
  | w' :: ws', x :: l' => match enc w' x, enc_tup ws' l' with Some a, Some b => Some (a ++ b) | _, _ => None end
  | _, _ => None
  end.
Lemma enc_tupE ws l : enc (WTup ws) (VL l) = enc_tup ws l.
Proof. reflexivity. Qed.

Fixpoint dec_tup (ws : list wshape) (bs : bytes) : option (list wval * bytes) :=
  match ws with
  | [] => Some ([], bs)
  | w' :: ws' =>
      match dec w' bs with
      | Some (x, r) => match dec_tup ws' r with Some (l, r') => Some (x :: l, r') | None => None end
      | None => None
      end
  end.
Lemma dec_tupE ws bs : dec (WTup ws) bs = match dec_tup ws bs with Some (l, r) => Some (VL l, r) | None => None end.
Proof.
  cbn [dec].
  assert (E : forall bs, (fix go (ws : list wshape) (bs : bytes) {struct ws} : option (list wval * bytes) :=
               match ws with
               | [] => Some ([], bs)
               | w' :: ws' =>
                   match dec w' bs with
                   | Some (x, r) => match go ws' r with Some (l, r') => Some (x :: l, r') | None => None end
                   | None => None
                   end
               end) ws bs = dec_tup ws bs).
  { induction ws as [|w ws IH]; intros b; [reflexivity|]. cbn [dec_tup]. destruct (dec w b) as [[x r]|]; [|reflexivity].
    rewrite IH. reflexivity. }
  rewrite E. reflexivity.
Qed.

Definition enc_pick (x : wval) (tag0 : nat) : list wshape -> nat -> option bytes :=
  fix pick (vs : list wshape) (k : nat) {struct vs} : option bytes :=
  match vs with
  | [] => None
  | w' :: r =>
      match k with
      | O => match enc w' x with
             | Some b => if N.of_nat tag0 <? 2 ^ 32 then Some (enc_varint (varint_max 32) (N.of_nat tag0) ++ b) else None
             | None => None
             end
      | S k' => pick r k'
      end
  end.
Lemma enc_enumE vs tag x : enc (WEnum vs) (VE tag x) = enc_pick x tag vs tag.
Proof. reflexivity. Qed.

Definition dec_pick (tag : N) (r : bytes) : list wshape -> nat -> option (wval * bytes) :=
  fix pick (vs : list wshape) (k : nat) {struct vs} : option (wval * bytes) :=
  match vs with
  | [] => None
  | w' :: t =>
      match k with
      | O => match dec w' r with Some (x, r') => Some (VE (N.to_nat tag) x, r') | None => None end
      | S k' => pick t k'
      end
  end.
Lemma dec_enumE vs bs : dec (WEnum vs) bs =
  match dec_varint (varint_max 32) (max_of_last_byte 32) bs with
  | Some (tag, r) => dec_pick tag r vs (N.to_nat (N.min tag (N.of_nat (List.length vs))))
  | None => None
  end.
Proof. reflexivity. Qed.

Lemma concat_opt_app (l : list (option bytes)) : forall bs, concat_opt l = Some bs -> True.
Proof. trivial. Qed.

Lemma enc_nonempty : forall w v bs, wpos w = true -> enc w v = Some bs -> (0 < List.length bs)%nat.
Proof.
  induction w using wshape_ind'; intros v bs Pw E.
  - destruct v; try discriminate. cbn in E. destruct (n <? 256); inversion E; cbn; lia.
  - destruct v; try discriminate. cbn [enc] in E. destruct (var_bits_ok b && (n <? 2 ^ b)) eqn:G; [|discriminate].
    inversion E; subst. apply andb_true_iff in G. destruct G as [G _].
    unfold var_bits_ok in G. rewrite !orb_true_iff, !N.eqb_eq in G.
    assert (exists f, varint_max b = S f) as [f ->] by (destruct G as [[[->| ->]| ->]| ->]; eexists; vm_compute; reflexivity).
    cbn [enc_varint]. destruct (n <? 128); cbn; lia.
  - destruct v; try discriminate. cbn [enc] in E.
    destruct (var_bits_ok b && (- 2 ^ (Z.of_N b - 1) <=? z)%Z && (z <? 2 ^ (Z.of_N b - 1))%Z) eqn:G; [|discriminate].
    inversion E; subst. apply andb_true_iff in G. destruct G as [G _]. apply andb_true_iff in G. destruct G as [G _].
    unfold var_bits_ok in G. rewrite !orb_true_iff, !N.eqb_eq in G.
    assert (exists f, varint_max b = S f) as [f ->] by (destruct G as [[[->| ->]| ->]| ->]; eexists; vm_compute; reflexivity).
    cbn [enc_varint]. destruct (zigzag b z <? 128); cbn; lia.
  - destruct v; try discriminate. inversion E; cbn; lia.
  - destruct v; try discriminate. cbn [wpos] in Pw. apply andb_true_iff in Pw. destruct Pw as [Pn Pw'].
    cbn [enc] in E. destruct (Nat.eqb (List.length l) n) eqn:EL; [|discriminate]. apply Nat.eqb_eq in EL.
    destruct l as [|x l]; [cbn in EL; subst; discriminate|].
    cbn [map concat_opt] in E. destruct (enc w x) as [bx|] eqn:Ex; [|discriminate].
    destruct (concat_opt (map (enc w) l)); [|discriminate]. inversion E; subst.
    specialize (IHw x bx Pw' Ex). rewrite app_length. lia.
  - destruct v; try discriminate. cbn [enc] in E. destruct (N.of_nat (List.length l) <? 2 ^ 64); [|discriminate].
    destruct (concat_opt (map (enc w) l)); [|discriminate]. inversion E; subst.
    change (varint_max 64) with 10%nat. cbn [enc_varint]. destruct (N.of_nat (List.length l) <? 128); cbn; lia.
  - destruct v as [| | | |[x|]|]; try discriminate; cbn [enc] in E.
    + destruct (enc w x); inversion E; cbn; lia.
    + inversion E; cbn; lia.
  - destruct v; try discriminate. rewrite enc_tupE in E. cbn [wpos] in Pw.
    change ((fix go (ws : list wshape) : bool := match ws with [] => false | w' :: r => wpos w' || go r end) ws) with (wpos_any ws) in Pw.
    revert l bs E Pw. induction H as [|w ws Hw Hws IH]; intros l bs E Pw; [discriminate|].
    destruct l as [|x l]; [discriminate|]. cbn [enc_tup] in E.
    destruct (enc w x) as [a|] eqn:Ea; [|discriminate]. destruct (enc_tup ws l) as [b|] eqn:Eb; [|discriminate].
    inversion E; subst. rewrite app_length. cbn [wpos_any] in Pw. apply orb_true_iff in Pw. destruct Pw as [Pw|Pw].
    + specialize (Hw x a Pw Ea). lia.
    + specialize (IH l b Eb Pw). lia.
  - destruct v; try discriminate. rewrite enc_enumE in E. clear H Pw.
    revert E. generalize tag at 2. generalize tag. intros t0 k. revert k.
    induction vs as [|w vs IH]; intros k E; [discriminate|]. destruct k as [|k].
    + cbn [enc_pick] in E. destruct (enc w v); [|discriminate]. destruct (N.of_nat t0 <? 2 ^ 32); [|discriminate].
      inversion E; subst. change (varint_max 32) with 5%nat. cbn [enc_varint]. destruct (N.of_nat t0 <? 128); cbn; lia.
    + apply (IH k E).
  - cbn [enc] in E. cbn [wpos] in Pw. destruct (wcheck id v); [|discriminate]. apply (IHw v bs Pw E).
Qed.

(** * Decoding what was encoded *)
Definition rt (w : wshape) : Prop :=
  forall v bs rest, enc w v = Some bs -> dec w (bs ++ rest) = Some (v, rest).

Lemma dec_n_concat w : rt w -> forall l bs rest,
  concat_opt (map (enc w) l) = Some bs -> dec_n (dec w) (List.length l) (bs ++ rest) = Some (l, rest).
Proof.
  intros Hw. induction l as [|x l IH]; intros bs rest E; cbn in E.
  - inversion E; subst. reflexivity.
  - destruct (enc w x) as [b|] eqn:Ex; [|discriminate]. destruct (concat_opt (map (enc w) l)) as [c|] eqn:Ec; [|discriminate].
    inversion E; subst. cbn [List.length dec_n]. rewrite <- app_assoc. rewrite (Hw x b (c ++ rest) Ex).
    rewrite (IH c rest eq_refl). reflexivity.
Qed.

Lemma concat_len w : wpos w = true -> forall l bs,
  concat_opt (map (enc w) l) = Some bs -> (List.length l <= List.length bs)%nat.
Proof.
  intros Pw. induction l as [|x l IH]; intros bs E; cbn in E.
  - cbn. lia.
  - destruct (enc w x) as [b|] eqn:Ex; [|discriminate]. destruct (concat_opt (map (enc w) l)) as [c|] eqn:Ec; [|discriminate].
    inversion E; subst. pose proof (enc_nonempty w x b Pw Ex). specialize (IH c eq_refl). rewrite app_length. cbn. lia.
Qed.

Lemma var_bits_pos b : var_bits_ok b = true -> 0 < b.
Proof. unfold var_bits_ok. rewrite !orb_true_iff, !N.eqb_eq. intros [[[->| ->]| ->]| ->]; reflexivity. Qed.

Lemma wf_tup ws : wf_shape (WTup ws) = wf_shapes ws.
Proof. reflexivity. Qed.
Lemma wf_enum ws : wf_shape (WEnum ws) = wf_shapes ws.
Proof. reflexivity. Qed.

Local Opaque enc_varint dec_varint varint_max max_of_last_byte.

Lemma enum_pick vs : Forall (fun w => wf_shape w = true -> rt w) vs -> wf_shapes vs = true ->
  forall v t0 k bs rest, enc_pick v t0 vs k = Some bs ->
  exists b, bs = enc_varint (varint_max 32) (N.of_nat t0) ++ b /\ N.of_nat t0 < 2 ^ 32 /\ (k < List.length vs)%nat /\
            forall tagN, dec_pick tagN (b ++ rest) vs k = Some (VE (N.to_nat tagN) v, rest).
Proof.
  induction 1 as [|w vs Hw Hvs IH]; intros WF v t0 k bs rest E; [discriminate|].
  cbn [wf_shapes] in WF. apply andb_true_iff in WF. destruct WF as [W1 W2].
  destruct k as [|k]; cbn [enc_pick] in E.
  - destruct (enc w v) as [b|] eqn:Eb; [|discriminate]. destruct (N.of_nat t0 <? 2 ^ 32) eqn:G; [|discriminate].
    injection E as <-. exists b. split; [reflexivity|]. split; [apply N.ltb_lt; exact G|]. split; [cbn; lia|].
    intros tagN. cbn [dec_pick]. rewrite (Hw W1 v b rest Eb). reflexivity.
  - destruct (IH W2 v t0 k bs rest E) as (b & E1 & E2 & E3 & E4). exists b. split; [exact E1|]. split; [exact E2|].
    split; [cbn; lia|]. intros tagN. cbn [dec_pick]. apply E4.
Qed.

Theorem enc_dec : forall w, wf_shape w = true -> rt w.
Proof.
  induction w using wshape_ind'; intros WF v bs rest E.
  - destruct v; try discriminate. cbn in E. destruct (n <? 256); inversion E; subst. reflexivity.
  - destruct v; try discriminate. cbn [enc] in E. destruct (var_bits_ok b && (n <? 2 ^ b)) eqn:G; [|discriminate].
    inversion E; subst. apply andb_true_iff in G. destruct G as [G1 G2]. apply N.ltb_lt in G2.
    cbn [dec]. rewrite (varint_rt b n rest G1 G2). reflexivity.
  - destruct v; try discriminate. cbn [enc] in E.
    destruct (var_bits_ok b && (- 2 ^ (Z.of_N b - 1) <=? z)%Z && (z <? 2 ^ (Z.of_N b - 1))%Z) eqn:G; [|discriminate].
    inversion E; subst. apply andb_true_iff in G. destruct G as [G G3]. apply andb_true_iff in G. destruct G as [G1 G2].
    apply Z.leb_le in G2. apply Z.ltb_lt in G3.
    cbn [dec]. rewrite (varint_rt b (zigzag b z) rest G1 (zigzag_bound b z (var_bits_pos b G1) (conj G2 G3))).
    rewrite unzigzag_zigzag. reflexivity.
  - destruct v; try discriminate. inversion E; subst. destruct b; reflexivity.
  - destruct v; try discriminate. cbn [wf_shape] in WF. cbn [enc] in E.
    destruct (Nat.eqb (List.length l) n) eqn:EL; [|discriminate]. apply Nat.eqb_eq in EL. subst n.
    cbn [dec]. rewrite (dec_n_concat w (IHw WF) l bs rest E). reflexivity.
  - destruct v; try discriminate. cbn [wf_shape] in WF. apply andb_true_iff in WF. destruct WF as [Pw WF].
    cbn [enc] in E. destruct (N.of_nat (List.length l) <? 2 ^ 64) eqn:G; [|discriminate]. apply N.ltb_lt in G.
    destruct (concat_opt (map (enc w) l)) as [c|] eqn:Ec; [|discriminate]. injection E as <-.
    cbn [dec]. rewrite <- app_assoc. rewrite (varint_rt 64 _ (c ++ rest) eq_refl G).
    pose proof (concat_len w Pw l c Ec) as Len.
    assert (N.of_nat (List.length (c ++ rest)) <? N.of_nat (List.length l) = false) as ->.
    { apply N.ltb_ge. rewrite app_length. lia. }
    rewrite Nat2N.id. rewrite (dec_n_concat w (IHw WF) l c rest Ec). reflexivity.
  - cbn [wf_shape] in WF. destruct v as [| | | |[x|]|]; try discriminate; cbn [enc] in E.
    + destruct (enc w x) as [b|] eqn:Ex; [|discriminate]. inversion E; subst. cbn [app dec].
      rewrite (IHw WF x b rest Ex). reflexivity.
    + inversion E; subst. reflexivity.
  - destruct v; try discriminate. rewrite enc_tupE in E. rewrite dec_tupE. rewrite wf_tup in WF.
    assert (G : dec_tup ws (bs ++ rest) = Some (l, rest)); [|rewrite G; reflexivity].
    revert l bs E WF. induction H as [|w ws Hw Hws IH]; intros l bs E WF.
    + destruct l; [|discriminate]. inversion E; subst. reflexivity.
    + destruct l as [|x l]; [discriminate|]. cbn [enc_tup] in E.
      destruct (enc w x) as [a|] eqn:Ea; [|discriminate]. destruct (enc_tup ws l) as [b|] eqn:Eb; [|discriminate].
      inversion E; subst. cbn [wf_shapes] in WF. apply andb_true_iff in WF. destruct WF as [W1 W2].
      cbn [dec_tup]. rewrite <- app_assoc. rewrite (Hw W1 x a (b ++ rest) Ea). rewrite (IH l b Eb W2). reflexivity.
  - destruct v; try discriminate. rewrite enc_enumE in E. rewrite dec_enumE. rewrite wf_enum in WF.
    pose proof (enum_pick vs H WF v tag tag bs rest E) as G.
    destruct G as (b & -> & G2 & G3 & G4). rewrite <- app_assoc.
    rewrite (varint_rt 32 _ (b ++ rest) eq_refl G2).
    assert (N.min (N.of_nat tag) (N.of_nat (List.length vs)) = N.of_nat tag) as -> by lia.
    rewrite Nat2N.id. rewrite G4. rewrite Nat2N.id. reflexivity.
  - cbn [wf_shape] in WF. cbn [enc] in E. destruct (wcheck id v) eqn:C; [|discriminate].
    cbn [dec]. rewrite (IHw WF v bs rest E), C. reflexivity.
Qed.

Local Transparent enc_varint dec_varint varint_max max_of_last_byte.

(** * Header and [Pczt::parse] *)
Lemma firstn_magic l : firstn 4 (MAGIC ++ l) = MAGIC.
Proof. reflexivity. Qed.

Theorem parse_serialize_wire W1 W2 ver v bs :
  wf_shape W1 = true -> wf_shape W2 = true ->
  serialize_wire W1 W2 ver v = Some bs -> parse_wire W1 W2 bs = Ok (ver, v).
Proof.
  intros F1 F2. unfold serialize_wire.
  destruct (ver =? 1) eqn:E1.
  - apply N.eqb_eq in E1. subst ver. destruct (enc W1 v) as [body|] eqn:E; [|discriminate]. intros H; inversion H; subst.
    unfold parse_wire. cbn [MAGIC le32 app List.length Nat.ltb Nat.leb firstn skipn bytes_eqb N.eqb negb of_le32].
    cbn. pose proof (enc_dec W1 F1 v body [] E) as D. rewrite app_nil_r in D. rewrite D. reflexivity.
  - destruct (ver =? 2) eqn:E2; [|discriminate].
    apply N.eqb_eq in E2. subst ver. destruct (enc W2 v) as [body|] eqn:E; [|discriminate]. intros H; inversion H; subst.
    unfold parse_wire. cbn. pose proof (enc_dec W2 F2 v body [] E) as D. rewrite app_nil_r in D. rewrite D. reflexivity.
Qed.

(** parsing is total: every byte string is answered by a value or one of the four errors *)
Theorem parse_wire_total W1 W2 bs : parse_wire W1 W2 bs <> Panic.
Proof.
  unfold parse_wire.
  destruct (Nat.ltb (List.length bs) 8); [discriminate|].
  destruct (negb (bytes_eqb (firstn 4 bs) MAGIC)); [discriminate|].
  destruct (of_le32 (firstn 4 (skipn 4 bs)) =? 1); [destruct (dec W1 (skipn 8 bs)) as [[? ?]|]; discriminate|].
  destruct (of_le32 (firstn 4 (skipn 4 bs)) =? 2); [destruct (dec W2 (skipn 8 bs)) as [[? ?]|]; discriminate|].
  discriminate.
Qed.

(** what [parse_header] answers, as in lib.rs *)
Theorem parse_wire_errors W1 W2 bs :
  ((List.length bs < 8)%nat -> parse_wire W1 W2 bs = Err TooShort) /\
  ((8 <= List.length bs)%nat -> firstn 4 bs <> MAGIC -> parse_wire W1 W2 bs = Err NotPczt).
Proof.
  unfold parse_wire. split.
  - intros H. apply Nat.ltb_lt in H. rewrite H. reflexivity.
  - intros H M. assert (Nat.ltb (List.length bs) 8 = false) as -> by (apply Nat.ltb_ge; exact H).
    destruct (bytes_eqb (firstn 4 bs) MAGIC) eqn:E; [|reflexivity].
    exfalso. apply M. clear -E.
    assert (G : forall a b, bytes_eqb a b = true -> a = b).
    { induction a as [|x a IH]; intros [|y b] H; try discriminate; [reflexivity|].
      cbn in H. apply andb_true_iff in H. destruct H as [H1 H2]. apply N.eqb_eq in H1. subst. f_equal. apply IH. exact H2. }
    apply G. exact E.
Qed.
