(** C13 — generic laws of schema-directed merging. *)
From V.Lib Require Import Base.
From Coq Require Import String.
From V.C13 Require Import Model Spec.
Local Open Scope Z_scope.

(** * Induction principles for the nested types *)
Section DInd.
  Variable P : D -> Prop.
  Hypothesis HN : forall z, P (DN z).
  Hypothesis HA : forall a, P (DA a).
  Hypothesis HB : forall b, P (DB b).
  Hypothesis HO : forall o, P (DO o).
  Hypothesis HT : forall t a, P (DT t a).
  Hypothesis HS : forall l, Forall P l -> P (DS l).
  Hypothesis HL : forall l, Forall P l -> P (DL l).
  Hypothesis HM : forall m, P (DM m).
  Fixpoint D_ind' (d : D) : P d :=
    match d with
    | DN z => HN z | DA a => HA a | DB b => HB b | DO o => HO o | DT t a => HT t a
    | DS l => HS l ((fix go (l : list D) : Forall P l :=
                       match l with [] => Forall_nil _ | x :: r => Forall_cons _ (D_ind' x) (go r) end) l)
    | DL l => HL l ((fix go (l : list D) : Forall P l :=
                       match l with [] => Forall_nil _ | x :: r => Forall_cons _ (D_ind' x) (go r) end) l)
    | DM m => HM m
    end.
End DInd.

Section KInd.
  Variable P : kind -> Prop.
  Hypothesis HEq : P KEq.
  Hypothesis HOpt : P KOpt.
  Hypothesis HAnd : P KAnd.
  Hypothesis HOr : P KOr.
  Hypothesis HZero : P KZero.
  Hypothesis HLeft : P KLeft.
  Hypothesis HRec : forall ks, Forall P ks -> P (KRec ks).
  Hypothesis HVec : forall f k, P k -> P (KVec f k).
  Fixpoint kind_ind' (k : kind) : P k :=
    match k with
    | KEq => HEq | KOpt => HOpt | KAnd => HAnd | KOr => HOr | KZero => HZero | KLeft => HLeft
    | KRec ks => HRec ks ((fix go (l : list kind) : Forall P l :=
                             match l with [] => Forall_nil _ | x :: r => Forall_cons _ (kind_ind' x) (go r) end) ks)
    | KVec f k' => HVec f k' (kind_ind' k')
    end.
End KInd.

(** * Equality test *)
Fixpoint Dl_eqb (x y : list D) : bool :=
  match x, y with
  | [], [] => true
  | a :: x', b :: y' => D_eqb a b && Dl_eqb x' y'
  | _, _ => false
  end.
Lemma D_eqb_DS x y : D_eqb (DS x) (DS y) = Dl_eqb x y.
Proof. reflexivity. Qed.
Lemma D_eqb_DL x y : D_eqb (DL x) (DL y) = Dl_eqb x y.
Proof. reflexivity. Qed.

Lemma pairN_eqb_spec x y : pairN_eqb x y = true <-> x = y.
Proof.
  destruct x, y; unfold pairN_eqb; cbn. rewrite andb_true_iff, !N.eqb_eq. split; [intros [-> ->]; reflexivity | intros E; inversion E; auto].
Qed.

Lemma D_eqb_spec : forall a b, D_eqb a b = true <-> a = b.
Proof.
  induction a using D_ind'; intros e.
  - destruct e; cbn; try (split; congruence). rewrite Z.eqb_eq. split; congruence.
  - destruct e; cbn; try (split; congruence). rewrite N.eqb_eq. split; congruence.
  - destruct e; cbn; try (split; congruence). rewrite Bool.eqb_true_iff. split; congruence.
  - destruct e; cbn; try (split; congruence).
    rewrite (option_eqb_spec N.eqb N.eqb_eq). split; congruence.
  - destruct e; cbn; try (split; congruence). rewrite andb_true_iff, !N.eqb_eq.
    split; [intros [-> ->]; reflexivity | intros E; inversion E; auto].
  - destruct e as [| | | | |l0| |]; try (cbn; split; congruence). rewrite D_eqb_DS.
    revert l0. induction H as [|x l Hx Hl IH]; intros [|y l0]; cbn; try (split; congruence).
    rewrite andb_true_iff, Hx, IH. split; [intros [-> E]; inversion E; reflexivity | intros E; inversion E; auto].
  - destruct e as [| | | | | |l0|]; try (cbn; split; congruence). rewrite D_eqb_DL.
    revert l0. induction H as [|x l Hx Hl IH]; intros [|y l0]; cbn; try (split; congruence).
    rewrite andb_true_iff, Hx, IH. split; [intros [-> E]; inversion E; reflexivity | intros E; inversion E; auto].
  - destruct e; cbn; try (split; congruence).
    rewrite (list_eqb_spec pairN_eqb pairN_eqb_spec). split; congruence.
Qed.

Lemma D_eqb_refl a : D_eqb a a = true.
Proof. apply D_eqb_spec; reflexivity. Qed.
Lemma D_eqb_sym a b : D_eqb a b = D_eqb b a.
Proof.
  destruct (D_eqb a b) eqn:E.
  - apply D_eqb_spec in E; subst. symmetry; apply D_eqb_refl.
  - destruct (D_eqb b a) eqn:E2; [|reflexivity]. apply D_eqb_spec in E2; subst. rewrite D_eqb_refl in E. discriminate.
Qed.
Lemma D_eqb_false a b : D_eqb a b = false <-> a <> b.
Proof.
  split; intros H.
  - intros ->. rewrite D_eqb_refl in H; discriminate.
  - destruct (D_eqb a b) eqn:E; [apply D_eqb_spec in E; contradiction | reflexivity].
Qed.

(** * Unfolding lemmas *)
Lemma merge_rec fa fb ks la lb :
  merge fa fb (KRec ks) (DS la) (DS lb) = option_map DS (merge_fields fa fb ks la lb).
Proof.
  cbn [merge]. f_equal. revert la lb. induction ks as [|k ks IH]; intros [|x la] [|y lb]; try reflexivity.
  cbn [merge_fields]. rewrite <- IH. reflexivity.
Qed.
Lemma merge_vec fa fb f k la lb :
  merge fa fb (KVec f k) (DL la) (DL lb) = option_map DL (zipm (merge fa fb k) (fa f) (fb f) la lb).
Proof. reflexivity. Qed.

Fixpoint le_fields (ks : list kind) (la lc : list D) : bool :=
  match ks, la, lc with
  | [], [], [] => true
  | k' :: ks', x :: la', y :: lc' => le k' x y && le_fields ks' la' lc'
  | _, _, _ => false
  end.
Fixpoint le_prefix (k : kind) (la lc : list D) : bool :=
  match la, lc with
  | [], _ => true
  | x :: la', y :: lc' => le k x y && le_prefix k la' lc'
  | _ :: _, [] => false
  end.
Lemma le_rec ks la lc : le (KRec ks) (DS la) (DS lc) = le_fields ks la lc.
Proof. reflexivity. Qed.
Lemma le_vec f k la lc : le (KVec f k) (DL la) (DL lc) = le_prefix k la lc.
Proof.
  cbn [le]. revert lc. induction la as [|x la IH]; intros [|y lc]; try reflexivity.
  cbn [le_prefix]. rewrite <- IH. reflexivity.
Qed.

Fixpoint compat_fields fa fb (ks : list kind) (la lb : list D) : bool :=
  match ks, la, lb with
  | [], [], [] => true
  | k' :: ks', x :: la', y :: lb' => compat fa fb k' x y && compat_fields fa fb ks' la' lb'
  | _, _, _ => false
  end.
Fixpoint compat_vec fa fb (xa xb : bool) (k : kind) (la lb : list D) : bool :=
  match la, lb with
  | [], [] => true
  | [], _ :: _ => xa
  | _ :: _, [] => xb
  | x :: la', y :: lb' => compat fa fb k x y && compat_vec fa fb xa xb k la' lb'
  end.
Lemma compat_rec fa fb ks la lb : compat fa fb (KRec ks) (DS la) (DS lb) = compat_fields fa fb ks la lb.
Proof.
  cbn [compat]. revert la lb. induction ks as [|k ks IH]; intros [|x la] [|y lb]; try reflexivity.
  cbn [compat_fields]. rewrite <- IH. reflexivity.
Qed.
Lemma compat_vecE fa fb f k la lb :
  compat fa fb (KVec f k) (DL la) (DL lb) = compat_vec fa fb (fa f) (fb f) k la lb.
Proof.
  cbn [compat]. revert lb. induction la as [|x la IH]; intros [|y lb]; try reflexivity.
  cbn [compat_vec]. rewrite <- IH. reflexivity.
Qed.

Fixpoint typed_fields (ks : list kind) (la : list D) : bool :=
  match ks, la with
  | [], [] => true
  | k' :: ks', x :: la' => typed k' x && typed_fields ks' la'
  | _, _ => false
  end.
Lemma typed_rec ks la : typed (KRec ks) (DS la) = typed_fields ks la.
Proof. reflexivity. Qed.

Fixpoint shaped_fields (ks : list kind) (la : list D) : bool :=
  match ks, la with
  | [], [] => true
  | k' :: ks', x :: la' => shaped k' x && shaped_fields ks' la'
  | _, _ => false
  end.
Lemma shaped_rec ks la : shaped (KRec ks) (DS la) = shaped_fields ks la.
Proof. reflexivity. Qed.

Fixpoint lawful_list (ks : list kind) : bool :=
  match ks with [] => true | k :: r => lawful k && lawful_list r end.
Lemma lawful_rec ks : lawful (KRec ks) = lawful_list ks.
Proof. reflexivity. Qed.

(** * Commutativity *)
Lemma zipm_comm f g xa xb :
  forall x y, Forall (fun a => forall b, f a b = g b a) x ->
  zipm f xa xb x y = zipm g xb xa y x.
Proof.
  induction x as [|a x IH]; intros [|b y] H; try reflexivity.
  inversion H as [|? ? Ha Hx]; subst. cbn [zipm]. rewrite Ha, (IH y Hx).
  destruct (g b a), (zipm g xb xa y x); reflexivity.
Qed.

Theorem merge_comm : forall k, lawful k = true ->
  forall fa fb a b, merge fa fb k a b = merge fb fa k b a.
Proof.
  induction k using kind_ind'; intros L fa fb a b; try discriminate.
  - cbn [merge]. rewrite (D_eqb_sym b a). destruct (D_eqb a b) eqn:E; [|reflexivity].
    apply D_eqb_spec in E; subst; reflexivity.
  - cbn [merge]. destruct a as [| | |[x|]| | | |], b as [| | |[y|]| | | |]; try reflexivity.
    rewrite (N.eqb_sym y x). destruct (N.eqb x y) eqn:E; [|reflexivity]. apply N.eqb_eq in E; subst; reflexivity.
  - cbn [merge]. destruct a, b; try reflexivity. rewrite andb_comm; reflexivity.
  - cbn [merge]. destruct a, b; try reflexivity. rewrite orb_comm; reflexivity.
  - cbn [merge]. destruct a as [| |[|]| | | | |], b as [| |[|]| | | | |]; reflexivity.
  - rewrite lawful_rec in L.
    destruct a as [| | | | |la| |], b as [| | | | |lb| |]; try reflexivity.
    rewrite !merge_rec. f_equal.
    revert la lb. induction H as [|k ks Hk Hks IH]; intros [|x la] [|y lb]; try reflexivity.
    cbn [lawful_list] in L. apply andb_true_iff in L. destruct L as [Lk Lks].
    cbn [merge_fields]. rewrite (Hk Lk fa fb x y), (IH Lks la lb). reflexivity.
  - cbn [lawful] in L. destruct a as [| | | | | |la|], b as [| | | | | |lb|]; try reflexivity.
    rewrite !merge_vec. f_equal. apply zipm_comm. apply Forall_forall. intros; apply IHk; exact L.
Qed.

(** * Idempotence *)
Theorem merge_idem : forall k, lawful k = true ->
  forall g a, typed k a = true -> merge g g k a a = Some a.
Proof.
  induction k using kind_ind'; intros L g a T; try discriminate.
  - cbn [merge]. rewrite D_eqb_refl; reflexivity.
  - cbn [merge]. destruct a as [| | |[x|]| | | |]; try discriminate; [rewrite N.eqb_refl|]; reflexivity.
  - cbn [merge]. destruct a; try discriminate. rewrite andb_diag; reflexivity.
  - cbn [merge]. destruct a; try discriminate. rewrite orb_diag; reflexivity.
  - cbn [merge]. destruct a as [| |[|]| | | | |]; try discriminate; reflexivity.
  - rewrite lawful_rec in L. destruct a as [| | | | |la| |]; try discriminate.
    rewrite typed_rec in T. rewrite merge_rec.
    assert (E : merge_fields g g ks la la = Some la); [|rewrite E; reflexivity].
    revert la T. induction H as [|k ks Hk Hks IH]; intros [|x la] T; try discriminate; [reflexivity|].
    cbn [lawful_list] in L. apply andb_true_iff in L. destruct L as [Lk Lks].
    cbn [typed_fields] in T. apply andb_true_iff in T. destruct T as [Tx Tl].
    cbn [merge_fields]. rewrite (Hk Lk g x Tx), (IH Lks la Tl). reflexivity.
  - cbn [lawful] in L. destruct a as [| | | | | |la|]; try discriminate. cbn [typed] in T.
    rewrite merge_vec.
    assert (E : zipm (merge g g k) (g f) (g f) la la = Some la); [|rewrite E; reflexivity].
    induction la as [|x la IH]; [reflexivity|].
    cbn [forallb] in T. apply andb_true_iff in T. destruct T as [Tx Tl].
    cbn [zipm]. rewrite (IHk L g x Tx), (IH Tl). reflexivity.
Qed.

(** * Every field either input carried is in the result *)
Lemma le_refl : forall k a, shaped k a = true -> le k a a = true.
Proof.
  induction k using kind_ind'; intros a T.
  - cbn. apply D_eqb_refl.
  - destruct a as [| | |[x|]| | | |]; try discriminate; cbn; [apply N.eqb_refl | reflexivity].
  - destruct a as [| |[|]| | | | |]; try discriminate; reflexivity.
  - destruct a as [| |[|]| | | | |]; try discriminate; reflexivity.
  - destruct a as [| |[|]| | | | |]; try discriminate; reflexivity.
  - reflexivity.
  - destruct a as [| | | | |la| |]; try discriminate. rewrite shaped_rec in T. rewrite le_rec.
    revert la T. induction H as [|k ks Hk Hks IH]; intros [|x la] T; try discriminate; [reflexivity|].
    cbn [shaped_fields] in T. apply andb_true_iff in T. destruct T as [Tx Tl].
    cbn [le_fields]. rewrite (Hk x Tx), (IH la Tl). reflexivity.
  - destruct a as [| | | | | |la|]; try discriminate. cbn [shaped] in T. rewrite le_vec.
    induction la as [|x la IH]; [reflexivity|].
    cbn [forallb] in T. apply andb_true_iff in T. destruct T as [Tx Tl].
    cbn [le_prefix]. rewrite (IHk x Tx), (IH Tl). reflexivity.
Qed.

Lemma le_prefix_refl k l : Forall (fun x => le k x x = true) l -> le_prefix k l l = true.
Proof. induction 1 as [|x l Hx Hl IH]; [reflexivity|]. cbn. rewrite Hx, IH. reflexivity. Qed.

(** Well-typedness of inputs is needed only where an adopted tail must be compared with itself. *)
Theorem merge_keeps : forall k fa fb a b c,
  shaped k a = true -> shaped k b = true ->
  merge fa fb k a b = Some c -> le k a c = true /\ le k b c = true.
Proof.
  induction k using kind_ind'; intros fa fb a b c Ta Tb M.
  - cbn [merge] in M. destruct (D_eqb a b) eqn:E; [|discriminate]. inversion M; subst.
    apply D_eqb_spec in E; subst. cbn. rewrite D_eqb_refl. auto.
  - cbn [merge] in M. destruct a as [| | |[x|]| | | |], b as [| | |[y|]| | | |]; try discriminate.
    + destruct (N.eqb x y) eqn:E; [|discriminate]. inversion M; subst. cbn. rewrite N.eqb_refl, N.eqb_sym, E. auto.
    + inversion M; subst. cbn. rewrite N.eqb_refl. auto.
    + inversion M; subst. cbn. rewrite N.eqb_refl. auto.
    + inversion M; subst. cbn. auto.
  - cbn [merge] in M. destruct a as [| |x| | | | |], b as [| |y| | | | |]; try discriminate. inversion M; subst.
    cbn. destruct x, y; auto.
  - cbn [merge] in M. destruct a as [| |x| | | | |], b as [| |y| | | | |]; try discriminate. inversion M; subst.
    cbn. destruct x, y; auto.
  - cbn [merge] in M. destruct a as [| |[|]| | | | |], b as [| |[|]| | | | |]; try discriminate. inversion M; subst. cbn. auto.
  - cbn. auto.
  - destruct a as [| | | | |la| |], b as [| | | | |lb| |]; try discriminate.
    rewrite merge_rec in M. destruct (merge_fields fa fb ks la lb) as [lc|] eqn:E; [|discriminate].
    cbn in M; inversion M; subst c; clear M. rewrite shaped_rec in Ta, Tb. rewrite !le_rec.
    revert la lb lc Ta Tb E. induction H as [|k ks Hk Hks IH]; intros [|x la] [|y lb] lc Ta Tb E; try discriminate.
    + inversion E; subst. auto.
    + cbn [shaped_fields] in Ta, Tb. apply andb_true_iff in Ta, Tb. destruct Ta as [Tx Tla], Tb as [Ty Tlb].
      cbn [merge_fields] in E. destruct (merge fa fb k x y) as [z|] eqn:Ez; [|discriminate].
      destruct (merge_fields fa fb ks la lb) as [r|] eqn:Er; [|discriminate]. inversion E; subst.
      destruct (Hk fa fb x y z Tx Ty Ez) as [A B]. destruct (IH la lb r Tla Tlb Er) as [A' B'].
      cbn [le_fields]. rewrite A, B, A', B'. auto.
  - destruct a as [| | | | | |la|], b as [| | | | | |lb|]; try discriminate.
    rewrite merge_vec in M. destruct (zipm (merge fa fb k) (fa f) (fb f) la lb) as [lc|] eqn:E; [|discriminate].
    cbn in M; inversion M; subst c; clear M. cbn [shaped] in Ta, Tb. rewrite !le_vec.
    assert (R : forall l, forallb (shaped k) l = true -> le_prefix k l l = true).
    { intros l Tl. apply le_prefix_refl. apply Forall_forall. intros x Hx.
      apply le_refl. rewrite forallb_forall in Tl. auto. }
    revert lb lc Ta Tb E. induction la as [|x la IH]; intros [|y lb] lc Ta Tb E.
    + inversion E; subst. auto.
    + cbn [zipm] in E. destruct (fa f); [|discriminate]. inversion E; subst. split; [reflexivity | apply R; exact Tb].
    + cbn [zipm] in E. destruct (fb f); [|discriminate]. inversion E; subst. split; [apply R; exact Ta | reflexivity].
    + cbn [forallb] in Ta, Tb. apply andb_true_iff in Ta, Tb. destruct Ta as [Tx Tla], Tb as [Ty Tlb].
      cbn [zipm] in E. destruct (merge fa fb k x y) as [z|] eqn:Ez; [|discriminate].
      destruct (zipm (merge fa fb k) (fa f) (fb f) la lb) as [r|] eqn:Er; [|discriminate]. inversion E; subst.
      destruct (IHk fa fb x y z Tx Ty Ez) as [A B]. destruct (IH lb r Tla Tlb Er) as [A' B'].
      cbn [le_prefix]. rewrite A, B, A', B'. auto.
Qed.

(** * Success iff the two copies are compatible *)
Theorem merge_some_iff_compat : forall k fa fb a b,
  (merge fa fb k a b <> None) <-> compat fa fb k a b = true.
Proof.
  induction k using kind_ind'; intros fa fb a b.
  - cbn. destruct (D_eqb a b); split; congruence.
  - cbn. destruct a as [| | |[x|]| | | |], b as [| | |[y|]| | | |]; try (split; congruence).
    destruct (N.eqb x y); split; congruence.
  - cbn. destruct a, b; split; congruence.
  - cbn. destruct a, b; split; congruence.
  - cbn. destruct a as [| |[|]| | | | |], b as [| |[|]| | | | |]; split; congruence.
  - cbn. split; congruence.
  - destruct a as [| | | | |la| |], b as [| | | | |lb| |]; try (cbn; split; congruence).
    rewrite merge_rec, compat_rec.
    assert (E : merge_fields fa fb ks la lb <> None <-> compat_fields fa fb ks la lb = true).
    { revert la lb. induction H as [|k ks Hk Hks IH]; intros [|x la] [|y lb]; cbn; try (split; congruence).
      specialize (Hk fa fb x y). specialize (IH la lb).
      destruct (merge fa fb k x y), (merge_fields fa fb ks la lb), (compat fa fb k x y), (compat_fields fa fb ks la lb);
        cbn; split; try congruence; intros; exfalso;
        try (destruct Hk as [Hk1 Hk2]; first [ specialize (Hk1 ltac:(congruence)); discriminate | specialize (Hk2 eq_refl); congruence ]);
        try (destruct IH as [I1 I2]; first [ specialize (I1 ltac:(congruence)); discriminate | specialize (I2 eq_refl); congruence ]). }
    destruct (merge_fields fa fb ks la lb) as [r|]; cbn.
    + split; [intros _; apply (proj1 E); congruence | congruence].
    + split; [congruence | intros C; apply (proj2 E) in C; congruence].
  - destruct a as [| | | | | |la|], b as [| | | | | |lb|]; try (cbn; split; congruence).
    rewrite merge_vec, compat_vecE.
    assert (E : zipm (merge fa fb k) (fa f) (fb f) la lb <> None <-> compat_vec fa fb (fa f) (fb f) k la lb = true).
    { revert lb. induction la as [|x la IH]; intros [|y lb]; cbn; try (split; congruence).
      - destruct (fa f); split; congruence.
      - destruct (fb f); split; congruence.
      - specialize (IHk fa fb x y). specialize (IH lb).
        destruct (merge fa fb k x y), (zipm (merge fa fb k) (fa f) (fb f) la lb), (compat fa fb k x y),
          (compat_vec fa fb (fa f) (fb f) k la lb);
          cbn; split; try congruence; intros; exfalso;
          try (destruct IHk as [Hk1 Hk2]; first [ specialize (Hk1 ltac:(congruence)); discriminate | specialize (Hk2 eq_refl); congruence ]);
          try (destruct IH as [I1 I2]; first [ specialize (I1 ltac:(congruence)); discriminate | specialize (I2 eq_refl); congruence ]). }
    destruct (zipm (merge fa fb k) (fa f) (fb f) la lb) as [r|]; cbn.
    + split; [intros _; apply (proj1 E); congruence | congruence].
    + split; [congruence | intros C; apply (proj2 E) in C; congruence].
Qed.

Corollary merge_conflict k fa fb a b : compat fa fb k a b = false -> merge fa fb k a b = None.
Proof.
  intros C. destruct (merge fa fb k a b) eqn:E; [|reflexivity].
  assert (merge fa fb k a b <> None) as N by congruence. apply merge_some_iff_compat in N. congruence.
Qed.

(** * The information order is transitive *)
Theorem le_trans : forall k a b c, le k a b = true -> le k b c = true -> le k a c = true.
Proof.
  induction k using kind_ind'; intros a b c H1 H2.
  - cbn in *. apply D_eqb_spec in H1, H2. subst. apply D_eqb_refl.
  - destruct a as [| | |[u|]| | | |], b as [| | |[v|]| | | |], c as [| | |[w|]| | | |]; cbn in *; try discriminate; try reflexivity.
    apply N.eqb_eq in H1, H2. subst. apply N.eqb_refl.
  - destruct a as [| |u| | | | |], b as [| |v| | | | |], c as [| |w| | | | |]; cbn in *; try discriminate. destruct u, v, w; auto.
  - destruct a as [| |u| | | | |], b as [| |v| | | | |], c as [| |w| | | | |]; cbn in *; try discriminate. destruct u, v, w; auto.
  - destruct a as [| |u| | | | |], b as [| |v| | | | |], c as [| |w| | | | |]; cbn in *; try discriminate. destruct u, v, w; auto.
  - reflexivity.
  - destruct a as [| | | | |la| |], b as [| | | | |lb| |], c as [| | | | |lc| |]; try discriminate.
    rewrite le_rec in *. revert la lb lc H1 H2.
    induction H as [|k ks Hk Hks IH]; intros [|x la] [|y lb] [|w lc] H1 H2; try discriminate; [reflexivity|].
    cbn [le_fields] in *. apply andb_true_iff in H1, H2. destruct H1 as [A1 A2], H2 as [B1 B2].
    rewrite (Hk x y w A1 B1), (IH la lb lc A2 B2). reflexivity.
  - destruct a as [| | | | | |la|], b as [| | | | | |lb|], c as [| | | | | |lc|]; try discriminate.
    rewrite le_vec in *. revert lb lc H1 H2.
    induction la as [|x la IH]; intros [|y lb] [|w lc] H1 H2; try discriminate; try reflexivity.
    cbn [le_prefix] in *. apply andb_true_iff in H1, H2. destruct H1 as [A1 A2], H2 as [B1 B2].
    rewrite (IHk x y w A1 B1), (IH lb lc A2 B2). reflexivity.
Qed.
