(** C13 — instantiation of the pczt-level laws on the schema regenerated from the Rust source. *)
From V.Lib Require Import Base.
From Coq Require Import String Permutation.
From V.C13 Require Import Model Spec Corr Wf Proofs Proofs2 Proofs3 Proofs4.
From V.Gen Require Import C13Schema.

Definition fsg : list (string * skind) := match S_global with SRec fs => fs | _ => [] end.

(** the generated schema has the form the bundle-level hand model assumes *)
Lemma gen_global : S_global = SRec fsg. Proof. reflexivity. Qed.
Lemma gen_sapling : S_sapling = Ssap S_s_spend S_s_output. Proof. reflexivity. Qed.
Lemma gen_orchard : S_orchard = Sorc S_o_action. Proof. reflexivity. Qed.

Definition Hg : slawful (SRec fsg) = true := eq_refl.
Definition Ht : slawful S_transparent = true := eq_refl.
Definition Hss : slawful S_s_spend = true := eq_refl.
Definition Hso : slawful S_s_output = true := eq_refl.
Definition Hsa : slawful S_o_action = true := eq_refl.
Lemma Hb : exists nm, nth_error fsg 6 = Some (nm, SBits).
Proof. eexists. reflexivity. Qed.
Definition Hfl : sflat (S_pczt (SRec fsg) S_transparent (Ssap S_s_spend S_s_output) (Sorc S_o_action)) = true := eq_refl.

Lemma M_is_PM n : M n = PM n fsg S_transparent S_s_spend S_s_output S_o_action.
Proof. reflexivity. Qed.
Lemma Kl_is_PK n : Kl n = PK n fsg S_transparent S_s_spend S_s_output S_o_action.
Proof. reflexivity. Qed.

Theorem gen_pczt_is_ref n a b :
  shaped (Kl n) a = true -> shaped (Kl n) b = true -> same_len a b = true ->
  M n a b = ref_merge S_global S_transparent S_sapling S_orchard n a b.
Proof. exact (pczt_is_ref n fsg S_transparent S_s_spend S_s_output S_o_action Hg Ht Hss Hso Hsa a b). Qed.

Theorem gen_pczt_merge_comm n a b :
  shaped (Kl n) a = true -> shaped (Kl n) b = true -> same_len a b = true -> M n a b = M n b a.
Proof. exact (pczt_merge_comm n fsg S_transparent S_s_spend S_s_output S_o_action Hg Ht Hss Hso Hsa a b). Qed.

Theorem gen_pczt_merge_idem n a : typed (Kl n) a = true -> M n a a = Some a.
Proof. exact (pczt_merge_idem n fsg S_transparent S_s_spend S_s_output S_o_action Hg Ht Hss Hso Hsa a). Qed.

Theorem gen_pczt_merge_keeps n a b c :
  shaped (Kl n) a = true -> shaped (Kl n) b = true -> same_len a b = true ->
  M n a b = Some c -> le (Kl n) a c = true /\ le (Kl n) b c = true.
Proof. exact (pczt_merge_keeps n fsg S_transparent S_s_spend S_s_output S_o_action Hg Ht Hss Hso Hsa a b c). Qed.

Theorem gen_pczt_merge_conflict n a b :
  shaped (Kl n) a = true -> shaped (Kl n) b = true -> same_len a b = true ->
  (M n a b <> None <-> compat (pflags a) (pflags b) (Kl n) a b = true).
Proof. exact (pczt_merge_conflict n fsg S_transparent S_s_spend S_s_output S_o_action Hg Ht Hss Hso Hsa a b). Qed.

Theorem gen_pczt_merge_assoc n a b c :
  shaped (Kl n) a = true -> shaped (Kl n) b = true -> shaped (Kl n) c = true ->
  same_len a b = true -> same_len b c = true ->
  obind (M n a b) (fun x => M n x c) = obind (M n b c) (fun y => M n a y).
Proof. exact (pczt_merge_assoc n fsg S_transparent S_s_spend S_s_output S_o_action Hg Hb Ht Hss Hso Hsa Hfl a b c). Qed.

Definition okP (n : nat) (L : list nat) (p : D) : Prop := shaped (Kl n) p = true /\ shielded_lens p = L.

Theorem gen_pczt_combine_perm n L l l' :
  Forall (okP n L) l -> Permutation l l' -> combine_with (M n) l = combine_with (M n) l'.
Proof. exact (pczt_combine_perm n fsg S_transparent S_s_spend S_s_output S_o_action Hg Hb Ht Hss Hso Hsa Hfl L l l'). Qed.

(** * Folds and expressions over the generated schema *)
Definition F1 (n : nat) : list D -> option D := fold1 n fsg S_transparent S_s_spend S_s_output S_o_action.

Theorem gen_eval_flat n L P : Forall (okP n L) P -> forall e,
  wf_expr e = true -> Forall (fun i => (i < List.length P)%nat) (leaves e) ->
  eval (M n) P e = F1 n (map (party P) (leaves e)).
Proof. exact (eval_flat n fsg S_transparent S_s_spend S_s_output S_o_action Hg Hb Ht Hss Hso Hsa Hfl L P). Qed.

Theorem gen_fold1_perm n L l l' : Forall (okP n L) l -> Permutation l l' -> F1 n l = F1 n l'.
Proof. exact (fold1_perm n fsg S_transparent S_s_spend S_s_output S_o_action Hg Hb Ht Hss Hso Hsa Hfl L l l'). Qed.

Theorem gen_fold_keeps n L l p c : okP n L p -> Forall (okP n L) l -> fold_merge (M n) p l = Some c ->
  le (Kl n) p c = true /\ Forall (fun q => le (Kl n) q c = true) l.
Proof. exact (fold_keeps n fsg S_transparent S_s_spend S_s_output S_o_action Hg Ht Hss Hso Hsa L l p c). Qed.

Theorem gen_fold_okp n L l p c : okP n L p -> Forall (okP n L) l -> fold_merge (M n) p l = Some c -> okP n L c.
Proof. exact (fold_okp n fsg S_transparent S_s_spend S_s_output S_o_action Hg Ht Hss Hso Hsa L l p c). Qed.

Lemma F1_cons n p l : F1 n (p :: l) = fold_merge (M n) p l.
Proof. reflexivity. Qed.
Lemma F1_two n a b : F1 n [a; b] = M n a b.
Proof. rewrite F1_cons. cbn [fold_merge]. destruct (M n a b); reflexivity. Qed.
