(** C20 — correspondence cases.  One constructor per public API call (or sequence of calls on
    one [Tree]); inputs followed by what the implementation returned.  [run_case] compares the
    model with the implementation, [prop_case] evaluates the property on the implementation's
    outcome against Spec.v (from-scratch rebuild), not against the model.

    Hashes: a case carries the table [tbl] of the (branch, pre-image, digest) triples of every
    node the implementation created; the model and the specification are run with the table
    look-up [Htbl tbl] as [H].  The check driver verifies each triple with an independent
    BLAKE2b (Python hashlib, personalisation "ZcashHistory"||branch).  Long sequences are run
    with [hk = false]: no table, commitments of inner nodes are not compared in Coq (the
    harness recomputes the root commitment from the serialised children and reports [hok]). *)
From V.Lib Require Import Base MachInt Hex.
From V.C20 Require Import Model Spec.
Local Open Scope Z_scope.

Definition hz (s : String.string) : list Z := map Z.of_N (hex s).

Fixpoint lz_eqb (a b : list Z) : bool :=
  match a, b with
  | [], [] => true
  | x :: a', y :: b' => if x =? y then lz_eqb a' b' else false
  | _, _ => false
  end.

Definition hent := (Z * list Z * list Z)%type.
Fixpoint Htbl (tbl : list hent) (bid : Z) (pre : list Z) : list Z :=
  match tbl with
  | [] => []
  | (b, p, dg) :: r => if b =? bid then (if lz_eqb p pre then dg else Htbl r bid pre) else Htbl r bid pre
  end.

(** Constructors for the harness printer. *)
Definition D1 b c st et sta eta ss es w sh eh stx : data :=
  mkData b c st et sta eta ss es w sh eh stx [] [] 0 [] [] 0.
Definition D2 b c st et sta eta ss es w sh eh stx so eo otx : data :=
  mkData b c st et sta eta ss es w sh eh stx so eo otx [] [] 0.
Definition D3 := mkData.

(** [data_eqb hk]: with [hk = false] the commitment is not compared. *)
Definition data_eqb (hk : bool) (a b : data) : bool :=
  (d_branch a =? d_branch b) && (if hk then lz_eqb (d_commit a) (d_commit b) else true) &&
  (d_stime a =? d_stime b) && (d_etime a =? d_etime b) &&
  (d_starget a =? d_starget b) && (d_etarget a =? d_etarget b) &&
  lz_eqb (d_ssap a) (d_ssap b) && lz_eqb (d_esap a) (d_esap b) &&
  (d_work a =? d_work b) && (d_sh a =? d_sh b) && (d_eh a =? d_eh b) && (d_saptx a =? d_saptx b) &&
  lz_eqb (d_sorch a) (d_sorch b) && lz_eqb (d_eorch a) (d_eorch b) && (d_orchtx a =? d_orchtx b) &&
  lz_eqb (d_siron a) (d_siron b) && lz_eqb (d_eiron a) (d_eiron b) && (d_irontx a =? d_irontx b).

Definition link_eqb (a b : link) : bool :=
  match a, b with
  | Stored i, Stored j | Generated i, Generated j => i =? j
  | _, _ => false
  end.
Definition kind_eqb (a b : kind) : bool :=
  match a, b with
  | Leaf, Leaf => true
  | Node l r, Node l' r' => link_eqb l l' && link_eqb r r'
  | _, _ => false
  end.
Definition entry_eqb (hk : bool) (a b : entry) : bool :=
  kind_eqb (e_kind a) (e_kind b) && data_eqb hk (e_data a) (e_data b).
Definition terr_eqb (a b : terr) : bool :=
  match a, b with
  | ExpectedInMemory l, ExpectedInMemory l' => link_eqb l l'
  | ExpectedNode o, ExpectedNode o' => option_eqb link_eqb o o'
  | _, _ => false
  end.
Definition unit_eqb (_ _ : unit) := true.

Inductive op := OpAppend (d : data) | OpTruncate.

(** What the harness observes after one operation: the returned value, [len()], [root()],
    [root_node().data()], and [hok] = "the root commitment equals BLAKE2b of its serialised
    children" (true for a leaf root). *)
Inductive sobs :=
| SAppend (links : list link) (len : Z) (root : link) (rd : data) (hok : bool)
| STrunc (cnt : Z) (len : Z) (root : link) (rd : data) (hok : bool)
| SErr (e : terr)
| SPanic.

(** Observation after [Tree::new]. *)
Inductive nobs := NOk (len : Z) (root : link) (rd : data) (hok : bool) | NPanic.

Inductive case :=
| CCsRead (b : list Z) (o : outcome (Z * list Z) rerr)
| CCsWrite (x : Z) (o : list Z)
| CNodeRead (v : ver) (branch : Z) (b : list Z) (o : outcome data rerr)
| CNodeWrite (v : ver) (d : data) (o : list Z)
| CEntryRead (v : ver) (branch : Z) (b : list Z) (o : outcome entry rerr)
| CEntryWrite (v : ver) (e : entry) (o : outcome (list Z) rerr)
| CLeafCount (d : data) (o : outcome (Z * bool) unit)
| CCombine (v : ver) (oc : bool) (tbl : list hent) (l r : data) (o : outcome data unit)
(** [Tree::new(length, peaks, extra)] on a view loaded from the array representation of the
    tree over [leaves], then [ops] applied one after the other (stopping at the first failure).
    [Tree::new(1, [(0, leaf d)], [])] followed by appends/truncations is the full-tree case. *)
| CTree (v : ver) (oc hk : bool) (tbl : list hent) (leaves : list data)
        (length : Z) (peaks extra : list (Z * entry)) (n : nobs) (ops : list op) (obs : list sobs).

(** * model = implementation *)

Section Run.
Variable H : Z -> list Z -> list Z.
Variable oc hk : bool.
Variable v : ver.

Definition root_ok (t : tree) (len : Z) (root : link) (rd : data) : bool :=
  (len =? t_count t) && link_eqb root (t_root t) &&
  match root_node t with Ok e => data_eqb hk (e_data e) rd | _ => false end.

Fixpoint run_ops (t : tree) (ops : list op) (obs : list sobs) : bool :=
  match ops, obs with
  | [], [] => true
  | OpAppend d :: ops', o :: obs' =>
      match append_leaf H oc v t d, o with
      | Ok (t', links), SAppend links' len root rd _ =>
          list_eqb link_eqb links links' && root_ok t' len root rd && run_ops t' ops' obs'
      | Err e, SErr e' => terr_eqb e e' && match obs' with [] => true | _ => false end
      | Panic, SPanic => match obs' with [] => true | _ => false end
      | _, _ => false
      end
  | OpTruncate :: ops', o :: obs' =>
      match truncate_leaf H oc v t, o with
      | Ok (t', cnt), STrunc cnt' len root rd _ =>
          (cnt =? cnt') && root_ok t' len root rd && run_ops t' ops' obs'
      | Err e, SErr e' => terr_eqb e e' && match obs' with [] => true | _ => false end
      | Panic, SPanic => match obs' with [] => true | _ => false end
      | _, _ => false
      end
  | _, _ => false
  end.

Definition run_tree (length : Z) (peaks extra : list (Z * entry)) (n : nobs) (ops : list op)
  (obs : list sobs) : bool :=
  match tree_new H oc v length peaks extra, n with
  | Ok t, NOk len root rd _ => root_ok t len root rd && run_ops t ops obs
  | Panic, NPanic => match obs with [] => true | _ => false end
  | _, _ => false
  end.
End Run.

Definition run_case (c : case) : bool :=
  match c with
  | CCsRead b o => outcome_eqb (pair_eqb Z.eqb lz_eqb) rerr_eqb (read_cs b) o
  | CCsWrite x o => lz_eqb (write_cs x) o
  | CNodeRead v br b o => outcome_eqb (data_eqb true) rerr_eqb (node_from_bytes v br b) o
  | CNodeWrite v d o => lz_eqb (write_node v d) o
  | CEntryRead v br b o => outcome_eqb (entry_eqb true) rerr_eqb (entry_from_bytes v br b) o
  | CEntryWrite v e o => outcome_eqb lz_eqb rerr_eqb (write_entry v e) o
  | CLeafCount d o =>
      outcome_eqb (pair_eqb Z.eqb Bool.eqb) unit_eqb
        (match leaf_count (mkEntry Leaf d) with Ok n => Ok (n, is_pow2 n) | _ => Panic end) o
  | CCombine v oc tbl l r o => outcome_eqb (data_eqb true) unit_eqb (combine (Htbl tbl) oc v l r) o
  | CTree v oc hk tbl _ length peaks extra n ops obs =>
      run_tree (Htbl tbl) oc hk v length peaks extra n ops obs
  end.

(** * Boolean domain predicates *)

Definition bytes_b (n : nat) (l : list Z) : bool := (length l =? n)%nat && forallb is_byteZ l.
Definition opt_bytes_b (present : bool) (l : list Z) : bool :=
  if present then bytes_b 32 l else match l with [] => true | _ => false end.
Definition opt_u64_b (present : bool) (x : Z) : bool := if present then in_u64 x else x =? 0.
Definition in_u256 (x : Z) : bool := (0 <=? x) && (x <=? u256_max).

Definition wf_data_b (v : ver) (d : data) : bool :=
  in_u32 (d_branch d) && bytes_b 32 (d_commit d) && in_u32 (d_stime d) && in_u32 (d_etime d) &&
  in_u32 (d_starget d) && in_u32 (d_etarget d) && bytes_b 32 (d_ssap d) && bytes_b 32 (d_esap d) &&
  in_u256 (d_work d) && in_u64 (d_sh d) && in_u64 (d_eh d) && in_u64 (d_saptx d) &&
  opt_bytes_b (has_orchard v) (d_sorch d) && opt_bytes_b (has_orchard v) (d_eorch d) &&
  opt_u64_b (has_orchard v) (d_orchtx d) &&
  opt_bytes_b (has_ironwood v) (d_siron d) && opt_bytes_b (has_ironwood v) (d_eiron d) &&
  opt_u64_b (has_ironwood v) (d_irontx d).

Fixpoint consecutive_b (h : Z) (ls : list data) : bool :=
  match ls with
  | [] => true
  | d :: r => (d_sh d =? h) && (d_eh d =? h) && consecutive_b (h + 1) r
  end.

Definition sums_fit_b (ls : list data) : bool :=
  (zsum d_saptx ls <=? u64_max) && (zsum d_orchtx ls <=? u64_max) && (zsum d_irontx ls <=? u64_max) &&
  (zsum d_work ls <=? u256_max).

Definition same_branch_b (ls : list data) : bool :=
  match ls with [] => true | d :: r => forallb (fun x => d_branch x =? d_branch d) r end.

(** leaves of one chain (everything of [good_leaves] except the overflow guard) *)
Definition chain_b (v : ver) (ls : list data) : bool :=
  forallb (wf_data_b v) ls && same_branch_b ls &&
  match ls with [] => true | d :: _ => consecutive_b (d_sh d) ls end.

(** Leaves after each operation (the appends/truncations act as a stack). *)
Definition apply_op (ls : list data) (o : op) : list data :=
  match o with OpAppend d => ls ++ [d] | OpTruncate => removelast ls end.

Fixpoint states (ls : list data) (ops : list op) : list (list data) :=
  match ops with [] => [] | o :: r => apply_op ls o :: states (apply_op ls o) r end.

(** * The from-scratch array representation (used to check that a view is a view of the tree) *)
Section Arr.
Variable H : Z -> list Z -> list Z.
Variable v : ver.
(** post-order array of a subtree placed at offset [o] *)
Fixpoint bt_array (o : Z) (T : bt) : list (Z * entry) :=
  match T with
  | BL d => [(o, mkEntry Leaf d)]
  | BN l r =>
      bt_array o l ++ bt_array (o + bt_size l) r ++
      [(o + bt_size l + bt_size r,
        mkEntry (Node (Stored (o + bt_size l - 1)) (Stored (o + bt_size l + bt_size r - 1)))
                (bt_data H v (BN l r)))]
  end.
Fixpoint trees_array (o : Z) (Ts : list bt) : list (Z * entry) :=
  match Ts with [] => [] | T :: r => bt_array o T ++ trees_array (o + bt_size T) r end.
Definition mmr_array (ls : list data) : list (Z * entry) := trees_array 0 (mmr_trees ls).
(** root positions of the peaks *)
Fixpoint peak_positions (o : Z) (Ts : list bt) : list Z :=
  match Ts with [] => [] | T :: r => (o + bt_size T - 1) :: peak_positions (o + bt_size T) r end.
(** nodes [truncate_leaf] reads besides the peaks: the right spine of the last peak and the
    left children hanging off it *)
Fixpoint spine_positions (p : Z) (T : bt) : list Z :=
  match T with
  | BL _ => [p]
  | BN l r => p :: (p - bt_size r - 1) :: spine_positions (p - 1) r
  end.
End Arr.

(** * The property on the implementation's outcome *)
Section PropEval.
Variable H : Z -> list Z -> list Z.
Variable hk : bool.
Variable v : ver.
(** [uh]: also require the harness-side commitment check [hok] (the full property checker);
    [uh = false] is the part of the checker that follows from agreement with the model. *)
Variable uh : bool.
Definition hok_ok (hok : bool) : bool := hok || negb uh.

Definition root_matches (ls : list data) (len : Z) (rd : data) (hok : bool) : bool :=
  match mmr_root H v ls with
  | Some d => data_eqb hk d rd && (len =? mmr_size (length ls)) && hok_ok hok
  | None => false
  end.

(** expected links of an append: the new array slots, in order *)
Definition expected_links (n : nat) : list link :=
  map (fun i => Stored (mmr_size n + Z.of_nat i)) (seq 0 (Z.to_nat (mmr_size (S n) - mmr_size n))).

(** Which steps are compared against a full from-scratch rebuild (all of them for short
    histories; a deterministic subset for long ones, to bound the cost). *)
Definition check_step (i : nat) (n : nat) (last : bool) : bool :=
  (n <=? 40)%nat || (Nat.eqb (i mod 64) 0) || last ||
  Nat.eqb (2 ^ Nat.log2 n) n || Nat.eqb (2 ^ Nat.log2 (S n)) (S n) || Nat.eqb (2 ^ Nat.log2 (n - 1)) (n - 1).

Fixpoint prop_ops (i : nat) (full : bool) (ls : list data) (ops : list op) (obs : list sobs) : bool :=
  match ops, obs with
  | [], [] => true
  | o :: ops', s :: obs' =>
      let ls' := apply_op ls o in
      let last := match ops' with [] => true | _ => false end in
      match o, s with
      | OpAppend _, SAppend links len root rd hok =>
          list_eqb link_eqb links (expected_links (length ls)) &&
          (len =? mmr_size (length ls')) &&
          (if check_step i (length ls') last then root_matches ls' len rd hok else hok_ok hok) &&
          prop_ops (S i) full ls' ops' obs'
      | OpTruncate, STrunc cnt len root rd hok =>
          match ls' with
          | [] => false                              (* the last leaf cannot be removed *)
          | _ =>
            (cnt =? mmr_size (length ls) - mmr_size (length ls')) &&
            (len =? mmr_size (length ls')) &&
            (if check_step i (length ls') last then root_matches ls' len rd hok else hok_ok hok) &&
            prop_ops (S i) full ls' ops' obs'
          end
      | OpTruncate, SErr (ExpectedNode _) =>
          (* removing the only leaf is refused *)
          match ls with [_] => true | _ => false end
      | _, SErr (ExpectedInMemory _) =>
          (* only a partial view may lack a node, and only after its first operation *)
          negb full && negb (Nat.eqb i 0)
      | _, _ => false
      end
  | _, _ => false
  end.
End PropEval.

Definition subset_b (a b : list Z) : bool := forallb (fun x => existsb (Z.eqb x) b) a.

(** the view is a view of the tree over [leaves]: every supplied node is the node of the
    from-scratch array at that index, all peaks are supplied in order, and (for a truncation
    as first operation) so are the nodes on the right spine of the last peak. *)
Definition view_ok (H : Z -> list Z -> list Z) (hk : bool) (v : ver) (leaves : list data)
  (length : Z) (peaks extra : list (Z * entry)) (ops : list op) : bool :=
  let arr := mmr_array H v leaves in
  let Ts := mmr_trees leaves in
  (length =? mmr_size (List.length leaves)) &&
  forallb (fun p => match lookup (fst p) arr with Some e => entry_eqb (hk || match e_kind e with Leaf => true | _ => false end) e (snd p) | None => false end)
          (peaks ++ extra) &&
  list_eqb Z.eqb (map fst peaks) (peak_positions 0 Ts) &&
  match ops with
  | OpTruncate :: _ =>
      subset_b (spine_positions (length - 1) (last Ts (BL (hd (mkData 0 [] 0 0 0 0 [] [] 0 0 0 0 [] [] 0 [] [] 0) leaves))))
               (map fst (peaks ++ extra))
  | _ => true
  end.

(** every intermediate list of leaves satisfies the overflow guard *)
Definition all_fit (leaves : list data) (ops : list op) : bool :=
  sums_fit_b leaves && forallb sums_fit_b (states leaves ops).

Definition final_leaves (leaves : list data) (ops : list op) : list data :=
  fold_left apply_op ops leaves.
Definition max_leaves (leaves : list data) (ops : list op) : list data :=
  fold_left (fun a s => if (length a <? length s)%nat then s else a) (states leaves ops) leaves.
(** every intermediate list of leaves is a chain: the initial one is, and each appended leaf
    continues it (same branch, next height, start = end).  [n] = current number of leaves. *)
Fixpoint chain_scan (v : ver) (b h0 : Z) (n : Z) (ops : list op) : bool :=
  match ops with
  | [] => true
  | OpAppend d :: r =>
      wf_data_b v d && (d_branch d =? b) && (d_sh d =? h0 + n) && (d_eh d =? h0 + n) &&
      (mmr_size (Z.to_nat (n + 1)) <=? u32_max) &&
      chain_scan v b h0 (n + 1) r
  | OpTruncate :: r => (mmr_size (Z.to_nat (n - 1)) <=? u32_max) && chain_scan v b h0 (n - 1) r
  end.
Definition all_chain (v : ver) (leaves : list data) (ops : list op) : bool :=
  chain_b v leaves && (mmr_size (length leaves) <=? u32_max) &&
  match leaves with
  | [] => false
  | d :: _ => chain_scan v (d_branch d) (d_sh d) (Z.of_nat (length leaves)) ops
  end.

Definition is_full (leaves : list data) (peaks extra : list (Z * entry)) : bool :=
  match leaves, peaks, extra with
  | [d], [(0, _)], [] => true
  | _, _, _ => false
  end.

Definition prop_gen (uh : bool) (c : case) : bool :=
  match c with
  | CCsRead b o =>
      (* canonical: an accepted prefix is exactly the canonical encoding of the value *)
      match o with
      | Ok (x, rest) => in_u64 x && lz_eqb b (write_cs x ++ rest)
      | Err _ => true
      | Panic => false
      end
  | CCsWrite x o => outcome_eqb (pair_eqb Z.eqb lz_eqb) rerr_eqb (read_cs (o ++ [7])) (Ok (x, [7]))
  | CNodeRead v br b o =>
      match o with
      | Ok d => wf_data_b v d && (d_branch d =? br) &&
                match height_span (d_sh d) (d_eh d) with Some _ => true | None => false end &&
                lz_eqb (firstn (length (write_node v d)) b) (write_node v d)
      | Err _ => true
      | Panic => false
      end
  | CNodeWrite v d o =>
      (* parses back unchanged whenever the height range is representable *)
      match height_span (d_sh d) (d_eh d) with
      | Some _ => outcome_eqb (data_eqb true) rerr_eqb (node_from_bytes v (d_branch d) o) (Ok d)
      | None => outcome_eqb (data_eqb true) rerr_eqb (node_from_bytes v (d_branch d) o) (Err InvalidData)
      end
  | CEntryRead v br b o =>
      match o with
      | Ok e => wf_data_b v (e_data e) &&
                match write_entry v e with
                | Ok w => lz_eqb (firstn (length w) b) w
                | _ => false
                end
      | Err _ => true
      | Panic => false
      end
  | CEntryWrite v e o =>
      match o, e_kind e with
      | Ok w, (Leaf | Node (Stored _) (Stored _)) =>
          match height_span (d_sh (e_data e)) (d_eh (e_data e)) with
          | Some _ => outcome_eqb (entry_eqb true) rerr_eqb (entry_from_bytes v (d_branch (e_data e)) w) (Ok e)
          | None => true
          end
      | Err InvalidData, Node _ _ => true          (* generated links are not serialisable *)
      | _, _ => false
      end
  | CLeafCount d o =>
      (* documented: panics exactly on a descending / unrepresentable range *)
      match height_span (d_sh d) (d_eh d), o with
      | Some n, Ok (m, _) => n =? m
      | None, Panic => true
      | _, _ => false
      end
  | CCombine v oc tbl l r o =>
      if (d_branch l =? d_branch r) then
        outcome_eqb (data_eqb true) unit_eqb (Ok (combine_spec (Htbl tbl) v l r)) o
      else match o with Panic => true | _ => false end     (* assert_eq! on branch ids *)
  | CTree v oc hk tbl leaves length peaks extra n ops obs =>
      if all_chain v leaves ops && view_ok (Htbl tbl) hk v leaves length peaks extra ops then
        match n with
        | NOk len root rd hok =>
            root_matches (Htbl tbl) hk v uh leaves len rd hok &&
            prop_ops (Htbl tbl) hk v uh 0 (is_full leaves peaks extra) leaves ops obs
        | NPanic => false
        end
      else true
  end.

(** the full property checker, and the part of it that does not rest on the harness-side
    commitment check *)
Definition prop_case (c : case) : bool := prop_gen true c.
Definition prop_main (c : case) : bool := prop_gen false c.

(** Known-finding classes (0 = none).
    1 = the combined counters do not fit: some per-pool transaction total exceeds [u64::MAX] or
        the total work exceeds [U256::MAX] ([combine_inner] adds with plain [+]). *)
Definition known_class (c : case) : N :=
  match c with
  | CCombine v _ _ l r _ => if wf_data_b v l && wf_data_b v r && negb (sums_fit_b [l; r]) then 1%N else 0%N
  | CTree v _ _ _ leaves _ _ _ _ ops _ =>
      if all_chain v leaves ops && negb (all_fit leaves ops) then 1%N else 0%N
  | _ => 0%N
  end.

(** * Path tags *)
Definition failed {A E} (o : outcome A E) : N := match o with Ok _ => 0 | Err _ => 1 | Panic => 2 end%N.
Definition vnum (v : ver) : N := match v with V1 => 0 | V2 => 1 | V3 => 2 end%N.
Definition cs_width (x : Z) : N :=
  if x <? 253 then 0%N else if x <=? 65535 then 1%N else if x <=? 4294967295 then 2%N else 3%N.
(** trailing ones of [n] (number of merges of the next append), capped *)
Fixpoint trailing_ones (fuel : nat) (n : Z) : N :=
  match fuel with O => 0%N | S f => if Z.odd n then N.succ (trailing_ones f (n / 2)) else 0%N end.
Definition sobs_tag (s : sobs) : N :=
  match s with
  | SAppend links _ _ _ _ => N.min 9 (N.of_nat (length links))
  | STrunc cnt _ _ _ _ => 10 + N.min 9 (Z.to_N cnt)
  | SErr (ExpectedInMemory _) => 20
  | SErr (ExpectedNode _) => 21
  | SPanic => 22
  end%N.

Definition tag_case (c : case) : N :=
  (match c with
   | CCsRead b o => 10 + failed o + match o with Ok (x, _) => 3 * cs_width x | _ => 0 end
   | CCsWrite x _ => 30 + cs_width x
   | CNodeRead v _ _ o => 40 + 3 * vnum v + failed o
   | CNodeWrite v _ _ => 50 + vnum v
   | CEntryRead v _ _ o => 60 + 3 * vnum v + failed o
   | CEntryWrite v _ o => 70 + 3 * vnum v + failed o
   | CLeafCount _ o => 80 + failed o
   | CCombine v _ _ _ _ o => 90 + 3 * vnum v + failed o
   | CTree v _ hk _ leaves _ peaks extra n ops obs =>
       (* single-operation cases are tagged by the branch taken; sequences by their shape *)
       1000 * (1 + vnum v) + (if hk then 0 else 500) + (if is_full leaves peaks extra then 0 else 100) +
       match n, obs with
       | NPanic, _ => 99
       | _, [s] => sobs_tag s
       | _, _ => 30 + match last obs (SErr (ExpectedNode None)) with
                      | SPanic => 2 | SErr _ => 1 | _ => 0 end
       end
   end)%N.
