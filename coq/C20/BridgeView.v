(** C20 — bridge, part 3: partial-view cases.  The from-scratch array [mmr_array ls] used by the
    property checker is a fully loaded store in the sense of the representation invariant, so a
    view accepted by [view_ok] satisfies the hypotheses of the view theorems. *)
From V.Lib Require Import Base MachInt Hex.
From V.C20 Require Import Model Spec Corr Wf ProofsData ProofsArith ProofsStore ProofsAppend ProofsSpec
  ProofsTruncate ProofsTop ProofsCodec ProofsView ProofsNew BridgeCodec BridgeTree.
From Coq Require Import ZifyBool.
Local Open Scope Z_scope.

(** * The canonical peaks of a list of leaves, by repeated binary increment *)
Definition build_from (R : list (nat * bt)) (ls : list data) : list (nat * bt) :=
  fold_left (fun R d => merge_R 0 (BL d) R) ls R.
Definition build (ls : list data) : list (nat * bt) := build_from [] ls.

Lemma build_from_props : forall ls R,
  perfs R -> incr 0 (hts R) ->
  perfs (build_from R ls) /\ incr 0 (hts (build_from R ls)) /\
  rleaves (trs (build_from R ls)) = rleaves (trs R) ++ ls /\
  (ls <> [] -> build_from R ls <> []).
Proof.
  induction ls as [|d ls IH]; intros R P I; cbn [build_from fold_left].
  - rewrite app_nil_r. repeat split; auto.
  - destruct (merge_R_props 0 (BL d) R P I Logic.I) as (NE & P' & I').
    destruct (IH _ P' I') as (A & B & C & D). fold (build_from (merge_R 0 (BL d) R) ls).
    split; [exact A|]. split; [exact B|]. split.
    + rewrite C, merge_R_leaves. cbn [bt_leaves]. rewrite <- app_assoc. reflexivity.
    + intros _. destruct ls as [|d' ls']; [exact NE|]. apply D. discriminate.
Qed.

Lemma build_props ls : ls <> [] ->
  build ls <> [] /\ perfs (build ls) /\ incr 0 (hts (build ls)) /\ rleaves (trs (build ls)) = ls.
Proof.
  intros NE. destruct (build_from_props ls [] (Forall_nil _) Logic.I) as (A & B & C & D).
  split; [apply D; exact NE|]. split; [exact A|]. split; [exact B|exact C].
Qed.

Lemma build_trees ls : ls <> [] -> mmr_trees ls = rev (trs (build ls)).
Proof.
  intros NE. destruct (build_props ls NE) as (A & B & C & D).
  destruct (mmr_trees_unique (build ls) A B C) as [_ MT]. rewrite D in MT. exact MT.
Qed.

(** * Layout of the from-scratch array *)
Section Arr.
Variable H : Z -> list Z -> list Z.
Variable v : ver.
Notation bdata := (bt_data H v).
Notation stored_at := (stored_at H v).

Lemma lookup_app i a b :
  lookup i (a ++ b) = match lookup i a with Some e => Some e | None => lookup i b end.
Proof.
  induction a as [|[k e] a IH]; cbn [app lookup]; [reflexivity|]. destruct (k =? i); [reflexivity|exact IH].
Qed.

Lemma bt_array_out T : forall o i, (i < o \/ o + bt_size T <= i) -> lookup i (bt_array H v o T) = None.
Proof.
  induction T as [d|l IHl r IHr]; intros o i OUT; cbn [bt_array bt_size] in *.
  - cbn [lookup]. destruct (o =? i) eqn:E; [lia|reflexivity].
  - pose proof (bt_size_pos l). pose proof (bt_size_pos r).
    rewrite !lookup_app, IHl, IHr by lia. cbn [lookup].
    destruct (o + bt_size l + bt_size r =? i) eqn:E; [lia|reflexivity].
Qed.

Lemma bt_array_stored T : forall o pre post,
  (forall i, o <= i < o + bt_size T -> lookup i pre = None) ->
  stored_at (pre ++ bt_array H v o T ++ post) o T.
Proof.
  induction T as [d|l IHl r IHr]; intros o pre post PRE; cbn [bt_array bt_size ProofsStore.stored_at] in *.
  - rewrite lookup_app, PRE by lia. cbn [app lookup]. rewrite Z.eqb_refl. reflexivity.
  - pose proof (bt_size_pos l). pose proof (bt_size_pos r). split; [|split].
    + rewrite <- !app_assoc. apply IHl. intros; apply PRE; lia.
    + rewrite <- !app_assoc. rewrite (app_assoc pre). apply IHr.
      intros i Hi. rewrite lookup_app, PRE by lia. apply bt_array_out. lia.
    + rewrite lookup_app, PRE by lia. rewrite <- !app_assoc, !lookup_app.
      rewrite !bt_array_out by lia. cbn [app lookup]. rewrite Z.eqb_refl. reflexivity.
Qed.

Lemma trees_array_out Ts : forall o i, (i < o \/ o + total Ts <= i) -> lookup i (trees_array H v o Ts) = None.
Proof.
  induction Ts as [|T Ts IH]; intros o i OUT; cbn [trees_array total] in *; [reflexivity|].
  pose proof (bt_size_pos T). pose proof (total_nonneg Ts).
  rewrite lookup_app, bt_array_out, IH by lia. reflexivity.
Qed.

(** forward layout *)
Fixpoint fpeaks_at (m : list (Z * entry)) (o : Z) (Ts : list bt) : Prop :=
  match Ts with [] => True | T :: r => stored_at m o T /\ fpeaks_at m (o + bt_size T) r end.

Lemma trees_array_stored Ts : forall o pre post,
  (forall i, o <= i < o + total Ts -> lookup i pre = None) ->
  fpeaks_at (pre ++ trees_array H v o Ts ++ post) o Ts.
Proof.
  induction Ts as [|T Ts IH]; intros o pre post PRE; cbn [trees_array total fpeaks_at] in *; [exact Logic.I|].
  pose proof (bt_size_pos T). pose proof (total_nonneg Ts). split.
  - rewrite <- !app_assoc. apply bt_array_stored. intros; apply PRE; lia.
  - rewrite <- !app_assoc. rewrite (app_assoc pre). apply IH.
    intros i Hi. rewrite lookup_app, PRE by lia. apply bt_array_out. lia.
Qed.

Lemma total_rev Ts : total (rev Ts) = total Ts.
Proof. induction Ts as [|T Ts IH]; [reflexivity|]. cbn [rev total]. rewrite total_app, IH. cbn [total]. lia. Qed.

Lemma fpeaks_rpeaks m : forall R o, fpeaks_at m o (rev R) -> rpeaks_at stored_at m R (o + total R).
Proof.
  induction R as [|T R IH]; intros o; cbn [rev rpeaks_at total]; [auto|].
  intros F.
  assert (G : forall A B o, fpeaks_at m o (A ++ B) <-> fpeaks_at m o A /\ fpeaks_at m (o + total A) B).
  { clear. induction A as [|X A IHA]; intros B o; cbn [app fpeaks_at total].
    - replace (o + 0) with o by lia. tauto.
    - rewrite IHA. replace (o + bt_size X + total A) with (o + (bt_size X + total A)) by lia. tauto. }
  apply G in F. destruct F as [F1 F2]. cbn [fpeaks_at] in F2. destruct F2 as [S _].
  rewrite total_rev in S.
  replace (o + (bt_size T + total R) - bt_size T) with (o + total R) by lia.
  split; [exact S|]. apply IH. exact F1.
Qed.

(** the from-scratch array is a fully loaded store for the canonical peaks *)
Lemma mmr_array_full ls : ls <> [] ->
  rpeaks_at stored_at (mmr_array H v ls) (trs (build ls)) (total (trs (build ls))).
Proof.
  intros NE. unfold mmr_array. rewrite (build_trees ls NE).
  pose proof (trees_array_stored (rev (trs (build ls))) 0 [] []) as X.
  cbn [app] in X. rewrite app_nil_r in X.
  replace (total (trs (build ls))) with (0 + total (trs (build ls))) by lia.
  apply fpeaks_rpeaks. apply X. intros; reflexivity.
Qed.

End Arr.

(** * From [view_ok] to the hypotheses of [tree_new_inv] *)
Section VB.
Variable H : Z -> list Z -> list Z.
Variable oc : bool.
Variable v : ver.
Notation root_at := (root_at H v).
Notation stored_at := (stored_at H v).

Lemma peak_positions_app A : forall o T,
  peak_positions o (A ++ [T]) = peak_positions o A ++ [o + total A + bt_size T - 1].
Proof.
  induction A as [|X A IH]; intros o T; cbn [app peak_positions total].
  - f_equal. lia.
  - rewrite IH. do 3 f_equal. lia.
Qed.

Lemma peak_positions_rpk : forall R o,
  peak_positions o (rev R) = rev (map fst (rpk H v R (o + total R))).
Proof.
  induction R as [|T R IH]; intros o; [reflexivity|].
  cbn [rev rpk map fst total]. rewrite peak_positions_app, total_rev.
  replace (o + (bt_size T + total R) - bt_size T) with (o + total R) by lia.
  rewrite IH. do 2 f_equal. lia.
Qed.

Lemma from_store_unique (m : list (Z * entry)) : forall l1 l2,
  from_store m l1 -> from_store m l2 -> map fst l1 = map fst l2 -> l1 = l2.
Proof.
  induction l1 as [|[i x] l1 IH]; intros [|[j y] l2] F1 F2 E; cbn [map fst] in E; try discriminate; [reflexivity|].
  inversion E; subst. f_equal.
  - f_equal. pose proof (F1 j x (or_introl eq_refl)). pose proof (F2 j y (or_introl eq_refl)). congruence.
  - apply IH; auto; intros k z IN; [apply F1|apply F2]; right; exact IN.
Qed.

Lemma view_ok_store ls length peaks extra ops :
  view_ok H true v ls length peaks extra ops = true ->
  length = mmr_size (List.length ls) /\
  from_store (mmr_array H v ls) (peaks ++ extra) /\
  map fst peaks = peak_positions 0 (mmr_trees ls).
Proof.
  unfold view_ok. rewrite !andb_true_iff. intros [[[L F] P] _].
  split; [lia|]. split.
  - intros i x IN. rewrite forallb_forall in F. specialize (F _ IN). cbn [fst snd] in F.
    destruct (lookup i (mmr_array H v ls)) as [e|]; [|discriminate].
    cbn [orb] in F. apply entry_eqb_true in F. congruence.
  - apply list_eqb_spec in P; [exact P|]. intros; apply Z.eqb_eq.
Qed.

(** a view accepted by the checker is loaded into a tree satisfying the view invariant *)
Theorem view_ok_new ls length peaks extra ops b h0 :
  ls <> [] -> seg_ok b h0 ls ->
  view_ok H true v ls length peaks extra ops = true ->
  exists t,
    tree_new H oc v length peaks extra = Ok t /\ inv H v root_at t (build ls) /\
    (forall i, In i (map fst (peaks ++ extra)) -> lookup i (t_stored t) = lookup i (mmr_array H v ls)).
Proof.
  intros NE G VO. destruct (view_ok_store _ _ _ _ _ VO) as (L & FS & PP).
  destruct (build_props ls NE) as (NEB & PB & IB & LB).
  set (R := build ls) in *.
  pose proof (mmr_array_full H v ls NE) as FULL. fold R in FULL.
  pose proof (canon_size R NEB PB IB) as CS. rewrite LB in CS.
  assert (EP : peaks = rev (rpk H v (trs R) (total (trs R)))).
  { apply (from_store_unique (mmr_array H v ls)).
    - intros i x IN. apply FS. apply in_or_app. left. exact IN.
    - intros i x IN. apply (rpk_from_store H v _ _ _ FULL). apply in_rev. exact IN.
    - rewrite PP, (build_trees ls NE). fold R. rewrite map_rev.
      replace (total (trs R)) with (0 + total (trs R)) by lia. apply peak_positions_rpk. }
  destruct (tree_new_inv H oc v R extra b h0 (mmr_array H v ls) NEB PB IB) as (t & TN & IV & AG).
  - rewrite LB. exact G.
  - exact FULL.
  - intros i x IN. apply FS. apply in_or_app. right. exact IN.
  - exists t. rewrite L, <- CS, EP. split; [exact TN|]. split; [exact IV|].
    intros i IN. apply AG. rewrite map_app in IN. apply in_app_or in IN. apply in_or_app.
    destruct IN as [IN|IN]; [left|right; exact IN].
    rewrite map_rev in IN. apply in_rev in IN. exact IN.
Qed.

End VB.

(** * Histories on a view *)
Section VB2.
Variable H : Z -> list Z -> list Z.
Variable oc hk : bool.
Variable v : ver.
Notation root_at := (root_at H v).

(** is the right spine of the last peak known to be loaded?  After an append it is (the append
    created it); after a truncation it is when the new last peak is a single leaf. *)
Fixpoint qscan (q : bool) (n : Z) (ops : list op) : bool :=
  match ops with
  | [] => true
  | OpAppend _ :: r => qscan true (n + 1) r
  | OpTruncate :: r => q && (1 <? n) && qscan (Z.odd (n - 1)) (n - 1) r
  end.

Lemma leaf_spine t R :
  inv H v root_at t R -> Z.odd (lsum (hts R)) = true -> last_spine H v root_at t R.
Proof.
  intros [NE P I PK C RD] OD. destruct R as [|[h T] rest]; [congruence|].
  cbn [hts map fst] in OD, I. rewrite (incr_odd h (map fst rest) I) in OD. apply Nat.eqb_eq in OD. subst h.
  inversion P as [|? ? PT _]; subst. cbn [fst snd] in PT.
  destruct T as [d|l r]; cbn [perfect] in PT; [|exfalso; exact PT].
  unfold last_spine. cbn [trs map snd rpeaks_at spine_at bt_size] in *. destruct PK as [S _].
  unfold ProofsStore.root_at in S. cbn [bt_size bt_kind bt_data] in S.
  replace (t_count t - 1 + 1 - 1) with (t_count t - 1) in S by lia. exact S.
Qed.

Lemma root_factsV t ls b h0 len root rd :
  repr_view H v t ls -> seg_ok b h0 ls -> Corr.root_ok hk t len root rd = true ->
  len = mmr_size (length ls) /\ forall hok, root_matches H hk v false ls len rd hok = true.
Proof.
  intros RP G RO. destruct (view_root H v t ls b h0 RP G) as (en & RN & MR & C).
  unfold Corr.root_ok in RO. rewrite RN in RO. rewrite !andb_true_iff in RO. destruct RO as [[L _] D].
  assert (len = mmr_size (length ls)) by lia. split; [assumption|].
  intros hok. unfold root_matches. rewrite MR, D. unfold hok_ok. cbn [negb]. rewrite orb_true_r.
  replace (len =? mmr_size (length ls)) with true by lia. reflexivity.
Qed.

Lemma view_odd_spine t ls :
  repr_view H v t ls -> Z.odd (Z.of_nat (length ls)) = true -> repr_view_spine H v t ls.
Proof.
  intros (R & IV & E) OD. exists R. split; [exact IV|]. split; [|exact E].
  apply leaf_spine; [exact IV|]. rewrite <- (rleaves_len R (inv_perf _ _ _ _ _ IV)), E. exact OD.
Qed.

Lemma bridge_opsV b h0 : forall ops obs t ls i q,
  repr_view H v t ls -> (q = true -> repr_view_spine H v t ls) -> St v b h0 ls ->
  chain_scan v b h0 (Z.of_nat (length ls)) ops = true ->
  forallb sums_fit_b (states ls ops) = true ->
  qscan q (Z.of_nat (length ls)) ops = true ->
  run_ops H oc hk v t ops obs = true ->
  prop_ops H hk v false i false ls ops obs = true.
Proof.
  induction ops as [|o ops IH]; intros obs t ls i q RP RS ST CS FS QS RUN.
  - destruct obs; [reflexivity|discriminate].
  - destruct obs as [|s obs]; [destruct o; discriminate|].
    pose proof (St_seg v _ _ _ ST) as G.
    destruct ST as (NE & F & B & C & SF & M).
    destruct (view_root H v t ls b h0 RP G) as (en0 & _ & _ & C0).
    destruct o as [d|]; cbn [run_ops] in RUN; cbn [chain_scan] in CS; cbn [states apply_op forallb] in FS;
      cbn [qscan] in QS; apply andb_true_iff in FS; destruct FS as [FS1 FS].
    + (* append *)
      rewrite !andb_true_iff in CS. destruct CS as [[[[[WD BR] SH] EH] MS] CS].
      apply wf_data_P in WD.
      assert (ST' : St v b h0 (ls ++ [d])).
      { unfold St. split; [destruct ls; discriminate|].
        split; [apply Forall_app; split; [exact F|constructor; [exact WD|constructor]]|].
        split; [apply Forall_app; split; [exact B|constructor; [lia|constructor]]|].
        split; [apply consecutive_app; split; [exact C|cbn [consecutive]; lia]|].
        split; [exact FS1|].
        rewrite app_length. cbn [length]. replace (Z.to_nat (Z.of_nat (length ls) + 1)) with (length ls + 1)%nat in MS by lia. lia. }
      pose proof (St_seg v _ _ _ ST') as G'.
      assert (M' : mmr_size (length (ls ++ [d])) <= u32_max) by (destruct ST' as (_ & _ & _ & _ & _ & X); exact X).
      destruct (view_append H oc v t ls d b h0 RP G' M') as (t' & AP & RP').
      rewrite AP in RUN. destruct s as [links len root rd hok|cnt len root rd hok|e|]; try discriminate.
      rewrite !andb_true_iff in RUN. destruct RUN as [[LK RO] RUN].
      apply links_eqb_eq in LK.
      destruct (root_factsV t' _ b h0 len root rd (reprS_reprG _ _ _ _ _ RP') G' RO) as [LEN RM].
      cbn [prop_ops apply_op]. rewrite !andb_true_iff. split; [split; [split|]|].
      * rewrite <- LK, (expected_links_eq ls (t_count t) d C0). apply links_eqb_eq. reflexivity.
      * lia.
      * destruct (check_step _ _ _); [apply RM|]. unfold hok_ok. cbn [negb]. apply orb_true_r.
      * apply (IH obs t' (ls ++ [d]) (S i) true); auto.
        -- apply (reprS_reprG _ _ _ _ _ RP').
        -- rewrite app_length. cbn [length]. replace (Z.of_nat (length ls + 1)) with (Z.of_nat (length ls) + 1) by lia. exact CS.
        -- rewrite app_length. cbn [length]. replace (Z.of_nat (length ls + 1)) with (Z.of_nat (length ls) + 1) by lia. exact QS.
    + (* truncate: the spine is loaded and more than one leaf remains *)
      apply andb_true_iff in CS. destruct CS as [MS CS].
      rewrite !andb_true_iff in QS. destruct QS as [[Q N1] QS]. subst q. specialize (RS eq_refl).
      destruct (@exists_last _ ls NE) as (ls' & d & E). subst ls. rewrite removelast_last in *.
      destruct ls' as [|x ls'].
      { cbn [app length] in N1. lia. }
      set (lp := x :: ls') in *.
      assert (NE' : lp <> []) by discriminate.
      destruct (view_truncate H oc v t lp d b h0 RS NE' G M) as (t' & TR & RP').
      rewrite TR in RUN. destruct s as [links len root rd hok|cnt len root rd hok|e|]; try discriminate.
      rewrite !andb_true_iff in RUN. destruct RUN as [[CN RO] RUN].
      assert (ML : mmr_size (length lp) <= u32_max).
      { rewrite app_length in MS. cbn [length] in MS.
        replace (Z.to_nat (Z.of_nat (length lp + 1) - 1)) with (length lp) in MS by lia. lia. }
      assert (ST' : St v b h0 lp).
      { apply (St_prefix H v b h0 lp d); [unfold St; tauto|exact NE'|exact FS1|exact ML]. }
      pose proof (St_seg v _ _ _ ST') as G'.
      destruct (root_factsV t' _ b h0 len root rd RP' G' RO) as [LEN RM].
      cbn [prop_ops apply_op]. rewrite removelast_last. fold lp.
      assert (MX : forall X : bool, match lp with [] => false | _ :: _ => X end = X) by (intros; reflexivity).
      rewrite MX.
      rewrite !andb_true_iff. split; [split; [split|]|].
      * lia.
      * lia.
      * destruct (check_step _ _ _); [apply RM|]. unfold hok_ok. cbn [negb]. apply orb_true_r.
      * rewrite app_length in CS, QS. cbn [length] in CS, QS.
        replace (Z.of_nat (length lp + 1) - 1) with (Z.of_nat (length lp)) in CS, QS by lia.
        apply (IH obs t' lp (S i) (Z.odd (Z.of_nat (length lp)))); auto.
        intros OD. apply view_odd_spine; assumption.
Qed.

End VB2.

(** * The bridge for view cases *)
Lemma consecutive_b_P : forall ls h, consecutive_b h ls = true -> consecutive h ls.
Proof.
  induction ls as [|d r IH]; intros h; cbn [consecutive_b consecutive]; [auto|].
  rewrite !andb_true_iff. intros [[A B] C]. split; [lia|]. split; [lia|apply IH; exact C].
Qed.

Lemma chain_b_St v ls ops :
  all_chain v ls ops = true -> all_fit ls ops = true ->
  exists d0 rest, ls = d0 :: rest /\ St v (d_branch d0) (d_sh d0) ls /\
    chain_scan v (d_branch d0) (d_sh d0) (Z.of_nat (length ls)) ops = true /\
    forallb sums_fit_b (states ls ops) = true.
Proof.
  unfold all_chain, all_fit. rewrite !andb_true_iff. intros [[CB MS] CS] [SF FS].
  destruct ls as [|d0 rest]; [discriminate|]. exists d0, rest. split; [reflexivity|].
  unfold chain_b in CB. rewrite !andb_true_iff in CB. destruct CB as [[WF SB] CC].
  split; [|split; [exact CS|exact FS]].
  unfold St. split; [discriminate|]. split.
  { apply Forall_forall. intros x IN. rewrite forallb_forall in WF. apply wf_data_P. apply WF. exact IN. }
  split.
  { constructor; [reflexivity|]. unfold same_branch_b in SB. apply Forall_forall. intros x IN.
    rewrite forallb_forall in SB. specialize (SB _ IN). lia. }
  split; [apply consecutive_b_P; exact CC|]. split; [exact SF|lia].
Qed.

Definition spine_sup (leaves : list data) (length : Z) (peaks extra : list (Z * entry)) : bool :=
  subset_b (spine_positions (length - 1)
              (last (mmr_trees leaves) (BL (hd (mkData 0 [] 0 0 0 0 [] [] 0 0 0 0 [] [] 0 [] [] 0) leaves))))
           (map fst (peaks ++ extra)).

(** the view cases the bridge covers: hash table present, and every truncation happens in a
    state whose right spine is known to be loaded *)
Definition view_dom (c : case) : bool :=
  match c with
  | CTree _ _ hk _ leaves length peaks extra _ ops _ =>
      hk && qscan (spine_sup leaves length peaks extra) (Z.of_nat (List.length leaves)) ops
  | _ => false
  end.

Lemma subset_b_In a b x : subset_b a b = true -> In x a -> In x b.
Proof.
  unfold subset_b. rewrite forallb_forall. intros S IN. specialize (S _ IN).
  apply existsb_exists in S. destruct S as (y & INy & E). apply Z.eqb_eq in E. subst. exact INy.
Qed.

Theorem bridge_tree_view v oc hk tbl leaves length peaks extra n ops obs :
  view_dom (CTree v oc hk tbl leaves length peaks extra n ops obs) = true ->
  wf_case (CTree v oc hk tbl leaves length peaks extra n ops obs) = true ->
  known_class (CTree v oc hk tbl leaves length peaks extra n ops obs) = 0%N ->
  run_case (CTree v oc hk tbl leaves length peaks extra n ops obs) = true ->
  prop_main (CTree v oc hk tbl leaves length peaks extra n ops obs) = true.
Proof.
  intros VD WF KC RUN.
  destruct (is_full leaves peaks extra) eqn:FULL; [apply bridge_tree_full; assumption|].
  cbn [view_dom] in VD. apply andb_true_iff in VD. destruct VD as [HK QS]. subst hk.
  unfold prop_main. cbn [prop_gen known_class run_case] in *. rewrite FULL.
  destruct (all_chain v leaves ops) eqn:AC; cbn [andb]; [|reflexivity].
  destruct (view_ok (Htbl tbl) true v leaves length peaks extra ops) eqn:VO; [|reflexivity].
  cbn [andb] in KC. destruct (all_fit leaves ops) eqn:AF; cbn [negb] in KC; [|discriminate].
  set (H := Htbl tbl) in *.
  destruct (chain_b_St v leaves ops AC AF) as (d0 & rest & EL & ST & CS & FS).
  assert (NE : leaves <> []) by (rewrite EL; discriminate).
  pose proof (St_seg v _ _ _ ST) as G.
  destruct (view_ok_new H oc v leaves length peaks extra ops _ _ NE G VO) as (t & TN & IV & AG).
  destruct (build_props leaves NE) as (NEB & PB & IB & LB).
  assert (RP : repr_view H v t leaves) by (exists (build leaves); split; [exact IV|exact LB]).
  assert (RS : spine_sup leaves length peaks extra = true -> repr_view_spine H v t leaves).
  { intros SS. exists (build leaves). split; [exact IV|]. split; [|exact LB].
    pose proof (mmr_array_full H v leaves NE) as FULLA.
    pose proof (build_trees leaves NE) as BT.
    pose proof (inv_count _ _ _ _ _ IV) as CT.
    destruct (view_ok_store H v _ _ _ _ _ VO) as (LEN & _ & _).
    pose proof (canon_size (build leaves) NEB PB IB) as CSZ. rewrite LB in CSZ.
    unfold last_spine. destruct (build leaves) as [|[h T] rest'] eqn:EB; [congruence|].
    cbn [trs map snd rpeaks_at total] in *. destruct FULLA as [SA _].
    unfold spine_sup in SS. rewrite BT in SS. cbn [rev] in SS. rewrite last_last in SS.
    apply (spine_from_full H v (mmr_array H v leaves)).
    - rewrite CT. exact SA.
    - intros i IN. apply AG. apply (subset_b_In _ _ _ SS).
      replace (length - 1) with (t_count t - bt_size T + bt_size T - 1) by lia. exact IN. }
  unfold run_tree in RUN. rewrite TN in RUN.
  destruct n as [len root rd hok|]; [|discriminate].
  apply andb_true_iff in RUN. destruct RUN as [RO RUN].
  destruct (root_factsV H true v t leaves _ _ len root rd RP G RO) as [_ RM].
  rewrite RM. cbn [andb].
  apply (bridge_opsV H oc true v (d_branch d0) (d_sh d0) ops obs t leaves 0%nat
           (spine_sup leaves length peaks extra) RP RS ST CS FS QS RUN).
Qed.

(** The bridge over its whole domain: codec and combine cases, full-tree histories, and the
    view cases of [view_dom]. *)
Theorem agree_implies_property_all c :
  bridge_dom c || view_dom c = true -> wf_case c = true -> known_class c = 0%N -> run_case c = true ->
  prop_main c = true.
Proof.
  intros D WF KC RUN. apply orb_true_iff in D. destruct D as [D|D].
  - apply agree_implies_property; assumption.
  - destruct c; try discriminate. apply bridge_tree_view; assumption.
Qed.
