(** C20 — executable model of zcash_history (tree.rs, entry.rs, node_data.rs, version.rs) and of
    zcash_encoding::CompactSize::{read_unbounded, write_unbounded}.
    One definition per Rust item, same branches and same order of checks.  Bytes are [list Z]
    (each in 0..255), machine integers are [Z] with explicit ranges, [U256] is a [Z] below 2^256.
    The subtree-commitment hash (BLAKE2b-256 personalised with "ZcashHistory"||branch id) is the
    Section variable [H]; [oc] says whether the build has overflow checks (debug = true).
    No proofs in this file. *)
From V.Lib Require Import Base MachInt.
Local Open Scope Z_scope.

Definition u256_max : Z := 2 ^ 256 - 1.

Inductive ver := V1 | V2 | V3.
Definition ver_eqb (a b : ver) : bool :=
  match a, b with V1, V1 | V2, V2 | V3, V3 => true | _, _ => false end.
Definition has_orchard (v : ver) : bool := match v with V1 => false | _ => true end.
Definition has_ironwood (v : ver) : bool := match v with V3 => true | _ => false end.

(** Superset of NodeData (V1), NodeDataV2, NodeDataV3.  Fields a version does not have are kept
    at their defaults ([[]] and [0]). *)
Record data := mkData {
  d_branch : Z;            (* consensus_branch_id : u32 *)
  d_commit : list Z;       (* subtree_commitment : [u8; 32] *)
  d_stime : Z; d_etime : Z; d_starget : Z; d_etarget : Z;          (* u32 *)
  d_ssap : list Z; d_esap : list Z;                                (* [u8; 32] *)
  d_work : Z;              (* subtree_total_work : U256 *)
  d_sh : Z; d_eh : Z;      (* start_height, end_height : u64 *)
  d_saptx : Z;             (* sapling_tx : u64 *)
  d_sorch : list Z; d_eorch : list Z; d_orchtx : Z;                (* V2 *)
  d_siron : list Z; d_eiron : list Z; d_irontx : Z                 (* V3 *)
}.

(** io::ErrorKind of the readers, canonicalised. *)
Inductive rerr := Eof | InvalidInput | InvalidData.
Definition rerr_eqb (a b : rerr) : bool :=
  match a, b with Eof, Eof | InvalidInput, InvalidInput | InvalidData, InvalidData => true | _, _ => false end.

(** * CompactSize (components/zcash_encoding/src/lib.rs) *)

Definition reader (A : Type) := list Z -> outcome (A * list Z) rerr.

Definition rbind {A B} (r : reader A) (f : A -> reader B) : reader B :=
  fun b => match r b with
           | Ok (a, rest) => f a rest
           | Err e => Err e
           | Panic => Panic
           end.
Definition rret {A} (a : A) : reader A := fun b => Ok (a, b).
Definition rfail {A} (e : rerr) : reader A := fun _ => Err e.
Notation "x <- r ;; k" := (rbind r (fun x => k)) (at level 61, r at next level, right associativity).

(** [read_exact] of [n] bytes from a cursor. *)
Definition read_bytes (n : nat) : reader (list Z) :=
  fun b => if (n <=? length b)%nat then Ok (firstn n b, skipn n b) else Err Eof.
(** little-endian unsigned integer of [n] bytes *)
Definition read_le (n : nat) : reader Z := x <- read_bytes n ;; rret (of_le x).

Definition read_cs : reader Z :=
  flag <- read_le 1 ;;
  if flag <? 253 then rret flag
  else if flag =? 253 then
    n <- read_le 2 ;; if n <? 253 then rfail InvalidInput else rret n
  else if flag =? 254 then
    n <- read_le 4 ;; if n <? 65536 then rfail InvalidInput else rret n
  else
    n <- read_le 8 ;; if n <? 4294967296 then rfail InvalidInput else rret n.

Definition write_cs (x : Z) : list Z :=
  if x <? 253 then [x]
  else if x <=? 65535 then 253 :: le_bytes 2 x
  else if x <=? 4294967295 then 254 :: le_bytes 4 x
  else 255 :: le_bytes 8 x.

(** * Node data (node_data.rs) *)

Definition write_v1 (d : data) : list Z :=
  d_commit d ++ le_bytes 4 (d_stime d) ++ le_bytes 4 (d_etime d) ++ le_bytes 4 (d_starget d)
  ++ le_bytes 4 (d_etarget d) ++ d_ssap d ++ d_esap d ++ le_bytes 32 (d_work d)
  ++ write_cs (d_sh d) ++ write_cs (d_eh d) ++ write_cs (d_saptx d).
Definition write_v2ext (d : data) : list Z := d_sorch d ++ d_eorch d ++ write_cs (d_orchtx d).
Definition write_v3ext (d : data) : list Z := d_siron d ++ d_eiron d ++ write_cs (d_irontx d).

Definition write_node (v : ver) (d : data) : list Z :=
  match v with
  | V1 => write_v1 d
  | V2 => write_v1 d ++ write_v2ext d
  | V3 => write_v1 d ++ write_v2ext d ++ write_v3ext d
  end.

(** [end.checked_sub(start).and_then(|d| d.checked_add(1))] *)
Definition height_span (sh eh : Z) : option Z :=
  if eh <? sh then None else if eh - sh + 1 <=? u64_max then Some (eh - sh + 1) else None.

Definition read_v1 (branch : Z) : reader data :=
  c <- read_bytes 32 ;; st <- read_le 4 ;; et <- read_le 4 ;; sta <- read_le 4 ;; eta <- read_le 4 ;;
  ss <- read_bytes 32 ;; es <- read_bytes 32 ;; w <- read_le 32 ;;
  sh <- read_cs ;; eh <- read_cs ;;
  match height_span sh eh with
  | None => rfail InvalidData
  | Some _ =>
      stx <- read_cs ;;
      rret (mkData branch c st et sta eta ss es w sh eh stx [] [] 0 [] [] 0)
  end.

Definition read_v2 (branch : Z) : reader data :=
  d <- read_v1 branch ;;
  so <- read_bytes 32 ;; eo <- read_bytes 32 ;; otx <- read_cs ;;
  rret (mkData (d_branch d) (d_commit d) (d_stime d) (d_etime d) (d_starget d) (d_etarget d)
          (d_ssap d) (d_esap d) (d_work d) (d_sh d) (d_eh d) (d_saptx d) so eo otx [] [] 0).

Definition read_v3 (branch : Z) : reader data :=
  d <- read_v2 branch ;;
  si <- read_bytes 32 ;; ei <- read_bytes 32 ;; itx <- read_cs ;;
  rret (mkData (d_branch d) (d_commit d) (d_stime d) (d_etime d) (d_starget d) (d_etarget d)
          (d_ssap d) (d_esap d) (d_work d) (d_sh d) (d_eh d) (d_saptx d)
          (d_sorch d) (d_eorch d) (d_orchtx d) si ei itx).

Definition read_node (v : ver) (branch : Z) : reader data :=
  match v with V1 => read_v1 branch | V2 => read_v2 branch | V3 => read_v3 branch end.

(** [from_bytes]: a cursor over the buffer; trailing bytes are ignored. *)
Definition node_from_bytes (v : ver) (branch : Z) (b : list Z) : outcome data rerr :=
  match read_node v branch b with Ok (d, _) => Ok d | Err e => Err e | Panic => Panic end.

Section WithHash.
(** [H branch bytes] = BLAKE2b-256(personal = "ZcashHistory" || branch_le, bytes). *)
Variable H : Z -> list Z -> list Z.
(** overflow checks enabled (debug profile)? *)
Variable oc : bool.

(** plain [+] on u64 *)
Definition add_u64 (a b : Z) : outcome Z unit :=
  if a + b <=? u64_max then Ok (a + b) else if oc then Panic else Ok (a + b - (u64_max + 1)).
(** [U256 + U256] (primitive-types): panics on overflow in every profile *)
Definition add_u256 (a b : Z) : outcome Z unit :=
  if a + b <=? u256_max then Ok (a + b) else Panic.

Definition combine_inner (v : ver) (h : list Z) (l r : data) : outcome data unit :=
  match add_u256 (d_work l) (d_work r) with
  | Ok w =>
    match add_u64 (d_saptx l) (d_saptx r) with
    | Ok stx =>
      match (if has_orchard v then add_u64 (d_orchtx l) (d_orchtx r) else Ok 0) with
      | Ok otx =>
        match (if has_ironwood v then add_u64 (d_irontx l) (d_irontx r) else Ok 0) with
        | Ok itx =>
            Ok (mkData (d_branch l) h (d_stime l) (d_etime r) (d_starget l) (d_etarget r)
                  (d_ssap l) (d_esap r) w (d_sh l) (d_eh r) stx
                  (if has_orchard v then d_sorch l else []) (if has_orchard v then d_eorch r else []) otx
                  (if has_ironwood v then d_siron l else []) (if has_ironwood v then d_eiron r else []) itx)
        | _ => Panic
        end
      | _ => Panic
      end
    | _ => Panic
    end
  | _ => Panic
  end.

(** [Version::combine]: asserts equal branch ids, hashes left||right, then [combine_inner]. *)
Definition combine (v : ver) (l r : data) : outcome data unit :=
  if negb (d_branch l =? d_branch r) then Panic
  else combine_inner v (H (d_branch l) (write_node v l ++ write_node v r)) l r.

(** * Entries (entry.rs) *)

Inductive link := Stored (i : Z) | Generated (i : Z).
Inductive kind := Leaf | Node (l r : link).
Record entry := mkEntry { e_kind : kind; e_data : data }.

Inductive terr := ExpectedInMemory (l : link) | ExpectedNode (l : option link).

(** [Entry::leaf_count]: panics on a descending or unrepresentable range. *)
Definition leaf_count (e : entry) : outcome Z terr :=
  match height_span (d_sh (e_data e)) (d_eh (e_data e)) with Some n => Ok n | None => Panic end.

(** [u64::is_power_of_two] *)
Definition is_pow2 (x : Z) : bool := (0 <? x) && (x =? 2 ^ Z.log2 x).

Definition complete (e : entry) : outcome bool terr :=
  match leaf_count e with Ok n => Ok (is_pow2 n) | Err e => Err e | Panic => Panic end.

Definition e_left (e : entry) : outcome link terr :=
  match e_kind e with Leaf => Err (ExpectedNode None) | Node l _ => Ok l end.
Definition e_right (e : entry) : outcome link terr :=
  match e_kind e with Leaf => Err (ExpectedNode None) | Node _ r => Ok r end.

Definition write_entry (v : ver) (e : entry) : outcome (list Z) rerr :=
  match e_kind e with
  | Node (Stored l) (Stored r) => Ok (0 :: le_bytes 4 l ++ le_bytes 4 r ++ write_node v (e_data e))
  | Leaf => Ok (1 :: write_node v (e_data e))
  | _ => Err InvalidData
  end.

Definition read_entry (v : ver) (branch : Z) : reader entry :=
  k <- read_le 1 ;;
  if k =? 0 then
    l <- read_le 4 ;; r <- read_le 4 ;; d <- read_node v branch ;;
    rret (mkEntry (Node (Stored l) (Stored r)) d)
  else if k =? 1 then
    d <- read_node v branch ;; rret (mkEntry Leaf d)
  else rfail InvalidData.

Definition entry_from_bytes (v : ver) (branch : Z) (b : list Z) : outcome entry rerr :=
  match read_entry v branch b with Ok (e, _) => Ok e | Err e => Err e | Panic => Panic end.

(** * Tree (tree.rs) *)

(** [stored] is a [BTreeMap<u32, Entry>]: association list, newest binding first. *)
Record tree := mkTree {
  t_stored : list (Z * entry);
  t_gen : list entry;
  t_count : Z;              (* stored_count : u32 *)
  t_root : link
}.

Fixpoint lookup (i : Z) (m : list (Z * entry)) : option entry :=
  match m with
  | [] => None
  | (k, e) :: r => if k =? i then Some e else lookup i r
  end.
Definition insert (i : Z) (e : entry) (m : list (Z * entry)) := (i, e) :: m.
Definition remove (i : Z) (m : list (Z * entry)) := filter (fun p => negb (fst p =? i)) m.

Definition tres (A : Type) := outcome A terr.
Definition tbind {A B} (x : tres A) (f : A -> tres B) : tres B :=
  match x with Ok a => f a | Err e => Err e | Panic => Panic end.
Notation "x <-- r ;; k" := (tbind r (fun x => k)) (at level 61, r at next level, right associativity).
Definition of_unit {A} (x : outcome A unit) : tres A :=
  match x with Ok a => Ok a | _ => Panic end.

Definition resolve_link (t : tree) (l : link) : tres entry :=
  match (match l with
         | Generated i =>
             if i <? Z.of_nat (length (t_gen t)) then nth_error (t_gen t) (Z.to_nat i) else None
         | Stored i => lookup i (t_stored t)
         end) with
  | Some e => Ok e
  | None => Err (ExpectedInMemory l)
  end.

(** [IndexedNode::{left,right}]: the error is augmented with the link. *)
Definition augment (l : link) (e : terr) : terr :=
  match e with ExpectedNode _ => ExpectedNode (Some l) | x => x end.
Definition in_left (l : link) (e : entry) : tres link :=
  match e_left e with Err x => Err (augment l x) | o => o end.
Definition in_right (l : link) (e : entry) : tres link :=
  match e_right e with Err x => Err (augment l x) | o => o end.

(** [self.stored_count += 1] on u32 *)
Definition push (t : tree) (e : entry) : tres (tree * link) :=
  let idx := t_count t in
  if idx <? u32_max then
    Ok (mkTree (insert idx e (t_stored t)) (t_gen t) (idx + 1) (t_root t), Stored idx)
  else if oc then Panic
  else Ok (mkTree (insert idx e (t_stored t)) (t_gen t) 0 (t_root t), Stored idx).

Definition push_generated (t : tree) (e : entry) : tree * link :=
  (mkTree (t_stored t) (t_gen t ++ [e]) (t_count t) (t_root t),
   Generated (Z.of_nat (length (t_gen t)))).

Definition pop (t : tree) : tres tree :=
  if 0 <? t_count t then
    Ok (mkTree (remove (t_count t - 1) (t_stored t)) (t_gen t) (t_count t - 1) (t_root t))
  else if oc then Panic
  else Ok (mkTree (remove u32_max (t_stored t)) (t_gen t) u32_max (t_root t)).

Definition set_root (t : tree) (r : link) : tree :=
  mkTree (t_stored t) (t_gen t) (t_count t) r.

Definition combine_nodes (v : ver) (ll : link) (le : entry) (rl : link) (re : entry) : tres entry :=
  d <-- of_unit (combine v (e_data le) (e_data re)) ;;
  Ok (mkEntry (Node ll rl) d).

(** [Tree::new(length, peaks, extra)] *)
Fixpoint new_peaks (v : ver) (t : tree) (root : link) (first : bool) (peaks : list (Z * entry))
  : tres (tree * link) :=
  match peaks with
  | [] => Ok (t, root)
  | (idx, node) :: rest =>
      let t1 := mkTree (insert idx node (t_stored t)) (t_gen t) (t_count t) (t_root t) in
      if first then new_peaks v t1 root false rest
      else
        a <-- resolve_link t1 root ;;
        b <-- resolve_link t1 (Stored idx) ;;
        g <-- combine_nodes v root a (Stored idx) b ;;
        let '(t2, r2) := push_generated t1 g in
        new_peaks v t2 r2 false rest
  end.

Definition tree_new (v : ver) (length : Z) (peaks extra : list (Z * entry)) : tres tree :=
  match peaks with
  | [] => Panic                                   (* assert!(!peaks.is_empty()) *)
  | (i0, _) :: _ =>
      let t0 := mkTree [] [] length (Generated 0) in
      p <-- new_peaks v t0 (Stored i0) true peaks ;;
      let '(t1, root) := p in
      let st := fold_left (fun m p => insert (fst p) (snd p) m) extra (t_stored t1) in
      Ok (mkTree st (t_gen t1) (t_count t1) root)
  end.

(** [get_peaks]: recursive descent; [fuel] bounds the recursion depth (a cyclic view would
    overflow the stack in Rust; running out of fuel is reported as [Panic]). *)
Fixpoint get_peaks (fuel : nat) (t : tree) (root : link) : tres (list link) :=
  match fuel with
  | O => Panic
  | S f =>
      e <-- resolve_link t root ;;
      c <-- complete e ;;
      if c then Ok [root]
      else
        l <-- in_left root e ;;
        r <-- in_right root e ;;
        pl <-- get_peaks f t l ;;
        pr <-- get_peaks f t r ;;
        Ok (pl ++ pr)
  end.

Definition FUEL : nat := 80.

(** The first loop of [append_leaf]: [rpeaks] is the peak list reversed (popped from the
    back), [stack] is the merge stack with its top first, [app] the appended links reversed. *)
Fixpoint merge_loop (v : ver) (rpeaks : list link) (t : tree) (stack app : list link)
  : tres (tree * list link * list link) :=
  match rpeaks with
  | [] => Ok (t, stack, app)
  | next_peak :: rest =>
      match stack with
      | [] => Panic                               (* expect("there should be at least one") *)
      | next_merge :: stack' =>
          peak <-- resolve_link t next_peak ;;
          m <-- resolve_link t next_merge ;;
          pc <-- leaf_count peak ;;
          mc <-- leaf_count m ;;
          if pc =? mc then
            s <-- combine_nodes v next_peak peak next_merge m ;;
            p <-- push t s ;;
            let '(t', lk) := p in
            merge_loop v rest t' (lk :: stack') (lk :: app)
          else
            merge_loop v rest t (next_peak :: next_merge :: stack') app
      end
  end.

(** Second loop: connect the remaining subtrees left to right with generated nodes. *)
Fixpoint bag_loop (v : ver) (stack : list link) (t : tree) (root : link) : tres (tree * link) :=
  match stack with
  | [] => Ok (t, root)
  | next :: rest =>
      a <-- resolve_link t root ;;
      b <-- resolve_link t next ;;
      g <-- combine_nodes v root a next b ;;
      let '(t', r') := push_generated t g in
      bag_loop v rest t' r'
  end.

Definition append_leaf (v : ver) (t : tree) (new_leaf : data) : tres (tree * list link) :=
  let root := t_root t in
  p <-- push t (mkEntry Leaf new_leaf) ;;
  let '(t1, leaf_link) := p in
  peaks <-- get_peaks FUEL t1 root ;;
  q <-- merge_loop v (rev peaks) t1 [leaf_link] [leaf_link] ;;
  let '(t2, stack, app) := q in
  match stack with
  | [] => Panic
  | new_root :: rest =>
      b <-- bag_loop v rest t2 new_root ;;
      let '(t3, r3) := b in
      Ok (set_root t3 r3, rev app)
  end.

(** The [loop] of [truncate_leaf] walking down the right spine. Returns the collected left
    links (in push order) and the number of inner nodes passed. *)
Fixpoint spine_loop (fuel : nat) (t : tree) (sub : link) : tres (list link * Z) :=
  match fuel with
  | O => Panic
  | S f =>
      e <-- resolve_link t sub ;;
      match e_kind e with
      | Node l r =>
          p <-- spine_loop f t r ;;
          let '(ls, n) := p in Ok (l :: ls, n + 1)
      | Leaf => Ok ([], 0)
      end
  end.

Fixpoint pop_n (n : nat) (t : tree) : tres tree :=
  match n with
  | O => Ok t
  | S k => t' <-- pop t ;; pop_n k t'
  end.

Definition truncate_leaf (v : ver) (t : tree) : tres (tree * Z) :=
  n <-- resolve_link t (t_root t) ;;
  leaves <-- leaf_count n ;;
  root_left <-- e_left n ;;
  if Z.odd leaves then
    t1 <-- pop t ;;
    Ok (set_root t1 root_left, 1)
  else
    root <-- resolve_link t (t_root t) ;;
    l0 <-- in_left (t_root t) root ;;
    r0 <-- in_right (t_root t) root ;;
    sp <-- spine_loop FUEL t r0 ;;
    let '(ls, cnt) := sp in
    c <-- complete root ;;
    let truncated := 1 + cnt + (if c then 1 else 0) in
    b <-- bag_loop v ls t l0 ;;
    let '(t1, new_root) := b in
    t2 <-- pop_n (Z.to_nat truncated) t1 ;;
    Ok (set_root t2 new_root, truncated).

Definition root_node (t : tree) : tres entry := resolve_link t (t_root t).

End WithHash.
