(** C20 — the property stated independently of the tree implementation: the Merkle mountain
    range over a list of leaves, rebuilt from scratch.  Peaks are read off the binary
    decomposition of the number of leaves (highest bit first), each peak is the perfect binary
    tree over its chunk of leaves, and the root is the peaks bagged left to right.  The
    combination rule uses exact (unbounded) sums; the start fields come from the left child and
    the end fields from the right child. *)
From V.Lib Require Import Base MachInt.
From V.C20 Require Import Model.
Local Open Scope Z_scope.

Section Spec.
Variable H : Z -> list Z -> list Z.
Variable v : ver.

(** The specified combination rule (ZIP 221), with mathematical addition. *)
Definition combine_spec (l r : data) : data :=
  mkData (d_branch l) (H (d_branch l) (write_node v l ++ write_node v r))
    (d_stime l) (d_etime r) (d_starget l) (d_etarget r) (d_ssap l) (d_esap r)
    (d_work l + d_work r) (d_sh l) (d_eh r) (d_saptx l + d_saptx r)
    (if has_orchard v then d_sorch l else []) (if has_orchard v then d_eorch r else [])
    (if has_orchard v then d_orchtx l + d_orchtx r else 0)
    (if has_ironwood v then d_siron l else []) (if has_ironwood v then d_eiron r else [])
    (if has_ironwood v then d_irontx l + d_irontx r else 0).

(** Abstract binary trees over leaf records and the record each denotes. *)
Inductive bt := BL (d : data) | BN (l r : bt).
Fixpoint bt_data (T : bt) : data :=
  match T with BL d => d | BN l r => combine_spec (bt_data l) (bt_data r) end.
Fixpoint bt_leaves (T : bt) : list data :=
  match T with BL d => [d] | BN l r => bt_leaves l ++ bt_leaves r end.
(** number of array slots of a subtree (post-order layout) *)
Fixpoint bt_size (T : bt) : Z :=
  match T with BL _ => 1 | BN l r => bt_size l + bt_size r + 1 end.

(** Perfect tree of height [h] over the first [2^h] elements of [ls]. *)
Fixpoint perfect_of (dflt : data) (h : nat) (ls : list data) : bt :=
  match h with
  | O => BL (hd dflt ls)
  | S h' => BN (perfect_of dflt h' (firstn (2 ^ h') ls)) (perfect_of dflt h' (skipn (2 ^ h') ls))
  end.

(** Set bits of [n] below bit [k], highest first. *)
Fixpoint bits_desc (k n : nat) : list nat :=
  match k with
  | O => []
  | S k' => if (2 ^ k' <=? n)%nat then k' :: bits_desc k' (n - 2 ^ k') else bits_desc k' n
  end.
Definition mmr_heights (n : nat) : list nat := bits_desc (S (Nat.log2 n)) n.

Fixpoint chunks (dflt : data) (hs : list nat) (ls : list data) : list bt :=
  match hs with
  | [] => []
  | h :: r => perfect_of dflt h (firstn (2 ^ h) ls) :: chunks dflt r (skipn (2 ^ h) ls)
  end.

Definition mmr_trees (ls : list data) : list bt :=
  match ls with [] => [] | d :: _ => chunks d (mmr_heights (length ls)) ls end.
Definition mmr_peaks (ls : list data) : list data := map bt_data (mmr_trees ls).

(** Bagging: [(((p1 p2) p3) ... pk)]. *)
Definition bag (ps : list data) : option data :=
  match ps with [] => None | p :: r => Some (fold_left combine_spec r p) end.

Definition mmr_root (ls : list data) : option data := bag (mmr_peaks ls).

(** Length of the array representation for [n] leaves: a peak of height [h] has [2^(h+1)-1] nodes. *)
Definition peak_size (h : nat) : Z := 2 ^ (Z.of_nat h + 1) - 1.
Definition mmr_size (n : nat) : Z := fold_right (fun h a => peak_size h + a) 0 (mmr_heights n).

End Spec.

(** Domain of the theorems. *)
Definition byte_list (n : nat) (l : list Z) : Prop := length l = n /\ Forall (fun b => 0 <= b < 256) l.

Definition opt_bytes (present : bool) (l : list Z) : Prop :=
  if present then byte_list 32 l else l = [].
Definition opt_u64 (present : bool) (x : Z) : Prop :=
  if present then 0 <= x <= u64_max else x = 0.

(** A record of version [v]: every field in its Rust type, absent fields at their defaults. *)
Definition wf_data (v : ver) (d : data) : Prop :=
  0 <= d_branch d <= u32_max /\ byte_list 32 (d_commit d) /\
  0 <= d_stime d <= u32_max /\ 0 <= d_etime d <= u32_max /\
  0 <= d_starget d <= u32_max /\ 0 <= d_etarget d <= u32_max /\
  byte_list 32 (d_ssap d) /\ byte_list 32 (d_esap d) /\
  0 <= d_work d <= u256_max /\
  0 <= d_sh d <= u64_max /\ 0 <= d_eh d <= u64_max /\ 0 <= d_saptx d <= u64_max /\
  opt_bytes (has_orchard v) (d_sorch d) /\ opt_bytes (has_orchard v) (d_eorch d) /\
  opt_u64 (has_orchard v) (d_orchtx d) /\
  opt_bytes (has_ironwood v) (d_siron d) /\ opt_bytes (has_ironwood v) (d_eiron d) /\
  opt_u64 (has_ironwood v) (d_irontx d).

(** Leaves of one chain: block [i] has height [h0 + i] (start = end), all of one branch. *)
Fixpoint consecutive (h : Z) (ls : list data) : Prop :=
  match ls with
  | [] => True
  | d :: r => d_sh d = h /\ d_eh d = h /\ consecutive (h + 1) r
  end.

Definition zsum (f : data -> Z) (ls : list data) : Z := fold_right (fun d a => f d + a) 0 ls.

(** The explicit overflow guard: the totals over all current leaves fit the counters. *)
Definition sums_fit (ls : list data) : Prop :=
  zsum d_saptx ls <= u64_max /\ zsum d_orchtx ls <= u64_max /\ zsum d_irontx ls <= u64_max /\
  zsum d_work ls <= u256_max.

Definition good_leaves (v : ver) (ls : list data) : Prop :=
  Forall (wf_data v) ls /\
  (exists b, Forall (fun d => d_branch d = b) ls) /\
  (exists h0, consecutive h0 ls) /\
  sums_fit ls.
