(** C20 — bridge, part 1: reflection lemmas for the boolean checkers and the codec / combine
    cases: agreement with the model implies the property on the implementation's outcome. *)
From V.Lib Require Import Base MachInt Hex.
From V.C20 Require Import Model Spec Corr Wf ProofsData ProofsCodec.
From Coq Require Import ZifyBool.
Local Open Scope Z_scope.

Lemma lz_eqb_eq a : forall b, lz_eqb a b = true <-> a = b.
Proof.
  induction a as [|x a IH]; intros [|y b]; cbn [lz_eqb]; try (split; congruence).
  destruct (x =? y) eqn:E.
  - rewrite IH. split; [intros ->; f_equal; lia|intros X; inversion X; reflexivity].
  - split; [discriminate|intros X; inversion X; lia].
Qed.
Lemma lz_eqb_refl a : lz_eqb a a = true.
Proof. apply lz_eqb_eq. reflexivity. Qed.

Lemma data_eqb_true a b : data_eqb true a b = true -> a = b.
Proof.
  destruct a as [a1 a2 a3 a4 a5 a6 a7 a8 a9 a10 a11 a12 a13 a14 a15 a16 a17 a18], b as [b1 b2 b3 b4 b5 b6 b7 b8 b9 b10 b11 b12 b13 b14 b15 b16 b17 b18]. unfold data_eqb. cbn [d_branch d_commit d_stime d_etime d_starget d_etarget d_ssap d_esap d_work d_sh d_eh d_saptx d_sorch d_eorch d_orchtx d_siron d_eiron d_irontx].
  rewrite !andb_true_iff, !lz_eqb_eq, !Z.eqb_eq. intuition (subst; reflexivity).
Qed.
Lemma data_eqb_refl hk a : data_eqb hk a a = true.
Proof.
  unfold data_eqb. rewrite !Z.eqb_refl, !lz_eqb_refl. destruct hk; reflexivity.
Qed.
(** replacing the left argument by an equal record *)
Lemma data_eqb_subst hk a a' b : a = a' -> data_eqb hk a b = true -> data_eqb hk a' b = true.
Proof. intros ->. auto. Qed.

Lemma link_eqb_eq a b : link_eqb a b = true <-> a = b.
Proof. destruct a, b; cbn [link_eqb]; rewrite ?Z.eqb_eq; split; try congruence; try discriminate. Qed.
Lemma links_eqb_eq a b : list_eqb link_eqb a b = true <-> a = b.
Proof. apply list_eqb_spec. apply link_eqb_eq. Qed.
Lemma kind_eqb_eq a b : kind_eqb a b = true -> a = b.
Proof.
  destruct a as [|l r], b as [|l' r']; cbn [kind_eqb]; try congruence.
  rewrite andb_true_iff, !link_eqb_eq. intros [-> ->]. reflexivity.
Qed.
Lemma entry_eqb_true a b : entry_eqb true a b = true -> a = b.
Proof.
  destruct a as [ka da], b as [kb db]. unfold entry_eqb. cbn [e_kind e_data]. rewrite andb_true_iff.
  intros [K D]. apply kind_eqb_eq in K. apply data_eqb_true in D. congruence.
Qed.
Lemma entry_eqb_refl a : entry_eqb true a a = true.
Proof.
  unfold entry_eqb. rewrite data_eqb_refl. destruct (e_kind a) as [|[l|l] [r|r]]; cbn [kind_eqb link_eqb]; rewrite ?Z.eqb_refl; reflexivity.
Qed.

(** typing *)
Lemma is_byteZ_P b : is_byteZ b = true <-> 0 <= b < 256.
Proof. unfold is_byteZ. lia. Qed.
Lemma forall_bytes l : forallb is_byteZ l = true <-> bytesP l.
Proof.
  unfold bytesP. rewrite forallb_forall, Forall_forall. split; intros X b IN; apply is_byteZ_P; auto.
Qed.
Lemma bytes_b_P n l : bytes_b n l = true <-> byte_list n l.
Proof.
  unfold bytes_b, byte_list. rewrite andb_true_iff, Nat.eqb_eq, forall_bytes. reflexivity.
Qed.
Lemma opt_bytes_P p l : opt_bytes_b p l = true <-> opt_bytes p l.
Proof.
  unfold opt_bytes_b, opt_bytes. destruct p; [apply bytes_b_P|]. destruct l; split; congruence.
Qed.
Lemma opt_u64_P p x : opt_u64_b p x = true <-> opt_u64 p x.
Proof. unfold opt_u64_b, opt_u64, in_u64, in_range. destruct p; lia. Qed.

Lemma wf_data_P v d : wf_data_b v d = true <-> wf_data v d.
Proof.
  unfold wf_data_b, wf_data. rewrite !andb_true_iff, !bytes_b_P, !opt_bytes_P, !opt_u64_P.
  unfold in_u32, in_u64, in_u256, in_range. intuition lia.
Qed.

Lemma in_u32_P x : in_u32 x = true <-> 0 <= x <= u32_max.
Proof. unfold in_u32, in_range. lia. Qed.
Lemma in_u64_P x : in_u64 x = true <-> 0 <= x <= u64_max.
Proof. unfold in_u64, in_range. lia. Qed.

Lemma firstn_app_exact {A} (a b : list A) : firstn (length a) (a ++ b) = a.
Proof. rewrite firstn_app, Nat.sub_diag, firstn_all. cbn. apply app_nil_r. Qed.

(** a parser failing on the V1 layer fails the same way on V2/V3 *)
Lemma node_descending_rejected_all v d rest :
  wf_data v d -> height_span (d_sh d) (d_eh d) = None ->
  read_node v (d_branch d) (write_node v d ++ rest) = Err InvalidData.
Proof.
  intros WF HS.
  set (d1 := mkData (d_branch d) (d_commit d) (d_stime d) (d_etime d) (d_starget d) (d_etarget d)
               (d_ssap d) (d_esap d) (d_work d) (d_sh d) (d_eh d) (d_saptx d) [] [] 0 [] [] 0).
  assert (W1 : wf_data V1 d1).
  { unfold d1. unfold wf_data, opt_bytes, opt_u64 in *. cbn -[u256_max u64_max u32_max] in *. destruct v; cbn -[u256_max u64_max u32_max] in *; intuition. }
  assert (E1 : forall r, read_v1 (d_branch d) (write_v1 d ++ r) = Err InvalidData).
  { intros r. change (write_v1 d) with (write_v1 d1). change (d_branch d) with (d_branch d1).
    apply node_descending_rejected; [exact W1|exact HS]. }
  destruct v; cbn [read_node write_node].
  - apply E1.
  - unfold read_v2, rbind. rewrite <- app_assoc, E1. reflexivity.
  - unfold read_v3, rbind at 1. unfold read_v2, rbind at 1. rewrite <- !app_assoc, E1. reflexivity.
Qed.

Definition codec_case (c : case) : bool :=
  match c with CTree _ _ _ _ _ _ _ _ _ _ _ => false | _ => true end.

Theorem bridge_codec c :
  codec_case c = true -> wf_case c = true -> known_class c = 0%N -> run_case c = true -> prop_case c = true.
Proof.
  destruct c as [b o|x o|v br b o|v d o|v br b o|v e o|d o|v oc tbl l r o| ]; try discriminate; intros _ WF KC RUN;
    unfold prop_case; cbn [wf_case run_case prop_gen known_class] in *.
  - (* CCsRead *)
    apply forall_bytes in WF. destruct o as [[x rest]|e|].
    + destruct (read_cs b) as [[x' rest']| |] eqn:E; cbn [outcome_eqb] in RUN; try discriminate.
      unfold pair_eqb in RUN. cbn [fst snd] in RUN. apply andb_true_iff in RUN. destruct RUN as [E1 E2].
      apply Z.eqb_eq in E1. apply lz_eqb_eq in E2. subst x' rest'.
      destruct (cs_canonical b x rest WF E) as (-> & B & _).
      apply andb_true_iff. split; [apply in_u64_P; exact B|apply lz_eqb_refl].
    + reflexivity.
    + pose proof (read_cs_total b). destruct (read_cs b) as [[? ?]| |]; cbn [outcome_eqb] in RUN; congruence.
  - (* CCsWrite *)
    apply in_u64_P in WF. apply lz_eqb_eq in RUN. subst o.
    rewrite cs_roundtrip by exact WF. cbn [outcome_eqb]. unfold pair_eqb. cbn [fst snd lz_eqb].
    rewrite Z.eqb_refl. reflexivity.
  - (* CNodeRead *)
    apply andb_true_iff in WF. destruct WF as [WB WF]. apply in_u32_P in WB. apply forall_bytes in WF.
    unfold node_from_bytes in RUN. destruct o as [d|e|].
    + destruct (read_node v br b) as [[d' rest]| |] eqn:E; cbn [outcome_eqb] in RUN; try discriminate.
      apply data_eqb_true in RUN. subst d'.
      destruct (node_canonical v br b d rest WB WF E) as (-> & WD & BR & HS & _).
      rewrite !andb_true_iff. split; [split; [split|]|].
      * apply wf_data_P. exact WD.
      * lia.
      * destruct (height_span (d_sh d) (d_eh d)); [reflexivity|congruence].
      * rewrite firstn_app_exact. apply lz_eqb_refl.
    + reflexivity.
    + pose proof (read_node_total v br b). destruct (read_node v br b) as [[? ?]| |]; cbn [outcome_eqb] in RUN; congruence.
  - (* CNodeWrite *)
    apply wf_data_P in WF. apply lz_eqb_eq in RUN. subst o.
    destruct (height_span (d_sh d) (d_eh d)) eqn:HS; unfold node_from_bytes.
    + rewrite <- (app_nil_r (write_node v d)), node_roundtrip; [|exact WF|congruence].
      cbn [outcome_eqb]. apply data_eqb_refl.
    + rewrite <- (app_nil_r (write_node v d)), node_descending_rejected_all; auto.
  - (* CEntryRead *)
    apply andb_true_iff in WF. destruct WF as [WB WF]. apply in_u32_P in WB. apply forall_bytes in WF.
    unfold entry_from_bytes in RUN. destruct o as [e|e|].
    + destruct (read_entry v br b) as [[e' rest]| |] eqn:E; cbn [outcome_eqb] in RUN; try discriminate.
      apply entry_eqb_true in RUN. subst e'.
      destruct (entry_canonical v br b e rest WB WF E) as (w & WE & -> & WD & _).
      rewrite andb_true_iff. split; [apply wf_data_P; exact WD|]. rewrite WE, firstn_app_exact. apply lz_eqb_refl.
    + reflexivity.
    + pose proof (read_entry_total v br b). destruct (read_entry v br b) as [[? ?]| |]; cbn [outcome_eqb] in RUN; congruence.
  - (* CEntryWrite *)
    unfold wf_entry in WF. apply andb_true_iff in WF. destruct WF as [WD WL]. apply wf_data_P in WD.
    destruct e as [k d]. cbn [e_kind e_data] in *. unfold write_entry in RUN. cbn [e_kind e_data] in RUN.
    destruct k as [|[l|l] [r|r]]; destruct o as [w|er|]; cbn [outcome_eqb] in RUN; try discriminate;
      try (destruct er; try discriminate; reflexivity).
    + (* leaf *)
      apply lz_eqb_eq in RUN. subst w.
      destruct (height_span (d_sh d) (d_eh d)) eqn:HS; [|reflexivity].
      unfold entry_from_bytes.
      rewrite <- (app_nil_r (1 :: write_node v d)).
      pose proof (entry_roundtrip v (mkEntry Leaf d) (1 :: write_node v d) []) as X. cbn [e_data e_kind] in X.
      rewrite X; [|exact WD|congruence|exact Logic.I|reflexivity].
      cbn [outcome_eqb]. apply entry_eqb_refl.
    + (* stored node *)
      apply lz_eqb_eq in RUN. subst w.
      destruct (height_span (d_sh d) (d_eh d)) eqn:HS; [|reflexivity].
      apply andb_true_iff in WL. destruct WL as [Wl Wr]. cbn [wf_link] in Wl, Wr. apply in_u32_P in Wl. apply in_u32_P in Wr.
      unfold entry_from_bytes.
      rewrite <- (app_nil_r (0 :: le_bytes 4 l ++ le_bytes 4 r ++ write_node v d)).
      pose proof (entry_roundtrip v (mkEntry (Node (Stored l) (Stored r)) d) (0 :: le_bytes 4 l ++ le_bytes 4 r ++ write_node v d) []) as X.
      cbn [e_data e_kind] in X. rewrite X; [|exact WD|congruence|split; assumption|reflexivity].
      cbn [outcome_eqb]. apply entry_eqb_refl.
  - (* CLeafCount *)
    unfold leaf_count in RUN. cbn [e_data] in RUN.
    destruct (height_span (d_sh d) (d_eh d)) as [n|]; destruct o as [[m c]|[]|]; cbn [outcome_eqb] in RUN; try discriminate; try reflexivity.
    unfold pair_eqb in RUN. cbn [fst snd] in RUN. apply andb_true_iff in RUN. tauto.
  - (* CCombine *)
    apply andb_true_iff in WF. destruct WF as [Wl Wr]. rewrite Wl, Wr in KC. cbn [andb] in KC.
    destruct (sums_fit_b [l; r]) eqn:SF; [|discriminate].
    destruct (d_branch l =? d_branch r) eqn:BR.
    + rewrite (combine_ok (Htbl tbl) oc v l r) in RUN; [exact RUN|lia|].
      clear Wl Wr KC RUN. unfold sums_fit_b in SF. rewrite !andb_true_iff, !Z.leb_le in SF.
      unfold zsum in SF. cbn [fold_right] in SF. destruct SF as [[[S1 S2] S3] S4].
      unfold fits, combine_spec. cbn [d_work d_saptx d_orchtx d_irontx].
      assert (0 <= u64_max) by (unfold u64_max; lia).
      destruct (has_orchard v), (has_ironwood v); repeat split; lia.
    + unfold combine in RUN. rewrite BR in RUN. cbn [negb] in RUN.
      destruct o; cbn [outcome_eqb] in RUN; try discriminate. reflexivity.
Qed.
