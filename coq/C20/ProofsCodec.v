(** C20 — CompactSize (unbounded) and node/entry record codecs: round trip and canonicity. *)
From V.Lib Require Import Base MachInt.
From V.C20 Require Import Model Spec.
From Coq Require Import ZifyBool.
Local Open Scope Z_scope.

Definition bytesP (l : list Z) : Prop := Forall (fun b => 0 <= b < 256) l.

Lemma read_bytes_app n x rest : length x = n -> read_bytes n (x ++ rest) = Ok (x, rest).
Proof.
  intros <-. unfold read_bytes. rewrite app_length.
  destruct (length x <=? length x + length rest)%nat eqn:E; [|apply Nat.leb_gt in E; lia].
  rewrite firstn_app, skipn_app, Nat.sub_diag, firstn_all, skipn_all. cbn [firstn skipn].
  rewrite app_nil_r. reflexivity.
Qed.

Lemma read_le_app k x rest : 0 <= x < 256 ^ Z.of_nat k -> read_le k (le_bytes k x ++ rest) = Ok (x, rest).
Proof.
  intros B. unfold read_le, rbind. rewrite read_bytes_app by apply le_bytes_length.
  unfold rret. rewrite of_le_le_bytes by exact B. reflexivity.
Qed.

Lemma read_bytes_inv n b x rest : read_bytes n b = Ok (x, rest) -> b = x ++ rest /\ length x = n.
Proof.
  unfold read_bytes. destruct (n <=? length b)%nat eqn:E; [|discriminate].
  apply Nat.leb_le in E. intros X. inversion X; subst. split; [symmetry; apply firstn_skipn|].
  apply firstn_length_le. exact E.
Qed.

Lemma read_le_inv k b x rest : bytesP b -> read_le k b = Ok (x, rest) ->
  b = le_bytes k x ++ rest /\ 0 <= x < 256 ^ Z.of_nat k /\ bytesP rest.
Proof.
  intros BP. unfold read_le, rbind. destruct (read_bytes k b) as [[y r]| |] eqn:E; try discriminate.
  unfold rret. intros X. inversion X; subst. apply read_bytes_inv in E. destruct E as [-> L].
  apply Forall_app in BP. destruct BP as [By Br].
  split; [|split; [|exact Br]].
  - rewrite <- L, le_bytes_of_le by exact By. reflexivity.
  - rewrite <- L. apply of_le_bound. exact By.
Qed.

(** * CompactSize *)

Lemma read_le1 f rest : read_le 1 (f :: rest) = Ok (f, rest).
Proof.
  unfold read_le, rbind, read_bytes, rret. cbn [length Nat.leb firstn skipn of_le].
  rewrite Z.mul_0_r, Z.add_0_r. reflexivity.
Qed.

Theorem cs_roundtrip x rest : 0 <= x <= u64_max -> read_cs (write_cs x ++ rest) = Ok (x, rest).
Proof.
  intros B. unfold write_cs, u64_max in *.
  destruct (x <? 253) eqn:E1.
  - unfold read_cs. unfold rbind at 1. cbn [app]. rewrite read_le1, E1. reflexivity.
  - destruct (x <=? 65535) eqn:E2.
    + unfold read_cs. unfold rbind at 1. cbn [app]. rewrite read_le1.
      replace (253 <? 253) with false by reflexivity. replace (253 =? 253) with true by reflexivity.
      unfold rbind. rewrite (read_le_app 2 x rest) by (change (256 ^ Z.of_nat 2) with 65536; lia).
      rewrite E1. reflexivity.
    + destruct (x <=? 4294967295) eqn:E3.
      * unfold read_cs. unfold rbind at 1. cbn [app]. rewrite read_le1.
        replace (254 <? 253) with false by reflexivity. replace (254 =? 253) with false by reflexivity.
        replace (254 =? 254) with true by reflexivity.
        unfold rbind. rewrite (read_le_app 4 x rest) by (change (256 ^ Z.of_nat 4) with 4294967296; lia).
        destruct (x <? 65536) eqn:E4; [lia|]. reflexivity.
      * unfold read_cs. unfold rbind at 1. cbn [app]. rewrite read_le1.
        replace (255 <? 253) with false by reflexivity. replace (255 =? 253) with false by reflexivity.
        replace (255 =? 254) with false by reflexivity.
        unfold rbind. rewrite (read_le_app 8 x rest) by (change (256 ^ Z.of_nat 8) with 18446744073709551616; lia).
        destruct (x <? 4294967296) eqn:E4; [lia|]. reflexivity.
Qed.

(** canonicity: whatever is accepted is the canonical encoding of a u64 *)
Theorem cs_canonical b x rest : bytesP b -> read_cs b = Ok (x, rest) ->
  b = write_cs x ++ rest /\ 0 <= x <= u64_max /\ bytesP rest.
Proof.
  intros BP. unfold read_cs, rbind.
  destruct (read_le 1 b) as [[flag r1]| |] eqn:E0; try discriminate.
  destruct (read_le_inv 1 b flag r1 BP E0) as (-> & Bf & BP1). change (256 ^ Z.of_nat 1) with 256 in Bf.
  unfold write_cs, u64_max.
  destruct (flag <? 253) eqn:F1.
  - unfold rret. intros X. inversion X; subst. rewrite F1. cbn [le_bytes app].
    rewrite Z.mod_small by lia. split; [reflexivity|]. split; [lia|exact BP1].
  - destruct (flag =? 253) eqn:F2.
    + destruct (read_le 2 r1) as [[n r2]| |] eqn:E1; try discriminate.
      destruct (read_le_inv 2 r1 n r2 BP1 E1) as (-> & Bn & BP2). change (256 ^ Z.of_nat 2) with 65536 in Bn.
      destruct (n <? 253) eqn:N1; [discriminate|]. unfold rret. intros X. inversion X; subst.
      rewrite N1. destruct (x <=? 65535) eqn:N2; [|lia].
      assert (flag = 253) by lia. subst flag. split; [reflexivity|]. split; [lia|exact BP2].
    + destruct (flag =? 254) eqn:F3.
      * destruct (read_le 4 r1) as [[n r2]| |] eqn:E1; try discriminate.
        destruct (read_le_inv 4 r1 n r2 BP1 E1) as (-> & Bn & BP2). change (256 ^ Z.of_nat 4) with 4294967296 in Bn.
        destruct (n <? 65536) eqn:N1; [discriminate|]. unfold rret. intros X. inversion X; subst.
        destruct (x <? 253) eqn:N0; [lia|]. destruct (x <=? 65535) eqn:N2; [lia|].
        destruct (x <=? 4294967295) eqn:N3; [|lia].
        assert (flag = 254) by lia. subst flag. split; [reflexivity|]. split; [lia|exact BP2].
      * destruct (read_le 8 r1) as [[n r2]| |] eqn:E1; try discriminate.
        destruct (read_le_inv 8 r1 n r2 BP1 E1) as (-> & Bn & BP2).
        change (256 ^ Z.of_nat 8) with 18446744073709551616 in Bn.
        destruct (n <? 4294967296) eqn:N1; [discriminate|]. unfold rret. intros X. inversion X; subst.
        destruct (x <? 253) eqn:N0; [lia|]. destruct (x <=? 65535) eqn:N2; [lia|].
        destruct (x <=? 4294967295) eqn:N3; [lia|].
        assert (flag = 255) by lia. subst flag. split; [reflexivity|]. split; [lia|exact BP2].
Qed.

(** * Node records *)

Ltac rd_bytes := unfold rbind at 1; rewrite read_bytes_app by assumption.
Ltac rd_le k := unfold rbind at 1; rewrite (read_le_app k) by (first [change (256 ^ Z.of_nat 4) with (u32_max + 1); lia | assumption]).
Ltac rd_cs := unfold rbind at 1; rewrite cs_roundtrip by assumption.

Lemma pow256_32 : 256 ^ Z.of_nat 32 = u256_max + 1.
Proof. reflexivity. Qed.

Lemma v1_roundtrip d rest :
  wf_data V1 d -> height_span (d_sh d) (d_eh d) <> None ->
  read_v1 (d_branch d) (write_v1 d ++ rest) = Ok (d, rest).
Proof.
  destruct d as [br c st et sta eta ss es w sh eh stx so eo otx si ei itx].
  unfold wf_data, opt_bytes, opt_u64, byte_list. cbn [has_orchard has_ironwood d_branch d_commit d_stime d_etime d_starget d_etarget d_ssap d_esap d_work d_sh d_eh d_saptx d_sorch d_eorch d_orchtx d_siron d_eiron d_irontx].
  intros (Hb & [Lc _] & Hst & Het & Hsta & Heta & [Lss _] & [Les _] & Hw & Hsh & Heh & Hstx & -> & -> & -> & -> & -> & ->) HS.
  unfold write_v1. cbn [d_commit d_stime d_etime d_starget d_etarget d_ssap d_esap d_work d_sh d_eh d_saptx].
  rewrite <- !app_assoc. unfold read_v1.
  rd_bytes. rd_le 4%nat. rd_le 4%nat. rd_le 4%nat. rd_le 4%nat. rd_bytes. rd_bytes.
  unfold rbind at 1. rewrite (read_le_app 32) by (rewrite pow256_32; lia).
  rd_cs. rd_cs.
  destruct (height_span sh eh); [|congruence].
  rd_cs. reflexivity.
Qed.

Lemma v2_roundtrip d rest :
  wf_data V2 d -> height_span (d_sh d) (d_eh d) <> None ->
  read_v2 (d_branch d) ((write_v1 d ++ write_v2ext d) ++ rest) = Ok (d, rest).
Proof.
  intros WF HS. unfold read_v2. unfold rbind at 1. rewrite <- app_assoc.
  set (d1 := mkData (d_branch d) (d_commit d) (d_stime d) (d_etime d) (d_starget d) (d_etarget d)
               (d_ssap d) (d_esap d) (d_work d) (d_sh d) (d_eh d) (d_saptx d) [] [] 0 [] [] 0).
  assert (W1 : write_v1 d = write_v1 d1) by reflexivity.
  rewrite W1. change (d_branch d) with (d_branch d1).
  rewrite v1_roundtrip.
  - destruct d as [br c st et sta eta ss es w sh eh stx so eo otx si ei itx].
    unfold wf_data, opt_bytes, opt_u64, byte_list in WF. cbn in WF.
    destruct WF as (_ & _ & _ & _ & _ & _ & _ & _ & _ & _ & _ & _ & [Lso _] & [Leo _] & Hotx & -> & -> & ->).
    unfold write_v2ext, d1. cbn [d_branch d_commit d_stime d_etime d_starget d_etarget d_ssap d_esap d_work d_sh d_eh d_saptx d_sorch d_eorch d_orchtx].
    rewrite <- !app_assoc. rd_bytes. rd_bytes. rd_cs. reflexivity.
  - destruct d. unfold wf_data, opt_bytes, opt_u64 in *. cbn in *. intuition.
  - exact HS.
Qed.

Lemma v3_roundtrip d rest :
  wf_data V3 d -> height_span (d_sh d) (d_eh d) <> None ->
  read_v3 (d_branch d) ((write_v1 d ++ write_v2ext d ++ write_v3ext d) ++ rest) = Ok (d, rest).
Proof.
  intros WF HS. unfold read_v3. unfold rbind at 1.
  set (d2 := mkData (d_branch d) (d_commit d) (d_stime d) (d_etime d) (d_starget d) (d_etarget d)
               (d_ssap d) (d_esap d) (d_work d) (d_sh d) (d_eh d) (d_saptx d)
               (d_sorch d) (d_eorch d) (d_orchtx d) [] [] 0).
  replace ((write_v1 d ++ write_v2ext d ++ write_v3ext d) ++ rest)
    with ((write_v1 d2 ++ write_v2ext d2) ++ (write_v3ext d ++ rest)) by (rewrite <- !app_assoc; reflexivity).
  change (d_branch d) with (d_branch d2).
  rewrite v2_roundtrip.
  - destruct d as [br c st et sta eta ss es w sh eh stx so eo otx si ei itx].
    unfold wf_data, opt_bytes, opt_u64, byte_list in WF. cbn in WF.
    destruct WF as (_ & _ & _ & _ & _ & _ & _ & _ & _ & _ & _ & _ & _ & _ & _ & [Lsi _] & [Lei _] & Hitx).
    unfold write_v3ext, d2. cbn [d_branch d_commit d_stime d_etime d_starget d_etarget d_ssap d_esap d_work d_sh d_eh d_saptx d_sorch d_eorch d_orchtx d_siron d_eiron d_irontx].
    rewrite <- !app_assoc. rd_bytes. rd_bytes. rd_cs. reflexivity.
  - destruct d. unfold wf_data, opt_bytes, opt_u64 in *. cbn in *. intuition.
  - exact HS.
Qed.

(** Node records of every version serialise and parse back unchanged (counters over the whole
    u64 range), with any trailing bytes left untouched. *)
Theorem node_roundtrip v d rest :
  wf_data v d -> height_span (d_sh d) (d_eh d) <> None ->
  read_node v (d_branch d) (write_node v d ++ rest) = Ok (d, rest).
Proof.
  destruct v; cbn [read_node write_node]; intros.
  - apply v1_roundtrip; auto.
  - apply v2_roundtrip; auto.
  - apply v3_roundtrip; auto.
Qed.

(** A descending (or unrepresentable) height range is rejected by the parser. *)
Theorem node_descending_rejected d rest :
  wf_data V1 d -> height_span (d_sh d) (d_eh d) = None ->
  read_v1 (d_branch d) (write_v1 d ++ rest) = Err InvalidData.
Proof.
  destruct d as [br c st et sta eta ss es w sh eh stx so eo otx si ei itx].
  unfold wf_data, opt_bytes, opt_u64, byte_list. cbn [has_orchard has_ironwood d_branch d_commit d_stime d_etime d_starget d_etarget d_ssap d_esap d_work d_sh d_eh d_saptx d_sorch d_eorch d_orchtx d_siron d_eiron d_irontx].
  intros (Hb & [Lc _] & Hst & Het & Hsta & Heta & [Lss _] & [Les _] & Hw & Hsh & Heh & Hstx & _) HS.
  unfold write_v1. cbn [d_commit d_stime d_etime d_starget d_etarget d_ssap d_esap d_work d_sh d_eh d_saptx].
  rewrite <- !app_assoc. unfold read_v1.
  rd_bytes. rd_le 4%nat. rd_le 4%nat. rd_le 4%nat. rd_le 4%nat. rd_bytes. rd_bytes.
  unfold rbind at 1. rewrite (read_le_app 32) by (rewrite pow256_32; lia).
  rd_cs. rd_cs. rewrite HS. reflexivity.
Qed.

(** Entries: kind byte, links, node record. *)
Theorem entry_roundtrip v e w rest :
  wf_data v (e_data e) -> height_span (d_sh (e_data e)) (d_eh (e_data e)) <> None ->
  (match e_kind e with Node (Stored l) (Stored r) => 0 <= l <= u32_max /\ 0 <= r <= u32_max | _ => True end) ->
  write_entry v e = Ok w ->
  read_entry v (d_branch (e_data e)) (w ++ rest) = Ok (e, rest).
Proof.
  destruct e as [k d]. cbn [e_kind e_data]. intros WF HS HL. unfold write_entry. cbn [e_kind e_data].
  destruct k as [|[l|l] [r|r]]; try discriminate; intros X; inversion X; subst; clear X; unfold read_entry.
  - unfold rbind at 1. cbn [app]. rewrite read_le1. replace (1 =? 0) with false by reflexivity.
    replace (1 =? 1) with true by reflexivity. unfold rbind. rewrite node_roundtrip by assumption. reflexivity.
  - destruct HL as [Hl Hr]. unfold rbind at 1. cbn [app]. rewrite read_le1. replace (0 =? 0) with true by reflexivity.
    rewrite <- ?app_assoc.
    match goal with |- ?f ?x = _ => change x with (le_bytes 4 l ++ le_bytes 4 r ++ write_node v d ++ rest) end.
    rd_le 4%nat. rd_le 4%nat. unfold rbind. rewrite node_roundtrip by assumption. reflexivity.
Qed.
