(** C20 — CompactSize (unbounded) and node/entry record codecs: round trip and canonicity. *)
From V.Lib Require Import Base MachInt.
From V.C20 Require Import Model Spec.
From Coq Require Import ZifyBool.
Local Open Scope Z_scope.

Definition bytesP (l : list Z) : Prop := Forall (fun b => 0 <= b < 256) l.

Lemma read_bytes_app n x rest : length x = n -> read_bytes n (x ++ rest) = Ok (x, rest).
Proof.
  intros <-. unfold read_bytes. rewrite app_length.
  destruct (length x <=? length x + length rest)%nat eqn:E; [|apply Nat.leb_gt in E; lia].
  rewrite firstn_app, skipn_app, Nat.sub_diag, firstn_all, skipn_all. cbn [firstn skipn].
  rewrite app_nil_r. reflexivity.
Qed.

Lemma read_le_app k x rest : 0 <= x < 256 ^ Z.of_nat k -> read_le k (le_bytes k x ++ rest) = Ok (x, rest).
Proof.
  intros B. unfold read_le, rbind. rewrite read_bytes_app by apply le_bytes_length.
  unfold rret. rewrite of_le_le_bytes by exact B. reflexivity.
Qed.

Lemma read_bytes_inv n b x rest : read_bytes n b = Ok (x, rest) -> b = x ++ rest /\ length x = n.
Proof.
  unfold read_bytes. destruct (n <=? length b)%nat eqn:E; [|discriminate].
  apply Nat.leb_le in E. intros X. inversion X; subst. split; [symmetry; apply firstn_skipn|].
  apply firstn_length_le. exact E.
Qed.

Lemma read_le_inv k b x rest : bytesP b -> read_le k b = Ok (x, rest) ->
  b = le_bytes k x ++ rest /\ 0 <= x < 256 ^ Z.of_nat k /\ bytesP rest.
Proof.
  intros BP. unfold read_le, rbind. destruct (read_bytes k b) as [[y r]| |] eqn:E; try discriminate.
  unfold rret. intros X. inversion X; subst. apply read_bytes_inv in E. destruct E as [-> L].
  apply Forall_app in BP. destruct BP as [By Br].
  split; [|split; [|exact Br]].
  - rewrite <- L, le_bytes_of_le by exact By. reflexivity.
  - rewrite <- L. apply of_le_bound. exact By.
Qed.

(** * CompactSize *)

Lemma read_le1 f rest : read_le 1 (f :: rest) = Ok (f, rest).
Proof.
  unfold read_le, rbind, read_bytes, rret. cbn [length Nat.leb firstn skipn of_le].
  rewrite Z.mul_0_r, Z.add_0_r. reflexivity.
Qed.

Theorem cs_roundtrip x rest : 0 <= x <= u64_max -> read_cs (write_cs x ++ rest) = Ok (x, rest).
Proof.
  intros B. unfold write_cs, u64_max in *.
  destruct (x <? 253) eqn:E1.
  - unfold read_cs. unfold rbind at 1. cbn [app]. rewrite read_le1, E1. reflexivity.
  - destruct (x <=? 65535) eqn:E2.
    + unfold read_cs. unfold rbind at 1. cbn [app]. rewrite read_le1.
      replace (253 <? 253) with false by reflexivity. replace (253 =? 253) with true by reflexivity.
      unfold rbind. rewrite (read_le_app 2 x rest) by (change (256 ^ Z.of_nat 2) with 65536; lia).
      rewrite E1. reflexivity.
    + destruct (x <=? 4294967295) eqn:E3.
      * unfold read_cs. unfold rbind at 1. cbn [app]. rewrite read_le1.
        replace (254 <? 253) with false by reflexivity. replace (254 =? 253) with false by reflexivity.
        replace (254 =? 254) with true by reflexivity.
        unfold rbind. rewrite (read_le_app 4 x rest) by (change (256 ^ Z.of_nat 4) with 4294967296; lia).
        destruct (x <? 65536) eqn:E4; [lia|]. reflexivity.
      * unfold read_cs. unfold rbind at 1. cbn [app]. rewrite read_le1.
        replace (255 <? 253) with false by reflexivity. replace (255 =? 253) with false by reflexivity.
        replace (255 =? 254) with false by reflexivity.
        unfold rbind. rewrite (read_le_app 8 x rest) by (change (256 ^ Z.of_nat 8) with 18446744073709551616; lia).
        destruct (x <? 4294967296) eqn:E4; [lia|]. reflexivity.
Qed.

(** canonicity: whatever is accepted is the canonical encoding of a u64 *)
Theorem cs_canonical b x rest : bytesP b -> read_cs b = Ok (x, rest) ->
  b = write_cs x ++ rest /\ 0 <= x <= u64_max /\ bytesP rest.
Proof.
  intros BP. unfold read_cs, rbind.
  destruct (read_le 1 b) as [[flag r1]| |] eqn:E0; try discriminate.
  destruct (read_le_inv 1 b flag r1 BP E0) as (-> & Bf & BP1). change (256 ^ Z.of_nat 1) with 256 in Bf.
  unfold write_cs, u64_max.
  destruct (flag <? 253) eqn:F1.
  - unfold rret. intros X. inversion X; subst. rewrite F1. cbn [le_bytes app].
    rewrite Z.mod_small by lia. split; [reflexivity|]. split; [lia|exact BP1].
  - destruct (flag =? 253) eqn:F2.
    + destruct (read_le 2 r1) as [[n r2]| |] eqn:E1; try discriminate.
      destruct (read_le_inv 2 r1 n r2 BP1 E1) as (-> & Bn & BP2). change (256 ^ Z.of_nat 2) with 65536 in Bn.
      destruct (n <? 253) eqn:N1; [discriminate|]. unfold rret. intros X. inversion X; subst.
      rewrite N1. destruct (x <=? 65535) eqn:N2; [|lia].
      assert (flag = 253) by lia. subst flag. split; [reflexivity|]. split; [lia|exact BP2].
    + destruct (flag =? 254) eqn:F3.
      * destruct (read_le 4 r1) as [[n r2]| |] eqn:E1; try discriminate.
        destruct (read_le_inv 4 r1 n r2 BP1 E1) as (-> & Bn & BP2). change (256 ^ Z.of_nat 4) with 4294967296 in Bn.
        destruct (n <? 65536) eqn:N1; [discriminate|]. unfold rret. intros X. inversion X; subst.
        destruct (x <? 253) eqn:N0; [lia|]. destruct (x <=? 65535) eqn:N2; [lia|].
        destruct (x <=? 4294967295) eqn:N3; [|lia].
        assert (flag = 254) by lia. subst flag. split; [reflexivity|]. split; [lia|exact BP2].
      * destruct (read_le 8 r1) as [[n r2]| |] eqn:E1; try discriminate.
        destruct (read_le_inv 8 r1 n r2 BP1 E1) as (-> & Bn & BP2).
        change (256 ^ Z.of_nat 8) with 18446744073709551616 in Bn.
        destruct (n <? 4294967296) eqn:N1; [discriminate|]. unfold rret. intros X. inversion X; subst.
        destruct (x <? 253) eqn:N0; [lia|]. destruct (x <=? 65535) eqn:N2; [lia|].
        destruct (x <=? 4294967295) eqn:N3; [lia|].
        assert (flag = 255) by lia. subst flag. split; [reflexivity|]. split; [lia|exact BP2].
Qed.

(** * Node records *)

Ltac rd_bytes := unfold rbind at 1; rewrite read_bytes_app by assumption.
Ltac rd_le k := unfold rbind at 1; rewrite (read_le_app k) by (first [change (256 ^ Z.of_nat 4) with (u32_max + 1); lia | assumption]).
Ltac rd_cs := unfold rbind at 1; rewrite cs_roundtrip by assumption.

Lemma pow256_32 : 256 ^ Z.of_nat 32 = u256_max + 1.
Proof. reflexivity. Qed.

Lemma v1_roundtrip d rest :
  wf_data V1 d -> height_span (d_sh d) (d_eh d) <> None ->
  read_v1 (d_branch d) (write_v1 d ++ rest) = Ok (d, rest).
Proof.
  destruct d as [br c st et sta eta ss es w sh eh stx so eo otx si ei itx].
  unfold wf_data, opt_bytes, opt_u64, byte_list. cbn [has_orchard has_ironwood d_branch d_commit d_stime d_etime d_starget d_etarget d_ssap d_esap d_work d_sh d_eh d_saptx d_sorch d_eorch d_orchtx d_siron d_eiron d_irontx].
  intros (Hb & [Lc _] & Hst & Het & Hsta & Heta & [Lss _] & [Les _] & Hw & Hsh & Heh & Hstx & -> & -> & -> & -> & -> & ->) HS.
  unfold write_v1. cbn [d_commit d_stime d_etime d_starget d_etarget d_ssap d_esap d_work d_sh d_eh d_saptx].
  rewrite <- !app_assoc. unfold read_v1.
  rd_bytes. rd_le 4%nat. rd_le 4%nat. rd_le 4%nat. rd_le 4%nat. rd_bytes. rd_bytes.
  unfold rbind at 1. rewrite (read_le_app 32) by (rewrite pow256_32; lia).
  rd_cs. rd_cs.
  destruct (height_span sh eh); [|congruence].
  rd_cs. reflexivity.
Qed.

Lemma v2_roundtrip d rest :
  wf_data V2 d -> height_span (d_sh d) (d_eh d) <> None ->
  read_v2 (d_branch d) ((write_v1 d ++ write_v2ext d) ++ rest) = Ok (d, rest).
Proof.
  intros WF HS. unfold read_v2. unfold rbind at 1. rewrite <- app_assoc.
  set (d1 := mkData (d_branch d) (d_commit d) (d_stime d) (d_etime d) (d_starget d) (d_etarget d)
               (d_ssap d) (d_esap d) (d_work d) (d_sh d) (d_eh d) (d_saptx d) [] [] 0 [] [] 0).
  assert (W1 : write_v1 d = write_v1 d1) by reflexivity.
  rewrite W1. change (d_branch d) with (d_branch d1).
  rewrite v1_roundtrip.
  - destruct d as [br c st et sta eta ss es w sh eh stx so eo otx si ei itx].
    unfold wf_data, opt_bytes, opt_u64, byte_list in WF. cbn in WF.
    destruct WF as (_ & _ & _ & _ & _ & _ & _ & _ & _ & _ & _ & _ & [Lso _] & [Leo _] & Hotx & -> & -> & ->).
    unfold write_v2ext, d1. cbn [d_branch d_commit d_stime d_etime d_starget d_etarget d_ssap d_esap d_work d_sh d_eh d_saptx d_sorch d_eorch d_orchtx].
    rewrite <- !app_assoc. rd_bytes. rd_bytes. rd_cs. reflexivity.
  - destruct d. unfold wf_data, opt_bytes, opt_u64 in *. cbn in *. intuition.
  - exact HS.
Qed.

Lemma v3_roundtrip d rest :
  wf_data V3 d -> height_span (d_sh d) (d_eh d) <> None ->
  read_v3 (d_branch d) ((write_v1 d ++ write_v2ext d ++ write_v3ext d) ++ rest) = Ok (d, rest).
Proof.
  intros WF HS. unfold read_v3. unfold rbind at 1.
  set (d2 := mkData (d_branch d) (d_commit d) (d_stime d) (d_etime d) (d_starget d) (d_etarget d)
               (d_ssap d) (d_esap d) (d_work d) (d_sh d) (d_eh d) (d_saptx d)
               (d_sorch d) (d_eorch d) (d_orchtx d) [] [] 0).
  replace ((write_v1 d ++ write_v2ext d ++ write_v3ext d) ++ rest)
    with ((write_v1 d2 ++ write_v2ext d2) ++ (write_v3ext d ++ rest)) by (rewrite <- !app_assoc; reflexivity).
  change (d_branch d) with (d_branch d2).
  rewrite v2_roundtrip.
  - destruct d as [br c st et sta eta ss es w sh eh stx so eo otx si ei itx].
    unfold wf_data, opt_bytes, opt_u64, byte_list in WF. cbn in WF.
    destruct WF as (_ & _ & _ & _ & _ & _ & _ & _ & _ & _ & _ & _ & _ & _ & _ & [Lsi _] & [Lei _] & Hitx).
    unfold write_v3ext, d2. cbn [d_branch d_commit d_stime d_etime d_starget d_etarget d_ssap d_esap d_work d_sh d_eh d_saptx d_sorch d_eorch d_orchtx d_siron d_eiron d_irontx].
    rewrite <- !app_assoc. rd_bytes. rd_bytes. rd_cs. reflexivity.
  - destruct d. unfold wf_data, opt_bytes, opt_u64 in *. cbn in *. intuition.
  - exact HS.
Qed.

(** Node records of every version serialise and parse back unchanged (counters over the whole
    u64 range), with any trailing bytes left untouched. *)
Theorem node_roundtrip v d rest :
  wf_data v d -> height_span (d_sh d) (d_eh d) <> None ->
  read_node v (d_branch d) (write_node v d ++ rest) = Ok (d, rest).
Proof.
  destruct v; cbn [read_node write_node]; intros.
  - apply v1_roundtrip; auto.
  - apply v2_roundtrip; auto.
  - apply v3_roundtrip; auto.
Qed.

(** A descending (or unrepresentable) height range is rejected by the parser. *)
Theorem node_descending_rejected d rest :
  wf_data V1 d -> height_span (d_sh d) (d_eh d) = None ->
  read_v1 (d_branch d) (write_v1 d ++ rest) = Err InvalidData.
Proof.
  destruct d as [br c st et sta eta ss es w sh eh stx so eo otx si ei itx].
  unfold wf_data, opt_bytes, opt_u64, byte_list. cbn [has_orchard has_ironwood d_branch d_commit d_stime d_etime d_starget d_etarget d_ssap d_esap d_work d_sh d_eh d_saptx d_sorch d_eorch d_orchtx d_siron d_eiron d_irontx].
  intros (Hb & [Lc _] & Hst & Het & Hsta & Heta & [Lss _] & [Les _] & Hw & Hsh & Heh & Hstx & _) HS.
  unfold write_v1. cbn [d_commit d_stime d_etime d_starget d_etarget d_ssap d_esap d_work d_sh d_eh d_saptx].
  rewrite <- !app_assoc. unfold read_v1.
  rd_bytes. rd_le 4%nat. rd_le 4%nat. rd_le 4%nat. rd_le 4%nat. rd_bytes. rd_bytes.
  unfold rbind at 1. rewrite (read_le_app 32) by (rewrite pow256_32; lia).
  rd_cs. rd_cs. rewrite HS. reflexivity.
Qed.

(** Entries: kind byte, links, node record. *)
Theorem entry_roundtrip v e w rest :
  wf_data v (e_data e) -> height_span (d_sh (e_data e)) (d_eh (e_data e)) <> None ->
  (match e_kind e with Node (Stored l) (Stored r) => 0 <= l <= u32_max /\ 0 <= r <= u32_max | _ => True end) ->
  write_entry v e = Ok w ->
  read_entry v (d_branch (e_data e)) (w ++ rest) = Ok (e, rest).
Proof.
  destruct e as [k d]. cbn [e_kind e_data]. intros WF HS HL. unfold write_entry. cbn [e_kind e_data].
  destruct k as [|[l|l] [r|r]]; try discriminate; intros X; inversion X; subst; clear X; unfold read_entry.
  - unfold rbind at 1. cbn [app]. rewrite read_le1. replace (1 =? 0) with false by reflexivity.
    replace (1 =? 1) with true by reflexivity. unfold rbind. rewrite node_roundtrip by assumption. reflexivity.
  - destruct HL as [Hl Hr]. unfold rbind at 1. cbn [app]. rewrite read_le1. replace (0 =? 0) with true by reflexivity.
    rewrite <- ?app_assoc.
    match goal with |- ?f ?x = _ => change x with (le_bytes 4 l ++ le_bytes 4 r ++ write_node v d ++ rest) end.
    rd_le 4%nat. rd_le 4%nat. unfold rbind. rewrite node_roundtrip by assumption. reflexivity.
Qed.

(** * Canonicity of whole records and totality of the parsers *)

Lemma rbind_inv {A B} (r : reader A) (f : A -> reader B) b y rest :
  rbind r f b = Ok (y, rest) -> exists a r1, r b = Ok (a, r1) /\ f a r1 = Ok (y, rest).
Proof. unfold rbind. destruct (r b) as [[a r1]| |]; try discriminate. intros E. exists a, r1. auto. Qed.

Lemma read_bytes_inv' n b x rest : bytesP b -> read_bytes n b = Ok (x, rest) ->
  b = x ++ rest /\ length x = n /\ bytesP x /\ bytesP rest.
Proof.
  intros BP E. destruct (read_bytes_inv n b x rest E) as [-> L].
  apply Forall_app in BP. destruct BP. auto.
Qed.

Lemma byte_list_of n x : length x = n -> bytesP x -> byte_list n x.
Proof. unfold byte_list. auto. Qed.

Ltac inv_bytes E BP x r L Bx :=
  apply rbind_inv in E; destruct E as (x & r & E0 & E);
  let BP' := fresh "BP" in
  destruct (read_bytes_inv' _ _ _ _ BP E0) as (-> & L & Bx & BP'); clear E0; clear BP; rename BP' into BP.
Ltac inv_le E BP x r Bx :=
  apply rbind_inv in E; destruct E as (x & r & E0 & E);
  let BP' := fresh "BP" in
  destruct (read_le_inv _ _ _ _ BP E0) as (-> & Bx & BP'); clear E0; clear BP; rename BP' into BP.
Ltac inv_cs E BP x r Bx :=
  apply rbind_inv in E; destruct E as (x & r & E0 & E);
  let BP' := fresh "BP" in
  destruct (cs_canonical _ _ _ BP E0) as (-> & Bx & BP'); clear E0; clear BP; rename BP' into BP.

Lemma v1_canonical br b d rest : 0 <= br <= u32_max -> bytesP b ->
  read_v1 br b = Ok (d, rest) ->
  b = write_v1 d ++ rest /\ wf_data V1 d /\ d_branch d = br /\
  height_span (d_sh d) (d_eh d) <> None /\ bytesP rest.
Proof.
  intros Hbr BP E. unfold read_v1 in E.
  inv_bytes E BP c r0 Lc Bc. inv_le E BP st r1 Bst. inv_le E BP et r2 Bet. inv_le E BP sta r3 Bsta.
  inv_le E BP eta r4 Beta. inv_bytes E BP ss r5 Lss Bss. inv_bytes E BP es r6 Les Bes.
  inv_le E BP w r7 Bw. inv_cs E BP sh r8 Bsh. inv_cs E BP eh r9 Beh.
  destruct (height_span sh eh) eqn:HS; [|discriminate].
  inv_cs E BP stx r10 Bstx. unfold rret in E. inversion E; subst; clear E.
  change (256 ^ Z.of_nat 4) with (u32_max + 1) in *. rewrite pow256_32 in Bw.
  split.
  { unfold write_v1. cbn [d_commit d_stime d_etime d_starget d_etarget d_ssap d_esap d_work d_sh d_eh d_saptx].
    rewrite <- !app_assoc. reflexivity. }
  split.
  { unfold wf_data, opt_bytes, opt_u64, byte_list, bytesP in *. cbn -[u256_max u64_max u32_max]. repeat split; auto; try lia. }
  split; [reflexivity|]. split; [cbn [d_sh d_eh]; congruence|exact BP].
Qed.

Lemma v2_canonical br b d rest : 0 <= br <= u32_max -> bytesP b ->
  read_v2 br b = Ok (d, rest) ->
  b = (write_v1 d ++ write_v2ext d) ++ rest /\ wf_data V2 d /\ d_branch d = br /\
  height_span (d_sh d) (d_eh d) <> None /\ bytesP rest.
Proof.
  intros Hbr BP E. unfold read_v2 in E.
  apply rbind_inv in E. destruct E as (d1 & r0 & E0 & E).
  destruct (v1_canonical br b d1 r0 Hbr BP E0) as (-> & WF & BR & HS & BP1). clear E0 BP. rename BP1 into BP.
  inv_bytes E BP so r1 Lso Bso. inv_bytes E BP eo r2 Leo Beo. inv_cs E BP otx r3 Botx.
  unfold rret in E. inversion E; subst; clear E.
  split.
  { unfold write_v2ext, write_v1. cbn [d_commit d_stime d_etime d_starget d_etarget d_ssap d_esap d_work d_sh d_eh d_saptx d_sorch d_eorch d_orchtx].
    rewrite <- !app_assoc. reflexivity. }
  split.
  { unfold wf_data, opt_bytes, opt_u64, byte_list, bytesP in *. cbn -[u256_max u64_max u32_max] in *.
    destruct WF as (? & ? & ? & ? & ? & ? & ? & ? & ? & ? & ? & ? & _). repeat split; auto; try lia; tauto. }
  split; [reflexivity|]. split; [exact HS|exact BP].
Qed.

Lemma v3_canonical br b d rest : 0 <= br <= u32_max -> bytesP b ->
  read_v3 br b = Ok (d, rest) ->
  b = (write_v1 d ++ write_v2ext d ++ write_v3ext d) ++ rest /\ wf_data V3 d /\ d_branch d = br /\
  height_span (d_sh d) (d_eh d) <> None /\ bytesP rest.
Proof.
  intros Hbr BP E. unfold read_v3 in E.
  apply rbind_inv in E. destruct E as (d2 & r0 & E0 & E).
  destruct (v2_canonical br b d2 r0 Hbr BP E0) as (-> & WF & BR & HS & BP1). clear E0 BP. rename BP1 into BP.
  inv_bytes E BP si r1 Lsi Bsi. inv_bytes E BP ei r2 Lei Bei. inv_cs E BP itx r3 Bitx.
  unfold rret in E. inversion E; subst; clear E.
  split.
  { unfold write_v3ext, write_v2ext, write_v1. cbn [d_commit d_stime d_etime d_starget d_etarget d_ssap d_esap d_work d_sh d_eh d_saptx d_sorch d_eorch d_orchtx d_siron d_eiron d_irontx].
    rewrite <- !app_assoc. reflexivity. }
  split.
  { unfold wf_data, opt_bytes, opt_u64, byte_list, bytesP in *. cbn -[u256_max u64_max u32_max] in *.
    destruct WF as (? & ? & ? & ? & ? & ? & ? & ? & ? & ? & ? & ? & ? & ? & ? & _). repeat split; auto; try lia; tauto. }
  split; [reflexivity|]. split; [exact HS|exact BP].
Qed.

(** Whatever a node parser accepts is exactly the serialisation of the record it returns
    (followed by the unread rest); the record is well-typed and has an ascending height range. *)
Theorem node_canonical v br b d rest : 0 <= br <= u32_max -> bytesP b ->
  read_node v br b = Ok (d, rest) ->
  b = write_node v d ++ rest /\ wf_data v d /\ d_branch d = br /\
  height_span (d_sh d) (d_eh d) <> None /\ bytesP rest.
Proof.
  destruct v; cbn [read_node write_node].
  - apply v1_canonical.
  - apply v2_canonical.
  - apply v3_canonical.
Qed.

Theorem entry_canonical v br b e rest : 0 <= br <= u32_max -> bytesP b ->
  read_entry v br b = Ok (e, rest) ->
  exists w, write_entry v e = Ok w /\ b = w ++ rest /\ wf_data v (e_data e) /\ bytesP rest.
Proof.
  intros Hbr BP E. unfold read_entry in E.
  inv_le E BP k r0 Bk.
  destruct (k =? 0) eqn:K0.
  - inv_le E BP l r1 Bl. inv_le E BP r r2 Br.
    apply rbind_inv in E. destruct E as (d & r3 & E0 & E).
    destruct (node_canonical v br _ d r3 Hbr BP E0) as (-> & WF & _ & _ & BP1).
    unfold rret in E. inversion E; subst; clear E.
    eexists. split; [reflexivity|]. assert (k = 0) by lia. subst k.
    split; [cbn [e_data]; change (le_bytes 1 0) with [0]; cbn [app]; rewrite <- !app_assoc; reflexivity|]. split; [exact WF|exact BP1].
  - destruct (k =? 1) eqn:K1; [|discriminate].
    apply rbind_inv in E. destruct E as (d & r3 & E0 & E).
    destruct (node_canonical v br _ d r3 Hbr BP E0) as (-> & WF & _ & _ & BP1).
    unfold rret in E. inversion E; subst; clear E.
    eexists. split; [reflexivity|]. assert (k = 1) by lia. subst k.
    split; [reflexivity|]. split; [exact WF|exact BP1].
Qed.

(** The parsers are rtotal: no input makes them panic. *)
Definition rtotal {A} (r : reader A) : Prop := forall b, r b <> Panic.

Lemma rbind_total {A B} (r : reader A) (f : A -> reader B) :
  rtotal r -> (forall a, rtotal (f a)) -> rtotal (rbind r f).
Proof. intros Tr Tf b. unfold rbind. specialize (Tr b). destruct (r b) as [[a r1]| |]; [apply Tf|discriminate|congruence]. Qed.
Lemma rret_total {A} (a : A) : rtotal (rret a).
Proof. intros b. discriminate. Qed.
Lemma rfail_total {A} e : rtotal (@rfail A e).
Proof. intros b. discriminate. Qed.
Lemma read_bytes_total n : rtotal (read_bytes n).
Proof. intros b. unfold read_bytes. destruct (n <=? length b)%nat; discriminate. Qed.
Lemma read_le_total n : rtotal (read_le n).
Proof. apply rbind_total; [apply read_bytes_total|intros; apply rret_total]. Qed.
Lemma read_cs_total : rtotal read_cs.
Proof.
  apply rbind_total; [apply read_le_total|]. intros flag.
  destruct (flag <? 253); [apply rret_total|].
  destruct (flag =? 253); [|destruct (flag =? 254)];
    (apply rbind_total; [apply read_le_total|]; intros n;
     match goal with |- rtotal (if ?c then _ else _) => destruct c end; [apply rfail_total|apply rret_total]).
Qed.

Ltac tot := repeat first
  [ apply rret_total | apply rfail_total | apply read_bytes_total | apply read_le_total | apply read_cs_total
  | (apply rbind_total; [|intros ?]) ].

Lemma read_v1_total br : rtotal (read_v1 br).
Proof.
  unfold read_v1. tot.
  match goal with |- rtotal (match ?x with _ => _ end) => destruct x end; tot.
Qed.
Lemma read_v2_total br : rtotal (read_v2 br).
Proof. unfold read_v2. apply rbind_total; [apply read_v1_total|intros ?]. tot. Qed.
Lemma read_v3_total br : rtotal (read_v3 br).
Proof. unfold read_v3. apply rbind_total; [apply read_v2_total|intros ?]. tot. Qed.

Theorem read_node_total v br b : read_node v br b <> Panic.
Proof. destruct v; [apply read_v1_total|apply read_v2_total|apply read_v3_total]. Qed.

Theorem read_entry_total v br b : read_entry v br b <> Panic.
Proof.
  revert b. change (rtotal (read_entry v br)). unfold read_entry.
  apply rbind_total; [apply read_le_total|intros k].
  destruct (k =? 0).
  - apply rbind_total; [apply read_le_total|intros ?]. apply rbind_total; [apply read_le_total|intros ?].
    apply rbind_total; [intros b; apply read_node_total|intros ?]. apply rret_total.
  - destruct (k =? 1); [|apply rfail_total].
    apply rbind_total; [intros b; apply read_node_total|intros ?]. apply rret_total.
Qed.
