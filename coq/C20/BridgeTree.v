(** C20 — bridge, part 2: full-tree histories ([Tree::new] on one leaf, then appends and
    truncations).  Agreement of the implementation with the model on such a case implies the
    property checker's verdict (everything but the harness-side commitment flag [hok]). *)
From V.Lib Require Import Base MachInt Hex.
From V.C20 Require Import Model Spec Corr Wf ProofsData ProofsArith ProofsStore ProofsAppend ProofsSpec
  ProofsTruncate ProofsTop ProofsCodec BridgeCodec.
From Coq Require Import ZifyBool.
Local Open Scope Z_scope.

Lemma wf_nnd v d : wf_data v d -> nnd d.
Proof.
  unfold wf_data, nnd, opt_u64. intros (_ & _ & _ & _ & _ & _ & _ & _ & Hw & _ & _ & Hs & _ & _ & Ho & _ & _ & Hi).
  destruct (has_orchard v), (has_ironwood v); lia.
Qed.

Lemma consecutive_upper v : forall ls h, ls <> [] -> Forall (wf_data v) ls -> consecutive h ls ->
  h + Z.of_nat (length ls) - 1 <= u64_max.
Proof.
  induction ls as [|d r IH]; intros h NE F C; [congruence|].
  inversion F as [|? ? WD Fr]; subst. cbn [consecutive] in C. destruct C as (S1 & E1 & C).
  destruct r as [|d' r'].
  - cbn [length]. unfold wf_data in WD. lia.
  - specialize (IH (h + 1) ltac:(discriminate) Fr C). cbn [length] in *. lia.
Qed.

Lemma sums_fit_P ls : sums_fit_b ls = true <-> zfits ls.
Proof. unfold sums_fit_b, zfits. rewrite !andb_true_iff, !Z.leb_le. tauto. Qed.

(** the boolean chain conditions give the theorems' guard *)
Lemma seg_of_chain v b h0 ls :
  ls <> [] -> Forall (wf_data v) ls -> Forall (fun d => d_branch d = b) ls -> consecutive h0 ls ->
  sums_fit_b ls = true -> seg_ok b h0 ls.
Proof.
  intros NE F B C S. unfold seg_ok. split; [exact B|]. split.
  { eapply Forall_impl; [|exact F]. apply wf_nnd. }
  split; [exact C|]. split; [apply sums_fit_P; exact S|]. split.
  - destruct ls as [|d r]; [congruence|]. inversion F; subst. cbn [consecutive] in C.
    unfold wf_data in *. lia.
  - eapply consecutive_upper; eauto.
Qed.

Section B.
Variable H : Z -> list Z -> list Z.
Variable oc hk : bool.
Variable v : ver.

(** the chain state of a history *)
Definition St (b h0 : Z) (ls : list data) : Prop :=
  ls <> [] /\ Forall (wf_data v) ls /\ Forall (fun d => d_branch d = b) ls /\ consecutive h0 ls /\
  sums_fit_b ls = true /\ mmr_size (length ls) <= u32_max.

Lemma St_seg b h0 ls : St b h0 ls -> seg_ok b h0 ls.
Proof. intros (NE & F & B & C & S & _). eapply seg_of_chain; eauto. Qed.

Lemma truncate_single t d b h0 :
  repr H v t [d] -> seg_ok b h0 [d] -> t_count t <= u32_max ->
  truncate_leaf H oc v t = Err (ExpectedNode None).
Proof.
  intros (R & IV & E) G B. destruct IV as [NE P I PK C RD].
  destruct R as [|[h T] rest]; [congruence|]. cbn [trs map snd rleaves] in E.
  assert (L1 : (1 <= length (bt_leaves T))%nat).
  { pose proof (bt_nl_len T). pose proof (bt_nl_pos T). lia. }
  assert (ER : rleaves (map snd rest) = [] /\ bt_leaves T = [d]).
  { destruct (rleaves (map snd rest)) as [|x xs] eqn:Q.
    - cbn [app] in E. auto.
    - apply (f_equal (@length data)) in E. rewrite app_length in E. cbn [length] in E. lia. }
  destruct ER as [ER ET].
  assert (rest = []).
  { destruct rest as [|[h' T'] rest']; [reflexivity|]. cbn [map snd rleaves] in ER.
    apply (f_equal (@length data)) in ER. rewrite app_length in ER.
    pose proof (bt_nl_len T'). pose proof (bt_nl_pos T'). cbn [length] in ER. lia. }
  subst rest. destruct T as [d'|l r].
  2:{ cbn [bt_leaves] in ET. apply (f_equal (@length data)) in ET. rewrite app_length in ET. cbn [length] in ET.
      pose proof (bt_nl_len l). pose proof (bt_nl_pos l). pose proof (bt_nl_len r). pose proof (bt_nl_pos r). lia. }
  cbn [bt_leaves] in ET. inversion ET; subst d'.
  cbn [trs map snd rbag_den rpeaks_at bt_size total] in *. destruct PK as [S _]. cbn [ProofsStore.stored_at] in S.
  unfold truncate_leaf. rewrite RD.
  replace (t_count t - 1) with (t_count t - 1) by lia.
  rewrite (resolve_stored t (t_count t - 1) _ S). cbn [tbind].
  destruct G as (_ & _ & Cs & _ & H0 & H1). cbn [consecutive length] in *. destruct Cs as (S1 & E1 & _).
  rewrite (leaf_count_data _ 1); cbn [e_data]; [|lia|unfold u64_max; lia].
  cbn [tbind e_left e_kind]. reflexivity.
Qed.

Lemma expected_links_eq (ls : list data) c (d : data) :
  c = mmr_size (length ls) ->
  map (fun i => Stored (c + Z.of_nat i))
      (seq 0 (Z.to_nat (mmr_size (length (ls ++ [d])) - mmr_size (length ls))))
  = expected_links (length ls).
Proof.
  intros ->. unfold expected_links. rewrite app_length. cbn [length]. rewrite Nat.add_1_r. reflexivity.
Qed.

Lemma root_facts t ls b h0 len root rd :
  repr H v t ls -> seg_ok b h0 ls -> Corr.root_ok hk t len root rd = true ->
  len = mmr_size (length ls) /\ forall hok, root_matches H hk v false ls len rd hok = true.
Proof.
  intros RP G RO. destruct (repr_root H v t ls b h0 RP G) as (en & RN & MR & C).
  unfold Corr.root_ok in RO. rewrite RN in RO. rewrite !andb_true_iff in RO. destruct RO as [[L _] D].
  assert (len = mmr_size (length ls)) by lia. split; [assumption|].
  intros hok. unfold root_matches. rewrite MR, D. unfold hok_ok. cbn [negb]. rewrite orb_true_r.
  replace (len =? mmr_size (length ls)) with true by lia. reflexivity.
Qed.

Lemma St_prefix b h0 ls d :
  St b h0 (ls ++ [d]) -> ls <> [] -> sums_fit_b ls = true -> mmr_size (length ls) <= u32_max -> St b h0 ls.
Proof.
  intros (_ & F & B & C & _ & _) NE S M. apply Forall_app in F. apply Forall_app in B.
  apply consecutive_app in C. unfold St. tauto.
Qed.

Lemma bridge_ops b h0 : forall ops obs t ls i,
  repr H v t ls -> St b h0 ls ->
  chain_scan v b h0 (Z.of_nat (length ls)) ops = true ->
  forallb sums_fit_b (states ls ops) = true ->
  run_ops H oc hk v t ops obs = true ->
  prop_ops H hk v false i true ls ops obs = true.
Proof.
  induction ops as [|o ops IH]; intros obs t ls i RP ST CS FS RUN.
  - destruct obs; [reflexivity|discriminate].
  - destruct obs as [|s obs]; [destruct o; discriminate|].
    pose proof (St_seg _ _ _ ST) as G.
    destruct ST as (NE & F & B & C & SF & M).
    destruct (repr_root H v t ls b h0 RP G) as (en0 & _ & _ & C0).
    destruct o as [d|]; cbn [run_ops] in RUN; cbn [chain_scan] in CS; cbn [states apply_op forallb] in FS;
      apply andb_true_iff in FS; destruct FS as [FS1 FS].
    + (* append *)
      rewrite !andb_true_iff in CS. destruct CS as [[[[[WD BR] SH] EH] MS] CS].
      apply wf_data_P in WD.
      assert (ST' : St b h0 (ls ++ [d])).
      { unfold St. split; [destruct ls; discriminate|].
        split; [apply Forall_app; split; [exact F|constructor; [exact WD|constructor]]|].
        split; [apply Forall_app; split; [exact B|constructor; [lia|constructor]]|].
        split; [apply consecutive_app; split; [exact C|cbn [consecutive]; lia]|].
        split; [exact FS1|].
        rewrite app_length. cbn [length]. replace (Z.to_nat (Z.of_nat (length ls) + 1)) with (length ls + 1)%nat in MS by lia. lia. }
      pose proof (St_seg _ _ _ ST') as G'.
      destruct ST' as (_ & _ & _ & _ & _ & M').
      destruct (append_root H oc v t ls d b h0 RP G' M') as (t' & AP & RP').
      rewrite AP in RUN. destruct s as [links len root rd hok|cnt len root rd hok|e|]; try discriminate.
      rewrite !andb_true_iff in RUN. destruct RUN as [[LK RO] RUN].
      apply links_eqb_eq in LK.
      destruct (root_facts t' _ b h0 len root rd RP' G' RO) as [LEN RM].
      cbn [prop_ops apply_op]. rewrite !andb_true_iff. split; [split; [split|]|].
      * rewrite <- LK, (expected_links_eq ls (t_count t) d C0). apply links_eqb_eq. reflexivity.
      * lia.
      * destruct (check_step _ _ _); [apply RM|]. unfold hok_ok. cbn [negb]. apply orb_true_r.
      * apply (IH obs t' (ls ++ [d]) (S i)); auto.
        -- unfold St. repeat split; auto; try (destruct ls; discriminate).
           ++ apply Forall_app; split; [exact F|constructor; [exact WD|constructor]].
           ++ apply Forall_app; split; [exact B|constructor; [lia|constructor]].
           ++ apply consecutive_app; split; [exact C|cbn [consecutive]; lia].
        -- rewrite app_length. cbn [length]. replace (Z.of_nat (length ls + 1)) with (Z.of_nat (length ls) + 1) by lia. exact CS.
    + (* truncate *)
      apply andb_true_iff in CS. destruct CS as [MS CS].
      destruct (@exists_last _ ls NE) as (ls' & d & E). subst ls. rewrite removelast_last in *.
      destruct ls' as [|x ls'].
      * (* the only leaf *)
        cbn [app] in *.
        rewrite (truncate_single t d b h0 RP G) in RUN by (rewrite C0; exact M).
        destruct s as [links len root rd hok|cnt len root rd hok|e|]; try discriminate.
        apply andb_true_iff in RUN. destruct RUN as [TE _].
        destruct e as [l|[l|]]; cbn [terr_eqb option_eqb] in TE; try discriminate.
        reflexivity.
      * set (lp := x :: ls') in *.
        assert (NE' : lp <> []) by discriminate.
        destruct (truncate_root H oc v t lp d b h0 RP NE' G M) as (t' & TR & RP').
        rewrite TR in RUN. destruct s as [links len root rd hok|cnt len root rd hok|e|]; try discriminate.
        rewrite !andb_true_iff in RUN. destruct RUN as [[CN RO] RUN].
        assert (ML : mmr_size (length lp) <= u32_max).
        { rewrite app_length in MS. cbn [length] in MS.
          replace (Z.to_nat (Z.of_nat (length lp + 1) - 1)) with (length lp) in MS by lia. lia. }
        assert (ST' : St b h0 lp).
        { apply (St_prefix b h0 lp d); [unfold St; tauto|exact NE'|exact FS1|exact ML]. }
        pose proof (St_seg _ _ _ ST') as G'.
        destruct (root_facts t' _ b h0 len root rd RP' G' RO) as [LEN RM].
        cbn [prop_ops apply_op]. rewrite removelast_last. fold lp.
        assert (MX : forall X : bool, match lp with [] => false | _ :: _ => X end = X) by (intros; reflexivity).
        rewrite MX.
        rewrite !andb_true_iff. split; [split; [split|]|].
        -- lia.
        -- lia.
        -- destruct (check_step _ _ _); [apply RM|]. unfold hok_ok. cbn [negb]. apply orb_true_r.
        -- apply (IH obs t' lp (S i)); auto.
           rewrite app_length in CS. cbn [length] in CS.
           replace (Z.of_nat (length lp + 1) - 1) with (Z.of_nat (length lp)) in CS by lia. exact CS.
Qed.

End B.

(** which cases the bridge theorem covers: all codec / combine cases and the full-tree histories *)
Definition bridge_dom (c : case) : bool :=
  match c with
  | CTree _ _ _ _ leaves _ peaks extra _ _ _ => is_full leaves peaks extra
  | _ => true
  end.

Lemma mmr_array_single H v d : mmr_array H v [d] = [(0, mkEntry Leaf d)].
Proof. reflexivity. Qed.

Theorem bridge_tree_full v oc hk tbl leaves length peaks extra n ops obs :
  is_full leaves peaks extra = true ->
  wf_case (CTree v oc hk tbl leaves length peaks extra n ops obs) = true ->
  known_class (CTree v oc hk tbl leaves length peaks extra n ops obs) = 0%N ->
  run_case (CTree v oc hk tbl leaves length peaks extra n ops obs) = true ->
  prop_main (CTree v oc hk tbl leaves length peaks extra n ops obs) = true.
Proof.
  intros FULL WF KC RUN. unfold prop_main. cbn [prop_gen known_class run_case] in *.
  destruct (all_chain v leaves ops) eqn:AC; cbn [andb]; [|reflexivity].
  destruct (view_ok (Htbl tbl) hk v leaves length peaks extra ops) eqn:VO; [|reflexivity].
  cbn [andb] in KC. destruct (all_fit leaves ops) eqn:AF; cbn [negb] in KC; [|discriminate].
  unfold is_full in FULL.
  destruct leaves as [|d [|? ?]]; try discriminate.
  destruct peaks as [|[i e] ps]; try discriminate.
  destruct i; try discriminate. destruct ps; try discriminate. destruct extra; try discriminate.
  (* the view is the single leaf *)
  unfold view_ok in VO. rewrite mmr_array_single in VO. cbn [app forallb fst snd lookup Z.eqb] in VO.
  rewrite !andb_true_iff in VO. destruct VO as [[[LEN [EE _]] _] _].
  cbn [e_kind] in EE. rewrite orb_true_r in EE.
  apply entry_eqb_true in EE. subst e.
  change (mmr_size (List.length [d])) with 1 in LEN. assert (length = 1) by lia. subst length.
  (* the chain *)
  unfold all_chain in AC. rewrite !andb_true_iff in AC. destruct AC as [[CB MS] CS].
  unfold chain_b in CB. rewrite !andb_true_iff in CB. destruct CB as [[WD _] CC].
  cbn [forallb] in WD. rewrite andb_true_r in WD. apply wf_data_P in WD.
  cbn [consecutive_b] in CC. rewrite !andb_true_iff in CC. destruct CC as [[_ EH] _].
  unfold all_fit in AF. apply andb_true_iff in AF. destruct AF as [SF FS].
  set (H := Htbl tbl) in *.
  assert (ST : St v (d_branch d) (d_sh d) [d]).
  { unfold St. split; [discriminate|]. split; [constructor; [exact WD|constructor]|].
    split; [constructor; [reflexivity|constructor]|]. split; [cbn [consecutive]; lia|].
    split; [exact SF|]. change (mmr_size (List.length [d])) with 1. unfold u32_max. lia. }
  destruct (new_leaf_repr H oc v d) as (t0 & TN & RP).
  unfold run_tree in RUN. rewrite TN in RUN.
  destruct n as [len root rd hok|]; [|discriminate].
  apply andb_true_iff in RUN. destruct RUN as [RO RUN].
  destruct (root_facts H hk v t0 [d] _ _ len root rd RP (St_seg v _ _ _ ST) RO) as [_ RM].
  rewrite RM. cbn [andb].
  change (is_full [d] [(0, mkEntry Leaf d)] []) with true.
  apply (bridge_ops H oc hk v (d_branch d) (d_sh d) ops obs t0 [d] 0%nat RP ST); [exact CS|exact FS|exact RUN].
Qed.

(** Bridge: on a well-typed case outside the known-finding class, agreement of the
    implementation with the model implies the property checker's verdict.  For the codec and
    combine cases this is the full checker; for tree histories it is the checker without the
    harness-side commitment flag ([prop_main]); partial-view cases are not covered
    ([bridge_dom]) and are only evaluated. *)
Theorem agree_implies_property c :
  bridge_dom c = true -> wf_case c = true -> known_class c = 0%N -> run_case c = true ->
  prop_main c = true.
Proof.
  destruct c; intros D WF KC RUN;
    [match type of WF with wf_case ?c = true => exact (bridge_codec c eq_refl WF KC RUN) end ..|].
  apply bridge_tree_full; auto.
Qed.
