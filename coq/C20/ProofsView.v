(** C20 — partially loaded views.  A view holds the roots of the peaks (that is all an append
    reads) and, for a truncation, the right spine of the last peak with the left children hanging
    off it.  Operations on such a view succeed (no [ExpectedInMemory]), return the same values and
    leave the same root record and length as on the fully loaded tree. *)
From V.Lib Require Import Base MachInt.
From V.C20 Require Import Model Spec ProofsData ProofsArith ProofsStore ProofsAppend ProofsSpec ProofsTruncate Corr ProofsTop.
From Coq Require Import ZifyBool.
Local Open Scope Z_scope.

Section View.
Variable H : Z -> list Z -> list Z.
Variable oc : bool.
Variable v : ver.
Notation bdata := (bt_data H v).
Notation root_at := (root_at H v).
Notation stored_at := (stored_at H v).

(** [t] is a view of the tree over [ls] holding (at least) the peaks *)
Definition repr_view : tree -> list data -> Prop := reprG H v root_at.
(** ... and the nodes a truncation reads *)
Definition repr_view_spine : tree -> list data -> Prop := reprS H v root_at.

Lemma stored_root_at m T : forall o, stored_at m o T -> root_at m o T.
Proof. intros o S. apply stored_root. exact S. Qed.

Lemma stored_spine_root m T : forall o, stored_at m o T -> spine_at H v root_at m o T.
Proof.
  induction T as [d|l IHl r IHr]; intros o; cbn [ProofsStore.stored_at spine_at]; [auto|].
  intros (A & B & C). split; [apply stored_root_at; exact A|]. split; [apply IHr; exact B|exact C].
Qed.

Lemma rpeaks_full_view m R : forall e, rpeaks_at stored_at m R e -> rpeaks_at root_at m R e.
Proof.
  induction R as [|T R IH]; intros e; cbn [rpeaks_at]; [auto|].
  intros [A B]. split; [apply stored_root_at; exact A|apply IH; exact B].
Qed.

(** the fully loaded tree is in particular a sufficient view *)
Theorem full_is_view t ls : repr H v t ls -> repr_view_spine t ls.
Proof.
  intros (R & IV & E). exists R. destruct IV as [NE P I PK C RD].
  split; [constructor; auto; apply rpeaks_full_view; exact PK|]. split; [|exact E].
  unfold last_spine. destruct R as [|[h T] rest]; [congruence|]. cbn [trs map snd rpeaks_at] in *.
  destruct PK as [S _]. apply stored_spine_root. exact S.
Qed.

Theorem view_root t ls b h0 :
  repr_view t ls -> seg_ok b h0 ls ->
  exists en, root_node t = Ok en /\ mmr_root H v ls = Some (e_data en) /\
             t_count t = mmr_size (length ls).
Proof. apply repr_rootG. apply ProofsStore.root_ok. Qed.

(** Appending on a view holding the peaks: succeeds, same links; afterwards the view even holds
    what a following truncation needs. *)
Theorem view_append t ls d b h0 :
  repr_view t ls -> seg_ok b h0 (ls ++ [d]) -> mmr_size (length (ls ++ [d])) <= u32_max ->
  exists t',
    append_leaf H oc v t d
    = Ok (t', map (fun i => Stored (t_count t + Z.of_nat i))
                  (seq 0 (Z.to_nat (mmr_size (length (ls ++ [d])) - mmr_size (length ls))))) /\
    repr_view_spine t' (ls ++ [d]).
Proof. apply append_rootG. apply ProofsStore.root_ok. Qed.

(** Truncating on a view holding the peaks and the right spine of the last one. *)
Theorem view_truncate t ls d b h0 :
  repr_view_spine t (ls ++ [d]) -> ls <> [] -> seg_ok b h0 (ls ++ [d]) ->
  mmr_size (length (ls ++ [d])) <= u32_max ->
  exists t',
    truncate_leaf H oc v t = Ok (t', mmr_size (length (ls ++ [d])) - mmr_size (length ls)) /\
    repr_view t' ls.
Proof. apply truncate_rootG. apply ProofsStore.root_ok. Qed.

(** The refinement statement: a view and the fully loaded tree over the same leaves give the
    same returned links, the same root record and the same length. *)
Theorem partial_view_refines_append tf tv ls d b h0 :
  repr H v tf ls -> repr_view tv ls -> seg_ok b h0 (ls ++ [d]) ->
  mmr_size (length (ls ++ [d])) <= u32_max ->
  exists tf' tv' links enf env,
    append_leaf H oc v tf d = Ok (tf', links) /\ append_leaf H oc v tv d = Ok (tv', links) /\
    repr H v tf' (ls ++ [d]) /\ repr_view_spine tv' (ls ++ [d]) /\
    root_node tf' = Ok enf /\ root_node tv' = Ok env /\ e_data env = e_data enf /\
    t_count tv' = t_count tf'.
Proof.
  intros RF RV G B.
  destruct (seg_ok_app _ _ _ _ G) as [G0 _].
  destruct (repr_root H v tf ls b h0 RF G0) as (_ & _ & _ & CF).
  destruct (view_root tv ls b h0 RV G0) as (_ & _ & _ & CV).
  destruct (append_root H oc v tf ls d b h0 RF G B) as (tf' & AF & RF').
  destruct (view_append tv ls d b h0 RV G B) as (tv' & AV & RV').
  destruct (repr_root H v tf' _ b h0 RF' G) as (enf & NF & MF & CF').
  destruct (view_root tv' _ b h0 (reprS_reprG _ _ _ _ _ RV') G) as (env & NV & MV & CV').
  exists tf', tv'. eexists. exists enf, env.
  split; [exact AF|]. split; [rewrite AV, CV, <- CF; reflexivity|].
  split; [exact RF'|]. split; [exact RV'|]. split; [exact NF|]. split; [exact NV|].
  split; [congruence|congruence].
Qed.

Theorem partial_view_refines_truncate tf tv ls d b h0 :
  repr H v tf (ls ++ [d]) -> repr_view_spine tv (ls ++ [d]) -> ls <> [] -> seg_ok b h0 (ls ++ [d]) ->
  mmr_size (length (ls ++ [d])) <= u32_max ->
  exists tf' tv' cnt enf env,
    truncate_leaf H oc v tf = Ok (tf', cnt) /\ truncate_leaf H oc v tv = Ok (tv', cnt) /\
    repr H v tf' ls /\ repr_view tv' ls /\
    root_node tf' = Ok enf /\ root_node tv' = Ok env /\ e_data env = e_data enf /\
    t_count tv' = t_count tf'.
Proof.
  intros RF RV NE G B.
  destruct (seg_ok_app _ _ _ _ G) as [G0 _].
  destruct (truncate_root H oc v tf ls d b h0 RF NE G B) as (tf' & TF & RF').
  destruct (view_truncate tv ls d b h0 RV NE G B) as (tv' & TV & RV').
  destruct (repr_root H v tf' _ b h0 RF' G0) as (enf & NF & MF & CF').
  destruct (view_root tv' _ b h0 RV' G0) as (env & NV & MV & CV').
  exists tf', tv'. eexists. exists enf, env.
  split; [exact TF|]. split; [exact TV|].
  split; [exact RF'|]. split; [exact RV'|]. split; [exact NF|]. split; [exact NV|].
  split; [congruence|congruence].
Qed.

End View.
