(** C20 — [truncate_leaf] preserves the representation invariant and removes the last leaf. *)
From V.Lib Require Import Base MachInt.
From V.C20 Require Import Model Spec ProofsData ProofsArith ProofsStore ProofsAppend.
From Coq Require Import ZifyBool.
Local Open Scope Z_scope.

Section T.
Variable H : Z -> list Z -> list Z.
Variable oc : bool.
Variable v : ver.
Notation cspec := (combine_spec H v).
Notation bdata := (bt_data H v).
Variable sat : list (Z * entry) -> Z -> bt -> Prop.
Hypothesis SO : sat_ok H v sat.
Notation rpeaks_at := (rpeaks_at sat).
Notation spine_at := (spine_at H v sat).
Notation last_spine := (last_spine H v sat).
Notation rbag_den := (rbag_den H v).
Notation rbagd := (rbagd H v).
Notation inv := (inv H v sat).

Lemma pop_n_ok : forall n t, Z.of_nat n <= t_count t ->
  exists t', pop_n oc n t = Ok t' /\ t_count t' = t_count t - Z.of_nat n /\
    t_gen t' = t_gen t /\ t_root t' = t_root t /\
    forall i, i < t_count t - Z.of_nat n -> lookup i (t_stored t') = lookup i (t_stored t).
Proof.
  induction n as [|n IH]; intros t B.
  - exists t. cbn [pop_n]. repeat split; auto. lia.
  - cbn [pop_n]. unfold pop. destruct (0 <? t_count t) eqn:E; [|lia]. cbn [tbind].
    set (t1 := mkTree (remove (t_count t - 1) (t_stored t)) (t_gen t) (t_count t - 1) (t_root t)).
    destruct (IH t1) as (t' & P & C & G & R & L); [unfold t1; cbn [t_count]; lia|].
    exists t'. split; [exact P|]. unfold t1 in *. cbn [t_count t_gen t_root t_stored] in *.
    split; [lia|]. split; [auto|]. split; [auto|].
    intros i Hi. rewrite L by lia. rewrite lookup_remove. destruct (t_count t - 1 =? i) eqn:X; [lia|reflexivity].
Qed.

(** Walking down the right spine of a perfect tree: the left children hanging off it are the
    peaks that remain when the last leaf is removed. [A] lists them last-first. *)
Lemma spine_ok : forall j T o t fuel,
  perfect j T -> spine_at (t_stored t) o T -> (j < fuel)%nat ->
  exists (A : list (nat * bt)) d,
    spine_loop fuel t (Stored (o + bt_size T - 1))
      = Ok (rev (rlinks (trs A) (o + total (trs A))), Z.of_nat j) /\
    perfs A /\ incr 0 (hts A) /\ Forall (fun h => (h < j)%nat) (hts A) /\
    rpeaks_at (t_stored t) (trs A) (o + total (trs A)) /\
    bt_leaves T = rleaves (trs A) ++ [d] /\
    bt_size T = total (trs A) + 1 + Z.of_nat j.
Proof.
  induction j as [|j IH]; intros T o t fuel P S F; destruct T as [d|l r]; cbn [perfect] in P; try (exfalso; exact P);
    (destruct fuel as [|f]; [lia|]).
  - exists [], d. cbn [ProofsStore.spine_at] in S. cbn [spine_loop bt_size].
    replace (o + 1 - 1) with o by lia. rewrite (resolve_stored t o _ S). cbn [tbind e_kind].
    cbn [trs hts map rlinks rev total rleaves app ProofsStore.rpeaks_at incr bt_leaves].
    repeat split; auto. constructor.
  - destruct P as [Pl Pr]. assert (S' := S). cbn [ProofsStore.spine_at] in S'. destruct S' as (Sl & Sr & E).
    cbn [spine_loop bt_size].
    replace (o + (bt_size l + bt_size r + 1) - 1) with (o + bt_size l + bt_size r) by lia.
    rewrite (resolve_stored t _ _ E). cbn [tbind e_kind bt_kind].
    destruct (IH r (o + bt_size l) t f Pr Sr ltac:(lia)) as (A & d & SP & PA & IA & FA & RA & LA & SA).
    replace (o + bt_size l + bt_size r - 1) with (o + bt_size l + bt_size r - 1) by lia.
    rewrite SP. cbn [tbind].
    exists (A ++ [(j, l)]), d.
    assert (ET : trs (A ++ [(j, l)]) = trs A ++ [l]) by (unfold trs; rewrite map_app; reflexivity).
    assert (EH : hts (A ++ [(j, l)]) = hts A ++ [j]) by (unfold hts; rewrite map_app; reflexivity).
    rewrite ET, EH, total_app. cbn [total].
    replace (o + (total (trs A) + (bt_size l + 0))) with (o + bt_size l + total (trs A)) by lia.
    split.
    { rewrite rlinks_app. cbn [rlinks]. rewrite rev_app_distr. cbn [rev app].
      f_equal. f_equal; [|lia]. f_equal. f_equal. lia. }
    split; [apply Forall_app; split; [exact PA|constructor; [exact Pl|constructor]]|].
    split.
    { apply (incr_app 0 (hts A) j [j]); auto; [lia|]. cbn [incr]. split; [lia|exact Logic.I]. }
    split.
    { apply Forall_app. split.
      - eapply Forall_impl; [|exact FA]. cbn beta. intros; lia.
      - constructor; [lia|constructor]. }
    split.
    { apply rpeaks_at_app. split; [exact RA|]. cbn [ProofsStore.rpeaks_at]. split; [|exact Logic.I].
      replace (o + bt_size l + total (trs A) - total (trs A) - bt_size l) with o by lia. exact Sl. }
    split.
    { cbn [bt_leaves]. rewrite rleaves_app, LA. cbn [rleaves app]. rewrite app_assoc. reflexivity. }
    rewrite SA. lia.
Qed.

(** Common tail of the even case: bag the new peaks, pop the removed slots. *)
Lemma truncate_tail t Arem Rdone e2 lk0 k b h0 :
  Rdone <> [] -> perfs (Arem ++ Rdone) -> incr 0 (hts (Arem ++ Rdone)) ->
  rpeaks_at (t_stored t) (trs (Arem ++ Rdone)) e2 ->
  rbag_den (t_gen t) (trs Rdone) (e2 - total (trs Arem)) lk0 ->
  seg_ok b h0 (rleaves (trs (Arem ++ Rdone))) ->
  e2 = total (trs (Arem ++ Rdone)) -> k = t_count t - e2 -> 0 <= k ->
  exists t',
    tbind (bag_loop H oc v (rev (rlinks (trs Arem) e2)) t lk0)
      (fun b => let '(t1, new_root) := b in
                tbind (pop_n oc (Z.to_nat k) t1) (fun t2 => Ok (set_root t2 new_root, k)))
    = Ok (t', k) /\ inv t' (Arem ++ Rdone).
Proof.
  intros NE P I PK BD G E2 K K0.
  assert (ET : trs (Arem ++ Rdone) = trs Arem ++ trs Rdone) by (unfold trs; rewrite map_app; reflexivity).
  rewrite ET in PK, G.
  destruct (bag_loop_ok H oc v sat SO (trs Arem) (trs Rdone) e2 t lk0 b h0) as (t1 & lk1 & BL & S1 & C1 & R1 & _ & D1); auto.
  { destruct Rdone; [congruence|discriminate]. }
  rewrite BL. cbn [tbind].
  pose proof (total_nonneg (trs (Arem ++ Rdone))) as TNN.
  destruct (pop_n_ok (Z.to_nat k) t1) as (t2 & PN & C2 & G2 & R2 & L2); [rewrite C1, Z2Nat.id by lia; lia|].
  rewrite PN. cbn [tbind]. eexists. split; [reflexivity|].
  rewrite Z2Nat.id in * by lia.
  constructor; cbn [set_root t_stored t_gen t_count t_root]; auto.
  - destruct Arem; cbn [app]; [exact NE|discriminate].
  - rewrite ET, C2, C1. replace (t_count t - k) with e2 by lia.
    eapply (rpeaks_at_ext H v sat SO); [|exact PK]. intros i Hi. rewrite L2, S1; [reflexivity|]. rewrite C1. lia.
  - rewrite C2, C1. lia.
  - rewrite ET, C2, C1, G2. replace (t_count t - k) with e2 by lia. exact D1.
Qed.

Theorem truncate_inv t R b h0 :
  inv t R -> last_spine t R -> seg_ok b h0 (rleaves (trs R)) -> t_count t <= u32_max ->
  (1 < length (rleaves (trs R)))%nat ->
  exists t' R' d,
    truncate_leaf H oc v t = Ok (t', t_count t - t_count t') /\
    inv t' R' /\ rleaves (trs R) = rleaves (trs R') ++ [d].
Proof.
  intros IV LS G B NL. assert (IV' := IV). destruct IV' as [NE P I PK C RD].
  destruct R as [|[j T] rest]; [congruence|].
  assert (P' := P). inversion P' as [|? ? PT Prest]; subst. cbn [fst snd] in PT.
  pose proof (total_nonneg (trs rest)) as TN. pose proof (bt_size_pos T) as ST1.
  assert (BTot : total (trs ((j, T) :: rest)) <= u32_max) by (rewrite <- C; exact B).
  destruct (total_head_le _ _ _ BTot) as [BT Brest].
  destruct (resolve_bag H v sat SO t _ _ _ RD PK) as (en & Res & ED & SH).
  assert (LC : leaf_count en = Ok (lsum (hts ((j, T) :: rest)))).
  { apply (bag_count H v en ((j, T) :: rest) b h0); auto. }
  assert (FJ : (j < FUEL)%nat).
  { rewrite (perfect_size _ _ PT) in BT. pose proof (p2_u32 j BT). unfold FUEL. lia. }
  cbn [trs map snd rleaves ProofsStore.rpeaks_at total] in *. fold (trs rest) in *.
  destruct PK as [ST PK'].
  destruct (seg_ok_app _ _ _ _ G) as [Grest GT].
  unfold truncate_leaf. rewrite Res. cbn [tbind]. rewrite LC. cbn [tbind].
  cbn [hts map fst]. rewrite (incr_odd j (map fst rest) I).
  destruct rest as [|[j' T'] rest'].
  - (* a single complete peak *)
    cbn [trs map snd total rleaves app] in *. subst en.
    destruct T as [d|l r].
    { cbn [bt_leaves length] in NL. lia. }
    destruct j as [|j]; cbn [perfect] in PT; [exfalso; exact PT|]. destruct PT as [Pl Pr].
    cbn [Nat.eqb e_left e_kind bt_kind tbind].
    unfold in_left, in_right. cbn [tbind e_left e_right e_kind bt_kind].
    set (o := t_count t - bt_size (BN l r)) in *.
    assert (S' := LS). unfold ProofsAppend.last_spine in S'. cbn [trs map snd ProofsStore.spine_at] in S'. fold o in S'. destruct S' as (Sl & Sr & E).
    destruct (spine_ok j r (o + bt_size l) t FUEL Pr Sr ltac:(lia)) as (A & d & SP & PA & IA & FA & RA & LA & SA).
    replace (o + bt_size l + bt_size r - 1) with (o + bt_size l + bt_size r - 1) by lia.
    rewrite SP. cbn [tbind].
    unfold complete. cbn [e_data]. rewrite (peak_count H v _ (S j) (BN l r) b h0); auto; [|cbn [perfect]; auto].
    cbn [tbind]. rewrite is_pow2_p2.
    cbn [bt_size] in *.
    set (k := 1 + Z.of_nat j + 1).
    destruct (truncate_tail t A [(j, l)] (o + bt_size l + total (trs A)) (Stored (o + bt_size l - 1)) k b h0)
      as (t' & TT & IV2); try discriminate.
    + apply Forall_app. split; [exact PA|constructor; [exact Pl|constructor]].
    + unfold hts. rewrite map_app. apply (incr_app 0 (map fst A) j [j]); auto; [lia|].
      cbn [map fst incr]. split; [lia|exact Logic.I].
    + unfold trs. rewrite map_app. apply rpeaks_at_app. split; [exact RA|]. cbn [map snd ProofsStore.rpeaks_at].
      split; [|exact Logic.I].
      replace (o + bt_size l + total (map snd A) - total (map snd A) - bt_size l) with o by (unfold trs; lia).
      exact Sl.
    + cbn [trs map snd ProofsStore.rbag_den]. f_equal. lia.
    + unfold trs. rewrite map_app, rleaves_app. cbn [map snd rleaves app].
      cbn [bt_leaves] in G. fold (trs A). rewrite LA, app_assoc in G.
      destruct (seg_ok_app _ _ _ _ G) as [G1 _]. exact G1.
    + unfold trs. rewrite map_app, total_app. cbn [map snd total]. fold (trs A). unfold o. lia.
    + unfold k, o. lia.
    + unfold k. lia.
    + rewrite TT. pose proof (inv_count H v sat _ _ IV2) as C2.
      exists t', (A ++ [(j, l)]), d. split; [|split].
      * f_equal. f_equal. rewrite C2. unfold trs. rewrite map_app, total_app. cbn [map snd total]. fold (trs A).
        unfold k, o in *. lia.
      * exact IV2.
      * unfold trs. rewrite map_app, rleaves_app. cbn [map snd rleaves app bt_leaves]. fold (trs A).
        rewrite LA, app_assoc. reflexivity.
  - (* several peaks: the root is a generated node *)
    destruct SH as (lk' & EK & BD').
    cbn [tl trs map snd] in BD'. fold (trs rest') in BD'.
    set (rest := (j', T') :: rest') in *.
    cbn [hts map fst incr] in I. destruct I as (_ & I1).
    unfold e_left. rewrite EK. cbn [tbind].
    destruct j as [|j]; cbn [Nat.eqb].
    + (* odd number of leaves: the last peak is a leaf *)
      destruct T as [d|l r]; cbn [perfect] in PT; [|exfalso; exact PT].
      cbn [bt_size] in *.
      unfold pop. destruct (0 <? t_count t) eqn:E0; [|lia]. cbn [tbind].
      exists (set_root (mkTree (remove (t_count t - 1) (t_stored t)) (t_gen t) (t_count t - 1) (t_root t)) lk'), rest, d.
      split; [|split].
      * cbn [set_root t_count]. f_equal. f_equal. lia.
      * constructor; cbn [set_root t_stored t_gen t_count t_root]; auto.
        -- discriminate.
        -- eapply incr_weaken; [|exact I1]. lia.
        -- eapply (rpeaks_at_ext H v sat SO); [|exact PK']. intros i Hi. rewrite lookup_remove.
           destruct (t_count t - 1 =? i) eqn:X; [lia|reflexivity].
        -- lia.
      * cbn [bt_leaves]. reflexivity.
    + (* even: walk down the right spine of the last peak *)
      unfold in_left, in_right, e_left, e_right. rewrite EK. cbn [tbind].
      set (o := t_count t - bt_size T) in *.
      assert (LS' := LS). unfold ProofsAppend.last_spine in LS'. cbn [trs map snd] in LS'. fold o in LS'.
      destruct (spine_ok (S j) T o t FUEL PT LS' FJ) as (A & d & SP & PA & IA & FA & RA & LA & SA).
      replace (t_count t - 1) with (o + bt_size T - 1) by (unfold o; lia).
      rewrite SP. cbn [tbind].
      unfold complete. rewrite LC. cbn [tbind hts map fst]. fold (hts rest').
      match goal with |- context [is_pow2 ?x] => assert (NP : is_pow2 x = false) end.
      { apply (not_pow2 (S j) j' (map fst rest')). cbn [incr]. split; [lia|]. exact I1. }
      rewrite NP.
      set (k := 1 + Z.of_nat (S j) + 0).
      destruct (truncate_tail t A rest (o + total (trs A)) lk' k b h0) as (t' & TT & IV2); try discriminate.
      * apply Forall_app. split; [exact PA|exact Prest].
      * unfold hts. rewrite map_app. apply (incr_app 0 (map fst A) (S (S j)) (map fst rest)); auto; [|lia].
        eapply Forall_impl; [|exact FA]. cbn beta. intros; lia.
      * unfold trs. rewrite map_app. apply rpeaks_at_app. split; [exact RA|].
        fold (trs A). fold (trs rest).
        replace (o + total (trs A) - total (trs A)) with o by lia. exact PK'.
      * replace (o + total (trs A) - total (trs A)) with o by lia. exact BD'.
      * unfold trs. rewrite map_app, rleaves_app. fold (trs A). fold (trs rest).
        rewrite LA, app_assoc in G. destruct (seg_ok_app _ _ _ _ G) as [G1 _]. exact G1.
      * unfold trs. rewrite map_app, total_app. fold (trs A). fold (trs rest). unfold o. lia.
      * unfold k, o. lia.
      * rewrite TT. pose proof (inv_count H v sat _ _ IV2) as C2.
        exists t', (A ++ rest), d. split; [|split].
        -- f_equal. f_equal. rewrite C2. unfold trs. rewrite map_app, total_app. fold (trs A). fold (trs rest).
           unfold k, o in *. lia.
        -- exact IV2.
        -- unfold trs. rewrite map_app, rleaves_app. fold (trs A). fold (trs rest).
           rewrite LA, app_assoc. reflexivity.
Qed.

End T.
