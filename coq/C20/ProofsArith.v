(** C20 — perfect trees, strictly increasing height lists and sums of distinct powers of two. *)
From V.Lib Require Import Base MachInt.
From V.C20 Require Import Model Spec ProofsData.
From Coq Require Import ZifyBool.
Local Open Scope Z_scope.

Fixpoint perfect (h : nat) (T : bt) : Prop :=
  match h, T with
  | O, BL _ => True
  | S h', BN l r => perfect h' l /\ perfect h' r
  | _, _ => False
  end.

Definition p2 (h : nat) : Z := 2 ^ Z.of_nat h.

Lemma p2_S h : p2 (S h) = 2 * p2 h.
Proof. unfold p2. rewrite Nat2Z.inj_succ, Z.pow_succ_r; lia. Qed.
Lemma p2_0 : p2 0 = 1.
Proof. reflexivity. Qed.
Lemma p2_pos h : 1 <= p2 h.
Proof. induction h; [rewrite p2_0; lia | rewrite p2_S; lia]. Qed.
Lemma p2_mono a b : (a <= b)%nat -> p2 a <= p2 b.
Proof. intros. unfold p2. apply Z.pow_le_mono_r; lia. Qed.
Lemma p2_lt a b : (a < b)%nat -> 2 * p2 a <= p2 b.
Proof. intros. rewrite <- p2_S. apply p2_mono. lia. Qed.
Lemma p2_inj a b : p2 a = p2 b -> a = b.
Proof.
  intros E. destruct (Nat.lt_trichotomy a b) as [L|[L|L]]; auto.
  - pose proof (p2_lt a b L). pose proof (p2_pos a). lia.
  - pose proof (p2_lt b a L). pose proof (p2_pos b). lia.
Qed.
Lemma p2_add a b : p2 (a + b) = p2 a * p2 b.
Proof. unfold p2. rewrite Nat2Z.inj_add, Z.pow_add_r; lia. Qed.

Lemma perfect_nl h T : perfect h T -> bt_nl T = p2 h.
Proof.
  revert T. induction h as [|h IH]; intros [d|l r]; cbn [perfect bt_nl]; try tauto.
  intros [A B]. rewrite (IH _ A), (IH _ B), p2_S. lia.
Qed.
Lemma perfect_size h T : perfect h T -> bt_size T = 2 * p2 h - 1.
Proof. intros P. rewrite bt_size_nl, (perfect_nl _ _ P). lia. Qed.

Lemma is_pow2_p2 h : is_pow2 (p2 h) = true.
Proof.
  unfold is_pow2, p2. rewrite Z.log2_pow2 by lia.
  pose proof (p2_pos h). unfold p2 in *. lia.
Qed.

(** strictly increasing list of heights, all >= lo *)
Fixpoint incr (lo : nat) (hs : list nat) : Prop :=
  match hs with [] => True | h :: r => (lo <= h)%nat /\ incr (S h) r end.

Definition lsum (hs : list nat) : Z := fold_right (fun h a => p2 h + a) 0 hs.

Lemma lsum_app a b : lsum (a ++ b) = lsum a + lsum b.
Proof. unfold lsum. induction a; cbn [app fold_right]; lia. Qed.

Lemma incr_weaken lo lo' hs : (lo' <= lo)%nat -> incr lo hs -> incr lo' hs.
Proof. destruct hs; cbn [incr]; [auto|]. intros ? [? ?]. split; [lia|auto]. Qed.

Lemma incr_div lo hs : incr lo hs -> exists q, lsum hs = p2 lo * q /\ 0 <= q /\ (hs <> [] -> 1 <= q).
Proof.
  revert lo. induction hs as [|h r IH]; intros lo; cbn [incr].
  - exists 0. unfold lsum. cbn. split; [lia|]. split; [lia|congruence].
  - intros [L I]. destruct (IH _ I) as (q & E & Q0 & _).
    replace h with (lo + (h - lo))%nat at 1 by lia.
    exists (p2 (h - lo) * (1 + 2 * q)).
    unfold lsum in *. cbn [fold_right]. rewrite E, p2_S.
    replace h with (lo + (h - lo))%nat at 1 2 by lia. rewrite p2_add.
    pose proof (p2_pos (h - lo)). split; [ring|]. split; [nia|intros _; nia].
Qed.

Lemma incr_even hs : incr 1 hs -> Z.odd (lsum hs) = false.
Proof.
  intros I. destruct (incr_div _ _ I) as (q & E & _). rewrite E.
  change (p2 1) with 2. rewrite Z.odd_mul. reflexivity.
Qed.

(** head of an increasing list decides the parity of the sum *)
Lemma incr_odd h r : incr 0 (h :: r) -> Z.odd (lsum (h :: r)) = Nat.eqb h 0.
Proof.
  cbn [incr]. intros [_ I]. unfold lsum. cbn [fold_right]. fold (lsum r).
  destruct h as [|h].
  - rewrite p2_0. cbn [Nat.eqb]. rewrite Z.odd_add, (incr_even r I). reflexivity.
  - cbn [Nat.eqb]. assert (I' : incr 1 (S h :: r)) by (cbn [incr]; split; [lia|auto]).
    apply incr_even in I'. unfold lsum in I'. cbn [fold_right] in I'. exact I'.
Qed.

Lemma lsum_pos hs : hs <> [] -> 1 <= lsum hs.
Proof.
  destruct hs as [|h r]; [congruence|]. intros _. unfold lsum. cbn [fold_right]. fold (lsum r).
  assert (0 <= lsum r).
  { clear. induction r as [|x r IH]; unfold lsum in *; cbn [fold_right]; [lia|]. pose proof (p2_pos x). lia. }
  pose proof (p2_pos h). lia.
Qed.

(** a sum of at least two distinct powers of two is not a power of two *)
Lemma not_pow2 h h' r : incr 0 (h :: h' :: r) -> is_pow2 (lsum (h :: h' :: r)) = false.
Proof.
  cbn [incr]. intros (_ & L & I).
  assert (I' : incr (S h) (h' :: r)) by (cbn [incr]; auto).
  destruct (incr_div _ _ I') as (q & E & _ & Q). specialize (Q ltac:(congruence)).
  unfold is_pow2. apply andb_false_iff. right. apply Z.eqb_neq. intros C.
  set (s := lsum (h :: h' :: r)) in *.
  assert (Es : s = p2 h * (1 + 2 * q)).
  { unfold s, lsum. cbn [fold_right]. fold (lsum (h' :: r)).
    unfold lsum in E. cbn [fold_right] in E. unfold lsum. cbn [fold_right]. rewrite E, p2_S. ring. }
  pose proof (p2_pos h) as Ph.
  assert (Spos : 0 < s) by nia.
  pose proof (Z.log2_nonneg s) as Ln.
  set (LG := Z.log2 s) in *.
  destruct (Z_le_gt_dec LG (Z.of_nat h)) as [Le|Gt].
  - assert (2 ^ LG <= p2 h) by (unfold p2; apply Z.pow_le_mono_r; lia). nia.
  - replace LG with (Z.of_nat h + 1 + (LG - Z.of_nat h - 1)) in C by lia.
    rewrite !Z.pow_add_r in C by lia. fold (p2 h) in C. change (2 ^ 1) with 2 in C.
    set (X := 2 ^ (LG - Z.of_nat h - 1)) in *.
    assert (E2 : 2 * X = 1 + 2 * q).
    { apply Z.mul_reg_l with (p2 h); [lia|]. rewrite <- Es, C. ring. }
    lia.
Qed.

Lemma incr_app lo a k b :
  incr lo a -> Forall (fun x => (x < k)%nat) a -> incr k b -> incr lo (a ++ b).
Proof.
  revert lo. induction a as [|x a IH]; intros lo; cbn [app incr].
  - intros _ _ I. destruct b; cbn [incr] in *; auto.
    (* lo is unconstrained when a is empty: need lo <= head b *)
Abort.

Lemma incr_app lo a k b :
  incr lo a -> Forall (fun x => (x < k)%nat) a -> (lo <= k)%nat -> incr k b -> incr lo (a ++ b).
Proof.
  revert lo. induction a as [|x a IH]; intros lo; cbn [app incr].
  - intros _ _ L I. eapply incr_weaken; eauto.
  - intros [L I] F Lk Ib. inversion F; subst. split; [auto|]. apply IH; auto.
Qed.

(** the largest height of an increasing list is at least its length - 1 *)
Lemma incr_max lo hs : incr lo hs -> hs <> [] -> exists h, In h hs /\ (lo + length hs - 1 <= h)%nat.
Proof.
  revert lo. induction hs as [|x r IH]; intros lo; [congruence|]. cbn [incr]. intros [L I] _.
  destruct r as [|y r'].
  - exists x. cbn. split; [auto|lia].
  - destruct (IH _ I ltac:(congruence)) as (h & In_ & B). exists h. split; [right; auto|].
    cbn [length] in *. lia.
Qed.

Lemma p2_u32 h : 2 * p2 h - 1 <= u32_max -> (h < 32)%nat.
Proof.
  intros B. destruct (Nat.lt_ge_cases h 32) as [|G]; auto.
  pose proof (p2_mono 32 h G). change (p2 32) with 4294967296 in *. unfold u32_max in B. lia.
Qed.
