(** C20 — the representation invariant: the stored array holds the peaks in the canonical
    post-order MMR layout, the root link denotes the peaks bagged left to right. Peaks are kept
    last-first ([R] = [Pk; ...; P1]) because both operations work at the right end. *)
From V.Lib Require Import Base MachInt.
From V.C20 Require Import Model Spec ProofsData ProofsArith.
From Coq Require Import ZifyBool.
Local Open Scope Z_scope.

Lemma lookup_insert i k e m : lookup i (insert k e m) = if k =? i then Some e else lookup i m.
Proof. reflexivity. Qed.
Lemma lookup_remove i k m : lookup i (remove k m) = if k =? i then None else lookup i m.
Proof.
  unfold remove. induction m as [|[k' e'] m IH]; cbn [filter lookup fst].
  - destruct (k =? i); reflexivity.
  - destruct (k' =? k) eqn:E1; cbn [negb].
    + rewrite IH. destruct (k =? i) eqn:E2.
      * assert (k' =? i = true) by lia. reflexivity || (destruct (k' =? i); [reflexivity|discriminate]).
      * destruct (k' =? i) eqn:E3; [lia|reflexivity].
    + cbn [lookup]. rewrite IH. destruct (k' =? i) eqn:E3; [|reflexivity].
      destruct (k =? i) eqn:E2; [lia|reflexivity].
Qed.

Definition dummy : data := mkData 0 [] 0 0 0 0 [] [] 0 0 0 0 [] [] 0 [] [] 0.

Section S.
Variable H : Z -> list Z -> list Z.
Variable v : ver.
Notation cspec := (combine_spec H v).
Notation bdata := (bt_data H v).

Definition bt_kind (o : Z) (T : bt) : kind :=
  match T with
  | BL _ => Leaf
  | BN l r => Node (Stored (o + bt_size l - 1)) (Stored (o + bt_size l + bt_size r - 1))
  end.

(** subtree [T] laid out in post-order from array index [o] *)
Fixpoint stored_at (m : list (Z * entry)) (o : Z) (T : bt) : Prop :=
  match T with
  | BL d => lookup o m = Some (mkEntry Leaf d)
  | BN l r =>
      stored_at m o l /\ stored_at m (o + bt_size l) r /\
      lookup (o + bt_size l + bt_size r) m = Some (mkEntry (bt_kind o (BN l r)) (bdata (BN l r)))
  end.

Lemma stored_root m o T :
  stored_at m o T -> lookup (o + bt_size T - 1) m = Some (mkEntry (bt_kind o T) (bdata T)).
Proof.
  destruct T as [d|l r]; cbn [stored_at bt_size].
  - intros E. replace (o + 1 - 1) with o by lia. exact E.
  - intros (_ & _ & E). replace (o + (bt_size l + bt_size r + 1) - 1) with (o + bt_size l + bt_size r) by lia.
    exact E.
Qed.

Lemma stored_at_ext m m' T : forall o,
  (forall i, o <= i < o + bt_size T -> lookup i m' = lookup i m) ->
  stored_at m o T -> stored_at m' o T.
Proof.
  induction T as [d|l IHl r IHr]; intros o E; cbn [stored_at bt_size] in *.
  - intros X. rewrite E; [exact X|lia].
  - pose proof (bt_size_pos l). pose proof (bt_size_pos r).
    intros (A & B & C). split; [|split].
    + apply IHl; auto. intros; apply E; lia.
    + apply IHr; auto. intros; apply E; lia.
    + rewrite E; [exact C|lia].
Qed.

(** peaks last-first, [e] = index just after the last peak *)
Fixpoint total (R : list bt) : Z := match R with [] => 0 | T :: r => bt_size T + total r end.

Fixpoint rlinks (R : list bt) (e : Z) : list link :=
  match R with [] => [] | T :: rest => Stored (e - 1) :: rlinks rest (e - bt_size T) end.

Fixpoint rleaves (R : list bt) : list data :=
  match R with [] => [] | T :: rest => rleaves rest ++ bt_leaves T end.

(** record of the bagged peaks *)
Fixpoint rbagd (R : list bt) : data :=
  match R with
  | [] => dummy
  | T :: rest => match rest with [] => bdata T | _ :: _ => cspec (rbagd rest) (bdata T) end
  end.

(** the link denotes the bag: a stored peak root, or a chain of generated nodes *)
Fixpoint rbag_den (g : list entry) (R : list bt) (e : Z) (lk : link) : Prop :=
  match R with
  | [] => False
  | T :: rest =>
      match rest with
      | [] => lk = Stored (e - 1)
      | _ :: _ =>
          exists gi lk', lk = Generated gi /\ 0 <= gi /\
            nth_error g (Z.to_nat gi) = Some (mkEntry (Node lk' (Stored (e - 1))) (rbagd R)) /\
            rbag_den g rest (e - bt_size T) lk'
      end
  end.

Lemma total_app A B : total (A ++ B) = total A + total B.
Proof. induction A; cbn [app total]; lia. Qed.
Lemma total_nonneg R : 0 <= total R.
Proof. induction R as [|T r]; cbn [total]; [lia|]. pose proof (bt_size_pos T). lia. Qed.

Lemma rlinks_app A B e : rlinks (A ++ B) e = rlinks A e ++ rlinks B (e - total A).
Proof.
  revert e. induction A as [|T A IH]; intros e; cbn [app rlinks total].
  - f_equal. lia.
  - rewrite IH. do 3 f_equal. lia.
Qed.

Lemma rleaves_app A B : rleaves (A ++ B) = rleaves B ++ rleaves A.
Proof. induction A; cbn [app rleaves]; [rewrite app_nil_r; reflexivity|]. rewrite IHA, app_assoc. reflexivity. Qed.

Lemma rbag_den_mono g x R : forall e lk, rbag_den g R e lk -> rbag_den (g ++ x) R e lk.
Proof.
  induction R as [|T rest IH]; intros e lk; cbn [rbag_den]; [auto|].
  destruct rest as [|T' rest']; [auto|].
  intros (gi & lk' & E1 & P & N & D). exists gi, lk'. repeat split; auto.
  rewrite nth_error_app1; [exact N|]. apply nth_error_Some. congruence.
Qed.

(** * Resolving links *)

Lemma resolve_stored t i e : lookup i (t_stored t) = Some e -> resolve_link t (Stored i) = Ok e.
Proof. unfold resolve_link. intros ->. reflexivity. Qed.

Lemma resolve_generated t gi e :
  0 <= gi -> nth_error (t_gen t) (Z.to_nat gi) = Some e -> resolve_link t (Generated gi) = Ok e.
Proof.
  unfold resolve_link. intros P N.
  assert (Z.to_nat gi < length (t_gen t))%nat by (apply nth_error_Some; congruence).
  destruct (gi <? Z.of_nat (length (t_gen t))) eqn:E; [|lia]. rewrite N. reflexivity.
Qed.

(** * leaf counts *)

Lemma leaf_count_data en n :
  d_eh (e_data en) = d_sh (e_data en) + n - 1 -> 1 <= n <= u64_max -> leaf_count en = Ok n.
Proof.
  intros E B. unfold leaf_count, height_span. rewrite E.
  destruct (d_sh (e_data en) + n - 1 <? d_sh (e_data en)) eqn:E1; [lia|].
  destruct (d_sh (e_data en) + n - 1 - d_sh (e_data en) + 1 <=? u64_max) eqn:E2; [|lia].
  f_equal. lia.
Qed.

(** * Facts about the bag record over a good segment *)

Lemma rbagd_facts R b h0 :
  R <> [] -> seg_ok b h0 (rleaves R) ->
  d_branch (rbagd R) = b /\ d_sh (rbagd R) = h0 /\
  d_eh (rbagd R) = h0 + Z.of_nat (length (rleaves R)) - 1 /\
  fits (rbagd R) /\ dle (rbagd R) (rleaves R).
Proof.
  induction R as [|T rest IH]; [congruence|]. intros _ G. cbn [rleaves rbagd] in *.
  destruct rest as [|T' rest'].
  - cbn [rleaves app] in *. pose proof (bdata_facts H v T b h0 G) as (A & B & C & D & E).
    rewrite <- bt_nl_len in C. auto.
  - pose proof (seg_ok_app _ _ _ _ G) as [G1 G2].
    destruct (IH ltac:(congruence) G1) as (A1 & B1 & C1 & D1 & E1).
    pose proof (bdata_facts H v T _ _ G2) as (A2 & B2 & C2 & D2 & E2).
    set (rest := T' :: rest') in *.
    assert (DL : dle (cspec (rbagd rest) (bdata T)) (rleaves rest ++ bt_leaves T)) by (apply dle_combine; auto).
    unfold combine_spec at 1 2 3. cbn [d_branch d_sh d_eh].
    split; [auto|]. split; [auto|]. split.
    + rewrite C2, app_length, <- bt_nl_len. lia.
    + split; [|exact DL]. eapply dle_fits; [exact DL|]. destruct G as (_ & _ & _ & Z & _). exact Z.
Qed.


(** * Store predicates: what must be present in the stored map for a subtree.
    [stored_at] (every node, the fully loaded tree) and [root_at] (only the root, a partial view)
    are the two instances; the operation proofs are generic in [sat]. *)
Definition root_at (m : list (Z * entry)) (o : Z) (T : bt) : Prop :=
  lookup (o + bt_size T - 1) m = Some (mkEntry (bt_kind o T) (bdata T)).

Record sat_ok (sat : list (Z * entry) -> Z -> bt -> Prop) : Prop := {
  so_root : forall m o T, sat m o T -> root_at m o T;
  so_ext : forall m m' T o, (forall i, o <= i < o + bt_size T -> lookup i m' = lookup i m) ->
                            sat m o T -> sat m' o T;
  so_leaf : forall m o d, lookup o m = Some (mkEntry Leaf d) -> sat m o (BL d);
  so_node : forall m o l r, sat m o l -> sat m (o + bt_size l) r ->
      lookup (o + bt_size l + bt_size r) m = Some (mkEntry (bt_kind o (BN l r)) (bdata (BN l r))) ->
      sat m o (BN l r)
}.

Lemma stored_ok : sat_ok stored_at.
Proof.
  constructor.
  - intros. apply stored_root. assumption.
  - intros m m' T o E S. eapply stored_at_ext; eauto.
  - intros. exact H0.
  - intros. cbn [stored_at]. auto.
Qed.

Lemma root_ok : sat_ok root_at.
Proof.
  constructor; unfold root_at.
  - auto.
  - intros m m' T o E S. pose proof (bt_size_pos T). rewrite E; [exact S|lia].
  - intros m o d E. cbn [bt_size bt_kind bt_data]. replace (o + 1 - 1) with o by lia. exact E.
  - intros m o l r _ _ E. cbn [bt_size]. replace (o + (bt_size l + bt_size r + 1) - 1) with (o + bt_size l + bt_size r) by lia. exact E.
Qed.

Section Sat.
Variable sat : list (Z * entry) -> Z -> bt -> Prop.
Hypothesis SO : sat_ok sat.

Lemma sat_ext m m' T : forall o,
  (forall i, o <= i < o + bt_size T -> lookup i m' = lookup i m) -> sat m o T -> sat m' o T.
Proof. intros o E S. eapply (so_ext sat SO); eauto. Qed.

(** what [truncate_leaf] needs of the last peak: its right spine, and the left children hanging off it *)
Fixpoint spine_at (m : list (Z * entry)) (o : Z) (T : bt) : Prop :=
  match T with
  | BL d => lookup o m = Some (mkEntry Leaf d)
  | BN l r =>
      sat m o l /\ spine_at m (o + bt_size l) r /\
      lookup (o + bt_size l + bt_size r) m = Some (mkEntry (bt_kind o (BN l r)) (bdata (BN l r)))
  end.

Lemma spine_at_ext m m' T : forall o,
  (forall i, o <= i < o + bt_size T -> lookup i m' = lookup i m) -> spine_at m o T -> spine_at m' o T.
Proof.
  induction T as [d|l IHl r IHr]; intros o E; cbn [spine_at bt_size] in *.
  - intros X. rewrite E; [exact X|lia].
  - pose proof (bt_size_pos l). pose proof (bt_size_pos r).
    intros (A & B & C). split; [|split].
    + eapply sat_ext; [|exact A]. intros; apply E; lia.
    + apply IHr; auto. intros; apply E; lia.
    + rewrite E; [exact C|lia].
Qed.

Fixpoint rpeaks_at (m : list (Z * entry)) (R : list bt) (e : Z) : Prop :=
  match R with
  | [] => True
  | T :: rest => sat m (e - bt_size T) T /\ rpeaks_at m rest (e - bt_size T)
  end.


Lemma rpeaks_at_app m A B e :
  rpeaks_at m (A ++ B) e <-> rpeaks_at m A e /\ rpeaks_at m B (e - total A).
Proof.
  revert e. induction A as [|T A IH]; intros e; cbn [app rpeaks_at total].
  - replace (e - 0) with e by lia. tauto.
  - rewrite IH. replace (e - bt_size T - total A) with (e - (bt_size T + total A)) by lia. tauto.
Qed.

Lemma rpeaks_at_ext m m' R : forall e,
  (forall i, e - total R <= i < e -> lookup i m' = lookup i m) ->
  rpeaks_at m R e -> rpeaks_at m' R e.
Proof.
  induction R as [|T R IH]; intros e E; cbn [rpeaks_at total] in *; [auto|].
  pose proof (bt_size_pos T). pose proof (total_nonneg R).
  intros [A B]. split.
  - eapply sat_ext; [|exact A]. intros; apply E; lia.
  - apply IH; auto. intros; apply E; lia.
Qed.

Lemma resolve_peak t T e :
  sat (t_stored t) (e - bt_size T) T ->
  resolve_link t (Stored (e - 1)) = Ok (mkEntry (bt_kind (e - bt_size T) T) (bdata T)).
Proof.
  intros S. apply resolve_stored. apply (so_root sat SO) in S. unfold root_at in S.
  replace (e - bt_size T + bt_size T - 1) with (e - 1) in S by lia. exact S.
Qed.

Lemma resolve_bag t R e lk :
  rbag_den (t_gen t) R e lk -> rpeaks_at (t_stored t) R e ->
  exists en, resolve_link t lk = Ok en /\ e_data en = rbagd R /\
    match R with
    | [T] => en = mkEntry (bt_kind (e - bt_size T) T) (bdata T)
    | T :: _ :: _ => exists lk', e_kind en = Node lk' (Stored (e - 1)) /\
                               rbag_den (t_gen t) (tl R) (e - bt_size T) lk'
    | [] => False
    end.
Proof.
  destruct R as [|T rest]; cbn [rbag_den rpeaks_at]; [tauto|].
  destruct rest as [|T' rest'].
  - intros -> [S _]. eexists. split; [apply resolve_peak; exact S|]. split; reflexivity.
  - intros (gi & lk' & -> & P & N & D) _. eexists. split; [apply resolve_generated; eauto|].
    split; [reflexivity|]. exists lk'. split; [reflexivity|exact D].
Qed.

End Sat.

Lemma stored_spine m T : forall o, stored_at m o T -> spine_at stored_at m o T.
Proof.
  induction T as [d|l IHl r IHr]; intros o; cbn [stored_at spine_at]; [auto|].
  intros (A & B & C). auto.
Qed.

End S.
