(** C20 — lemmas about the combination rule: when the model's [combine] (machine arithmetic,
    may panic) equals the specified rule [combine_spec] (exact sums), field facts of subtree
    records, and the counter-examples for the overflow guard. *)
From V.Lib Require Import Base MachInt.
From V.C20 Require Import Model Spec.
From Coq Require Import ZifyBool.
Local Open Scope Z_scope.

Definition fits (d : data) : Prop :=
  d_work d <= u256_max /\ d_saptx d <= u64_max /\ d_orchtx d <= u64_max /\ d_irontx d <= u64_max.
Definition nnd (d : data) : Prop :=
  0 <= d_work d /\ 0 <= d_saptx d /\ 0 <= d_orchtx d /\ 0 <= d_irontx d.

Section D.
Variable H : Z -> list Z -> list Z.
Variable oc : bool.
Variable v : ver.
Notation cspec := (combine_spec H v).
Notation bdata := (bt_data H v).

Lemma combine_ok l r :
  d_branch l = d_branch r -> fits (cspec l r) -> combine H oc v l r = Ok (cspec l r).
Proof.
  intros Hb (Hw & Hs & Ho & Hi). unfold combine. rewrite Hb, Z.eqb_refl. cbn [negb].
  unfold combine_inner, add_u256, add_u64, combine_spec in *. cbn [d_work d_saptx d_orchtx d_irontx] in *.
  destruct (d_work l + d_work r <=? u256_max) eqn:E1; [|lia].
  destruct (d_saptx l + d_saptx r <=? u64_max) eqn:E2; [|lia].
  destruct (has_orchard v) eqn:EO.
  - destruct (d_orchtx l + d_orchtx r <=? u64_max) eqn:E3; [|lia].
    destruct (has_ironwood v) eqn:EI.
    + destruct (d_irontx l + d_irontx r <=? u64_max) eqn:E4; [|lia]. rewrite Hb. reflexivity.
    + rewrite Hb. reflexivity.
  - destruct (has_ironwood v) eqn:EI.
    + destruct (d_irontx l + d_irontx r <=? u64_max) eqn:E4; [|lia]. rewrite Hb. reflexivity.
    + rewrite Hb. reflexivity.
Qed.

(** Field rules of the combination: start fields from the left, end fields from the right,
    counters and work added, commitment = hash of the two serialisations. *)
Lemma combine_fields l r d :
  combine H oc v l r = Ok d ->
  d_branch l = d_branch r /\
  d_branch d = d_branch l /\
  d_commit d = H (d_branch l) (write_node v l ++ write_node v r) /\
  d_stime d = d_stime l /\ d_etime d = d_etime r /\
  d_starget d = d_starget l /\ d_etarget d = d_etarget r /\
  d_ssap d = d_ssap l /\ d_esap d = d_esap r /\
  d_sh d = d_sh l /\ d_eh d = d_eh r /\
  (has_orchard v = true -> d_sorch d = d_sorch l /\ d_eorch d = d_eorch r) /\
  (has_ironwood v = true -> d_siron d = d_siron l /\ d_eiron d = d_eiron r) /\
  (* sums: exact when they fit; a wrapped counter is possible only without overflow checks *)
  d_work d = d_work l + d_work r /\
  (oc = true -> d_saptx d = d_saptx l + d_saptx r /\
                (has_orchard v = true -> d_orchtx d = d_orchtx l + d_orchtx r) /\
                (has_ironwood v = true -> d_irontx d = d_irontx l + d_irontx r)).
Proof.
  unfold combine. destruct (d_branch l =? d_branch r) eqn:Eb; cbn [negb]; [|discriminate].
  unfold combine_inner, add_u256, add_u64.
  destruct (d_work l + d_work r <=? u256_max) eqn:E1; [|discriminate].
  destruct (d_saptx l + d_saptx r <=? u64_max) eqn:E2.
  2:{ destruct oc eqn:Eoc; [discriminate|].
      destruct (has_orchard v) eqn:EO; destruct (has_ironwood v) eqn:EI;
      repeat match goal with |- context [if ?c then _ else _] => destruct c eqn:? end;
      intros X; inversion X; subst; clear X; cbn; repeat split; try lia; try discriminate; auto. }
  destruct (has_orchard v) eqn:EO; destruct (has_ironwood v) eqn:EI;
  repeat match goal with |- context [if ?c then _ else _] => destruct c eqn:? end;
  intros X; inversion X; subst; clear X; cbn; repeat split; intros; try lia; try discriminate; auto.
Qed.

(** The overflow guard is necessary: witnesses for the unguarded statement. *)
Definition leafd (b h stx w : Z) : data :=
  mkData b (repeat 0 32) 0 0 0 0 (repeat 0 32) (repeat 0 32) w h h stx [] [] 0 [] [] 0.

Lemma combine_overflow_counter_panics :
  oc = true -> combine H oc V1 (leafd 1 10 u64_max 0) (leafd 1 11 1 0) = Panic.
Proof. intros ->. reflexivity. Qed.
Lemma combine_overflow_work_panics :
  combine H oc V1 (leafd 1 10 0 u256_max) (leafd 1 11 0 1) = Panic.
Proof. reflexivity. Qed.

(** * Field facts of subtree records *)

Definition dle (d : data) (ls : list data) : Prop :=
  0 <= d_work d <= zsum d_work ls /\ 0 <= d_saptx d <= zsum d_saptx ls /\
  0 <= d_orchtx d <= zsum d_orchtx ls /\ 0 <= d_irontx d <= zsum d_irontx ls.

Lemma zsum_app f a b : zsum f (a ++ b) = zsum f a + zsum f b.
Proof. clear H oc v. unfold zsum. induction a; cbn [fold_right app]; lia. Qed.

Lemma dle_leaf d : nnd d -> dle d [d].
Proof. clear H oc v. unfold nnd, dle, zsum. cbn. lia. Qed.

Lemma dle_combine a la b lb : dle a la -> dle b lb -> dle (cspec a b) (la ++ lb).
Proof.
  unfold dle. rewrite !zsum_app. unfold combine_spec. cbn [d_work d_saptx d_orchtx d_irontx].
  destruct (has_orchard v), (has_ironwood v); lia.
Qed.

Lemma bdata_dle T : Forall nnd (bt_leaves T) -> dle (bdata T) (bt_leaves T).
Proof.
  induction T as [d|l IHl r IHr]; cbn [bt_leaves bt_data]; intros F.
  - apply dle_leaf. inversion F; auto.
  - apply Forall_app in F. destruct F. apply dle_combine; auto.
Qed.

(** number of leaves, in Z *)
Fixpoint bt_nl (T : bt) : Z := match T with BL _ => 1 | BN l r => bt_nl l + bt_nl r end.

Lemma bt_nl_len T : Z.of_nat (length (bt_leaves T)) = bt_nl T.
Proof. clear H oc v. induction T; cbn [bt_leaves bt_nl length]; [reflexivity|]. rewrite app_length. lia. Qed.
Lemma bt_nl_pos T : 1 <= bt_nl T.
Proof. clear H oc v. induction T; cbn [bt_nl]; lia. Qed.
Lemma bt_size_nl T : bt_size T = 2 * bt_nl T - 1.
Proof. clear H oc v. induction T; cbn [bt_size bt_nl]; lia. Qed.
Lemma bt_size_pos T : 1 <= bt_size T.
Proof. clear H oc v. rewrite bt_size_nl. pose proof (bt_nl_pos T). lia. Qed.

Lemma consecutive_app h a b :
  consecutive h (a ++ b) <-> consecutive h a /\ consecutive (h + Z.of_nat (length a)) b.
Proof. clear H oc v.
  revert h. induction a as [|x a IH]; intros h; cbn [app consecutive length].
  - replace (h + Z.of_nat 0) with h by lia. tauto.
  - rewrite IH. replace (h + 1 + Z.of_nat (length a)) with (h + Z.of_nat (S (length a))) by lia. tauto.
Qed.

Lemma bdata_heights T h0 :
  consecutive h0 (bt_leaves T) -> d_sh (bdata T) = h0 /\ d_eh (bdata T) = h0 + bt_nl T - 1.
Proof.
  revert h0. induction T as [d|l IHl r IHr]; intros h0; cbn [bt_leaves bt_data bt_nl consecutive].
  - intros (A & B & _). lia.
  - rewrite consecutive_app, bt_nl_len. intros [A B].
    apply IHl in A. apply IHr in B. unfold combine_spec. cbn [d_sh d_eh]. lia.
Qed.

Lemma bdata_branch T b :
  Forall (fun d => d_branch d = b) (bt_leaves T) -> d_branch (bdata T) = b.
Proof.
  induction T as [d|l IHl r IHr]; cbn [bt_leaves bt_data]; intros F.
  - inversion F; auto.
  - apply Forall_app in F. destruct F. unfold combine_spec. cbn [d_branch]. auto.
Qed.

(** A segment of a good leaf list. *)
Definition zfits (ls : list data) : Prop :=
  zsum d_work ls <= u256_max /\ zsum d_saptx ls <= u64_max /\ zsum d_orchtx ls <= u64_max /\
  zsum d_irontx ls <= u64_max.

Definition seg_ok (b h0 : Z) (ls : list data) : Prop :=
  Forall (fun d => d_branch d = b) ls /\ Forall nnd ls /\ consecutive h0 ls /\ zfits ls /\
  0 <= h0 /\ h0 + Z.of_nat (length ls) - 1 <= u64_max.

Lemma zsum_nonneg f ls : Forall (fun d => 0 <= f d) ls -> 0 <= zsum f ls.
Proof. clear H oc v. unfold zsum. intros F. induction F as [|x l Hx F IH]; cbn [fold_right]; [lia|]. cbv beta. lia. Qed.

Lemma nnd_sums ls : Forall nnd ls ->
  0 <= zsum d_work ls /\ 0 <= zsum d_saptx ls /\ 0 <= zsum d_orchtx ls /\ 0 <= zsum d_irontx ls.
Proof. clear H oc v.
  intros F. split; [|split; [|split]]; apply zsum_nonneg; (eapply Forall_impl; [|exact F]); unfold nnd; intros; lia.
Qed.

Lemma seg_ok_app b h0 a c :
  seg_ok b h0 (a ++ c) -> seg_ok b h0 a /\ seg_ok b (h0 + Z.of_nat (length a)) c.
Proof. clear H oc v.
  unfold seg_ok, zfits. rewrite !zsum_app, app_length, consecutive_app.
  intros (F1 & F2 & [C1 C2] & Z & P & Q).
  apply Forall_app in F1. apply Forall_app in F2. destruct F1 as [F1a F1c], F2 as [F2a F2c].
  pose proof (nnd_sums a F2a). pose proof (nnd_sums c F2c).
  repeat split; auto; try lia.
Qed.

Lemma dle_fits d ls : dle d ls -> zfits ls -> fits d.
Proof. clear H oc v. unfold dle, zfits, fits. lia. Qed.

(** Everything the tree proofs need about the record of a subtree over a good segment. *)
Lemma bdata_facts T b h0 :
  seg_ok b h0 (bt_leaves T) ->
  d_branch (bdata T) = b /\ d_sh (bdata T) = h0 /\ d_eh (bdata T) = h0 + bt_nl T - 1 /\
  fits (bdata T) /\ dle (bdata T) (bt_leaves T).
Proof.
  intros (F1 & F2 & C & Z & _).
  pose proof (bdata_heights T h0 C) as [? ?].
  pose proof (bdata_dle T F2).
  split; [apply bdata_branch; auto|]. split; [auto|]. split; [auto|]. split; [eapply dle_fits; eauto|auto].
Qed.

End D.
