(** C20 — the invariant's peaks are the peaks of the from-scratch reference: uniqueness of the
    binary decomposition. *)
From V.Lib Require Import Base MachInt.
From V.C20 Require Import Model Spec ProofsData ProofsArith ProofsStore ProofsAppend.
From Coq Require Import ZifyBool.
Local Open Scope Z_scope.

(** strictly decreasing, all below [hi] *)
Fixpoint decr (hi : nat) (hs : list nat) : Prop :=
  match hs with [] => True | h :: r => (h < hi)%nat /\ decr h r end.
Definition sdec (hs : list nat) : Prop := match hs with [] => True | h :: r => decr h r end.

Fixpoint nsum (hs : list nat) : nat := match hs with [] => O | h :: r => (2 ^ h + nsum r)%nat end.

Lemma pow2_pos n : (0 < 2 ^ n)%nat.
Proof. induction n; cbn [Nat.pow]; lia. Qed.
Lemma pow2_mono a b : (a <= b)%nat -> (2 ^ a <= 2 ^ b)%nat.
Proof. intros. apply Nat.pow_le_mono_r; lia. Qed.

Lemma decr_nsum h r : decr h r -> (nsum r < 2 ^ h)%nat.
Proof.
  revert h. induction r as [|x r IH]; intros h; cbn [decr nsum].
  - intros _. apply pow2_pos.
  - intros [L D]. specialize (IH _ D). pose proof (pow2_mono (S x) h L). cbn [Nat.pow] in *. lia.
Qed.

Lemma decr_weaken k k' hs : (k <= k')%nat -> decr k hs -> decr k' hs.
Proof. destruct hs; cbn [decr]; [auto|]. intros ? [? ?]. split; [lia|auto]. Qed.

Lemma bits_desc_unique : forall k hs, decr k hs -> bits_desc k (nsum hs) = hs.
Proof.
  induction k as [|k IH]; intros hs D.
  - destruct hs as [|h r]; [reflexivity|]. cbn [decr] in D. lia.
  - cbn [bits_desc]. destruct hs as [|h r].
    + cbn [nsum]. pose proof (pow2_pos k). destruct (2 ^ k <=? 0)%nat eqn:E; [apply Nat.leb_le in E; lia|].
      apply (IH []). exact Logic.I.
    + cbn [decr] in D. destruct D as [L D]. pose proof (decr_nsum _ _ D) as B. cbn [nsum].
      destruct (Nat.eq_dec h k) as [->|NE].
      * destruct (2 ^ k <=? 2 ^ k + nsum r)%nat eqn:E; [|apply Nat.leb_gt in E; lia].
        replace (2 ^ k + nsum r - 2 ^ k)%nat with (nsum r) by lia. rewrite (IH r D). reflexivity.
      * assert (h < k)%nat by lia. pose proof (pow2_mono (S h) k ltac:(lia)). cbn [Nat.pow] in *.
        destruct (2 ^ k <=? 2 ^ h + nsum r)%nat eqn:E; [apply Nat.leb_le in E; lia|].
        apply (IH (h :: r)). cbn [decr]. split; [lia|exact D].
Qed.

Lemma incr_rev_append : forall hs lo acc,
  incr lo hs -> sdec acc -> match acc with [] => True | a :: _ => (a < lo)%nat end ->
  sdec (rev_append hs acc).
Proof.
  induction hs as [|h r IH]; intros lo acc I SA A; cbn [rev_append]; [exact SA|].
  cbn [incr] in I. destruct I as [L I]. apply (IH (S h)); auto.
  cbn [sdec]. destruct acc as [|a acc']; cbn [decr]; [auto|]. cbn [sdec] in SA. split; [lia|exact SA].
Qed.

Lemma incr_rev_sdec hs : incr 0 hs -> sdec (rev hs).
Proof. intros I. rewrite rev_alt. apply (incr_rev_append hs 0 []); auto; exact Logic.I. Qed.

Section U.
Variable H : Z -> list Z -> list Z.
Variable v : ver.
Notation cspec := (combine_spec H v).
Notation bdata := (bt_data H v).

Lemma perfect_len h T : perfect h T -> length (bt_leaves T) = (2 ^ h)%nat.
Proof.
  revert T. induction h as [|h IH]; intros [d|l r]; cbn [perfect bt_leaves]; intros PF; try (exfalso; exact PF).
  - reflexivity.
  - destruct PF as [A B]. rewrite app_length, (IH _ A), (IH _ B). cbn [Nat.pow]. lia.
Qed.

Lemma perfect_of_leaves d0 h T : perfect h T -> perfect_of d0 h (bt_leaves T) = T.
Proof.
  revert T. induction h as [|h IH]; intros [d|l r]; cbn [perfect bt_leaves perfect_of]; intros PF; try (exfalso; exact PF).
  - reflexivity.
  - destruct PF as [A B]. pose proof (perfect_len _ _ A) as LA.
    rewrite firstn_app, skipn_app, LA, Nat.sub_diag. cbn [firstn skipn].
    rewrite <- LA, firstn_all, skipn_all, app_nil_r. cbn [app]. rewrite (IH _ A), (IH _ B). reflexivity.
Qed.

Definition fleaves (F : list (nat * bt)) : list data := flat_map (fun p => bt_leaves (snd p)) F.

Lemma chunks_unique d0 F : perfs F -> forall tail, chunks d0 (hts F) (fleaves F ++ tail) = trs F.
Proof.
  induction 1 as [|[h T] F P _ IH]; intros tail; [reflexivity|].
  cbn [hts trs map fst snd fleaves flat_map chunks] in *. fold (fleaves F). fold (hts F). fold (trs F).
  cbn [fst snd] in P. pose proof (perfect_len _ _ P) as LA.
  rewrite <- app_assoc, firstn_app, skipn_app, LA, Nat.sub_diag. cbn [firstn skipn].
  rewrite <- LA, firstn_all, skipn_all, app_nil_r. cbn [app]. rewrite (perfect_of_leaves d0 _ _ P), IH. reflexivity.
Qed.

Lemma fleaves_len F : perfs F -> length (fleaves F) = nsum (hts F).
Proof.
  induction 1 as [|[h T] F P _ IH]; [reflexivity|].
  cbn [hts map fst fleaves flat_map snd nsum]. fold (fleaves F). fold (hts F).
  cbn [fst snd] in P. rewrite app_length, (perfect_len _ _ P), IH. reflexivity.
Qed.

Lemma rleaves_fleaves R : rleaves (trs R) = fleaves (rev R).
Proof.
  induction R as [|[h T] R IH]; [reflexivity|]. cbn [trs map snd rleaves rev]. fold (trs R).
  unfold fleaves. rewrite flat_map_app. cbn [flat_map snd]. rewrite app_nil_r. fold (fleaves (rev R)).
  rewrite IH. reflexivity.
Qed.

Lemma nsum_pos hs : hs <> [] -> (0 < nsum hs)%nat.
Proof. destruct hs as [|h r]; [congruence|]. intros _. cbn [nsum]. pose proof (pow2_pos h). lia. Qed.

(** The peaks kept by the invariant are exactly the peaks of the reference construction. *)
Lemma mmr_trees_unique R :
  R <> [] -> perfs R -> incr 0 (hts R) ->
  mmr_heights (length (rleaves (trs R))) = rev (hts R) /\
  mmr_trees (rleaves (trs R)) = rev (trs R).
Proof.
  intros NE P I.
  set (F := rev R).
  assert (PF : perfs F) by (unfold F, perfs; apply Forall_rev; exact P).
  assert (HF : hts F = rev (hts R)) by (unfold F, hts; rewrite map_rev; reflexivity).
  assert (TF : trs F = rev (trs R)) by (unfold F, trs; rewrite map_rev; reflexivity).
  assert (SD : sdec (hts F)) by (rewrite HF; apply incr_rev_sdec; exact I).
  rewrite rleaves_fleaves. fold F.
  assert (NF : F <> []).
  { unfold F. intros E. apply (f_equal (@rev _)) in E. rewrite rev_involutive in E. cbn in E. congruence. }
  assert (MH : mmr_heights (length (fleaves F)) = hts F).
  { unfold mmr_heights. rewrite (fleaves_len F PF).
    apply bits_desc_unique.
    destruct F as [|[h T] F']; [congruence|]. cbn [hts map fst sdec decr] in *. fold (hts F') in *.
    split; [|exact SD].
    assert (2 ^ h <= nsum (h :: hts F'))%nat by (cbn [nsum]; lia).
    assert (h <= Nat.log2 (nsum (h :: hts F')))%nat.
    { apply Nat.log2_le_pow2; [|exact H0]. cbn [nsum]. pose proof (pow2_pos h). lia. }
    lia. }
  split; [rewrite MH; exact HF|].
  unfold mmr_trees. destruct (fleaves F) as [|d0 rest] eqn:EF.
  - exfalso. pose proof (fleaves_len F PF) as L. rewrite EF in L. cbn [length] in L.
    assert (hts F <> []) by (destruct F; [congruence|discriminate]).
    pose proof (nsum_pos _ H0). lia.
  - cbv iota. rewrite <- EF in MH |- *. rewrite MH, <- TF.
    rewrite <- (app_nil_r (fleaves F)). apply chunks_unique. exact PF.
Qed.

Lemma bag_snoc l x : l <> [] ->
  bag H v (l ++ [x]) = match bag H v l with Some a => Some (cspec a x) | None => None end.
Proof.
  destruct l as [|p r]; [congruence|]. intros _. cbn [app bag]. rewrite fold_left_app. reflexivity.
Qed.

Lemma rbagd_bag Ts : Ts <> [] -> bag H v (map bdata (rev Ts)) = Some (rbagd H v Ts).
Proof.
  induction Ts as [|T rest IH]; [congruence|]. intros _. cbn [rev rbagd].
  rewrite map_app. cbn [map]. destruct rest as [|T' rest'].
  - reflexivity.
  - rewrite bag_snoc.
    + rewrite IH by discriminate. reflexivity.
    + cbn [rev]. rewrite map_app. cbn [map]. intros E. apply app_eq_nil in E. destruct E; discriminate.
Qed.

Lemma peak_size_p2 h : peak_size h = 2 * p2 h - 1.
Proof. unfold peak_size, p2. rewrite Z.pow_add_r by lia. change (2 ^ 1) with 2. lia. Qed.

Lemma fold_peak_app a b :
  fold_right (fun h x => peak_size h + x) 0 (a ++ b)
  = fold_right (fun h x => peak_size h + x) 0 a + fold_right (fun h x => peak_size h + x) 0 b.
Proof. induction a; cbn [app fold_right]; lia. Qed.

Lemma total_sizes R : perfs R ->
  total (trs R) = fold_right (fun h x => peak_size h + x) 0 (rev (hts R)).
Proof.
  induction 1 as [|[h T] R P _ IH]; [reflexivity|].
  cbn [trs hts map fst snd total rev]. fold (trs R). fold (hts R).
  cbn [fst snd] in P. rewrite fold_peak_app, <- IH. cbn [fold_right]. rewrite peak_size_p2, (perfect_size _ _ P). lia.
Qed.

(** What the invariant says about the observable root and length. *)
Theorem inv_root_spec sat (SO : sat_ok H v sat) t R b h0 :
  inv H v sat t R -> seg_ok b h0 (rleaves (trs R)) ->
  exists en, root_node t = Ok en /\
    mmr_root H v (rleaves (trs R)) = Some (e_data en) /\
    t_count t = mmr_size (length (rleaves (trs R))).
Proof.
  intros [NE P I PK C RD] G.
  destruct (resolve_bag H v sat SO t (trs R) (t_count t) (t_root t) RD PK) as (en & Res & ED & _).
  destruct (mmr_trees_unique R NE P I) as [MH MT].
  exists en. split; [exact Res|]. split.
  - unfold mmr_root, mmr_peaks. rewrite MT, ED. apply rbagd_bag.
    destruct R; [congruence|discriminate].
  - unfold mmr_size. rewrite MH, C. apply total_sizes. exact P.
Qed.

End U.
