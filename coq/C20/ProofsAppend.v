(** C20 — [append_leaf] preserves the representation invariant. *)
From V.Lib Require Import Base MachInt.
From V.C20 Require Import Model Spec ProofsData ProofsArith ProofsStore.
From Coq Require Import ZifyBool.
Local Open Scope Z_scope.

Definition hts (R : list (nat * bt)) : list nat := map fst R.
Definition trs (R : list (nat * bt)) : list bt := map snd R.
Definition perfs (R : list (nat * bt)) : Prop := Forall (fun p => perfect (fst p) (snd p)) R.

Section T.
Variable H : Z -> list Z -> list Z.
Variable oc : bool.
Variable v : ver.
Notation cspec := (combine_spec H v).
Notation bdata := (bt_data H v).
(** the store predicate: [stored_at] for the fully loaded tree, [root_at] for a partial view *)
Variable sat : list (Z * entry) -> Z -> bt -> Prop.
Hypothesis SO : sat_ok H v sat.
Notation stored_at := sat.
Notation rpeaks_at := (rpeaks_at sat).
Notation spine_at := (spine_at H v sat).
Notation rbag_den := (rbag_den H v).
Notation rbagd := (rbagd H v).

(** The representation invariant: [R] lists the peaks last-first with their heights. *)
Record inv (t : tree) (R : list (nat * bt)) : Prop := {
  inv_ne : R <> [];
  inv_perf : perfs R;
  inv_incr : incr 0 (hts R);
  inv_peaks : rpeaks_at (t_stored t) (trs R) (t_count t);
  inv_count : t_count t = total (trs R);
  inv_root : rbag_den (t_gen t) (trs R) (t_count t) (t_root t)
}.

Lemma rleaves_len R : perfs R -> Z.of_nat (length (rleaves (trs R))) = lsum (hts R).
Proof.
  induction 1 as [|[h T] R P _ IH]; [reflexivity|].
  cbn [trs hts map rleaves fst snd] in *. rewrite app_length, Nat2Z.inj_add.
  unfold trs, hts in IH. rewrite IH, bt_nl_len, (perfect_nl _ _ P).
  unfold lsum. cbn [fold_right]. lia.
Qed.

Lemma lsum_le_total R : perfs R -> lsum (hts R) <= total (trs R).
Proof.
  induction 1 as [|[h T] R P _ IH]; [unfold lsum; cbn; lia|].
  cbn [trs hts map total fst snd] in *. unfold trs, hts in IH.
  rewrite (perfect_size _ _ P). unfold lsum in *. cbn [fold_right]. pose proof (p2_pos h). lia.
Qed.

Lemma peak_count (k : kind) h T b h0 :
  perfect h T -> seg_ok b h0 (bt_leaves T) -> bt_size T <= u32_max ->
  leaf_count (mkEntry k (bdata T)) = Ok (p2 h).
Proof.
  intros P G B. pose proof (bdata_facts H v T b h0 G) as (_ & S & E & _).
  apply leaf_count_data; cbn [e_data].
  - rewrite S, E, (perfect_nl _ _ P). lia.
  - rewrite (perfect_size _ _ P) in B. pose proof (p2_pos h). unfold u32_max, u64_max in *. lia.
Qed.

Lemma bag_count en R b h0 :
  R <> [] -> perfs R -> seg_ok b h0 (rleaves (trs R)) -> total (trs R) <= u32_max ->
  e_data en = rbagd (trs R) -> leaf_count en = Ok (lsum (hts R)).
Proof.
  intros NE P G B E.
  assert (NE' : trs R <> []) by (destruct R; [congruence|discriminate]).
  pose proof (rbagd_facts H v (trs R) b h0 NE' G) as (_ & S & Eh & _).
  apply leaf_count_data.
  - rewrite E, S, Eh, (rleaves_len R P). lia.
  - pose proof (lsum_le_total R P). assert (hts R <> []) by (destruct R; [congruence|discriminate]).
    pose proof (lsum_pos _ H1). unfold u32_max, u64_max in *. lia.
Qed.

Lemma get_peaks_single f t h T e b h0 :
  perfect h T -> stored_at (t_stored t) (e - bt_size T) T -> seg_ok b h0 (bt_leaves T) ->
  bt_size T <= u32_max -> get_peaks (S f) t (Stored (e - 1)) = Ok [Stored (e - 1)].
Proof.
  intros P S G B. cbn [get_peaks]. rewrite (resolve_peak H v sat SO t T e S). cbn [tbind].
  unfold complete. rewrite (peak_count _ h T b h0 P G B), is_pow2_p2. reflexivity.
Qed.

Lemma total_head_le h T R : total (trs ((h, T) :: R)) <= u32_max -> bt_size T <= u32_max /\ total (trs R) <= u32_max.
Proof. cbn [trs map snd total]. pose proof (total_nonneg (map snd R)). pose proof (bt_size_pos T). unfold trs. lia. Qed.

Lemma get_peaks_ok : forall R fuel t e lk b h0,
  R <> [] -> perfs R -> incr 0 (hts R) -> rpeaks_at (t_stored t) (trs R) e ->
  rbag_den (t_gen t) (trs R) e lk -> seg_ok b h0 (rleaves (trs R)) -> total (trs R) <= u32_max ->
  (length R < fuel)%nat ->
  get_peaks fuel t lk = Ok (rev (rlinks (trs R) e)).
Proof.
  induction R as [|[h T] rest IH]; [congruence|].
  intros fuel t e lk b h0 _ P I PK BD G B F.
  destruct fuel as [|f]; [cbn in F; lia|].
  assert (P' := P). inversion P' as [|? ? PT Prest]; subst. cbn [fst snd] in PT.
  destruct (total_head_le _ _ _ B) as [BT Brest].
  cbn [trs map snd rleaves] in G. fold (trs rest) in G.
  destruct (seg_ok_app _ _ _ _ G) as [Grest GT].
  destruct rest as [|[h' T'] rest'].
  - cbn [trs map snd rbag_den rpeaks_at rlinks rev app] in *. subst lk. destruct PK as [S _].
    eapply get_peaks_single; eauto.
  - destruct (resolve_bag H v sat SO t _ e lk BD PK) as (en & Res & ED & lk' & EK & BD').
    cbn [get_peaks]. rewrite Res. cbn [tbind].
    assert (LC : leaf_count en = Ok (lsum (hts ((h, T) :: (h', T') :: rest')))).
    { apply (bag_count en ((h, T) :: (h', T') :: rest') b h0); [congruence|exact P| |exact B|exact ED].
      cbn [trs map snd rleaves]. exact G. }
    unfold complete. rewrite LC. cbn [hts map fst]. rewrite (not_pow2 h h' (map fst rest') I).
    unfold in_left, in_right, e_left, e_right. rewrite EK. cbn [tbind].
    cbn [trs map snd tl] in BD'. cbn [trs map snd rpeaks_at] in PK. destruct PK as [ST PK'].
    cbn [hts map fst incr] in I. destruct I as (_ & I1 & I2).
    rewrite (IH f t (e - bt_size T) lk' b h0); try assumption; try congruence.
    + cbn [tbind]. destruct f as [|f']; [cbn in F; lia|].
      rewrite (get_peaks_single f' t h T e b _ PT ST GT BT). cbn [tbind].
      cbn [trs map snd rlinks rev]. reflexivity.
    + cbn [hts map fst incr]. split; [lia|]. exact I2.
    + cbn [length] in *. lia.
Qed.

(** * The merge loop *)

(** peaks after merging tree [M] of height [j] into [R] (binary increment) *)
Fixpoint merge_R (j : nat) (M : bt) (R : list (nat * bt)) : list (nat * bt) :=
  match R with
  | [] => [(j, M)]
  | (h, P) :: rest => if Nat.eqb h j then merge_R (S j) (BN P M) rest else (j, M) :: R
  end.
(** links of the merge nodes, in creation order *)
Fixpoint merged_links (c : Z) (j : nat) (R : list (nat * bt)) : list link :=
  match R with
  | [] => []
  | (h, P) :: rest => if Nat.eqb h j then Stored c :: merged_links (c + 1) (S j) rest else []
  end.

Lemma merge_R_total j M R : total (trs (merge_R j M R)) = total (trs R) + bt_size M + Z.of_nat (length (merged_links 0 j R)).
Proof.
  revert j M. induction R as [|[h P] rest IH]; intros j M; cbn [merge_R merged_links].
  - cbn [trs map snd total length]. lia.
  - destruct (Nat.eqb h j).
    + rewrite IH. cbn [trs map snd total bt_size length].
      assert (forall c c' j R, length (merged_links c j R) = length (merged_links c' j R)) as LL.
      { clear. intros c c' j R. revert c c' j. induction R as [|[h P] r IH]; intros; cbn [merged_links]; [reflexivity|].
        destruct (Nat.eqb h j); cbn [length]; [f_equal; apply IH|reflexivity]. }
      rewrite (LL 1 0). unfold trs. lia.
    + cbn [trs map snd total length]. lia.
Qed.

Lemma merge_R_leaves j M R : rleaves (trs (merge_R j M R)) = rleaves (trs R) ++ bt_leaves M.
Proof.
  revert j M. induction R as [|[h P] rest IH]; intros j M; cbn [merge_R]; [reflexivity|].
  destruct (Nat.eqb h j); [|reflexivity].
  rewrite IH. cbn [trs map snd rleaves bt_leaves]. rewrite app_assoc. reflexivity.
Qed.

Lemma merge_R_props j M R :
  perfs R -> incr j (hts R) -> perfect j M ->
  merge_R j M R <> [] /\ perfs (merge_R j M R) /\ incr 0 (hts (merge_R j M R)).
Proof.
  revert j M. induction R as [|[h P] rest IH]; intros j M PR I PM; cbn [merge_R].
  - split; [discriminate|]. split; [constructor; auto|]. cbn [hts map fst incr]. split; [lia|auto].
  - inversion PR as [|? ? PP Prest]; subst. cbn [fst snd] in PP.
    cbn [hts map fst incr] in I. destruct I as [L I].
    destruct (Nat.eqb h j) eqn:E.
    + apply Nat.eqb_eq in E. subst h. apply IH; auto. cbn [perfect]. auto.
    + apply Nat.eqb_neq in E. split; [discriminate|]. split; [constructor; auto|].
      cbn [hts map fst incr]. split; [lia|]. split; [lia|exact I].
Qed.

Lemma push_ok t e : t_count t < u32_max ->
  push oc t e = Ok (mkTree (insert (t_count t) e (t_stored t)) (t_gen t) (t_count t + 1) (t_root t), Stored (t_count t)).
Proof. intros B. unfold push. destruct (t_count t <? u32_max) eqn:E; [reflexivity|lia]. Qed.

(** Phase B: nothing merges any more; the remaining peaks are pushed onto the stack. *)
Lemma merge_B : forall R e t top ht et stack acc b h0,
  perfs R -> incr (S ht) (hts R) -> rpeaks_at (t_stored t) (trs R) e ->
  seg_ok b h0 (rleaves (trs R)) -> total (trs R) <= u32_max ->
  resolve_link t top = Ok et -> leaf_count et = Ok (p2 ht) ->
  merge_loop H oc v (rlinks (trs R) e) t (top :: stack) acc
  = Ok (t, rev (rlinks (trs R) e) ++ top :: stack, acc).
Proof.
  induction R as [|[h T] rest IH]; intros e t top ht et stack acc b h0 P I PK G B RT LT.
  - reflexivity.
  - inversion P as [|? ? PT Prest]; subst. cbn [fst snd] in PT.
    destruct (total_head_le _ _ _ B) as [BT Brest].
    cbn [trs map snd rleaves rpeaks_at rlinks] in *. fold (trs rest) in *.
    destruct (seg_ok_app _ _ _ _ G) as [Grest GT]. destruct PK as [ST PK'].
    cbn [hts map fst incr] in I. destruct I as [L I].
    cbn [merge_loop]. rewrite (resolve_peak H v sat SO t T e ST), RT. cbn [tbind].
    rewrite (peak_count _ h T b _ PT GT BT), LT. cbn [tbind].
    destruct (p2 h =? p2 ht) eqn:E.
    { apply Z.eqb_eq, p2_inj in E. lia. }
    rewrite (IH (e - bt_size T) t (Stored (e - 1)) h (mkEntry (bt_kind (e - bt_size T) T) (bdata T)) (top :: stack) acc b h0); auto.
    + cbn [rev]. rewrite <- app_assoc. reflexivity.
    + apply (resolve_peak H v sat SO). exact ST.
    + apply (peak_count _ h T b _ PT GT BT).
Qed.

(** the last peak has its right spine (and the left children hanging off it) in the store *)
Definition last_spine (t : tree) (R : list (nat * bt)) : Prop :=
  match trs R with
  | T :: _ => spine_at (t_stored t) (t_count t - bt_size T) T
  | [] => False
  end.

(** Phase A: the merged tree [M] (height [j], stored at [e .. count)) absorbs equal-sized peaks. *)
Lemma merge_A : forall R j M e t acc b h0,
  perfs R -> incr j (hts R) -> perfect j M ->
  rpeaks_at (t_stored t) (trs R) e -> stored_at (t_stored t) e M -> spine_at (t_stored t) e M ->
  t_count t = e + bt_size M -> e = total (trs R) ->
  seg_ok b h0 (rleaves (trs R) ++ bt_leaves M) ->
  total (trs (merge_R j M R)) <= u32_max ->
  exists t',
    merge_loop H oc v (rlinks (trs R) e) t [Stored (t_count t - 1)] acc
    = Ok (t', rev (rlinks (trs (merge_R j M R)) (t_count t')), rev (merged_links (t_count t) j R) ++ acc) /\
    rpeaks_at (t_stored t') (trs (merge_R j M R)) (t_count t') /\
    t_count t' = total (trs (merge_R j M R)) /\
    t_gen t' = t_gen t /\ t_root t' = t_root t /\ last_spine t' (merge_R j M R).
Proof.
  induction R as [|[h T] rest IH]; intros j M e t acc b h0 P I PM PK SM SPM C E G B.
  - cbn [trs map snd rlinks merge_loop merge_R merged_links rev app total rpeaks_at] in *.
    exists t. subst e. replace (t_count t - bt_size M) with 0 by lia.
    split; [reflexivity|]. split; [split; [exact SM|exact I]|]. split; [lia|]. split; [reflexivity|]. split; [reflexivity|].
    unfold last_spine. cbn [trs map snd]. replace (t_count t - bt_size M) with 0 by lia. exact SPM.
  - inversion P as [|? ? PT Prest]; subst h0 (* keep *) || idtac.
    inversion P as [|? ? PT' Prest']; subst. cbn [fst snd] in PT'.
    cbn [hts map fst incr] in I. destruct I as [L I].
    cbn [trs map snd rleaves rpeaks_at rlinks total] in *. fold (trs rest) in *.
    destruct PK as [ST PK'].
    replace (bt_size T + total (trs rest) - bt_size T) with (total (trs rest)) in * by lia.
    rewrite <- app_assoc in G.
    destruct (seg_ok_app _ _ _ _ G) as [Grest GTM].
    destruct (seg_ok_app _ _ _ _ GTM) as [GT GM].
    pose proof (bt_size_pos T) as ST1. pose proof (bt_size_pos M) as SM1. pose proof (total_nonneg (trs rest)) as TN.
    pose proof (merge_R_total j M ((h, T) :: rest)) as MT.
    cbn [trs map snd total] in MT. fold (trs rest) in MT.
    assert (BT : bt_size T <= u32_max) by lia.
    assert (BM : bt_size M <= u32_max) by lia.
    cbn [merge_loop].
    assert (RT : resolve_link t (Stored (bt_size T + total (trs rest) - 1)) = Ok (mkEntry (bt_kind (total (trs rest)) T) (bdata T))).
    { pose proof (resolve_peak H v sat SO t T (bt_size T + total (trs rest))) as X.
      replace (bt_size T + total (trs rest) - bt_size T) with (total (trs rest)) in X by lia. apply X; exact ST. }
    rewrite RT.
    assert (RM : resolve_link t (Stored (t_count t - 1)) = Ok (mkEntry (bt_kind (total (trs rest) + bt_size T) M) (bdata M))).
    { replace (t_count t - 1) with ((t_count t) - 1) by lia.
      pose proof (resolve_peak H v sat SO t M (t_count t)) as X. replace (t_count t - bt_size M) with (bt_size T + total (trs rest)) in X by lia.
      replace (total (trs rest) + bt_size T) with (bt_size T + total (trs rest)) by lia. apply X. exact SM. }
    rewrite RM. cbn [tbind].
    rewrite (peak_count _ h T b _ PT' GT BT), (peak_count _ j M b _ PM GM BM). cbn [tbind].
    cbn [merge_R merged_links].
    cbn [merged_links] in MT.
    destruct (Nat.eqb h j) eqn:Ehj; rewrite ?Ehj in MT; cbn [length] in MT; rewrite ?Nat2Z.inj_succ in MT.
    + apply Nat.eqb_eq in Ehj. subst h. rewrite Z.eqb_refl.
      (* combine the two nodes *)
      pose proof (bdata_facts H v T b _ GT) as (BrT & _).
      pose proof (bdata_facts H v M b _ GM) as (BrM & _).
      assert (GTM' : seg_ok b (h0 + Z.of_nat (length (rleaves (trs rest)))) (bt_leaves (BN T M))) by exact GTM.
      pose proof (bdata_facts H v (BN T M) b _ GTM') as (_ & _ & _ & FTM & _).
      unfold combine_nodes. cbn [e_data].
      rewrite (combine_ok H oc v (bdata T) (bdata M)); [|congruence|exact FTM]. cbn [of_unit tbind].
      rewrite push_ok by lia.
      set (ent := mkEntry (Node (Stored (bt_size T + total (trs rest) - 1)) (Stored (t_count t - 1))) (cspec (bdata T) (bdata M))).
      set (t1 := mkTree (insert (t_count t) ent (t_stored t)) (t_gen t) (t_count t + 1) (t_root t)).
      assert (EXT : forall i, i < t_count t -> lookup i (t_stored t1) = lookup i (t_stored t)).
      { intros i Hi. unfold t1. cbn [t_stored]. rewrite lookup_insert. destruct (t_count t =? i) eqn:X; [lia|reflexivity]. }
      destruct (IH (S j) (BN T M) (total (trs rest)) t1 (Stored (t_count t) :: acc) b h0) as (t' & ML & PK2 & C2 & G2 & R2 & LS2); auto.
      * cbn [perfect]. auto.
      * eapply (rpeaks_at_ext H v sat SO); [|exact PK']. intros; apply EXT. lia.
        (* offsets *)
      * apply (so_node H v sat SO).
        -- eapply (sat_ext H v sat SO); [|exact ST].
           intros; apply EXT; lia.
        -- eapply (sat_ext H v sat SO); [|replace (total (trs rest) + bt_size T) with (bt_size T + total (trs rest)) by lia; exact SM].
           intros; apply EXT; lia.
        -- unfold t1. cbn [t_stored]. rewrite lookup_insert.
           replace (t_count t =? total (trs rest) + bt_size T + bt_size M) with true by lia.
           unfold ent. cbn [bt_kind bt_data]. do 4 f_equal; lia.
      * cbn [ProofsStore.spine_at]. split; [|split].
        -- eapply (sat_ext H v sat SO); [|exact ST].
           intros; apply EXT; lia.
        -- eapply (spine_at_ext H v sat SO); [|replace (total (trs rest) + bt_size T) with (bt_size T + total (trs rest)) by lia; exact SPM].
           intros; apply EXT; lia.
        -- unfold t1. cbn [t_stored]. rewrite lookup_insert.
           replace (t_count t =? total (trs rest) + bt_size T + bt_size M) with true by lia.
           unfold ent. cbn [bt_kind bt_data]. do 4 f_equal; lia.
      * unfold t1. cbn [t_count bt_size]. lia.
      * cbn [merge_R] in B. rewrite Nat.eqb_refl in B. exact B.
      * exists t'. split.
        -- replace (t_count t1 - 1) with (t_count t) in ML by (unfold t1; cbn [t_count]; lia).
           cbn [tbind]. rewrite ML. unfold t1. cbn [t_count rev]. rewrite <- app_assoc. reflexivity.
        -- split; [exact PK2|]. split; [exact C2|]. split; [rewrite G2; reflexivity|]. split; [rewrite R2; reflexivity|exact LS2].
    + apply Nat.eqb_neq in Ehj.
      destruct (p2 h =? p2 j) eqn:E2; [apply Z.eqb_eq, p2_inj in E2; lia|].
      erewrite (merge_B rest (total (trs rest)) t (Stored (bt_size T + total (trs rest) - 1)) h _
                  [Stored (t_count t - 1)] acc b h0); auto.
      * exists t. cbn [trs map snd rlinks rev app total rpeaks_at].
        split.
        { do 3 f_equal.
          replace (t_count t - bt_size M) with (bt_size T + total (trs rest)) by lia.
          replace (bt_size T + total (trs rest) - bt_size T) with (total (trs rest)) by lia.
          rewrite <- !app_assoc. reflexivity. }
        split.
        { replace (t_count t - bt_size M) with (bt_size T + total (trs rest)) by lia.
          replace (bt_size T + total (trs rest) - bt_size T) with (total (trs rest)) by lia.
          split; [exact SM|]. split; [exact ST|exact PK']. }
        split; [unfold trs in *; lia|]. split; [reflexivity|]. split; [reflexivity|].
        unfold last_spine. cbn [trs map snd]. replace (t_count t - bt_size M) with (bt_size T + total (trs rest)) by lia. exact SPM.
      * lia.
      * exact RT.
      * apply (peak_count _ h T b _ PT' GT BT).
Qed.

(** * Bagging the peaks with generated nodes *)

Lemma bag_loop_ok : forall Rrem Rdone e t lk b h0,
  Rdone <> [] -> rpeaks_at (t_stored t) (Rrem ++ Rdone) e ->
  rbag_den (t_gen t) Rdone (e - total Rrem) lk ->
  seg_ok b h0 (rleaves (Rrem ++ Rdone)) ->
  exists t' lk',
    bag_loop H oc v (rev (rlinks Rrem e)) t lk = Ok (t', lk') /\
    t_stored t' = t_stored t /\ t_count t' = t_count t /\ t_root t' = t_root t /\
    (exists x, t_gen t' = t_gen t ++ x) /\
    rbag_den (t_gen t') (Rrem ++ Rdone) e lk'.
Proof.
  induction Rrem as [|X A IH] using rev_ind; intros Rdone e t lk b h0 NE PK BD G.
  - cbn [rlinks rev bag_loop app total] in *. exists t, lk. replace (e - 0) with e in BD by lia.
    repeat split; auto. exists []. rewrite app_nil_r. reflexivity.
  - rewrite <- app_assoc in *. cbn [app] in *.
    rewrite rlinks_app. cbn [rlinks]. rewrite rev_app_distr. cbn [rev app].
    rewrite total_app in BD. cbn [total] in BD.
    apply rpeaks_at_app in PK. destruct PK as [PKA PKX].
    rewrite rleaves_app in G. destruct (seg_ok_app _ _ _ _ G) as [GXD _].
    assert (PKX' := PKX). cbn [rpeaks_at] in PKX'. destruct PKX' as [SX PKD].
    destruct (resolve_bag H v sat SO t Rdone (e - total A - bt_size X) lk) as (en & Res & ED & _).
    { replace (e - total A - bt_size X) with (e - (total A + (bt_size X + 0))) by lia. exact BD. }
    { exact PKD. }
    cbn [bag_loop]. rewrite Res, (resolve_peak H v sat SO t X _ SX). cbn [tbind].
    (* the combination succeeds *)
    assert (NEX : X :: Rdone <> []) by discriminate.
    pose proof (rbagd_facts H v (X :: Rdone) b h0 NEX GXD) as (_ & _ & _ & FX & _).
    cbn [rleaves] in GXD. destruct (seg_ok_app _ _ _ _ GXD) as [GD GX].
    pose proof (rbagd_facts H v Rdone b h0 NE GD) as (BrD & _).
    pose proof (bdata_facts H v X b _ GX) as (BrX & _).
    assert (RB : rbagd (X :: Rdone) = cspec (rbagd Rdone) (bdata X)).
    { destruct Rdone; [congruence|reflexivity]. }
    unfold combine_nodes. cbn [e_data]. rewrite ED.
    rewrite (combine_ok H oc v (rbagd Rdone) (bdata X)); [|congruence|rewrite <- RB; exact FX].
    cbn [of_unit tbind push_generated].
    set (ent := mkEntry (Node lk (Stored (e - total A - 1))) (cspec (rbagd Rdone) (bdata X))).
    set (t1 := mkTree (t_stored t) (t_gen t ++ [ent]) (t_count t) (t_root t)).
    destruct (IH (X :: Rdone) e t1 (Generated (Z.of_nat (length (t_gen t)))) b h0) as (t' & lk' & BL & S' & C' & R' & (x & G') & D'); auto.
    + cbn [t_stored]. apply rpeaks_at_app. split; assumption.
    + unfold t1. cbn [t_gen ProofsStore.rbag_den]. destruct Rdone as [|Y Rd]; [congruence|].
      exists (Z.of_nat (length (t_gen t))), lk. split; [reflexivity|]. split; [lia|]. split.
      * rewrite Nat2Z.id, nth_error_app2, Nat.sub_diag by lia. cbn [nth_error]. unfold ent. rewrite RB. reflexivity.
      * apply rbag_den_mono.
        replace (e - total A - bt_size X) with (e - (total A + (bt_size X + 0))) by lia. exact BD.
    + rewrite rleaves_app. exact G.
    + exists t', lk'. split; [exact BL|]. split; [rewrite S'; reflexivity|]. split; [rewrite C'; reflexivity|].
      split; [rewrite R'; reflexivity|]. split; [|exact D'].
      exists ([ent] ++ x). rewrite G'. unfold t1. cbn [t_gen]. rewrite <- app_assoc. reflexivity.
Qed.

(** * append_leaf *)

Definition leaves_ok (b h0 : Z) (ls : list data) : Prop := seg_ok b h0 ls.

Theorem append_inv t R d b h0 :
  inv t R -> seg_ok b h0 (rleaves (trs R) ++ [d]) ->
  total (trs (merge_R 0 (BL d) R)) <= u32_max ->
  exists t',
    append_leaf H oc v t d = Ok (t', Stored (t_count t) :: merged_links (t_count t + 1) 0 R) /\
    inv t' (merge_R 0 (BL d) R) /\ last_spine t' (merge_R 0 (BL d) R).
Proof.
  intros [NE P I PK C RD] G B.
  pose proof (merge_R_total 0 (BL d) R) as MT. cbn [bt_size] in MT.
  pose proof (total_nonneg (trs R)) as TN.
  unfold append_leaf. rewrite push_ok by lia. cbn [tbind].
  set (t1 := mkTree (insert (t_count t) (mkEntry Leaf d) (t_stored t)) (t_gen t) (t_count t + 1) (t_root t)).
  assert (EXT : forall i, i < t_count t -> lookup i (t_stored t1) = lookup i (t_stored t)).
  { intros i Hi. unfold t1. cbn [t_stored]. rewrite lookup_insert. destruct (t_count t =? i) eqn:X; [lia|reflexivity]. }
  destruct (seg_ok_app _ _ _ _ G) as [GR Gd].
  assert (PK1 : rpeaks_at (t_stored t1) (trs R) (t_count t)).
  { eapply (rpeaks_at_ext H v sat SO); [|exact PK]. intros; apply EXT; lia. }
  (* number of peaks is small *)
  assert (LR : (length R < FUEL)%nat).
  { assert (HN : hts R <> []) by (destruct R; [congruence|discriminate]).
    destruct (incr_max 0 (hts R) I HN) as (h & IN & LB).
    unfold hts in IN. apply in_map_iff in IN. destruct IN as ([h' T] & Eh & IN). cbn [fst] in Eh. subst h'.
    assert (PT : perfect h T) by (unfold perfs in P; rewrite Forall_forall in P; apply (P _ IN)).
    assert (bt_size T <= total (trs R)).
    { clear - IN. induction R as [|[h1 T1] R IH]; [destruct IN|]. cbn [trs map snd total].
      pose proof (total_nonneg (map snd R)). pose proof (bt_size_pos T1).
      destruct IN as [E|IN]; [inversion E; subst; lia|]. specialize (IH IN). unfold trs in IH. lia. }
    rewrite (perfect_size _ _ PT) in H0. assert (h < 32)%nat by (apply p2_u32; lia).
    unfold hts in LB. rewrite map_length in LB. unfold FUEL. lia. }
  rewrite (get_peaks_ok R FUEL t1 (t_count t) (t_root t) b h0); auto; [|lia].
  cbn [tbind]. rewrite rev_involutive.
  assert (SM : stored_at (t_stored t1) (t_count t) (BL d)).
  { apply (so_leaf H v sat SO). unfold t1. cbn [t_stored]. rewrite lookup_insert, Z.eqb_refl. reflexivity. }
  assert (C1 : t_count t1 = t_count t + bt_size (BL d)) by (unfold t1; cbn [t_count bt_size]; lia).
  assert (SPM : spine_at (t_stored t1) (t_count t) (BL d)).
  { cbn [ProofsStore.spine_at]. unfold t1. cbn [t_stored]. rewrite lookup_insert, Z.eqb_refl. reflexivity. }
  destruct (merge_A R 0 (BL d) (t_count t) t1 [Stored (t_count t)] b h0 P I Logic.I PK1 SM SPM C1 C G B)
    as (t2 & ML & PK2 & C2 & G2 & R2 & LS2).
  replace (t_count t1 - 1) with (t_count t) in ML by (unfold t1; cbn [t_count]; lia).
  rewrite ML. cbn [tbind].
  destruct (merge_R_props 0 (BL d) R P I Logic.I) as (NE' & P' & I').
  set (R' := merge_R 0 (BL d) R) in *.
  destruct (exists_last NE') as (Rrem & [h1 P1] & ER).
  assert (ET : trs R' = trs Rrem ++ [P1]) by (rewrite ER; unfold trs; rewrite map_app; reflexivity).
  rewrite ET, rlinks_app, rev_app_distr. cbn [rlinks rev app].
  assert (G' : seg_ok b h0 (rleaves (trs R'))).
  { unfold R'. rewrite merge_R_leaves. exact G. }
  destruct (bag_loop_ok (trs Rrem) [P1] (t_count t2) t2 (Stored (t_count t2 - total (trs Rrem) - 1)) b h0) as
      (t3 & lk3 & BL' & S3 & C3 & R3 & _ & D3); auto; try discriminate.
  + rewrite <- ET. exact PK2.
  + cbn [ProofsStore.rbag_den]. reflexivity.
  + rewrite <- ET. exact G'.
  + rewrite BL'. cbn [tbind]. eexists. split.
    * f_equal. f_equal. rewrite rev_app_distr. cbn [rev app]. rewrite rev_involutive.
      unfold t1. cbn [t_count]. reflexivity.
    * rewrite <- ET in D3. split.
      -- constructor; cbn [set_root t_stored t_gen t_count t_root]; auto.
         ++ rewrite S3, C3. exact PK2.
         ++ rewrite C3. exact C2.
         ++ rewrite C3. exact D3.
      -- unfold last_spine in *. cbn [set_root t_stored t_count]. rewrite S3, C3. exact LS2.
Qed.

End T.
