(** C20 — typing of the cases (the domain all theorems share): every integer fits its Rust
    type, byte arrays have their length, fields a version does not have are at their defaults.
    The semantic side conditions (leaves of one chain, overflow guard) are not part of this
    typing: [prop_case] and [known_class] test them. *)
From V.Lib Require Import Base MachInt Hex.
From V.C20 Require Import Model Spec Corr.
Local Open Scope Z_scope.

Definition wf_link (l : link) : bool := match l with Stored i | Generated i => in_u32 i end.
Definition wf_entry (v : ver) (e : entry) : bool :=
  wf_data_b v (e_data e) &&
  match e_kind e with Leaf => true | Node l r => wf_link l && wf_link r end.
Definition wf_op (v : ver) (o : op) : bool :=
  match o with OpAppend d => wf_data_b v d | OpTruncate => true end.
Definition wf_ient (v : ver) (p : Z * entry) : bool := in_u32 (fst p) && wf_entry v (snd p).

Definition wf_case (c : case) : bool :=
  match c with
  | CCsRead b _ => forallb is_byteZ b
  | CCsWrite x _ => in_u64 x
  | CNodeRead _ br b _ | CEntryRead _ br b _ => in_u32 br && forallb is_byteZ b
  | CNodeWrite v d _ => wf_data_b v d
  | CEntryWrite v e _ => wf_entry v e
  | CLeafCount d _ => wf_data_b V1 d
  | CCombine v _ _ l r _ => wf_data_b v l && wf_data_b v r
  | CTree v _ _ _ leaves length peaks extra _ ops _ =>
      forallb (wf_data_b v) leaves && in_u32 length && forallb (wf_ient v) peaks &&
      forallb (wf_ient v) extra && forallb (wf_op v) ops
  end.
