(** C20 — top-level statements: the tree represents its list of leaves; every operation keeps
    that, and the observable root / length are those of the from-scratch rebuild. *)
From V.Lib Require Import Base MachInt.
From V.C20 Require Import Model Spec ProofsData ProofsArith ProofsStore ProofsAppend ProofsSpec ProofsTruncate Corr.
From Coq Require Import ZifyBool.
Local Open Scope Z_scope.

Section Top.
Variable H : Z -> list Z -> list Z.
Variable oc : bool.
Variable v : ver.

Lemma canon_size R : R <> [] -> perfs R -> incr 0 (hts R) ->
  total (trs R) = mmr_size (length (rleaves (trs R))).
Proof.
  intros NE P I. destruct (mmr_trees_unique R NE P I) as [MH _].
  unfold mmr_size. rewrite MH. apply total_sizes. exact P.
Qed.

Lemma merged_links_seq : forall R c j,
  merged_links c j R = map (fun i => Stored (c + Z.of_nat i)) (seq 0 (length (merged_links 0 j R))).
Proof.
  induction R as [|[h P] rest IH]; intros c j; cbn [merged_links]; [reflexivity|].
  destruct (Nat.eqb h j); [|reflexivity]. cbn [length seq map]. f_equal; [f_equal; lia|].
  rewrite (IH (c + 1)), (IH (0 + 1)), !map_length, !seq_length, <- seq_shift, map_map.
  apply map_ext. intros i. f_equal. lia.
Qed.

(** * Generic in the store predicate *)
Section G.
Variable sat : list (Z * entry) -> Z -> bt -> Prop.
Hypothesis SO : sat_ok H v sat.

(** [t] holds the leaves [ls]: the peaks are where the canonical MMR layout puts them (as far as
    [sat] demands), the root link denotes the bagged peaks. *)
Definition reprG (t : tree) (ls : list data) : Prop :=
  exists R, inv H v sat t R /\ rleaves (trs R) = ls.
(** ... and the right spine of the last peak is loaded (what a truncation reads) *)
Definition reprS (t : tree) (ls : list data) : Prop :=
  exists R, inv H v sat t R /\ last_spine H v sat t R /\ rleaves (trs R) = ls.

Lemma reprS_reprG t ls : reprS t ls -> reprG t ls.
Proof. intros (R & A & _ & B). exists R. auto. Qed.

Theorem repr_rootG t ls b h0 :
  reprG t ls -> seg_ok b h0 ls ->
  exists en, root_node t = Ok en /\ mmr_root H v ls = Some (e_data en) /\
             t_count t = mmr_size (length ls).
Proof. intros (R & IV & <-) G. eapply inv_root_spec; eauto. Qed.

Theorem append_rootG t ls d b h0 :
  reprG t ls -> seg_ok b h0 (ls ++ [d]) -> mmr_size (length (ls ++ [d])) <= u32_max ->
  exists t',
    append_leaf H oc v t d
    = Ok (t', map (fun i => Stored (t_count t + Z.of_nat i))
                  (seq 0 (Z.to_nat (mmr_size (length (ls ++ [d])) - mmr_size (length ls))))) /\
    reprS t' (ls ++ [d]).
Proof.
  intros (R & IV & <-) G B.
  destruct (merge_R_props 0 (BL d) R (inv_perf _ _ _ _ _ IV) (inv_incr _ _ _ _ _ IV) Logic.I) as (NE' & P' & I').
  pose proof (canon_size _ NE' P' I') as CS. rewrite merge_R_leaves in CS. cbn [bt_leaves] in CS.
  destruct (append_inv H oc v sat SO t R d b h0 IV G ltac:(rewrite CS; exact B)) as (t' & AP & IV' & LS').
  exists t'. split.
  - rewrite AP. f_equal. f_equal.
    pose proof (merge_R_total 0 (BL d) R) as MT. cbn [bt_size] in MT.
    pose proof (canon_size _ (inv_ne _ _ _ _ _ IV) (inv_perf _ _ _ _ _ IV) (inv_incr _ _ _ _ _ IV)) as CS0.
    rewrite <- CS, <- CS0, MT.
    replace (total (trs R) + 1 + Z.of_nat (length (merged_links 0 0 R)) - total (trs R))
      with (Z.of_nat (S (length (merged_links 0 0 R)))) by lia.
    rewrite Nat2Z.id. cbn [seq map]. f_equal; [f_equal; lia|].
    rewrite (merged_links_seq R (t_count t + 1) 0), <- seq_shift, map_map.
    apply map_ext. intros i. f_equal. lia.
  - exists (merge_R 0 (BL d) R). split; [exact IV'|]. split; [exact LS'|]. apply merge_R_leaves.
Qed.

Theorem truncate_rootG t ls d b h0 :
  reprS t (ls ++ [d]) -> ls <> [] -> seg_ok b h0 (ls ++ [d]) -> mmr_size (length (ls ++ [d])) <= u32_max ->
  exists t',
    truncate_leaf H oc v t = Ok (t', mmr_size (length (ls ++ [d])) - mmr_size (length ls)) /\
    reprG t' ls.
Proof.
  intros (R & IV & LS & E) NE G B.
  pose proof (canon_size _ (inv_ne _ _ _ _ _ IV) (inv_perf _ _ _ _ _ IV) (inv_incr _ _ _ _ _ IV)) as CS0.
  rewrite E in CS0.
  destruct (truncate_inv H oc v sat SO t R b h0 IV LS) as (t' & R' & d' & TR & IV' & EL).
  - rewrite E. exact G.
  - rewrite (inv_count _ _ _ _ _ IV), CS0. exact B.
  - rewrite E, app_length. cbn [length]. destruct ls; [congruence|cbn [length]; lia].
  - rewrite E in EL. apply app_inj_tail in EL. destruct EL as [EL <-].
    exists t'. split.
    + rewrite TR. f_equal. f_equal.
      pose proof (canon_size _ (inv_ne _ _ _ _ _ IV') (inv_perf _ _ _ _ _ IV') (inv_incr _ _ _ _ _ IV')) as CS1.
      rewrite (inv_count _ _ _ _ _ IV), (inv_count _ _ _ _ _ IV'), CS0, CS1, <- EL. reflexivity.
    + exists R'. split; [exact IV'|symmetry; exact EL].
Qed.

End G.

(** * The fully loaded tree *)
Definition repr := reprG (stored_at H v).

(** leaves of one chain within the overflow guard, array length within u32 *)
Definition good (ls : list data) : Prop :=
  (exists b h0, seg_ok b h0 ls) /\ mmr_size (length ls) <= u32_max.


Lemma full_spine t ls : repr t ls -> reprS (stored_at H v) t ls.
Proof.
  intros (R & IV & E). exists R. split; [exact IV|]. split; [|exact E].
  unfold last_spine. pose proof (inv_peaks _ _ _ _ _ IV) as PK. pose proof (inv_ne _ _ _ _ _ IV) as NE.
  destruct R as [|[h T] rest]; [congruence|]. cbn [trs map snd rpeaks_at] in *. destruct PK as [S _].
  apply stored_spine. exact S.
Qed.

Theorem new_leaf_repr d :
  exists t, tree_new H oc v 1 [(0, mkEntry Leaf d)] [] = Ok t /\ repr t [d].
Proof.
  eexists. split; [reflexivity|]. exists [(O, BL d)]. split; [|reflexivity].
  constructor; cbn; auto; try discriminate; try (split; [lia|exact Logic.I]).
  all: try (constructor; [exact Logic.I|constructor]).
Qed.

Theorem repr_root t ls b h0 :
  repr t ls -> seg_ok b h0 ls ->
  exists en, root_node t = Ok en /\ mmr_root H v ls = Some (e_data en) /\
             t_count t = mmr_size (length ls).
Proof. apply repr_rootG. apply stored_ok. Qed.

Theorem append_root t ls d b h0 :
  repr t ls -> seg_ok b h0 (ls ++ [d]) -> mmr_size (length (ls ++ [d])) <= u32_max ->
  exists t',
    append_leaf H oc v t d
    = Ok (t', map (fun i => Stored (t_count t + Z.of_nat i))
                  (seq 0 (Z.to_nat (mmr_size (length (ls ++ [d])) - mmr_size (length ls))))) /\
    repr t' (ls ++ [d]).
Proof.
  intros RP G B. destruct (append_rootG _ (stored_ok H v) t ls d b h0 RP G B) as (t' & A & R').
  exists t'. split; [exact A|]. apply reprS_reprG. exact R'.
Qed.

Theorem truncate_root t ls d b h0 :
  repr t (ls ++ [d]) -> ls <> [] -> seg_ok b h0 (ls ++ [d]) -> mmr_size (length (ls ++ [d])) <= u32_max ->
  exists t',
    truncate_leaf H oc v t = Ok (t', mmr_size (length (ls ++ [d])) - mmr_size (length ls)) /\
    repr t' ls.
Proof. intros RP. apply (truncate_rootG _ (stored_ok H v)). apply full_spine. exact RP. Qed.

(** Any sequence of appends and truncations. *)
Fixpoint run (t : tree) (ops : list op) : tres tree :=
  match ops with
  | [] => Ok t
  | OpAppend d :: r => tbind (append_leaf H oc v t d) (fun p => run (fst p) r)
  | OpTruncate :: r => tbind (truncate_leaf H oc v t) (fun p => run (fst p) r)
  end.

(** every intermediate list of leaves is a good chain; the last leaf is never removed *)
Fixpoint ops_ok (ls : list data) (ops : list op) : Prop :=
  match ops with
  | [] => True
  | OpAppend d :: r => good (ls ++ [d]) /\ ops_ok (ls ++ [d]) r
  | OpTruncate :: r => (1 < length ls)%nat /\ good (removelast ls) /\ ops_ok (removelast ls) r
  end.

Theorem ops_root : forall ops t ls,
  repr t ls -> good ls -> ops_ok ls ops ->
  exists t' en, run t ops = Ok t' /\ repr t' (fold_left apply_op ops ls) /\
    root_node t' = Ok en /\ mmr_root H v (fold_left apply_op ops ls) = Some (e_data en) /\
    t_count t' = mmr_size (length (fold_left apply_op ops ls)).
Proof.
  induction ops as [|o ops IH]; intros t ls RP GD OK.
  - destruct GD as [(b & h0 & G) _]. destruct (repr_root t ls b h0 RP G) as (en & A & B & C).
    exists t, en. cbn [run fold_left]. auto.
  - destruct o as [d|]; cbn [ops_ok] in OK; destruct OK as [O1 O2]; cbn [run fold_left apply_op].
    + destruct O1 as [(b & h0 & G) B].
      destruct (append_root t ls d b h0 RP G B) as (t' & AP & RP').
      rewrite AP. cbn [tbind fst]. apply IH; auto. split; [exists b, h0; exact G|exact B].
    + destruct O2 as [GD' O2]. destruct GD as [(b & h0 & G) B].
      destruct (@exists_last _ ls) as (ls' & d & E); [destruct ls; [cbn in O1; lia|discriminate]|].
      subst ls. rewrite removelast_last in *.
      assert (NE : ls' <> []) by (destruct ls'; [cbn in O1; lia|discriminate]).
      destruct (truncate_root t ls' d b h0 RP NE G B) as (t' & TR & RP').
      rewrite TR. cbn [tbind fst]. apply IH; auto.
Qed.

(** Appending a leaf and truncating restores the root record and the length. *)
Theorem append_then_truncate t ls d b h0 :
  repr t ls -> ls <> [] -> seg_ok b h0 (ls ++ [d]) -> mmr_size (length (ls ++ [d])) <= u32_max ->
  exists t1 links t2 cnt en en2,
    append_leaf H oc v t d = Ok (t1, links) /\ truncate_leaf H oc v t1 = Ok (t2, cnt) /\
    root_node t = Ok en /\ root_node t2 = Ok en2 /\ e_data en2 = e_data en /\
    t_count t2 = t_count t /\ cnt = Z.of_nat (length links) /\ repr t2 ls.
Proof.
  intros RP NE G B.
  destruct (append_root t ls d b h0 RP G B) as (t1 & AP & RP1).
  destruct (truncate_root t1 ls d b h0 RP1 NE G B) as (t2 & TR & RP2).
  destruct (seg_ok_app _ _ _ _ G) as [G0 _].
  destruct (repr_root t ls b h0 RP G0) as (en & R0 & M0 & C0).
  destruct (repr_root t2 ls b h0 RP2 G0) as (en2 & R2 & M2 & C2).
  do 6 eexists. split; [exact AP|]. split; [exact TR|]. split; [exact R0|]. split; [exact R2|].
  split; [congruence|]. split; [lia|]. split; [|exact RP2].
  rewrite map_length, seq_length.
  destruct (repr_root t1 (ls ++ [d]) b h0 RP1 G) as (_ & _ & _ & C1).
  destruct RP1 as (R1 & IV1 & _). destruct RP2 as (R2' & IV2 & _).
  (* the truncation count is the positive difference of the array lengths *)
  assert (t_count t2 <= t_count t1).
  { rewrite C2, C1. rewrite <- C0.
    destruct RP as (R & IV & E). pose proof (merge_R_total 0 (BL d) R) as MT.
    destruct (merge_R_props 0 (BL d) R (inv_perf _ _ _ _ _ IV) (inv_incr _ _ _ _ _ IV) Logic.I) as (NE' & P' & I').
    pose proof (canon_size _ NE' P' I') as CS. rewrite merge_R_leaves, E in CS. cbn [bt_leaves] in CS.
    rewrite <- CS, MT, (inv_count _ _ _ _ _ IV). cbn [bt_size]. lia. }
  rewrite Z2Nat.id by lia. reflexivity.
Qed.

End Top.
