(** C20 — the subtree-commitment hash instantiated with the Gallina BLAKE2b of V.Lib.Blake2b:
    BLAKE2b-256 personalised with "ZcashHistory" || branch id (little endian), over
    serialised left || serialised right.  Used by the thorough tier only: every (branch,
    pre-image, digest) triple a case carries — the digests the implementation stored in its
    nodes, which the model and the specification are run with — is recomputed inside Coq. *)
From Coq Require Import String.
From V.Lib Require Import Base MachInt Hex Blake2b.
From V.C20 Require Import Model Spec Corr.
Local Open Scope Z_scope.

Definition H_real (bid : Z) (pre : list Z) : list Z :=
  map Z.of_N (blake2b_256 (str "ZcashHistory"%string ++ bytes_of_le 4 (Z.to_N bid)) (map Z.to_N pre)).

Definition tbl_real_ok (tbl : list hent) : bool :=
  forallb (fun e => match e with (bid, pre, dg) => lz_eqb (H_real bid pre) dg end) tbl.

(** the case's hash table is the real hash *)
Definition hashes_real (c : case) : bool :=
  match c with
  | CCombine _ _ tbl _ _ _ => tbl_real_ok tbl
  | CTree _ _ _ tbl _ _ _ _ _ _ _ => tbl_real_ok tbl
  | _ => true
  end.

(** the model run directly with the real hash (no table) *)
Definition run_case_real (c : case) : bool :=
  match c with
  | CCombine v oc _ l r o => outcome_eqb (data_eqb true) unit_eqb (combine H_real oc v l r) o
  | CTree v oc true _ _ length peaks extra n ops obs => run_tree H_real oc true v length peaks extra n ops obs
  | _ => true
  end.
