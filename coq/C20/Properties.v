(** C20 — property theorems only (each closed by [exact] of a lemma proved elsewhere).
    [H] is the subtree-commitment hash (arbitrary function), [oc] the overflow-check flag of the
    build, [v] the node-data version (V1, V2, V3).  [repr H v t ls]: the tree [t] holds exactly the
    leaves [ls] (canonical array layout, root link denoting the bagged peaks).  Guards, all
    visible: [seg_ok b h0 ls] = leaves of one chain (branch [b], heights [h0, h0+1, ...], start =
    end) whose per-pool transaction totals fit u64 and whose total work fits U256 (the explicit
    overflow guard), and [mmr_size n <= u32_max] (array indices are u32). *)
From V.Lib Require Import Base MachInt.
From V.C20 Require Import Model Spec ProofsData ProofsArith ProofsStore ProofsAppend ProofsSpec
  ProofsTruncate Corr Wf ProofsTop ProofsCodec ProofsView ProofsNew BridgeCodec BridgeTree BridgeView.
Local Open Scope Z_scope.

(** Field rules of [Version::combine] for V1/V2/V3. *)
Theorem C20_combine_fields : forall H oc v l r d,
  combine H oc v l r = Ok d ->
  d_branch l = d_branch r /\
  d_branch d = d_branch l /\
  d_commit d = H (d_branch l) (write_node v l ++ write_node v r) /\
  d_stime d = d_stime l /\ d_etime d = d_etime r /\
  d_starget d = d_starget l /\ d_etarget d = d_etarget r /\
  d_ssap d = d_ssap l /\ d_esap d = d_esap r /\
  d_sh d = d_sh l /\ d_eh d = d_eh r /\
  (has_orchard v = true -> d_sorch d = d_sorch l /\ d_eorch d = d_eorch r) /\
  (has_ironwood v = true -> d_siron d = d_siron l /\ d_eiron d = d_eiron r) /\
  d_work d = d_work l + d_work r /\
  (oc = true -> d_saptx d = d_saptx l + d_saptx r /\
                (has_orchard v = true -> d_orchtx d = d_orchtx l + d_orchtx r) /\
                (has_ironwood v = true -> d_irontx d = d_irontx l + d_irontx r)).
Proof. exact combine_fields. Qed.

(** Inside the guard the implementation's combine is the specified rule and cannot panic. *)
Theorem C20_combine_is_spec : forall H oc v l r,
  d_branch l = d_branch r -> fits (combine_spec H v l r) -> combine H oc v l r = Ok (combine_spec H v l r).
Proof. exact combine_ok. Qed.

(** The overflow guard is necessary (known finding C20-combine-overflow). *)
Theorem C20_combine_overflow_counter_refuted : forall H,
  combine H true V1 (leafd 1 10 u64_max 0) (leafd 1 11 1 0) = Panic.
Proof. intros H. exact (combine_overflow_counter_panics H true eq_refl). Qed.
Theorem C20_combine_overflow_work_refuted : forall H oc,
  combine H oc V1 (leafd 1 10 0 u256_max) (leafd 1 11 0 1) = Panic.
Proof. exact combine_overflow_work_panics. Qed.

(** [Tree::new(1, [(0, leaf d)], [])] represents [[d]]. *)
Theorem C20_new_leaf : forall H oc v d,
  exists t, tree_new H oc v 1 [(0, mkEntry Leaf d)] [] = Ok t /\ repr H v t [d].
Proof. exact new_leaf_repr. Qed.

(** The root record and the length of a represented tree are those of the from-scratch rebuild. *)
Theorem C20_repr_root : forall H v t ls b h0,
  repr H v t ls -> seg_ok b h0 ls ->
  exists en, root_node t = Ok en /\ mmr_root H v ls = Some (e_data en) /\
             t_count t = mmr_size (length ls).
Proof. exact repr_root. Qed.

(** [append_leaf] succeeds, returns exactly the new array slots, and represents [ls ++ [d]]. *)
Theorem C20_append_root : forall H oc v t ls d b h0,
  repr H v t ls -> seg_ok b h0 (ls ++ [d]) -> mmr_size (length (ls ++ [d])) <= u32_max ->
  exists t',
    append_leaf H oc v t d
    = Ok (t', map (fun i => Stored (t_count t + Z.of_nat i))
                  (seq 0 (Z.to_nat (mmr_size (length (ls ++ [d])) - mmr_size (length ls))))) /\
    repr H v t' (ls ++ [d]).
Proof. exact append_root. Qed.

(** [truncate_leaf] succeeds, returns the number of removed slots, and represents [ls]. *)
Theorem C20_truncate_root : forall H oc v t ls d b h0,
  repr H v t (ls ++ [d]) -> ls <> [] -> seg_ok b h0 (ls ++ [d]) ->
  mmr_size (length (ls ++ [d])) <= u32_max ->
  exists t',
    truncate_leaf H oc v t = Ok (t', mmr_size (length (ls ++ [d])) - mmr_size (length ls)) /\
    repr H v t' ls.
Proof. exact truncate_root. Qed.

(** Every sequence of appends and truncations (all intermediate leaf lists inside the guards,
    never removing the only leaf) succeeds, and the final root record and length equal the
    from-scratch recomputation over the final leaves. *)
Theorem C20_ops_root : forall H oc v ops t ls,
  repr H v t ls -> good ls -> ops_ok ls ops ->
  exists t' en, run H oc v t ops = Ok t' /\ repr H v t' (fold_left apply_op ops ls) /\
    root_node t' = Ok en /\ mmr_root H v (fold_left apply_op ops ls) = Some (e_data en) /\
    t_count t' = mmr_size (length (fold_left apply_op ops ls)).
Proof. exact ops_root. Qed.

(** Appending a leaf and then truncating restores the root record and the length; the number
    of removed slots equals the number of appended links. *)
Theorem C20_append_then_truncate : forall H oc v t ls d b h0,
  repr H v t ls -> ls <> [] -> seg_ok b h0 (ls ++ [d]) -> mmr_size (length (ls ++ [d])) <= u32_max ->
  exists t1 links t2 cnt en en2,
    append_leaf H oc v t d = Ok (t1, links) /\ truncate_leaf H oc v t1 = Ok (t2, cnt) /\
    root_node t = Ok en /\ root_node t2 = Ok en2 /\ e_data en2 = e_data en /\
    t_count t2 = t_count t /\ cnt = Z.of_nat (length links) /\ repr H v t2 ls.
Proof. exact append_then_truncate. Qed.

(** CompactSize over the whole u64 range (no 0x02000000 bound): round trip and canonicity. *)
Theorem C20_compactsize_roundtrip : forall x rest,
  0 <= x <= u64_max -> read_cs (write_cs x ++ rest) = Ok (x, rest).
Proof. exact cs_roundtrip. Qed.
Theorem C20_compactsize_canonical : forall b x rest,
  bytesP b -> read_cs b = Ok (x, rest) -> b = write_cs x ++ rest /\ 0 <= x <= u64_max /\ bytesP rest.
Proof. exact cs_canonical. Qed.

(** Node records of V1/V2/V3 serialise and parse back unchanged, counters up to 2^64-1. *)
Theorem C20_node_roundtrip : forall v d rest,
  wf_data v d -> height_span (d_sh d) (d_eh d) <> None ->
  read_node v (d_branch d) (write_node v d ++ rest) = Ok (d, rest).
Proof. exact node_roundtrip. Qed.
(** A descending height range is rejected when parsing (V1 layer, shared by V2/V3). *)
Theorem C20_node_descending_rejected : forall d rest,
  wf_data V1 d -> height_span (d_sh d) (d_eh d) = None ->
  read_v1 (d_branch d) (write_v1 d ++ rest) = Err InvalidData.
Proof. exact node_descending_rejected. Qed.
Theorem C20_entry_roundtrip : forall v e w rest,
  wf_data v (e_data e) -> height_span (d_sh (e_data e)) (d_eh (e_data e)) <> None ->
  (match e_kind e with Node (Stored l) (Stored r) => 0 <= l <= u32_max /\ 0 <= r <= u32_max | _ => True end) ->
  write_entry v e = Ok w ->
  read_entry v (d_branch (e_data e)) (w ++ rest) = Ok (e, rest).
Proof. exact entry_roundtrip. Qed.

(** Whole-record canonicity: whatever a node / entry parser accepts is exactly the serialisation
    of the record it returns (plus the unread rest); the record is well-typed with an ascending
    height range.  The parsers never panic. *)
Theorem C20_node_canonical : forall v br b d rest, 0 <= br <= u32_max -> bytesP b ->
  read_node v br b = Ok (d, rest) ->
  b = write_node v d ++ rest /\ wf_data v d /\ d_branch d = br /\
  height_span (d_sh d) (d_eh d) <> None /\ bytesP rest.
Proof. exact node_canonical. Qed.
Theorem C20_entry_canonical : forall v br b e rest, 0 <= br <= u32_max -> bytesP b ->
  read_entry v br b = Ok (e, rest) ->
  exists w, write_entry v e = Ok w /\ b = w ++ rest /\ wf_data v (e_data e) /\ bytesP rest.
Proof. exact entry_canonical. Qed.
Theorem C20_read_node_total : forall v br b, read_node v br b <> Panic.
Proof. exact read_node_total. Qed.
Theorem C20_read_entry_total : forall v br b, read_entry v br b <> Panic.
Proof. exact read_entry_total. Qed.

(** Partially loaded views.  [repr_view H v t ls]: [t] holds (at least) the peak roots of the tree
    over [ls]; [repr_view_spine]: and the right spine of the last peak with the left children
    hanging off it.  The fully loaded tree is such a view. *)
Theorem C20_full_is_view : forall H v t ls, repr H v t ls -> repr_view_spine H v t ls.
Proof. exact full_is_view. Qed.
Theorem C20_view_root : forall H v t ls b h0,
  repr_view H v t ls -> seg_ok b h0 ls ->
  exists en, root_node t = Ok en /\ mmr_root H v ls = Some (e_data en) /\
             t_count t = mmr_size (length ls).
Proof. exact view_root. Qed.
(** append on a view: no [ExpectedInMemory], same links; the result also holds what a
    following truncation reads *)
Theorem C20_view_append : forall H oc v t ls d b h0,
  repr_view H v t ls -> seg_ok b h0 (ls ++ [d]) -> mmr_size (length (ls ++ [d])) <= u32_max ->
  exists t',
    append_leaf H oc v t d
    = Ok (t', map (fun i => Stored (t_count t + Z.of_nat i))
                  (seq 0 (Z.to_nat (mmr_size (length (ls ++ [d])) - mmr_size (length ls))))) /\
    repr_view_spine H v t' (ls ++ [d]).
Proof. exact view_append. Qed.
Theorem C20_view_truncate : forall H oc v t ls d b h0,
  repr_view_spine H v t (ls ++ [d]) -> ls <> [] -> seg_ok b h0 (ls ++ [d]) ->
  mmr_size (length (ls ++ [d])) <= u32_max ->
  exists t',
    truncate_leaf H oc v t = Ok (t', mmr_size (length (ls ++ [d])) - mmr_size (length ls)) /\
    repr_view H v t' ls.
Proof. exact view_truncate. Qed.
(** the refinement: same returned value, same root record, same length as the full tree *)
Theorem C20_partial_view_refines_append : forall H oc v tf tv ls d b h0,
  repr H v tf ls -> repr_view H v tv ls -> seg_ok b h0 (ls ++ [d]) ->
  mmr_size (length (ls ++ [d])) <= u32_max ->
  exists tf' tv' links enf env,
    append_leaf H oc v tf d = Ok (tf', links) /\ append_leaf H oc v tv d = Ok (tv', links) /\
    repr H v tf' (ls ++ [d]) /\ repr_view_spine H v tv' (ls ++ [d]) /\
    root_node tf' = Ok enf /\ root_node tv' = Ok env /\ e_data env = e_data enf /\
    t_count tv' = t_count tf'.
Proof. exact partial_view_refines_append. Qed.
Theorem C20_partial_view_refines_truncate : forall H oc v tf tv ls d b h0,
  repr H v tf (ls ++ [d]) -> repr_view_spine H v tv (ls ++ [d]) -> ls <> [] -> seg_ok b h0 (ls ++ [d]) ->
  mmr_size (length (ls ++ [d])) <= u32_max ->
  exists tf' tv' cnt enf env,
    truncate_leaf H oc v tf = Ok (tf', cnt) /\ truncate_leaf H oc v tv = Ok (tv', cnt) /\
    repr H v tf' ls /\ repr_view H v tv' ls /\
    root_node tf' = Ok enf /\ root_node tv' = Ok env /\ e_data env = e_data enf /\
    t_count tv' = t_count tf'.
Proof. exact partial_view_refines_truncate. Qed.
(** [Tree::new(length, peaks, extra)] on the peak roots of an array representation [mf] (peaks
    [R], last first) plus any extra nodes of that array is a view; every supplied index holds the
    array's node. *)
Theorem C20_tree_new_view : forall H oc v (R : list (nat * bt)) extra b h0 mf,
  R <> [] -> perfs R -> incr 0 (hts R) -> seg_ok b h0 (rleaves (trs R)) ->
  rpeaks_at (stored_at H v) mf (trs R) (total (trs R)) -> from_store mf extra ->
  exists t,
    tree_new H oc v (total (trs R)) (rev (rpk H v (trs R) (total (trs R)))) extra = Ok t /\
    inv H v (root_at H v) t R /\
    (forall i, In i (map fst (rpk H v (trs R) (total (trs R))) ++ map fst extra) ->
               lookup i (t_stored t) = lookup i mf).
Proof. exact tree_new_inv. Qed.

(** Bridge between correspondence and property: on a well-typed case outside the known-finding
    class, agreement of the implementation with the model ([run_case]) implies the verdict of the
    property checker.  Domain: every codec and combine case, every full-tree history
    ([Tree::new] on one leaf, then any appends / truncations) ([bridge_dom]), and the partial-view
    cases that carry their hash table and truncate only where the right spine of the last peak is
    known to be loaded — supplied to [Tree::new], created by a preceding append, or a single leaf
    ([view_dom]).  [prop_main] is [prop_case] without the harness-side commitment flag [hok]
    (for codec and combine cases they coincide: [C20_bridge_codec] concludes [prop_case]).
    The remaining view cases (no hash table, or a truncation on an under-provisioned view) are
    evaluated by [prop_case] only. *)
Theorem C20_agree_implies_property : forall c,
  bridge_dom c || view_dom c = true -> wf_case c = true -> known_class c = 0%N -> run_case c = true ->
  prop_main c = true.
Proof. exact agree_implies_property_all. Qed.
(** a view accepted by the checker's [view_ok] loads into a tree satisfying the view invariant
    over the canonical peaks [build ls] *)
Theorem C20_view_ok_new : forall H oc v ls length peaks extra ops b h0,
  ls <> [] -> seg_ok b h0 ls ->
  view_ok H true v ls length peaks extra ops = true ->
  exists t,
    tree_new H oc v length peaks extra = Ok t /\ inv H v (root_at H v) t (build ls) /\
    (forall i, In i (map fst (peaks ++ extra)) -> lookup i (t_stored t) = lookup i (mmr_array H v ls)).
Proof. exact view_ok_new. Qed.
Theorem C20_bridge_codec : forall c,
  codec_case c = true -> wf_case c = true -> known_class c = 0%N -> run_case c = true ->
  prop_case c = true.
Proof. exact bridge_codec. Qed.

(** Non-vacuity: the guards are satisfiable, including at extreme counters and heights. *)
Example C20_nonvacuous :
  seg_ok 7 (u64_max - 1) [leafd 7 (u64_max - 1) (u64_max - 5) (u256_max - 9); leafd 7 u64_max 5 9] /\
  good [leafd 7 (u64_max - 1) (u64_max - 5) (u256_max - 9); leafd 7 u64_max 5 9].
Proof.
  assert (S : seg_ok 7 (u64_max - 1) [leafd 7 (u64_max - 1) (u64_max - 5) (u256_max - 9); leafd 7 u64_max 5 9]).
  { unfold seg_ok, zfits, nnd, zsum. cbn. repeat split; try (repeat constructor; cbn; lia); try (cbv; congruence). }
  split; [exact S|]. split; [exists 7, (u64_max - 1); exact S|]. vm_compute. congruence.
Qed.
