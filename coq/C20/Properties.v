(** C20 — property theorems only (each closed by [exact] of a lemma proved elsewhere).
    [H] is the subtree-commitment hash (arbitrary function), [oc] the overflow-check flag of the
    build, [v] the node-data version (V1, V2, V3).  [repr H v t ls]: the tree [t] holds exactly the
    leaves [ls] (canonical array layout, root link denoting the bagged peaks).  Guards, all
    visible: [seg_ok b h0 ls] = leaves of one chain (branch [b], heights [h0, h0+1, ...], start =
    end) whose per-pool transaction totals fit u64 and whose total work fits U256 (the explicit
    overflow guard), and [mmr_size n <= u32_max] (array indices are u32). *)
From V.Lib Require Import Base MachInt.
From V.C20 Require Import Model Spec ProofsData ProofsArith ProofsStore ProofsAppend ProofsSpec
  ProofsTruncate Corr ProofsTop ProofsCodec.
Local Open Scope Z_scope.

(** Field rules of [Version::combine] for V1/V2/V3. *)
Theorem C20_combine_fields : forall H oc v l r d,
  combine H oc v l r = Ok d ->
  d_branch l = d_branch r /\
  d_branch d = d_branch l /\
  d_commit d = H (d_branch l) (write_node v l ++ write_node v r) /\
  d_stime d = d_stime l /\ d_etime d = d_etime r /\
  d_starget d = d_starget l /\ d_etarget d = d_etarget r /\
  d_ssap d = d_ssap l /\ d_esap d = d_esap r /\
  d_sh d = d_sh l /\ d_eh d = d_eh r /\
  (has_orchard v = true -> d_sorch d = d_sorch l /\ d_eorch d = d_eorch r) /\
  (has_ironwood v = true -> d_siron d = d_siron l /\ d_eiron d = d_eiron r) /\
  d_work d = d_work l + d_work r /\
  (oc = true -> d_saptx d = d_saptx l + d_saptx r /\
                (has_orchard v = true -> d_orchtx d = d_orchtx l + d_orchtx r) /\
                (has_ironwood v = true -> d_irontx d = d_irontx l + d_irontx r)).
Proof. exact combine_fields. Qed.

(** Inside the guard the implementation's combine is the specified rule and cannot panic. *)
Theorem C20_combine_is_spec : forall H oc v l r,
  d_branch l = d_branch r -> fits (combine_spec H v l r) -> combine H oc v l r = Ok (combine_spec H v l r).
Proof. exact combine_ok. Qed.

(** The overflow guard is necessary (known finding C20-combine-overflow). *)
Theorem C20_combine_overflow_counter_refuted : forall H,
  combine H true V1 (leafd 1 10 u64_max 0) (leafd 1 11 1 0) = Panic.
Proof. intros H. exact (combine_overflow_counter_panics H true eq_refl). Qed.
Theorem C20_combine_overflow_work_refuted : forall H oc,
  combine H oc V1 (leafd 1 10 0 u256_max) (leafd 1 11 0 1) = Panic.
Proof. exact combine_overflow_work_panics. Qed.

(** [Tree::new(1, [(0, leaf d)], [])] represents [[d]]. *)
Theorem C20_new_leaf : forall H oc v d,
  exists t, tree_new H oc v 1 [(0, mkEntry Leaf d)] [] = Ok t /\ repr H v t [d].
Proof. exact new_leaf_repr. Qed.

(** The root record and the length of a represented tree are those of the from-scratch rebuild. *)
Theorem C20_repr_root : forall H v t ls b h0,
  repr H v t ls -> seg_ok b h0 ls ->
  exists en, root_node t = Ok en /\ mmr_root H v ls = Some (e_data en) /\
             t_count t = mmr_size (length ls).
Proof. exact repr_root. Qed.

(** [append_leaf] succeeds, returns exactly the new array slots, and represents [ls ++ [d]]. *)
Theorem C20_append_root : forall H oc v t ls d b h0,
  repr H v t ls -> seg_ok b h0 (ls ++ [d]) -> mmr_size (length (ls ++ [d])) <= u32_max ->
  exists t',
    append_leaf H oc v t d
    = Ok (t', map (fun i => Stored (t_count t + Z.of_nat i))
                  (seq 0 (Z.to_nat (mmr_size (length (ls ++ [d])) - mmr_size (length ls))))) /\
    repr H v t' (ls ++ [d]).
Proof. exact append_root. Qed.

(** [truncate_leaf] succeeds, returns the number of removed slots, and represents [ls]. *)
Theorem C20_truncate_root : forall H oc v t ls d b h0,
  repr H v t (ls ++ [d]) -> ls <> [] -> seg_ok b h0 (ls ++ [d]) ->
  mmr_size (length (ls ++ [d])) <= u32_max ->
  exists t',
    truncate_leaf H oc v t = Ok (t', mmr_size (length (ls ++ [d])) - mmr_size (length ls)) /\
    repr H v t' ls.
Proof. exact truncate_root. Qed.

(** Every sequence of appends and truncations (all intermediate leaf lists inside the guards,
    never removing the only leaf) succeeds, and the final root record and length equal the
    from-scratch recomputation over the final leaves. *)
Theorem C20_ops_root : forall H oc v ops t ls,
  repr H v t ls -> good ls -> ops_ok ls ops ->
  exists t' en, run H oc v t ops = Ok t' /\ repr H v t' (fold_left apply_op ops ls) /\
    root_node t' = Ok en /\ mmr_root H v (fold_left apply_op ops ls) = Some (e_data en) /\
    t_count t' = mmr_size (length (fold_left apply_op ops ls)).
Proof. exact ops_root. Qed.

(** Appending a leaf and then truncating restores the root record and the length; the number
    of removed slots equals the number of appended links. *)
Theorem C20_append_then_truncate : forall H oc v t ls d b h0,
  repr H v t ls -> ls <> [] -> seg_ok b h0 (ls ++ [d]) -> mmr_size (length (ls ++ [d])) <= u32_max ->
  exists t1 links t2 cnt en en2,
    append_leaf H oc v t d = Ok (t1, links) /\ truncate_leaf H oc v t1 = Ok (t2, cnt) /\
    root_node t = Ok en /\ root_node t2 = Ok en2 /\ e_data en2 = e_data en /\
    t_count t2 = t_count t /\ cnt = Z.of_nat (length links) /\ repr H v t2 ls.
Proof. exact append_then_truncate. Qed.

(** CompactSize over the whole u64 range (no 0x02000000 bound): round trip and canonicity. *)
Theorem C20_compactsize_roundtrip : forall x rest,
  0 <= x <= u64_max -> read_cs (write_cs x ++ rest) = Ok (x, rest).
Proof. exact cs_roundtrip. Qed.
Theorem C20_compactsize_canonical : forall b x rest,
  bytesP b -> read_cs b = Ok (x, rest) -> b = write_cs x ++ rest /\ 0 <= x <= u64_max /\ bytesP rest.
Proof. exact cs_canonical. Qed.

(** Node records of V1/V2/V3 serialise and parse back unchanged, counters up to 2^64-1. *)
Theorem C20_node_roundtrip : forall v d rest,
  wf_data v d -> height_span (d_sh d) (d_eh d) <> None ->
  read_node v (d_branch d) (write_node v d ++ rest) = Ok (d, rest).
Proof. exact node_roundtrip. Qed.
(** A descending height range is rejected when parsing (V1 layer, shared by V2/V3). *)
Theorem C20_node_descending_rejected : forall d rest,
  wf_data V1 d -> height_span (d_sh d) (d_eh d) = None ->
  read_v1 (d_branch d) (write_v1 d ++ rest) = Err InvalidData.
Proof. exact node_descending_rejected. Qed.
Theorem C20_entry_roundtrip : forall v e w rest,
  wf_data v (e_data e) -> height_span (d_sh (e_data e)) (d_eh (e_data e)) <> None ->
  (match e_kind e with Node (Stored l) (Stored r) => 0 <= l <= u32_max /\ 0 <= r <= u32_max | _ => True end) ->
  write_entry v e = Ok w ->
  read_entry v (d_branch (e_data e)) (w ++ rest) = Ok (e, rest).
Proof. exact entry_roundtrip. Qed.

(** Non-vacuity: the guards are satisfiable, including at extreme counters and heights. *)
Example C20_nonvacuous :
  seg_ok 7 (u64_max - 1) [leafd 7 (u64_max - 1) (u64_max - 5) (u256_max - 9); leafd 7 u64_max 5 9] /\
  good [leafd 7 (u64_max - 1) (u64_max - 5) (u256_max - 9); leafd 7 u64_max 5 9].
Proof.
  assert (S : seg_ok 7 (u64_max - 1) [leafd 7 (u64_max - 1) (u64_max - 5) (u256_max - 9); leafd 7 u64_max 5 9]).
  { unfold seg_ok, zfits, nnd, zsum. cbn. repeat split; try (repeat constructor; cbn; lia); try (cbv; congruence). }
  split; [exact S|]. split; [exists 7, (u64_max - 1); exact S|]. vm_compute. congruence.
Qed.
