(** C20 — [Tree::new(length, peaks, extra)]: loading a view from the array representation. *)
From V.Lib Require Import Base MachInt.
From V.C20 Require Import Model Spec ProofsData ProofsArith ProofsStore ProofsAppend ProofsSpec ProofsTruncate Corr ProofsTop ProofsView.
From Coq Require Import ZifyBool.
Local Open Scope Z_scope.

Section New.
Variable H : Z -> list Z -> list Z.
Variable oc : bool.
Variable v : ver.
Notation cspec := (combine_spec H v).
Notation bdata := (bt_data H v).
Notation root_at := (root_at H v).
Notation stored_at := (stored_at H v).
Notation rbag_den := (rbag_den H v).
Notation rbagd := (rbagd H v).

(** the array entry of the root of [T] placed at offset [o] *)
Definition centry (o : Z) (T : bt) : entry := mkEntry (bt_kind o T) (bdata T).

(** (index, entry) of the peak roots, last peak first *)
Fixpoint rpk (R : list bt) (e : Z) : list (Z * entry) :=
  match R with
  | [] => []
  | T :: rest => (e - 1, centry (e - bt_size T) T) :: rpk rest (e - bt_size T)
  end.

Lemma rpk_app A B e : rpk (A ++ B) e = rpk A e ++ rpk B (e - total A).
Proof.
  revert e. induction A as [|T A IH]; intros e; cbn [app rpk total].
  - f_equal. lia.
  - rewrite IH. do 3 f_equal. lia.
Qed.

Definition ins (m : list (Z * entry)) (p : Z * entry) := insert (fst p) (snd p) m.

Lemma new_peaks_ok : forall Rrem Rdone e t lk b h0,
  Rdone <> [] -> rpeaks_at root_at (t_stored t) Rdone (e - total Rrem) ->
  rbag_den (t_gen t) Rdone (e - total Rrem) lk ->
  seg_ok b h0 (rleaves (Rrem ++ Rdone)) ->
  exists t' lk',
    new_peaks H oc v t lk false (rev (rpk Rrem e)) = Ok (t', lk') /\
    rpeaks_at root_at (t_stored t') (Rrem ++ Rdone) e /\
    rbag_den (t_gen t') (Rrem ++ Rdone) e lk' /\
    t_count t' = t_count t /\ t_root t' = t_root t /\
    t_stored t' = fold_left ins (rev (rpk Rrem e)) (t_stored t).
Proof.
  induction Rrem as [|X A IH] using rev_ind; intros Rdone e t lk b h0 NE PK BD G.
  - cbn [rpk rev new_peaks app total fold_left] in *. exists t, lk.
    replace (e - 0) with e in * by lia. repeat split; auto.
  - rewrite <- app_assoc in *. cbn [app] in *.
    rewrite rpk_app. cbn [rpk]. rewrite rev_app_distr. cbn [rev app].
    rewrite total_app in *. cbn [total] in *.
    replace (e - (total A + (bt_size X + 0))) with (e - total A - bt_size X) in * by lia.
    rewrite rleaves_app in G. destruct (seg_ok_app _ _ _ _ G) as [GXD _].
    cbn [new_peaks].
    set (ent := centry (e - total A - bt_size X) X).
    set (t1 := mkTree (insert (e - total A - 1) ent (t_stored t)) (t_gen t) (t_count t) (t_root t)).
    pose proof (bt_size_pos X) as SX.
    assert (PK1 : rpeaks_at root_at (t_stored t1) Rdone (e - total A - bt_size X)).
    { eapply (rpeaks_at_ext H v root_at (ProofsStore.root_ok H v)); [|exact PK].
      intros i Hi. unfold t1. cbn [t_stored]. rewrite lookup_insert.
      destruct (e - total A - 1 =? i) eqn:Q; [lia|reflexivity]. }
    destruct (resolve_bag H v root_at (ProofsStore.root_ok H v) t1 Rdone (e - total A - bt_size X) lk) as (en & Res & ED & _); auto.
    rewrite Res. cbn [tbind].
    assert (RX : resolve_link t1 (Stored (e - total A - 1)) = Ok ent).
    { apply resolve_stored. unfold t1. cbn [t_stored]. rewrite lookup_insert, Z.eqb_refl. reflexivity. }
    rewrite RX. cbn [tbind].
    assert (NEX : X :: Rdone <> []) by discriminate.
    pose proof (rbagd_facts H v (X :: Rdone) b h0 NEX GXD) as (_ & _ & _ & FX & _).
    cbn [rleaves] in GXD. destruct (seg_ok_app _ _ _ _ GXD) as [GD GX].
    pose proof (rbagd_facts H v Rdone b h0 NE GD) as (BrD & _).
    pose proof (bdata_facts H v X b _ GX) as (BrX & _).
    assert (RB : rbagd (X :: Rdone) = cspec (rbagd Rdone) (bdata X)).
    { destruct Rdone; [congruence|reflexivity]. }
    unfold combine_nodes. rewrite ED. unfold ent at 1. cbn [e_data centry].
    rewrite (combine_ok H oc v (rbagd Rdone) (bdata X)); [|congruence|rewrite <- RB; exact FX].
    cbn [of_unit tbind push_generated].
    set (g := mkEntry (Node lk (Stored (e - total A - 1))) (cspec (rbagd Rdone) (bdata X))).
    set (t2 := mkTree (t_stored t1) (t_gen t1 ++ [g]) (t_count t1) (t_root t1)).
    destruct (IH (X :: Rdone) e t2 (Generated (Z.of_nat (length (t_gen t1)))) b h0) as (t' & lk' & NP & PK' & D' & C' & R' & S'); auto.
    + cbn [rpeaks_at t2 t_stored]. split; [|exact PK1].
      unfold ProofsStore.root_at. unfold t1. cbn [t_stored]. rewrite lookup_insert.
      replace (e - total A - 1 =? e - total A - bt_size X + bt_size X - 1) with true by lia. reflexivity.
    + unfold t2. cbn [t_gen ProofsStore.rbag_den]. destruct Rdone as [|Y Rd]; [congruence|].
      exists (Z.of_nat (length (t_gen t1))), lk. split; [reflexivity|]. split; [lia|]. split.
      * rewrite Nat2Z.id, nth_error_app2, Nat.sub_diag by lia. cbn [nth_error]. unfold g. rewrite RB. reflexivity.
      * apply rbag_den_mono. exact BD.
    + rewrite rleaves_app. exact G.
    + exists t', lk'. split; [exact NP|]. split; [exact PK'|]. split; [exact D'|].
      split; [rewrite C'; reflexivity|]. split; [rewrite R'; reflexivity|].
      rewrite S'. cbn [fold_left]. reflexivity.
Qed.

(** inserting entries that all come from one reference store *)
Definition from_store (mf : list (Z * entry)) (l : list (Z * entry)) : Prop :=
  forall i x, In (i, x) l -> lookup i mf = Some x.

Lemma fold_ins_agree mf l : from_store mf l -> forall m i,
  (lookup i m = None \/ lookup i m = lookup i mf) ->
  (In i (map fst l) \/ lookup i m <> None) ->
  lookup i (fold_left ins l m) = lookup i mf.
Proof.
  induction l as [|[k x] l IH]; intros FS m i A P; cbn [fold_left].
  - destruct P as [[]|P]. destruct A; congruence.
  - assert (FS' : from_store mf l) by (intros j y IN; apply FS; right; exact IN).
    apply IH; auto; unfold ins; cbn [fst snd]; rewrite lookup_insert; destruct (k =? i) eqn:Q.
    + right. assert (k = i) by lia. subst. symmetry. apply FS. left. reflexivity.
    + exact A.
    + right. discriminate.
    + cbn [map fst] in P. destruct P as [[E|P]|P]; [lia|left; exact P|right; exact P].
Qed.

Lemma fold_ins_sub mf l : from_store mf l -> forall m,
  (forall i, lookup i m = None \/ lookup i m = lookup i mf) ->
  forall i, lookup i (fold_left ins l m) = None \/ lookup i (fold_left ins l m) = lookup i mf.
Proof.
  induction l as [|[k x] l IH]; intros FS m A; cbn [fold_left]; [exact A|].
  apply IH; [intros j y IN; apply FS; right; exact IN|].
  intros i. unfold ins. cbn [fst snd]. rewrite lookup_insert. destruct (k =? i) eqn:Q; [|apply A].
  right. assert (k = i) by lia. subst. symmetry. apply FS. left. reflexivity.
Qed.

Lemma rpk_from_store mf R : forall e, rpeaks_at stored_at mf R e -> from_store mf (rpk R e).
Proof.
  induction R as [|T R IH]; intros e; cbn [rpeaks_at rpk]; [intros _ i x []|].
  intros [S PK] i x [E|IN].
  - inversion E; subst. apply stored_root in S. replace (e - bt_size T + bt_size T - 1) with (e - 1) in S by lia. exact S.
  - eapply IH; eauto.
Qed.

Lemma rpeaks_root_transfer mf m R : forall e,
  rpeaks_at stored_at mf R e ->
  (forall i, In i (map fst (rpk R e)) -> lookup i m = lookup i mf) ->
  rpeaks_at root_at m R e.
Proof.
  induction R as [|T R IH]; intros e; cbn [rpeaks_at rpk map fst]; [auto|].
  intros [S PK] A. split.
  - unfold ProofsStore.root_at. rewrite A by (left; lia). apply stored_root. exact S.
  - apply IH; [exact PK|]. intros i IN. apply A. right. exact IN.
Qed.

(** the nodes a truncation reads of a subtree whose root sits at index [p] *)
Lemma spine_from_full mf m T : forall o,
  stored_at mf o T ->
  (forall i, In i (spine_positions (o + bt_size T - 1) T) -> lookup i m = lookup i mf) ->
  spine_at H v root_at m o T.
Proof.
  induction T as [d|l IHl r IHr]; intros o; cbn [ProofsStore.stored_at spine_at spine_positions bt_size].
  - intros S A. rewrite A by (left; lia). exact S.
  - intros (Sl & Sr & E) A. pose proof (bt_size_pos l). pose proof (bt_size_pos r). split; [|split].
    + unfold ProofsStore.root_at. rewrite A; [apply stored_root; exact Sl|]. right. left. lia.
    + apply IHr; [exact Sr|]. intros i IN. apply A. right. right.
      replace (o + (bt_size l + bt_size r + 1) - 1 - 1) with (o + bt_size l + bt_size r - 1) by lia. exact IN.
    + rewrite A; [exact E|]. left. lia.
Qed.

(** [Tree::new] on the peak roots of the array representation (plus any extra nodes of that
    array) yields a view of the tree; all supplied indices hold the array's nodes. *)
Theorem tree_new_inv (R : list (nat * bt)) extra b h0 mf :
  R <> [] -> perfs R -> incr 0 (hts R) -> seg_ok b h0 (rleaves (trs R)) ->
  rpeaks_at stored_at mf (trs R) (total (trs R)) -> from_store mf extra ->
  exists t,
    tree_new H oc v (total (trs R)) (rev (rpk (trs R) (total (trs R)))) extra = Ok t /\
    inv H v root_at t R /\
    (forall i, In i (map fst (rpk (trs R) (total (trs R))) ++ map fst extra) ->
               lookup i (t_stored t) = lookup i mf).
Proof.
  intros NE P I G PKF FE.
  set (e := total (trs R)) in *.
  destruct (exists_last NE) as (Rrem & [h1 P1] & ER).
  assert (ET : trs R = trs Rrem ++ [P1]) by (rewrite ER; unfold trs; rewrite map_app; reflexivity).
  pose proof (rpk_from_store mf (trs R) e PKF) as FP.
  rewrite ET in FP, G, PKF |- *. rewrite rpk_app in *. cbn [rpk] in *. rewrite rev_app_distr. cbn [rev app].
  unfold tree_new. cbn [new_peaks t_stored t_gen t_count t_root].
  set (p1 := e - total (trs Rrem) - 1).
  set (t1 := mkTree (insert p1 (centry (e - total (trs Rrem) - bt_size P1) P1) []) [] e (Generated 0)).
  destruct (new_peaks_ok (trs Rrem) [P1] e t1 (Stored p1) b h0) as (t2 & lk2 & NP & PK2 & D2 & C2 & R2 & S2); try discriminate.
  - cbn [rpeaks_at]. split; [|exact Logic.I]. unfold ProofsStore.root_at, t1. cbn [t_stored]. rewrite lookup_insert.
    replace (p1 =? e - total (trs Rrem) - bt_size P1 + bt_size P1 - 1) with true by (unfold p1; lia). reflexivity.
  - cbn [ProofsStore.rbag_den]. reflexivity.
  - exact G.
  - rewrite NP. cbn [tbind]. eexists. split; [reflexivity|].
    set (st := fold_left (fun m p => insert (fst p) (snd p) m) extra (t_stored t2)).
    (* every supplied index holds the reference store's node *)
    assert (SUB1 : forall i, lookup i (t_stored t2) = None \/ lookup i (t_stored t2) = lookup i mf).
    { rewrite S2. apply fold_ins_sub.
      - intros i x IN. apply FP. apply in_or_app. left. apply in_rev. exact IN.
      - intros i. unfold t1. cbn [t_stored]. rewrite lookup_insert. destruct (p1 =? i) eqn:Q; [|left; reflexivity].
        right. assert (p1 = i) by lia. subst i. symmetry. apply FP. apply in_or_app. right. left. reflexivity. }
    assert (AG : forall i, In i (map fst (rpk (trs Rrem) e ++ [(p1, centry (e - total (trs Rrem) - bt_size P1) P1)]) ++ map fst extra) ->
                       lookup i st = lookup i mf).
    { intros i IN. unfold st. change (fun m p => insert (fst p) (snd p) m) with ins.
      apply fold_ins_agree; auto.
      apply in_app_or in IN. destruct IN as [IN|IN]; [right|left; exact IN].
      rewrite S2. rewrite map_app in IN. apply in_app_or in IN.
      assert (X : lookup i (fold_left ins (rev (rpk (trs Rrem) e)) (t_stored t1)) = lookup i mf).
      { apply fold_ins_agree.
        - intros j x INj. apply FP. apply in_or_app. left. apply in_rev. exact INj.
        - unfold t1. cbn [t_stored]. rewrite lookup_insert. destruct (p1 =? i) eqn:Q; [|left; reflexivity].
          right. assert (p1 = i) by lia. subst i. symmetry. apply FP. apply in_or_app. right. left. reflexivity.
        - destruct IN as [IN|IN].
          + left. rewrite map_rev. apply in_rev. rewrite rev_involutive. exact IN.
          + right. cbn [map fst] in IN. destruct IN as [<-|[]]. unfold t1. cbn [t_stored]. rewrite lookup_insert, Z.eqb_refl. discriminate. }
      rewrite X. assert (lookup i mf <> None).
      { destruct IN as [IN|IN].
        - apply in_map_iff in IN. destruct IN as ([j x] & <- & IN). cbn [fst].
          rewrite (FP j x); [discriminate|]. apply in_or_app. left. exact IN.
        - cbn [map fst] in IN. destruct IN as [<-|[]]. rewrite (FP p1 (centry (e - total (trs Rrem) - bt_size P1) P1)); [discriminate|]. apply in_or_app. right. left. reflexivity. }
      exact H0. }
    split; [|exact AG].
    rewrite ER.
    assert (ETR : trs (Rrem ++ [(h1, P1)]) = trs Rrem ++ [P1]) by (unfold trs; rewrite map_app; reflexivity).
    constructor; cbn [t_stored t_gen t_count t_root]; rewrite <- ?ER.
    + exact NE.
    + exact P.
    + exact I.
    + rewrite ET, C2. unfold t1. cbn [t_count]. fold st.
      apply (rpeaks_root_transfer mf st (trs Rrem ++ [P1]) e PKF).
      intros i IN. apply AG. apply in_or_app. left. rewrite rpk_app in IN. exact IN.
    + rewrite C2. reflexivity.
    + rewrite ET, C2. unfold t1. cbn [t_count]. exact D2.
Qed.

End New.
