(** Byte strings as [list N] (each < 256) with a hex-literal reader so that the harness can
    print byte strings compactly. *)
From Coq Require Import List NArith String Ascii Bool.
Import ListNotations.
Local Open Scope N_scope.

Definition bytes := list N.

Definition hexval (c : ascii) : option N :=
  let n := N_of_ascii c in
  if (48 <=? n) && (n <=? 57) then Some (n - 48)
  else if (97 <=? n) && (n <=? 102) then Some (n - 87)
  else if (65 <=? n) && (n <=? 70) then Some (n - 55)
  else None.

(** Malformed literals yield [] for the rest; the harness only prints well-formed ones. *)
Fixpoint hex (s : string) : bytes :=
  match s with
  | String a (String b r) =>
      match hexval a, hexval b with
      | Some x, Some y => (16 * x + y) :: hex r
      | _, _ => []
      end
  | _ => []
  end.

Definition bytes_eqb (a b : bytes) : bool :=
  (fix go a b := match a, b with
                 | [], [] => true
                 | x :: a', y :: b' => N.eqb x y && go a' b'
                 | _, _ => false
                 end) a b.

Definition is_byte (b : N) : bool := b <? 256.
Definition is_bytes (l : bytes) : bool := forallb is_byte l.

(** ASCII string to bytes (for personalisation strings, URIs, etc.). *)
Fixpoint str (s : string) : bytes :=
  match s with
  | EmptyString => []
  | String a r => N_of_ascii a :: str r
  end.
