(** Machine-integer semantics used by the models: ranges, checked / wrapping / saturating /
    debug-panicking operators on [Z], little-endian byte codecs. Unsigned values are also kept in
    [Z] so that one [lia] setup serves all models. *)
From Coq Require Import ZArith List Lia Bool.
From Coq Require Import ZifyBool.
Import ListNotations.
Local Open Scope Z_scope.

Definition u8_max : Z := 255.
Definition u16_max : Z := 65535.
Definition u32_max : Z := 4294967295.
Definition u64_max : Z := 18446744073709551615.
Definition i64_min : Z := -9223372036854775808.
Definition i64_max : Z := 9223372036854775807.
Definition u128_max : Z := 340282366920938463463374607431768211455.
Definition usize_max : Z := u64_max. (* the harness runs on a 64-bit target *)

Definition in_range (lo hi x : Z) : bool := (lo <=? x) && (x <=? hi).
Definition in_u8 := in_range 0 u8_max.
Definition in_u16 := in_range 0 u16_max.
Definition in_u32 := in_range 0 u32_max.
Definition in_u64 := in_range 0 u64_max.
Definition in_i64 := in_range i64_min i64_max.
Definition in_u128 := in_range 0 u128_max.

(** [checked lo hi x]: the value if representable. *)
Definition checked (lo hi x : Z) : option Z := if in_range lo hi x then Some x else None.

Definition u32_checked := checked 0 u32_max.
Definition u64_checked := checked 0 u64_max.
Definition i64_checked := checked i64_min i64_max.

Definition saturate (lo hi x : Z) : Z := if x <? lo then lo else if hi <? x then hi else x.
Definition u32_sat := saturate 0 u32_max.
Definition u64_sat := saturate 0 u64_max.

Definition u64_wrap (x : Z) : Z := x mod 18446744073709551616.
Definition u32_wrap (x : Z) : Z := x mod 4294967296.
(** two's complement reinterpretation *)
Definition i64_of_u64 (x : Z) : Z := if x <=? i64_max then x else x - 18446744073709551616.
Definition u64_of_i64 (x : Z) : Z := if x <? 0 then x + 18446744073709551616 else x.

(** Little-endian encodings over [list N]-style bytes kept in Z here. *)
Fixpoint le_bytes (k : nat) (x : Z) : list Z :=
  match k with
  | O => []
  | S k' => (x mod 256) :: le_bytes k' (x / 256)
  end.

Fixpoint of_le (l : list Z) : Z :=
  match l with
  | [] => 0
  | b :: r => b + 256 * of_le r
  end.

Definition is_byteZ (b : Z) : bool := (0 <=? b) && (b <? 256).

Lemma of_le_le_bytes k : forall x, 0 <= x < 256 ^ Z.of_nat k -> of_le (le_bytes k x) = x.
Proof.
  induction k as [|k IH]; intros x Hx.
  - simpl in *. lia.
  - cbn [le_bytes of_le].
    rewrite IH.
    + pose proof (Z.div_mod x 256 ltac:(lia)). lia.
    + rewrite Nat2Z.inj_succ, Z.pow_succ_r in Hx by lia.
      split; [apply Z.div_pos; lia | apply Z.div_lt_upper_bound; lia].
Qed.

Lemma le_bytes_length k x : length (le_bytes k x) = k.
Proof. revert x; induction k; simpl; intros; [reflexivity | f_equal; auto]. Qed.

Lemma le_bytes_bytes k : forall x, Forall (fun b => 0 <= b < 256) (le_bytes k x).
Proof.
  induction k; simpl; intros; constructor; [apply Z.mod_pos_bound; lia | auto].
Qed.

Lemma of_le_bound l : Forall (fun b => 0 <= b < 256) l -> 0 <= of_le l < 256 ^ Z.of_nat (length l).
Proof.
  induction 1 as [|b r Hb _ IH]; [simpl; lia|].
  cbn [of_le length]. rewrite Nat2Z.inj_succ, Z.pow_succ_r by lia. lia.
Qed.

Lemma le_bytes_of_le l : Forall (fun b => 0 <= b < 256) l -> le_bytes (length l) (of_le l) = l.
Proof.
  induction 1 as [|b r Hb _ IH]; [reflexivity|].
  cbn [of_le length le_bytes].
  replace (b + 256 * of_le r) with (b + of_le r * 256) by lia.
  rewrite Z.mod_add, Z.div_add by lia.
  rewrite Z.mod_small, (Z.div_small b) by lia.
  simpl.   f_equal; exact IH.
Qed.
