(** Shared base: outcomes, case-list evaluation helpers used by every correspondence file. *)
From Coq Require Export List ZArith NArith Bool Lia.
Export ListNotations.

(** Result of running a piece of Rust: a value, an error of type [E], or a panic. *)
Inductive outcome (A E : Type) : Type :=
| Ok (a : A)
| Err (e : E)
| Panic.
Arguments Ok {A E} a.
Arguments Err {A E} e.
Arguments Panic {A E}.

Definition outcome_eqb {A E} (eqa : A -> A -> bool) (eqe : E -> E -> bool)
  (x y : outcome A E) : bool :=
  match x, y with
  | Ok a, Ok b => eqa a b
  | Err a, Err b => eqe a b
  | Panic, Panic => true
  | _, _ => false
  end.

Definition option_eqb {A} (eqa : A -> A -> bool) (x y : option A) : bool :=
  match x, y with
  | Some a, Some b => eqa a b
  | None, None => true
  | _, _ => false
  end.

Fixpoint list_eqb {A} (eqa : A -> A -> bool) (x y : list A) : bool :=
  match x, y with
  | [], [] => true
  | a :: x', b :: y' => eqa a b && list_eqb eqa x' y'
  | _, _ => false
  end.

Definition pair_eqb {A B} (ea : A -> A -> bool) (eb : B -> B -> bool) (x y : A * B) : bool :=
  ea (fst x) (fst y) && eb (snd x) (snd y).

Lemma option_eqb_spec {A} (eqa : A -> A -> bool) :
  (forall a b, eqa a b = true <-> a = b) ->
  forall x y, option_eqb eqa x y = true <-> x = y.
Proof.
  intros H [a|] [b|]; simpl; try (split; congruence).
  rewrite H. split; congruence.
Qed.

Lemma list_eqb_spec {A} (eqa : A -> A -> bool) :
  (forall a b, eqa a b = true <-> a = b) ->
  forall x y, list_eqb eqa x y = true <-> x = y.
Proof.
  intros H x. induction x as [|a x IH]; intros [|b y]; simpl; try (split; congruence).
  rewrite andb_true_iff, H, IH. split; [intros [-> ->]; reflexivity | intros E; inversion E; auto].
Qed.

(** Indices (from 0) of the cases on which a boolean check fails. Printed by the
    generated cases files; the driver only parses a list of numbers. *)
Fixpoint bad_from {A} (f : A -> bool) (i : N) (l : list A) : list N :=
  match l with
  | [] => []
  | x :: r => if f x then bad_from f (N.succ i) r else i :: bad_from f (N.succ i) r
  end.
Definition bad_indices {A} (f : A -> bool) (l : list A) : list N := bad_from f 0%N l.

Lemma bad_from_nil {A} (f : A -> bool) l : forall i, bad_from f i l = [] <-> forallb f l = true.
Proof.
  induction l as [|x r IH]; intros i; simpl; [tauto|].
  destruct (f x); simpl; [apply IH | split; discriminate].
Qed.

Lemma bad_indices_nil {A} (f : A -> bool) l : bad_indices f l = [] <-> forallb f l = true.
Proof. apply bad_from_nil. Qed.

(** Histogram of path tags. *)
Fixpoint bump (t : N) (h : list (N * N)) : list (N * N) :=
  match h with
  | [] => [(t, 1%N)]
  | (k, c) :: r => if N.eqb k t then (k, N.succ c) :: r else (k, c) :: bump t r
  end.
Definition tag_hist {A} (tag : A -> N) (l : list A) : list (N * N) :=
  fold_left (fun h c => bump (tag c) h) l [].

(** Indices of cases falling into a known class (used for known findings). *)
Fixpoint class_from {A} (f : A -> N) (i : N) (l : list A) : list (N * N) :=
  match l with
  | [] => []
  | x :: r => (i, f x) :: class_from f (N.succ i) r
  end.
