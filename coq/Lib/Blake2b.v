(** BLAKE2b (RFC 7693) with salt / personalisation / variable digest length, in Gallina over [N].
    Executable reference used by correspondence checks; it is *validated* (against test vectors
    below and against hashlib in vlib/selftest), not verified. Words are kept < 2^64 by masking
    with [N.land] (much faster than [mod] under vm_compute). Bytes are [N] < 256. *)
From Coq Require Import NArith List.
Import ListNotations.
Local Open Scope N_scope.

Definition mask64 : N := 18446744073709551615.
Definition w64 (x : N) : N := N.land x mask64.
Definition add64 (a b : N) : N := w64 (a + b).
Definition rotr64 (x : N) (r : N) : N := N.lor (N.shiftr x r) (w64 (N.shiftl x (64 - r))).

Definition IV : list N :=
  [7640891576956012808; 13503953896175478587; 4354685564936845355; 11912009170470909681;
   5840696475078001361; 11170449401992604703; 2270897969802886507; 6620516959819538809].

Definition SIGMA : list (list nat) :=
  [[0;1;2;3;4;5;6;7;8;9;10;11;12;13;14;15];
   [14;10;4;8;9;15;13;6;1;12;0;2;11;7;5;3];
   [11;8;12;0;5;2;15;13;10;14;3;6;7;1;9;4];
   [7;9;3;1;13;12;11;14;2;6;5;10;4;0;15;8];
   [9;0;5;7;2;4;10;15;14;1;11;12;6;8;3;13];
   [2;12;6;10;0;11;8;3;4;13;7;5;15;14;1;9];
   [12;5;1;15;14;13;4;10;0;7;6;3;9;2;8;11];
   [13;11;7;14;12;1;3;9;5;0;15;4;8;6;2;10];
   [6;15;14;9;11;3;0;8;12;2;13;7;1;4;10;5];
   [10;2;8;4;7;6;1;5;15;11;9;14;3;12;13;0];
   [0;1;2;3;4;5;6;7;8;9;10;11;12;13;14;15];
   [14;10;4;8;9;15;13;6;1;12;0;2;11;7;5;3]]%nat.

Definition nthN (l : list N) (i : nat) : N := nth i l 0.

Fixpoint set_nth (l : list N) (i : nat) (x : N) : list N :=
  match l, i with
  | [], _ => []
  | _ :: r, O => x :: r
  | y :: r, S i' => y :: set_nth r i' x
  end.

Definition G (v : list N) (a b c d : nat) (x y : N) : list N :=
  let va := add64 (add64 (nthN v a) (nthN v b)) x in
  let vd := rotr64 (N.lxor (nthN v d) va) 32 in
  let vc := add64 (nthN v c) vd in
  let vb := rotr64 (N.lxor (nthN v b) vc) 24 in
  let va := add64 (add64 va vb) y in
  let vd := rotr64 (N.lxor vd va) 16 in
  let vc := add64 vc vd in
  let vb := rotr64 (N.lxor vb vc) 63 in
  set_nth (set_nth (set_nth (set_nth v a va) b vb) c vc) d vd.

Definition round (m : list N) (v : list N) (s : list nat) : list N :=
  let g (v : list N) (a b c d i : nat) :=
    G v a b c d (nthN m (nth (2 * i)%nat s O)) (nthN m (nth (2 * i + 1)%nat s O)) in
  let v := g v 0%nat 4%nat 8%nat 12%nat 0%nat in
  let v := g v 1%nat 5%nat 9%nat 13%nat 1%nat in
  let v := g v 2%nat 6%nat 10%nat 14%nat 2%nat in
  let v := g v 3%nat 7%nat 11%nat 15%nat 3%nat in
  let v := g v 0%nat 5%nat 10%nat 15%nat 4%nat in
  let v := g v 1%nat 6%nat 11%nat 12%nat 5%nat in
  let v := g v 2%nat 7%nat 8%nat 13%nat 6%nat in
  let v := g v 3%nat 4%nat 9%nat 14%nat 7%nat in
  v.

(** [compress h m t last]: h = 8 words, m = 16 words, t = byte counter (< 2^128). *)
Definition compress (h : list N) (m : list N) (t : N) (last : bool) : list N :=
  let v := h ++ IV in
  let v := set_nth v 12%nat (N.lxor (nthN v 12%nat) (w64 t)) in
  let v := set_nth v 13%nat (N.lxor (nthN v 13%nat) (w64 (N.shiftr t 64))) in
  let v := if last then set_nth v 14%nat (N.lxor (nthN v 14%nat) mask64) else v in
  let v := fold_left (round m) SIGMA v in
  map (fun i => N.lxor (N.lxor (nthN h i) (nthN v i)) (nthN v (i + 8)%nat)) (seq 0%nat 8%nat).

(** little-endian helpers *)
Fixpoint le_of_bytes (l : list N) : N :=
  match l with [] => 0 | b :: r => b + 256 * le_of_bytes r end.
Fixpoint bytes_of_le (k : nat) (x : N) : list N :=
  match k with O => [] | S k' => N.land x 255 :: bytes_of_le k' (N.shiftr x 8) end.

Fixpoint words_of (n : nat) (l : list N) : list N :=
  match n with
  | O => []
  | S n' => le_of_bytes (firstn 8%nat l) :: words_of n' (skipn 8%nat l)
  end.

Definition pad_to (n : nat) (l : list N) : list N := l ++ repeat 0 (n - length l)%nat.

(** Process all blocks; [fuel] = number of blocks + 1. The final block is the last (possibly
    partial, possibly — for the empty message — empty) block. *)
Fixpoint blocks (fuel : nat) (h : list N) (msg : list N) (t : N) : list N :=
  match fuel with
  | O => h
  | S f =>
      if Nat.leb (length msg) 128%nat then
        compress h (words_of 16%nat (pad_to 128%nat msg)) (t + N.of_nat (length msg)) true
      else
        blocks f (compress h (words_of 16%nat (firstn 128%nat msg)) (t + 128) false) (skipn 128%nat msg) (t + 128)
  end.

(** [blake2b outlen key salt person msg]: salt and personalisation are padded to 16 bytes with
    zeros; key is at most 64 bytes. *)
Definition blake2b (outlen : N) (key salt person msg : list N) : list N :=
  let p0 := outlen + 256 * N.of_nat (length key) + 65536 + 16777216 in   (* fanout 1, depth 1 *)
  let sw := words_of 2%nat (pad_to 16%nat salt) in
  let pw := words_of 2%nat (pad_to 16%nat person) in
  let h := [N.lxor (nthN IV 0%nat) p0; nthN IV 1%nat; nthN IV 2%nat; nthN IV 3%nat;
            N.lxor (nthN IV 4%nat) (nthN sw 0%nat); N.lxor (nthN IV 5%nat) (nthN sw 1%nat);
            N.lxor (nthN IV 6%nat) (nthN pw 0%nat); N.lxor (nthN IV 7%nat) (nthN pw 1%nat)] in
  let data := match key with [] => msg | _ => pad_to 128%nat key ++ msg end in
  let h := blocks (S (Nat.div (length data) 128%nat)) h data 0 in
  firstn (N.to_nat outlen) (flat_map (bytes_of_le 8%nat) h).

Definition blake2b_256 (person msg : list N) : list N := blake2b 32 [] [] person msg.
