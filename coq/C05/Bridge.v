(** C05 — the bridge: the model computes exactly the closed-form specification of Spec.v.
    [scan_block = Ok r] iff the block is [acceptable] and [r = expected]; [scan_block = Err _]
    only if the block is not acceptable. Hence a case on which the implementation agrees with
    the model ([run_case]) satisfies the property checker ([prop_case]) — see [bridge]. *)
From V.Lib Require Import Base.
From V.C05 Require Import Model Spec Corr Wf Proofs Eqb.
From Coq Require Import ZifyBool.
Local Open Scope N_scope.

Lemma indexed_from_app {A} (a b : list A) : forall i,
  indexed_from i (a ++ b) = indexed_from i a ++ indexed_from (i + len a) b.
Proof.
  induction a as [|x r IH]; intros i; cbn [app indexed_from].
  - rewrite len_nil, N.add_0_r. reflexivity.
  - rewrite IH, len_cons. replace (i + (1 + len r)) with (i + 1 + len r) by lia. reflexivity.
Qed.
Lemma firstn_len_app {A} (a b : list A) : firstn (N.to_nat (len a)) (a ++ b) = a.
Proof.
  unfold len. rewrite Nat2N.id, firstn_app, firstn_all, Nat.sub_diag. cbn. apply app_nil_r.
Qed.
Lemma wtx_eta (w : wtx) :
  w = Wtx (wt_txid w) (wt_index w) (wt_sp Sapling w) (wt_out Sapling w) (wt_sp Orchard w)
          (wt_out Orchard w) (wt_sp Ironwood w) (wt_out Ironwood w).
Proof. destruct w; reflexivity. Qed.
Lemma nonempty_eq (w : wtx) : nonempty w = wtx_nonempty w.
Proof.
  destruct w as [a b ss so os oo is_ io]. unfold nonempty, wtx_nonempty, pools.
  cbn [forallb wt_sp wt_out wt_ss wt_so wt_os wt_oo wt_is wt_io].
  destruct ss, so, os, oo, is_, io; reflexivity.
Qed.

Section Bridge.
Variable dec : pool -> key -> cout -> option note.
Variable nf_of : pool -> key -> note -> N -> option N.

Notation find_key := (find_key dec).
Notation first_key := (first_key dec).
Notation find_received := (find_received dec nf_of).
Notation scan_tx := (scan_tx dec nf_of).
Notation scan_txs := (scan_txs dec nf_of).
Notation scan_block := (scan_block dec nf_of).
Notation expected := (expected dec nf_of).
Notation spec_wtx := (spec_wtx dec nf_of).
Notation spec_outs := (spec_outs dec nf_of).
Notation spec_comm := (spec_comm dec).
Notation spec_bundle := (spec_bundle dec).

Lemma first_key_eq p keys o : first_key p keys o = find_key p keys o.
Proof.
  unfold Spec.first_key. induction keys as [|k r IH]; [reflexivity|].
  cbn [find Model.find_key]. destruct (dec p k o) eqn:D; [rewrite D; reflexivity | exact IH].
Qed.

(** ---- closed forms of the per-transaction searches ---- *)
Lemma find_spent_closed tr : forall ids i,
  fst (find_spent i ids tr)
  = filter_map (fun x => match owner (snd x) tr with Some a => Some (fst x, snd x, a) | None => None end)
               (indexed_from i ids).
Proof.
  induction ids as [|nf r IH]; intros i; [reflexivity|].
  rewrite find_spent_cons. cbn [indexed_from filter_map fst snd].
  change (owner nf tr) with (first_match nf tr).
  destruct (first_match nf tr); cbn [fst]; rewrite IH; reflexivity.
Qed.

Lemma find_received_closed_w p h last base keys accts : forall outs i,
  fst (find_received p h last base keys accts i outs)
  = filter_map (fun x => match first_key p keys (snd x) with
                         | Some (k, n) =>
                             Some (Wo (fst x) (fid (o_epk (snd x))) (nt_value n)
                                      (existsb (N.eqb (k_acct k)) accts) (base + fst x)
                                      (nf_of p k n (base + fst x)) (k_acct k) (Some (k_scope k))
                                      (fid (o_cmx (snd x))))
                         | None => None
                         end)
               (indexed_from i outs).
Proof.
  induction outs as [|o r IH]; intros i; [reflexivity|].
  rewrite find_received_cons. cbn [indexed_from filter_map fst snd]. rewrite first_key_eq.
  destruct (find_key p keys o) as [[k n]|]; rewrite IH; reflexivity.
Qed.

Definition fcomm (p : pool) (h : N) (keys : list key) (total : N) (x : N * cout) : N * retention :=
  (fid (o_cmx (snd x)),
   match first_key p keys (snd x), fst x + 1 =? total with
   | Some _, true => Ck h true
   | None, true => Ck h false
   | Some _, false => Mk
   | None, false => Eph
   end).

Lemma find_received_closed_c p h base keys accts total : forall outs last i g,
  g + len outs <= total -> last = (g + len outs =? total) ->
  snd (find_received p h last base keys accts i outs) = map (fcomm p h keys total) (indexed_from g outs).
Proof.
  induction outs as [|o r IH]; intros last i g LE LA; [reflexivity|].
  rewrite find_received_cons. cbn [snd indexed_from map]. rewrite len_cons in LE, LA. f_equal.
  - unfold fcomm. cbn [fst snd]. rewrite first_key_eq. f_equal.
    assert (B : (match r with [] => true | _ => false end) && last = (g + 1 =? total)).
    { destruct r as [|c r']; [rewrite len_nil in LA; cbn [andb]; lia|].
      rewrite len_cons in LE. cbn [andb]. lia. }
    rewrite B. reflexivity.
  - apply IH; lia.
Qed.

(** ---- the transaction loop in closed form ---- *)
Lemma spec_accounts_eq nfs t :
  spec_accounts nfs t
  = map snd (spec_spends Sapling nfs t ++ spec_spends Orchard nfs t ++ spec_spends Ironwood nfs t).
Proof. unfold spec_accounts, pools. cbn [flat_map]. rewrite !map_app, app_nil_r. reflexivity. Qed.

Lemma scan_tx_closed h keys nfs fin pos t x start whole pre :
  scan_tx h keys nfs fin pos t = Ok x ->
  (forall p, pos p = start p + cnt p pre) ->
  (forall p, fin p = start p + cnt p whole) ->
  (forall p, cnt p pre + len (outs_of p t) <= cnt p whole) ->
  tr_wtx x = spec_wtx keys nfs start (pre ++ t :: skipn (S (length pre)) whole) (len pre, t)
  /\ forall p, tr_c x p = map (fcomm p h keys (cnt p whole)) (indexed_from (cnt p pre) (outs_of p t)).
Proof.
  intros X P F LE. destruct (scan_tx_inv _ _ _ _ _ _ _ _ _ X) as (_ & _ & TI & II & A).
  assert (SP : forall p, wt_sp p (tr_wtx x) = spec_spends p nfs t).
  { intros p. destruct (A p) as (S & _). rewrite S. unfold spec_spends, spend_ids, indexed.
    apply find_spent_closed. }
  assert (AC : wtx_accounts (tr_wtx x) = spec_accounts nfs t).
  { rewrite spec_accounts_eq. unfold wtx_accounts.
    rewrite <- (SP Sapling), <- (SP Orchard), <- (SP Ironwood). reflexivity. }
  split.
  - rewrite (wtx_eta (tr_wtx x)). unfold Spec.spec_wtx. cbn [fst snd]. rewrite TI, II, !SP.
    assert (OU : forall p, wt_out p (tr_wtx x)
                 = spec_outs p keys (spec_accounts nfs t)
                     (start p + offset p (pre ++ t :: skipn (S (length pre)) whole) (len pre)) t).
    { intros p. destruct (A p) as (_ & _ & _ & _ & R). apply (f_equal fst) in R. cbn [fst] in R.
      rewrite R, AC, P. unfold Spec.spec_outs, indexed, offset. rewrite firstn_len_app.
      fold (cnt p pre). apply find_received_closed_w. }
    rewrite !OU. reflexivity.
  - intros p. destruct (A p) as (_ & _ & _ & _ & R). apply (f_equal snd) in R. cbn [snd] in R.
    rewrite R. apply find_received_closed_c.
    + apply LE.
    + rewrite P, F. specialize (LE p). lia.
Qed.

Lemma scan_txs_closed h keys nfs fin start whole : forall vtx pre pos l,
  scan_txs h keys nfs fin pos vtx = Ok l -> whole = pre ++ vtx ->
  (forall p, pos p = start p + cnt p pre) ->
  (forall p, fin p = start p + cnt p whole) ->
  map tr_wtx l = map (spec_wtx keys nfs start whole) (indexed_from (len pre) vtx)
  /\ forall p, flat_map (fun x => tr_c x p) l
               = map (fcomm p h keys (cnt p whole)) (indexed_from (cnt p pre) (flat_map (outs_of p) vtx)).
Proof.
  induction vtx as [|t r IH]; intros pre pos l H W P F; cbn [Model.scan_txs] in H.
  - inversion H; subst. split; [reflexivity | intros; reflexivity].
  - inv_bind H. inv_bind H. inversion H; subst l; clear H.
    assert (LE : forall p, cnt p pre + len (outs_of p t) <= cnt p whole).
    { intros p. rewrite W, cnt_app, cnt_cons. lia. }
    destruct (scan_tx_closed _ _ _ _ _ _ _ _ _ _ E P F LE) as [TW TC].
    assert (SK : pre ++ t :: skipn (S (length pre)) whole = whole).
    { rewrite W. f_equal. f_equal.
      replace (S (length pre)) with (length (pre ++ [t])) by (rewrite app_length; cbn; lia).
      replace (pre ++ t :: r) with ((pre ++ [t]) ++ r) by (rewrite <- app_assoc; reflexivity).
      rewrite skipn_app, skipn_all, Nat.sub_diag. reflexivity. }
    rewrite SK in TW.
    assert (W' : whole = (pre ++ [t]) ++ r) by (rewrite <- app_assoc; exact W).
    assert (P' : forall p, advance pos t p = start p + cnt p (pre ++ [t])).
    { intros p. unfold advance. rewrite P, cnt_app, cnt_cons. unfold cnt at 3. cbn [flat_map]. rewrite len_nil. lia. }
    destruct (IH _ _ _ E0 W' P' F) as [IW IC].
    split.
    + cbn [map indexed_from]. rewrite TW. f_equal. rewrite IW. f_equal. f_equal.
      rewrite len_app, len_cons, len_nil. lia.
    + intros p. cbn [flat_map]. rewrite TC, IC, indexed_from_app, map_app. f_equal. f_equal. f_equal.
      rewrite cnt_app, cnt_cons. unfold cnt at 2. cbn [flat_map]. rewrite len_nil. lia.
Qed.

(** ---- the expected result does not depend on how [start] is presented ---- *)
Lemma spec_wtx_ext keys nfs s1 s2 vtx jt :
  (forall p, s1 p = s2 p) -> spec_wtx keys nfs s1 vtx jt = spec_wtx keys nfs s2 vtx jt.
Proof. intros E. unfold Spec.spec_wtx. rewrite !E. reflexivity. Qed.

(** ---- field well-formedness: model predicates = specification predicates ---- *)
Lemma out_ok_wf p o : out_ok p o = wf_output p o.
Proof.
  unfold out_ok, sap_out_ok, wf_output, wf_elem, wf32, nf_ok.
  destruct p; destruct (flen (o_cmx o) =? 32), (fok (o_cmx o)), (flen (o_epk o) =? 32), (o_ct o =? 52),
    (flen (o_nf o) =? 32), (fok (o_nf o)); reflexivity.
Qed.
Lemma forallb_ext_eq {A} (f g : A -> bool) l : (forall x, f x = g x) -> forallb f l = forallb g l.
Proof. intros E. induction l as [|x r IH]; cbn; [reflexivity|]. rewrite E, IH. reflexivity. Qed.

Definition prior_ok (prior : option pmeta) : Prop :=
  match prior with Some pm => p_height pm + 1 < U32 | None => True end.

(** ---- soundness: an accepted block is acceptable and yields exactly [expected] ---- *)
Theorem scan_ok_expected c prior keys nfs b r :
  prior_ok prior -> scan_block c prior keys nfs b = Ok r ->
  acceptable c prior b = true /\ r = expected c prior keys nfs b.
Proof.
  intros PO H. destruct (scan_block_inv _ _ _ _ _ _ _ _ H) as (start & l & B).
  destruct (bo_height _ _ _ _ _ _ _ _ _ _ B) as [HB HE].
  pose proof (bo_hash _ _ _ _ _ _ _ _ _ _ B) as HH.
  pose proof (bo_txs _ _ _ _ _ _ _ _ _ _ B) as T.
  assert (ST : forall p, spec_start c prior b p = Some (start p)) by (intros p; apply (bo_start _ _ _ _ _ _ _ _ _ _ B p)).
  split.
  - unfold acceptable. rewrite HH.
    replace (b_height b <? 4294967296) with true by (unfold U32 in HB; lia). cbn [andb].
    assert (CN : connects b prior = true).
    { unfold connects. destruct prior as [pm|]; [|reflexivity].
      destruct (continuity_ok _ _ (bo_cont _ _ _ _ _ _ _ _ _ _ B) PO) as [E1 E2]. rewrite E2. lia. }
    rewrite CN. cbn [andb].
    assert (SZ : forallb (sizes_ok c prior b) pools = true).
    { apply forallb_forall. intros p _. unfold sizes_ok. rewrite ST.
      destruct (bo_start _ _ _ _ _ _ _ _ _ _ B p) as [_ L]. unfold U32 in L.
      destruct (b_meta b) as [m|] eqn:M; [rewrite (bo_meta _ _ _ _ _ _ _ _ _ _ B m M p)|]; lia. }
    rewrite SZ. cbn [andb].
    apply forallb_forall. intros t I.
    destruct (ok_fields _ _ _ _ _ _ _ _ H t I) as (L & IX & A). unfold wf_tx.
    destruct (A Sapling) as [S1 O1]. destruct (A Orchard) as [_ O2]. destruct (A Ironwood) as [_ O3].
    cbn [spend_flds outs_of nf_ok] in S1, O1, O2, O3.
    rewrite <- (forallb_ext_eq _ _ _ (out_ok_wf Sapling)), <- (forallb_ext_eq _ _ _ (out_ok_wf Orchard)),
            <- (forallb_ext_eq _ _ _ (out_ok_wf Ironwood)), O1, O2, O3.
    change (forallb wf32 (x_spends t)) with (forallb (nf_ok Sapling) (x_spends t)). rewrite S1.
    unfold wf32. unfold U16 in IX. lia.
  - destruct (bo_res _ _ _ _ _ _ _ _ _ _ B) as [RT RB].
    assert (FN : forall p, (fun p => start p + n_outs p b) p = start p + cnt p (b_vtx b)) by (intros; reflexivity).
    destruct (scan_txs_closed _ _ _ _ start (b_vtx b) _ [] _ _ T eq_refl
                (fun p => eq_sym (N.add_0_r (start p))) FN) as [CW CC].
    assert (BU : forall p, bundle p r
                 = spec_bundle p (b_height b) keys nfs
                     (fun p => match spec_start c prior b p with Some s => s | None => 0 end) b).
    { intros p. rewrite (RB p). unfold mk_bundle, Spec.spec_bundle. rewrite ST. f_equal.
      - rewrite (CC p). reflexivity.
      - apply (scan_txs_nfmap _ _ _ _ _ _ p _ _ _ T). }
    destruct r as [rh rhash rt rtxs rs ro ri].
    cbn [s_height s_hash s_time s_txs bundle s_sap s_orch s_iw] in *.
    unfold Spec.expected. rewrite HH. pose proof (bo_time _ _ _ _ _ _ _ _ _ _ B) as TM. cbn [s_time] in TM.
    pose proof (BU Sapling) as B1. pose proof (BU Orchard) as B2. pose proof (BU Ironwood) as B3.
    cbn [bundle s_sap s_orch s_iw] in B1, B2, B3.
    subst rh rt rs ro ri. f_equal.
    rewrite RT, CW. rewrite (filter_ext _ _ nonempty_eq). f_equal.
    apply map_ext. intros jt. apply spec_wtx_ext. intros p. rewrite ST. reflexivity.
Qed.

(** ---- completeness: an acceptable block is accepted ---- *)
Lemma collect_nfs_complete ok mk : forall l i, forallb ok l = true -> collect_nfs ok mk i l = Ok (map fid l).
Proof.
  induction l as [|f r IH]; intros i H; [reflexivity|]. cbn [forallb] in H. apply andb_prop in H. destruct H as [H1 H2].
  cbn [collect_nfs map]. rewrite H1, (IH _ H2). reflexivity.
Qed.
Lemma check_outs_complete ok mk : forall l i, forallb ok l = true -> check_outs ok mk i l = Ok tt.
Proof.
  induction l as [|o r IH]; intros i H; [reflexivity|]. cbn [forallb] in H. apply andb_prop in H. destruct H as [H1 H2].
  cbn [check_outs]. rewrite H1. apply IH; exact H2.
Qed.

Lemma wf_tx_inv t : wf_tx t = true ->
  flen (x_txid t) = 32 /\ x_index t < U16
  /\ forall p, forallb (nf_ok p) (spend_flds p t) = true /\ forallb (out_ok p) (outs_of p t) = true.
Proof.
  unfold wf_tx, wf32. intros H. repeat (apply andb_prop in H; destruct H as [H ?]).
  rewrite <- (forallb_ext_eq _ _ _ (out_ok_wf Sapling)) in H2.
  rewrite <- (forallb_ext_eq _ _ _ (out_ok_wf Orchard)) in H1.
  rewrite <- (forallb_ext_eq _ _ _ (out_ok_wf Ironwood)) in H0.
  split; [lia|]. split; [unfold U16; lia|].
  assert (NF : forall p l, p <> Sapling -> forallb (out_ok p) l = true -> forallb (nf_ok p) (map o_nf l) = true).
  { intros p l NS. induction l as [|o r IH]; cbn [forallb map]; [reflexivity|]. intros X.
    apply andb_prop in X. destruct X as [X1 X2]. rewrite (IH X2), andb_true_r.
    unfold out_ok in X1. destruct p; [congruence| |]; apply andb_prop in X1; apply X1. }
  intros [| |]; cbn [spend_flds outs_of]; split; auto; try (apply NF; [discriminate | assumption]).
Qed.

Lemma scan_tx_complete h keys nfs fin pos t : wf_tx t = true -> exists x, scan_tx h keys nfs fin pos t = Ok x.
Proof.
  intros W. destruct (wf_tx_inv _ W) as (L & IX & A).
  unfold Model.scan_tx, txid_of. rewrite L. cbn [N.eqb Pos.eqb bind].
  replace (x_index t <? U16) with true by lia. cbn [bind].
  unfold spends_of, Model.recv_of.
  destruct (A Sapling) as [S1 O1]. destruct (A Orchard) as [S2 O2]. destruct (A Ironwood) as [S3 O3].
  rewrite (collect_nfs_complete _ _ _ _ S1), (collect_nfs_complete _ _ _ _ S2), (collect_nfs_complete _ _ _ _ S3).
  cbn [bind].
  rewrite (check_outs_complete _ _ _ _ O1), (check_outs_complete _ _ _ _ O2), (check_outs_complete _ _ _ _ O3).
  cbn [bind]. eauto.
Qed.
Lemma scan_txs_complete h keys nfs fin : forall vtx pos,
  forallb wf_tx vtx = true -> exists l, scan_txs h keys nfs fin pos vtx = Ok l.
Proof.
  induction vtx as [|t r IH]; intros pos W; [exists []; reflexivity|].
  cbn [forallb] in W. apply andb_prop in W. destruct W as [W1 W2].
  destruct (scan_tx_complete h keys nfs fin pos t W1) as [x X].
  destruct (IH (advance pos t) W2) as [l L]. cbn [Model.scan_txs]. rewrite X. cbn [bind]. rewrite L. cbn [bind]. eauto.
Qed.

Lemma tree_sizes_complete c b prior p s :
  spec_start c prior b p = Some s -> s + n_outs p b < U32 ->
  tree_sizes c (b_height b) b prior p = Ok (s, s + n_outs p b).
Proof.
  unfold tree_sizes, spec_start, n_outs, all_outs. fold (cnt p (b_vtx b)). intros S L.
  assert (F : forall x : N, x = s ->
              bind (Ok x : res N) (fun start => if start + cnt p (b_vtx b) <? U32
                                               then Ok (start, start + cnt p (b_vtx b))
                                               else Err (TreeSizeOverflow p (b_height b)))
              = Ok (s, s + cnt p (b_vtx b))).
  { intros x ->. cbn [bind]. replace (s + cnt p (b_vtx b) <? U32) with true by lia. reflexivity. }
  destruct (match prior with Some m => prior_size p m | None => None end); [apply F; congruence|].
  destruct (b_meta b) as [m|].
  - destruct (cnt p (b_vtx b) <=? meta_size p m) eqn:C; [|discriminate]. inversion S; subst.
    replace (U32 <=? cnt p (b_vtx b)) with false by lia.
    replace (meta_size p m <? cnt p (b_vtx b)) with false by lia. apply F. reflexivity.
  - destruct (activation p c) as [a|]; [|apply F; congruence].
    destruct (b_height b <? a); [apply F; congruence | discriminate].
Qed.

Theorem acceptable_accepted c prior keys nfs b :
  prior_ok prior -> acceptable c prior b = true -> exists r, scan_block c prior keys nfs b = Ok r.
Proof.
  intros PO A. unfold acceptable in A. repeat (apply andb_prop in A; destruct A as [A ?]).
  rename H into WT. rename H0 into SZ. rename H1 into CN. rename H2 into HS.
  assert (HB : b_height b < U32) by (unfold U32; lia).
  unfold Model.scan_block.
  assert (C : check_continuity b prior = Ok tt).
  { unfold check_continuity. destruct prior as [pm|]; [|reflexivity].
    unfold connects in CN. apply andb_prop in CN. destruct CN as [C1 C2].
    unfold block_height. replace (b_height b <? U32) with true by lia. cbn [bind].
    cbn [prior_ok] in PO. unfold sat_succ. replace (p_height pm + 1 <? U32) with true by lia.
    replace (b_height b =? p_height pm + 1) with true by lia. cbn [negb].
    assert (PM : prev_matches b (p_hash pm) = true).
    { apply prev_matches_spec. destruct (spec_prev b); [f_equal; lia | discriminate]. }
    rewrite PM. reflexivity. }
  rewrite C. cbn [bind]. unfold block_height. replace (b_height b <? U32) with true by lia. cbn [bind].
  assert (HH : exists x, block_hash b = Ok x).
  { unfold block_hash. unfold spec_hash, wf32 in HS. destruct (b_hdr b); [eauto|].
    destruct (flen (b_hash b) =? 32); [eauto | discriminate]. }
  destruct HH as [hash HH]. rewrite HH. cbn [bind].
  assert (TS : forall p, exists s, spec_start c prior b p = Some s /\ s + n_outs p b < U32
                                   /\ (forall m, b_meta b = Some m -> meta_size p m = s + n_outs p b)).
  { intros p. rewrite forallb_forall in SZ.
    assert (I : In p pools) by (destruct p; cbn; auto). specialize (SZ p I). unfold sizes_ok in SZ.
    destruct (spec_start c prior b p) as [s|]; [|discriminate]. exists s.
    apply andb_prop in SZ. destruct SZ as [S1 S2]. repeat split; [unfold U32; lia|].
    intros m M. rewrite M in S2. lia. }
  destruct (TS Sapling) as (s1 & S1 & L1 & M1). destruct (TS Orchard) as (s2 & S2 & L2 & M2).
  destruct (TS Ironwood) as (s3 & S3 & L3 & M3).
  rewrite (tree_sizes_complete _ _ _ _ _ S1 L1), (tree_sizes_complete _ _ _ _ _ S2 L2),
          (tree_sizes_complete _ _ _ _ _ S3 L3). cbn [bind fst snd].
  destruct (scan_txs_complete (b_height b) keys nfs
              (by_pool (s1 + n_outs Sapling b) (s2 + n_outs Orchard b) (s3 + n_outs Ironwood b))
              (b_vtx b) (by_pool s1 s2 s3) WT) as [l L].
  rewrite L. cbn [bind].
  assert (CE : check_end (b_height b) b (by_pool (s1 + n_outs Sapling b) (s2 + n_outs Orchard b) (s3 + n_outs Ironwood b)) = Ok tt).
  { unfold check_end. destruct (b_meta b) as [m|] eqn:M; [|reflexivity]. cbn [by_pool].
    rewrite (M1 m eq_refl), (M2 m eq_refl), (M3 m eq_refl), !N.eqb_refl. reflexivity. }
  rewrite CE. cbn [bind]. eauto.
Qed.

(** ---- the model computes the specification ---- *)
Theorem scan_correct c prior keys nfs b :
  prior_ok prior ->
  (forall r, scan_block c prior keys nfs b = Ok r <-> acceptable c prior b = true /\ r = expected c prior keys nfs b)
  /\ (forall e, scan_block c prior keys nfs b = Err e -> acceptable c prior b = false).
Proof.
  intros PO. split.
  - intros r. split; [apply scan_ok_expected; exact PO|].
    intros [A ->]. destruct (acceptable_accepted c prior keys nfs b PO A) as [r R].
    rewrite R. f_equal. apply (scan_ok_expected _ _ _ _ _ _ PO R).
  - intros e E. destruct (acceptable c prior b) eqn:A; [|reflexivity].
    destruct (acceptable_accepted c prior keys nfs b PO A) as [r R]. congruence.
Qed.

End Bridge.

(** ---- the bridge on correspondence cases ---- *)
Definition case_alts (x : case) := match x with Scan _ _ _ _ _ _ alts => alts | Upd _ _ _ => [] end.

(** the model of [update_with] is the specified tracked set *)
Lemma existsb_flat_map {A B} (f : B -> bool) (g : A -> list B) l :
  existsb f (flat_map g l) = existsb (fun x => existsb f (g x)) l.
Proof. induction l as [|x r IH]; [reflexivity|]. cbn [flat_map existsb]. rewrite existsb_app, IH. reflexivity. Qed.
Lemma existsb_map {A B} (f : B -> bool) (g : A -> B) l : existsb f (map g l) = existsb (fun x => f (g x)) l.
Proof. induction l as [|x r IH]; [reflexivity|]. cbn [map existsb]. rewrite IH. reflexivity. Qed.
Lemma existsb_ext_eq {A} (f g : A -> bool) l : (forall x, f x = g x) -> existsb f l = existsb g l.
Proof. intros E. induction l as [|x r IH]; [reflexivity|]. cbn [existsb]. rewrite E, IH. reflexivity. Qed.
Lemma upd_pool_spec p nfs txs : upd_pool p nfs txs = spec_tracked_after p nfs txs.
Proof.
  unfold upd_pool, spec_tracked_after. f_equal. apply filter_ext. intros e. f_equal.
  unfold spent_nfs, spent_in. rewrite existsb_flat_map. apply existsb_ext_eq. intros wt.
  rewrite existsb_map. apply existsb_ext_eq. intros s. apply N.eqb_sym.
Qed.

Lemma wf_case_prior c prior keys nfs b o alts : wf_case (Scan c prior keys nfs b o alts) = true -> prior_ok prior.
Proof.
  cbn [wf_case]. intros H. apply andb_prop in H. destruct H as [H _]. apply andb_prop in H. destruct H as [_ H].
  destruct prior as [pm|]; [|exact I]. cbn [wf_prior] in H. repeat (apply andb_prop in H; destruct H as [H ?]).
  cbn [prior_ok]. unfold U32. lia.
Qed.

(** A well-formed case outside the known-finding classes, on which the implementation agrees
    with the model and no batched run disagreed, satisfies the property checker. *)
Theorem bridge : forall x,
  wf_case x = true -> known_class x = 0 -> case_alts x = [] -> run_case x = true -> prop_case x = true.
Proof.
  intros [c prior keys nfs b o alts | nfs txs after] W K A R.
  2:{ cbn [run_case] in R. apply nfset_eqb_spec in R. subst after. cbn [prop_case].
      apply forallb_forall. intros p _. apply nfl_eqb_spec.
      rewrite <- upd_pool_spec. destruct p; reflexivity. }
  cbn [case_alts] in A. subst alts.
  pose proof (wf_case_prior _ _ _ _ _ _ _ W) as PO.
  cbn [run_case] in R. apply res_eqb_spec in R. unfold scan_block_truth in R.
  cbn [prop_case]. rewrite andb_true_r. unfold check_scan.
  destruct (scan_correct (dec_truth c (b_height b)) nf_truth c prior keys nfs b PO) as [OKC ERRC].
  destruct o as [r|e|].
  - apply OKC in R. destruct R as [AC ->]. rewrite AC. cbn [andb]. apply scanned_eqb_spec. reflexivity.
  - rewrite (ERRC e R). reflexivity.
  - (* a panic outside the known classes is impossible *)
    exfalso. revert R. apply scan_total.
    cbn [known_class saw_panic existsb orb andb negb] in K.
    cbn [wf_case] in W. apply andb_prop in W. destruct W as [_ WB]. unfold wf_block in WB.
    repeat (apply andb_prop in WB; destruct WB as [WB ?]).
    destruct (4294967296 <=? b_height b) eqn:HB; [discriminate|].
    destruct (match b_hdr b with Some _ => false | None => negb (flen (b_hash b) =? 32) end) eqn:HH; [discriminate|].
    destruct (existsb (fun t => negb (flen (x_txid t) =? 32)) (b_vtx b)) eqn:TX; [discriminate|].
    unfold no_panic_guard. repeat split.
    + unfold U32. lia.
    + destruct (b_hdr b); [left; discriminate | right; lia].
    + intros t I. destruct (flen (x_txid t) =? 32) eqn:L; [lia|]. exfalso.
      assert (existsb (fun t => negb (flen (x_txid t) =? 32)) (b_vtx b) = true)
        by (apply existsb_exists; exists t; rewrite L; auto). congruence.
    + intros p. rewrite forallb_forall in H. assert (I : In p pools) by (destruct p; cbn; auto).
      specialize (H p I). unfold u32b in H. unfold U32. lia.
Qed.
