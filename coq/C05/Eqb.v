(** C05 — soundness and completeness of the comparison functions used by [run_case] and
    [prop_case]: [eqb x y = true <-> x = y]. *)
From V.Lib Require Import Base.
From V.C05 Require Import Model Spec Corr.
Local Open Scope N_scope.

Lemma pair_eqb_spec {A B} (ea : A -> A -> bool) (eb : B -> B -> bool) :
  (forall a b, ea a b = true <-> a = b) -> (forall a b, eb a b = true <-> a = b) ->
  forall x y, pair_eqb ea eb x y = true <-> x = y.
Proof.
  intros HA HB [a b] [a' b']. unfold pair_eqb. cbn [fst snd]. rewrite andb_true_iff, HA, HB.
  split; [intros [-> ->]; reflexivity | intros E; inversion E; auto].
Qed.
Lemma bool_eqb_spec a b : Bool.eqb a b = true <-> a = b.
Proof. destruct a, b; cbn; split; congruence. Qed.
Lemma pool_eqb_spec a b : pool_eqb a b = true <-> a = b.
Proof. destruct a, b; cbn; split; congruence. Qed.
Lemma oN_eqb_spec a b : oN_eqb a b = true <-> a = b.
Proof. apply option_eqb_spec. exact N.eqb_eq. Qed.

Ltac eqb_solve :=
  repeat rewrite andb_true_iff;
  repeat match goal with
         | |- context [N.eqb ?a ?b = true] => rewrite (N.eqb_eq a b)
         | |- context [Bool.eqb ?a ?b = true] => rewrite (bool_eqb_spec a b)
         | |- context [pool_eqb ?a ?b = true] => rewrite (pool_eqb_spec a b)
         | |- context [oN_eqb ?a ?b = true] => rewrite (oN_eqb_spec a b)
         end.

Lemma ret_eqb_spec a b : ret_eqb a b = true <-> a = b.
Proof.
  destruct a, b; cbn; try (split; congruence). eqb_solve.
  split; [intros [-> ->]; reflexivity | intros E; inversion E; auto].
Qed.
Lemma wout_eqb_spec a b : wout_eqb a b = true <-> a = b.
Proof.
  destruct a as [a1 a2 a3 a4 a5 a6 a7 a8 a9], b as [b1 b2 b3 b4 b5 b6 b7 b8 b9]. unfold wout_eqb. cbn [w_index w_epk w_value w_change w_pos w_nf w_acct w_scope w_cmx].
  eqb_solve. split.
  - intros ((((((((-> & ->) & ->) & ->) & ->) & ->) & ->) & ->) & ->). reflexivity.
  - intros E; inversion E; subst. repeat split.
Qed.
Lemma wspend_eqb_spec a b : wspend_eqb a b = true <-> a = b.
Proof.
  destruct a as [[a1 a2] a3], b as [[b1 b2] b3]. unfold wspend_eqb. cbn [fst snd]. eqb_solve.
  split; [intros [[-> ->] ->]; reflexivity | intros E; inversion E; auto].
Qed.
Lemma wtx_eqb_spec a b : wtx_eqb a b = true <-> a = b.
Proof.
  destruct a as [a1 a2 a3 a4 a5 a6 a7 a8], b as [b1 b2 b3 b4 b5 b6 b7 b8]. unfold wtx_eqb. cbn [wt_txid wt_index wt_ss wt_so wt_os wt_oo wt_is wt_io].
  repeat rewrite andb_true_iff.
  rewrite !(list_eqb_spec _ wspend_eqb_spec), !(list_eqb_spec _ wout_eqb_spec), !N.eqb_eq.
  split.
  - intros (((((((-> & ->) & ->) & ->) & ->) & ->) & ->) & ->). reflexivity.
  - intros E; inversion E; subst. repeat split.
Qed.
Lemma nfmap_eqb_spec (x y : N * N * list N) :
  (fst (fst x) =? fst (fst y)) && (snd (fst x) =? snd (fst y)) && list_eqb N.eqb (snd x) (snd y) = true <-> x = y.
Proof.
  destruct x as [[a b] l], y as [[a' b'] l']. cbn [fst snd]. repeat rewrite andb_true_iff.
  rewrite (list_eqb_spec _ N.eqb_eq), !N.eqb_eq.
  split; [intros [[-> ->] ->]; reflexivity | intros E; inversion E; auto].
Qed.
Lemma bundles_eqb_spec a b : bundles_eqb a b = true <-> a = b.
Proof.
  destruct a as [a1 a2 a3], b as [b1 b2 b3]. unfold bundles_eqb. cbn [bn_final bn_comm bn_nfmap]. repeat rewrite andb_true_iff.
  rewrite (list_eqb_spec _ (pair_eqb_spec _ _ N.eqb_eq ret_eqb_spec)), (list_eqb_spec _ nfmap_eqb_spec), N.eqb_eq.
  split; [intros [[-> ->] ->]; reflexivity | intros E; inversion E; auto].
Qed.
Lemma scanned_eqb_spec a b : scanned_eqb a b = true <-> a = b.
Proof.
  destruct a as [a1 a2 a3 a4 a5 a6 a7], b as [b1 b2 b3 b4 b5 b6 b7]. unfold scanned_eqb. cbn [s_height s_hash s_time s_txs s_sap s_orch s_iw].
  repeat rewrite andb_true_iff.
  rewrite (list_eqb_spec _ wtx_eqb_spec), !bundles_eqb_spec, !N.eqb_eq.
  split.
  - intros ((((((-> & ->) & ->) & ->) & ->) & ->) & ->). reflexivity.
  - intros E; inversion E; subst. repeat split.
Qed.
Lemma serr_eqb_spec a b : serr_eqb a b = true <-> a = b.
Proof.
  destruct a, b; cbn [serr_eqb]; try (split; congruence); eqb_solve;
    (split; [intros H; repeat match goal with H : _ /\ _ |- _ => destruct H end; subst; reflexivity
            | intros E; inversion E; subst; repeat split]).
Qed.
Lemma res_eqb_spec a b : res_eqb a b = true <-> a = b.
Proof.
  unfold res_eqb. destruct a, b; cbn [outcome_eqb]; try (split; congruence).
  - rewrite scanned_eqb_spec. split; congruence.
  - rewrite serr_eqb_spec. split; congruence.
Qed.

Lemma nfl_eqb_spec a b : nfl_eqb a b = true <-> a = b.
Proof. apply list_eqb_spec. apply pair_eqb_spec; exact N.eqb_eq. Qed.
Lemma nfset_eqb_spec a b : nfset_eqb a b = true <-> a = b.
Proof.
  destruct a as [a1 a2 a3], b as [b1 b2 b3]. unfold nfset_eqb. cbn [n_s n_o n_i].
  rewrite !andb_true_iff, !nfl_eqb_spec.
  split; [intros [[-> ->] ->]; reflexivity | intros E; inversion E; auto].
Qed.
