(** C05 — lemmas about the model, for arbitrary decryption / nullifier oracles. *)
From V.Lib Require Import Base.
From V.C05 Require Import Model Spec.
From Coq Require Import ZifyBool.
Local Open Scope N_scope.

(** ---- the result monad ---- *)
Lemma bind_ok {A B} (a : res A) (f : A -> res B) y :
  bind a f = Ok y -> exists x, a = Ok x /\ f x = Ok y.
Proof. destruct a; cbn; intros H; try discriminate. eauto. Qed.
Lemma bind_nopanic {A B} (a : res A) (f : A -> res B) :
  a <> Panic -> (forall x, a = Ok x -> f x <> Panic) -> bind a f <> Panic.
Proof. destruct a; cbn; intros H1 H2; [apply H2; reflexivity | discriminate | congruence]. Qed.

Ltac inv_bind H :=
  let x := fresh "x" in let E := fresh "E" in
  apply bind_ok in H; destruct H as (x & E & H).

Lemma len_app {A} (a b : list A) : len (a ++ b) = len a + len b.
Proof. unfold len. rewrite app_length. lia. Qed.
Lemma len_cons {A} (x : A) l : len (x :: l) = 1 + len l.
Proof. unfold len. cbn [length]. lia. Qed.
Lemma len_nil {A} : len (@nil A) = 0.
Proof. reflexivity. Qed.

Lemma cnt_app p a b : cnt p (a ++ b) = cnt p a + cnt p b.
Proof. unfold cnt. rewrite flat_map_app. apply len_app. Qed.
Lemma cnt_cons p t r : cnt p (t :: r) = len (outs_of p t) + cnt p r.
Proof. unfold cnt. cbn [flat_map]. apply len_app. Qed.

Section Proofs.
Variable dec : pool -> key -> cout -> option note.
Variable nf_of : pool -> key -> note -> N -> option N.

Notation find_key := (find_key dec).
Notation find_received := (find_received dec nf_of).
Notation scan_tx := (scan_tx dec nf_of).
Notation scan_txs := (scan_txs dec nf_of).
Notation scan_block := (scan_block dec nf_of).
Notation recv_of := (recv_of dec nf_of).

(** ---- find_key ---- *)
Lemma find_key_some p keys o k n :
  find_key p keys o = Some (k, n) ->
  exists k1 k2, keys = k1 ++ k :: k2 /\ dec p k o = Some n /\ (forall k', In k' k1 -> dec p k' o = None).
Proof.
  induction keys as [|a r IH]; cbn; [discriminate|].
  destruct (dec p a o) eqn:D.
  - intros H; inversion H; subst. exists [], r. repeat split; auto. intros ? [].
  - intros H. destruct (IH H) as (k1 & k2 & -> & D' & F).
    exists (a :: k1), k2. repeat split; auto. intros k' [<-|I]; auto.
Qed.
Lemma find_key_none p keys o :
  find_key p keys o = None <-> (forall k, In k keys -> dec p k o = None).
Proof.
  induction keys as [|a r IH]; cbn; [split; [intros _ ? [] | reflexivity]|].
  destruct (dec p a o) eqn:D.
  - split; [discriminate | intros H; specialize (H a (or_introl eq_refl)); congruence].
  - rewrite IH. split; [intros H k [<-|I]; auto | intros H k I; auto].
Qed.
(** an output is found iff some scanning key decrypts it *)
Lemma find_key_iff p keys o :
  (exists kn, find_key p keys o = Some kn) <-> (exists k n, In k keys /\ dec p k o = Some n).
Proof.
  split.
  - intros ((k, n) & H). destruct (find_key_some _ _ _ _ _ H) as (k1 & k2 & -> & D & _).
    exists k, n. split; [apply in_or_app; right; left; reflexivity | exact D].
  - intros (k & n & I & D). destruct (find_key p keys o) as [kn|] eqn:E; [eauto|].
    rewrite find_key_none in E. rewrite (E k I) in D. discriminate.
Qed.

(** ---- find_received ---- *)
Definition mk_wout p (accts : list N) (base i : N) (o : cout) (k : key) (n : note) : wout :=
  Wo i (fid (o_epk o)) (nt_value n) (existsb (N.eqb (k_acct k)) accts) (base + i)
     (nf_of p k n (base + i)) (k_acct k) (Some (k_scope k)) (fid (o_cmx o)).

Lemma find_received_cons p h last base keys accts i o r :
  find_received p h last base keys accts i (o :: r) =
  (match find_key p keys o with
   | Some (k, n) => mk_wout p accts base i o k n :: fst (find_received p h last base keys accts (i + 1) r)
   | None => fst (find_received p h last base keys accts (i + 1) r)
   end,
   (fid (o_cmx o),
    match find_key p keys o, (match r with [] => true | _ => false end) && last with
    | Some _, true => Ck h true
    | None, true => Ck h false
    | Some _, false => Mk
    | None, false => Eph
    end) :: snd (find_received p h last base keys accts (i + 1) r)).
Proof.
  cbn [Model.find_received]. destruct (find_received p h last base keys accts (i + 1) r) as [ws cs].
  cbn [fst snd]. unfold mk_wout. destruct (find_key p keys o) as [[k n]|]; reflexivity.
Qed.

Lemma find_received_comm p h last base keys accts : forall outs i,
  map fst (snd (find_received p h last base keys accts i outs)) = map (fun o => fid (o_cmx o)) outs.
Proof.
  induction outs as [|o r IH]; intros i; [reflexivity|].
  rewrite find_received_cons. cbn [snd map fst]. f_equal. apply IH.
Qed.

Definition ret_marked (r : retention) : bool := match r with Mk | Ck _ true => true | _ => false end.
Definition ret_ck (r : retention) : bool := match r with Ck _ _ => true | _ => false end.
Definition found p keys (o : cout) : bool := match find_key p keys o with Some _ => true | None => false end.

Lemma find_received_marked p h last base keys accts : forall outs i,
  map (fun c => ret_marked (snd c)) (snd (find_received p h last base keys accts i outs)) = map (found p keys) outs.
Proof.
  induction outs as [|o r IH]; intros i; [reflexivity|].
  rewrite find_received_cons. cbn [snd map]. f_equal; [|apply IH].
  unfold found. destruct (find_key p keys o), ((match r with [] => true | _ => false end) && last); reflexivity.
Qed.

(** checkpoint retention: only on the last output of the transaction, and only when [last] *)
Lemma find_received_ck p h last base keys accts : forall outs i,
  map (fun c => ret_ck (snd c)) (snd (find_received p h last base keys accts i outs))
  = match outs with [] => [] | _ => repeat false (length outs - 1) ++ [last] end.
Proof.
  induction outs as [|o r IH]; intros i; [reflexivity|].
  rewrite find_received_cons. cbn [snd map]. rewrite IH.
  destruct r as [|o' r'].
  - cbn. destruct (find_key p keys o), last; reflexivity.
  - cbn [length Nat.sub]. rewrite Nat.sub_0_r. cbn [andb].
    replace (S (length r')) with (S (length r' - 0)) by lia.
    cbn [repeat app]. rewrite Nat.sub_0_r.
    destruct (find_key p keys o); cbn [ret_ck]; reflexivity.
Qed.

Lemma find_received_complete p h last base keys accts : forall outs i o1 o o2 k n,
  outs = o1 ++ o :: o2 -> find_key p keys o = Some (k, n) ->
  In (mk_wout p accts base (i + len o1) o k n) (fst (find_received p h last base keys accts i outs)).
Proof.
  induction outs as [|a r IH]; intros i o1 o o2 k n E F.
  - destruct o1; discriminate.
  - rewrite find_received_cons. cbn [fst]. destruct o1 as [|b o1'].
    + cbn in E. inversion E; subst. rewrite F. left. rewrite len_nil, N.add_0_r. reflexivity.
    + cbn in E. inversion E; subst.
      assert (I : In (mk_wout p accts base (i + 1 + len o1') o k n)
                     (fst (find_received p h last base keys accts (i + 1) (o1' ++ o :: o2))))
        by (eapply IH; eauto).
      rewrite len_cons. replace (i + (1 + len o1')) with (i + 1 + len o1') by lia.
      destruct (find_key p keys b) as [[k' n']|]; [right|]; exact I.
Qed.

Lemma find_received_sound p h last base keys accts : forall outs i w,
  In w (fst (find_received p h last base keys accts i outs)) ->
  exists o1 o o2 k n, outs = o1 ++ o :: o2 /\ find_key p keys o = Some (k, n)
                      /\ w = mk_wout p accts base (i + len o1) o k n.
Proof.
  induction outs as [|a r IH]; intros i w I.
  - destruct I.
  - rewrite find_received_cons in I. cbn [fst] in I.
    assert (T : In w (fst (find_received p h last base keys accts (i + 1) r)) ->
                exists o1 o o2 k n, a :: r = o1 ++ o :: o2 /\ find_key p keys o = Some (k, n)
                                    /\ w = mk_wout p accts base (i + len o1) o k n).
    { intros I'. destruct (IH _ _ I') as (o1 & o & o2 & k & n & -> & F & ->).
      exists (a :: o1), o, o2, k, n. repeat split; auto.
      rewrite len_cons. f_equal; lia. }
    destruct (find_key p keys a) as [[k n]|] eqn:F; [destruct I as [<-|I]|]; auto.
    exists [], a, r, k, n. repeat split; auto. rewrite len_nil, N.add_0_r. reflexivity.
Qed.

Lemma find_received_nonempty p h last base keys accts outs i :
  (exists o, In o outs /\ found p keys o = true) ->
  fst (find_received p h last base keys accts i outs) <> [].
Proof.
  intros (o & I & F). unfold found in F. destruct (find_key p keys o) as [[k n]|] eqn:E; [|discriminate].
  apply in_split in I. destruct I as (o1 & o2 & ->).
  intros Z. pose proof (find_received_complete p h last base keys accts _ i o1 o o2 k n eq_refl E) as C.
  rewrite Z in C. destruct C.
Qed.

(** ---- find_spent ---- *)
Lemma first_match_some nf tr a : first_match nf tr = Some a ->
  exists t1 t2, tr = t1 ++ (a, nf) :: t2 /\ (forall a', ~ In (a', nf) t1).
Proof.
  unfold first_match. induction tr as [|e r IH]; cbn; [discriminate|].
  destruct e as [a0 n0]. cbn [snd fst]. destruct (n0 =? nf) eqn:E.
  - intros H; inversion H; subst. apply N.eqb_eq in E; subst. exists [], r. split; auto.
  - intros H. destruct (IH H) as (t1 & t2 & -> & NI). exists ((a0, n0) :: t1), t2. split; auto.
    intros a' [X|X]; [inversion X; subst; rewrite N.eqb_refl in E; discriminate | eapply NI; eauto].
Qed.
Lemma first_match_none nf tr : first_match nf tr = None <-> (forall a, ~ In (a, nf) tr).
Proof.
  unfold first_match. induction tr as [|e r IH]; cbn; [split; auto|].
  destruct e as [a0 n0]. cbn [snd fst]. destruct (n0 =? nf) eqn:E.
  - apply N.eqb_eq in E; subst. split; [discriminate | intros H; exfalso; apply (H a0); left; reflexivity].
  - rewrite IH. split.
    + intros H a [X|X]; [inversion X; subst; rewrite N.eqb_refl in E; discriminate | eapply H; eauto].
    + intros H a I. apply (H a). right; exact I.
Qed.

Lemma find_spent_cons i nf r tr :
  find_spent i (nf :: r) tr =
  match first_match nf tr with
  | Some a => ((i, nf, a) :: fst (find_spent (i + 1) r tr), snd (find_spent (i + 1) r tr))
  | None => (fst (find_spent (i + 1) r tr), nf :: snd (find_spent (i + 1) r tr))
  end.
Proof.
  cbn [find_spent]. destruct (find_spent (i + 1) r tr). destruct (first_match nf tr); reflexivity.
Qed.

Lemma find_spent_complete tr : forall nfs i n1 nf n2 a,
  nfs = n1 ++ nf :: n2 -> first_match nf tr = Some a -> In (i + len n1, nf, a) (fst (find_spent i nfs tr)).
Proof.
  induction nfs as [|x r IH]; intros i n1 nf n2 a E F; [destruct n1; discriminate|].
  rewrite find_spent_cons. destruct n1 as [|y n1'].
  - cbn in E; inversion E; subst. rewrite F. left. rewrite len_nil, N.add_0_r. reflexivity.
  - cbn in E; inversion E; subst.
    assert (I : In (i + 1 + len n1', nf, a) (fst (find_spent (i + 1) (n1' ++ nf :: n2) tr))) by (eapply IH; eauto).
    rewrite len_cons. replace (i + (1 + len n1')) with (i + 1 + len n1') by lia.
    destruct (first_match y tr); cbn [fst]; [right|]; exact I.
Qed.
Lemma find_spent_sound tr : forall nfs i s,
  In s (fst (find_spent i nfs tr)) ->
  exists n1 nf n2 a, nfs = n1 ++ nf :: n2 /\ first_match nf tr = Some a /\ s = (i + len n1, nf, a).
Proof.
  induction nfs as [|x r IH]; intros i s I; [destruct I|].
  rewrite find_spent_cons in I.
  assert (T : In s (fst (find_spent (i + 1) r tr)) ->
              exists n1 nf n2 a, x :: r = n1 ++ nf :: n2 /\ first_match nf tr = Some a /\ s = (i + len n1, nf, a)).
  { intros I'. destruct (IH _ _ I') as (n1 & nf & n2 & a & -> & F & ->).
    exists (x :: n1), nf, n2, a. repeat split; auto. rewrite len_cons. replace (i + (1 + len n1)) with (i + 1 + len n1) by lia. reflexivity. }
  destruct (first_match x tr) as [a|] eqn:F; cbn [fst] in I; [destruct I as [<-|I]|]; auto.
  exists [], x, r, a. repeat split; auto. rewrite len_nil, N.add_0_r. reflexivity.
Qed.
(** the unlinked nullifiers are exactly the untracked ones, in order *)
Lemma find_spent_unlinked tr : forall nfs i,
  snd (find_spent i nfs tr) = filter (fun nf => match first_match nf tr with Some _ => false | None => true end) nfs.
Proof.
  induction nfs as [|x r IH]; intros i; [reflexivity|].
  rewrite find_spent_cons. cbn [filter]. destruct (first_match x tr); cbn [snd]; rewrite IH; reflexivity.
Qed.

Lemma collect_nfs_ok ok mk : forall l i ids, collect_nfs ok mk i l = Ok ids -> ids = map fid l /\ forallb ok l = true.
Proof.
  induction l as [|f r IH]; intros i ids H; cbn in H.
  - inversion H; auto.
  - cbn [forallb map]. destruct (ok f); [|discriminate]. inv_bind H. inversion H; subst.
    destruct (IH _ _ E) as [-> ->]. auto.
Qed.
Lemma collect_nfs_nopanic ok mk : forall l i, collect_nfs ok mk i l <> Panic.
Proof.
  induction l as [|f r IH]; intros i; cbn; [discriminate|].
  destruct (ok f); [|discriminate]. apply bind_nopanic; [apply IH | intros; discriminate].
Qed.
Lemma check_outs_ok ok mk : forall l i, check_outs ok mk i l = Ok tt -> forallb ok l = true.
Proof.
  induction l as [|o r IH]; intros i H; cbn in *; [reflexivity|].
  destruct (ok o); [|discriminate]. cbn. eauto.
Qed.
Lemma check_outs_nopanic ok mk : forall l i, check_outs ok mk i l <> Panic.
Proof. induction l as [|o r IH]; intros i; cbn; [discriminate|]. destruct (ok o); [apply IH|discriminate]. Qed.

(** ---- one transaction ---- *)
Definition wtx_accounts (w : wtx) : list N := map snd (wt_ss w ++ wt_os w ++ wt_is w).

Lemma scan_tx_inv h keys nfs fin pos t x :
  scan_tx h keys nfs fin pos t = Ok x ->
  flen (x_txid t) = 32 /\ x_index t < U16 /\
  wt_txid (tr_wtx x) = fid (x_txid t) /\ wt_index (tr_wtx x) = x_index t /\
  (forall p, wt_sp p (tr_wtx x) = fst (find_spent 0 (map fid (spend_flds p t)) (tracked p nfs))
             /\ tr_u x p = snd (find_spent 0 (map fid (spend_flds p t)) (tracked p nfs))
             /\ forallb (nf_ok p) (spend_flds p t) = true
             /\ forallb (out_ok p) (outs_of p t) = true
             /\ (wt_out p (tr_wtx x), tr_c x p) =
                find_received p h (pos p + len (outs_of p t) =? fin p) (pos p) keys (wtx_accounts (tr_wtx x)) 0 (outs_of p t)).
Proof.
  unfold Model.scan_tx, txid_of. intros H.
  inv_bind H. destruct (flen (x_txid t) =? 32) eqn:L; [|discriminate]. inversion E; subst x0; clear E.
  inv_bind H. destruct (x_index t <? U16) eqn:I; [|discriminate]. inversion E; subst x0; clear E.
  unfold spends_of in H.
  inv_bind H. inv_bind E. inversion E; subst x0; clear E. apply collect_nfs_ok in E0. destruct E0 as [-> S1].
  inv_bind H. inv_bind E. inversion E; subst x0; clear E. apply collect_nfs_ok in E0. destruct E0 as [-> S2].
  inv_bind H. inv_bind E. inversion E; subst x0; clear E. apply collect_nfs_ok in E0. destruct E0 as [-> S3].
  unfold Model.recv_of in H.
  inv_bind H. inv_bind E. inversion E; subst x0; clear E. destruct x1. apply check_outs_ok in E0. rename E0 into R1.
  inv_bind H. inv_bind E. inversion E; subst x0; clear E. destruct x1. apply check_outs_ok in E0. rename E0 into R2.
  inv_bind H. inv_bind E. inversion E; subst x0; clear E. destruct x1. apply check_outs_ok in E0. rename E0 into R3.
  inversion H; subst x; clear H. cbn [tr_wtx tr_c tr_u wt_txid wt_index].
  split; [lia|]. split; [lia|]. split; [reflexivity|]. split; [reflexivity|].
  unfold wtx_accounts. cbn [wt_ss wt_os wt_is].
  intros [| |]; cbn [wt_sp wt_out by_pool wt_ss wt_so wt_os wt_oo wt_is wt_io];
    (repeat split; auto; symmetry; apply surjective_pairing).
Qed.

(** ---- the transaction loop ---- *)
Fixpoint adv (pos : pool -> N) (pre : list ctx) : pool -> N :=
  match pre with [] => pos | t :: r => adv (advance pos t) r end.
Lemma adv_val : forall pre pos p, adv pos pre p = pos p + cnt p pre.
Proof.
  induction pre as [|t r IH]; intros pos p; cbn [adv].
  - unfold cnt, len. cbn. lia.
  - rewrite IH, cnt_cons. unfold advance. lia.
Qed.

Lemma scan_txs_split h keys nfs fin : forall pre pos t post l,
  scan_txs h keys nfs fin pos (pre ++ t :: post) = Ok l ->
  exists l1 x l2, l = l1 ++ x :: l2 /\ length l1 = length pre
                  /\ scan_tx h keys nfs fin (adv pos pre) t = Ok x.
Proof.
  induction pre as [|a r IH]; intros pos t post l H; cbn [app Model.scan_txs] in H.
  - inv_bind H. inv_bind H. inversion H; subst. exists [], x, x0. auto.
  - inv_bind H. inv_bind H. inversion H; subst.
    destruct (IH _ _ _ _ E0) as (l1 & y & l2 & -> & L & S).
    exists (x :: l1), y, l2. cbn [adv length app]. auto.
Qed.
Lemma scan_txs_length h keys nfs fin : forall vtx pos l,
  scan_txs h keys nfs fin pos vtx = Ok l -> length l = length vtx.
Proof.
  induction vtx as [|a r IH]; intros pos l H; cbn in H; [inversion H; reflexivity|].
  inv_bind H. inv_bind H. inversion H; subst. cbn. f_equal. eauto.
Qed.
(** conversely every result element comes from a transaction *)
Lemma scan_txs_elem h keys nfs fin : forall vtx pos l x,
  scan_txs h keys nfs fin pos vtx = Ok l -> In x l ->
  exists pre t post, vtx = pre ++ t :: post /\ scan_tx h keys nfs fin (adv pos pre) t = Ok x.
Proof.
  induction vtx as [|a r IH]; intros pos l x H I; cbn in H; [inversion H; subst; destruct I|].
  inv_bind H. inv_bind H. inversion H; subst. destruct I as [<-|I].
  - exists [], a, r. auto.
  - destruct (IH _ _ _ E0 I) as (pre & t & post & -> & S). exists (a :: pre), t, post. auto.
Qed.
(** commitments in block order *)
Lemma scan_txs_comm h keys nfs fin p : forall vtx pos l,
  scan_txs h keys nfs fin pos vtx = Ok l ->
  map fst (flat_map (fun x => tr_c x p) l) = map (fun o => fid (o_cmx o)) (flat_map (outs_of p) vtx)
  /\ map (fun c => ret_marked (snd c)) (flat_map (fun x => tr_c x p) l) = map (found p keys) (flat_map (outs_of p) vtx).
Proof.
  induction vtx as [|a r IH]; intros pos l H; cbn in H; [inversion H; subst; split; reflexivity|].
  inv_bind H. inv_bind H. inversion H; subst. cbn [flat_map]. rewrite !map_app.
  destruct (IH _ _ E0) as [I1 I2]. rewrite I1, I2.
  apply scan_tx_inv in E. destruct E as (_ & _ & _ & _ & A). destruct (A p) as (_ & _ & _ & _ & R).
  apply (f_equal snd) in R. cbn [snd] in R. rewrite R.
  rewrite find_received_comm, find_received_marked. split; reflexivity.
Qed.
Lemma scan_txs_nfmap h keys nfs fin p : forall vtx pos l,
  scan_txs h keys nfs fin pos vtx = Ok l ->
  map (fun x => (wt_index (tr_wtx x), wt_txid (tr_wtx x), tr_u x p)) l
  = map (fun t => (x_index t, fid (x_txid t),
                   filter (fun nf => match first_match nf (tracked p nfs) with Some _ => false | None => true end)
                          (map fid (spend_flds p t)))) vtx.
Proof.
  induction vtx as [|a r IH]; intros pos l H; cbn in H; [inversion H; subst; reflexivity|].
  inv_bind H. inv_bind H. inversion H; subst. cbn [map]. rewrite (IH _ _ E0). f_equal.
  apply scan_tx_inv in E. destruct E as (_ & _ & T & I & A). destruct (A p) as (_ & U & _).
  rewrite T, I, U, find_spent_unlinked. reflexivity.
Qed.

(** checkpoint retention lands on exactly the last commitment of the block *)
Definition ck_shape (n : nat) : list bool := match n with 0%nat => [] | S m => repeat false m ++ [true] end.
Lemma ck_shape_app_nil a : ck_shape a = ck_shape (a + 0).
Proof. rewrite Nat.add_0_r. reflexivity. Qed.
Lemma repeat_false_ck a b : b <> 0%nat -> repeat false a ++ ck_shape b = ck_shape (a + b).
Proof.
  intros B. destruct b as [|m]; [congruence|]. cbn [ck_shape].
  replace (a + S m)%nat with (S (a + m)) by lia. cbn [ck_shape]. rewrite repeat_app, app_assoc. reflexivity.
Qed.
Lemma len_zero_nil {A} (l : list A) : len l = 0 -> l = [].
Proof. destruct l; [reflexivity|]. unfold len. cbn [length]. lia. Qed.

Lemma scan_txs_ck h keys nfs fin p : forall vtx pos l,
  scan_txs h keys nfs fin pos vtx = Ok l -> fin p = pos p + cnt p vtx ->
  map (fun c => ret_ck (snd c)) (flat_map (fun x => tr_c x p) l) = ck_shape (length (flat_map (outs_of p) vtx)).
Proof.
  induction vtx as [|a r IH]; intros pos l H F; cbn in H; [inversion H; subst; reflexivity|].
  inv_bind H. inv_bind H. inversion H; subst. cbn [flat_map]. rewrite map_app, app_length.
  rewrite cnt_cons in F.
  assert (F' : fin p = advance pos a p + cnt p r) by (unfold advance; lia).
  rewrite (IH _ _ E0 F').
  apply scan_tx_inv in E. destruct E as (_ & _ & _ & _ & A). destruct (A p) as (_ & _ & _ & _ & R).
  apply (f_equal snd) in R. cbn [snd] in R. rewrite R, find_received_ck.
  destruct (N.eq_dec (cnt p r) 0) as [Z|NZ].
  - replace (pos p + len (outs_of p a) =? fin p) with true by lia.
    unfold cnt in Z. apply len_zero_nil in Z. rewrite Z. cbn [length ck_shape]. rewrite app_nil_r, Nat.add_0_r.
    destruct (outs_of p a) as [|o os]; [reflexivity|]. cbn [length ck_shape Nat.sub]. rewrite ?Nat.sub_0_r. reflexivity.
  - replace (pos p + len (outs_of p a) =? fin p) with false by lia.
    assert (NZ' : length (flat_map (outs_of p) r) <> 0%nat).
    { intros Z. apply NZ. unfold cnt, len. rewrite Z. reflexivity. }
    destruct (outs_of p a) as [|o os]; [reflexivity|]. cbn [length Nat.sub]. rewrite ?Nat.sub_0_r.
    replace (repeat false (length os) ++ [false]) with (repeat false (S (length os))).
    + apply repeat_false_ck; assumption.
    + replace (S (length os)) with (length os + 1)%nat by lia. rewrite repeat_app. reflexivity.
Qed.

Lemma scan_tx_nopanic h keys nfs fin pos t : flen (x_txid t) = 32 -> scan_tx h keys nfs fin pos t <> Panic.
Proof.
  intros L. unfold Model.scan_tx, txid_of. rewrite L. cbn [N.eqb Pos.eqb bind].
  destruct (x_index t <? U16); cbn [bind]; [|discriminate].
  unfold spends_of, Model.recv_of.
  repeat (apply bind_nopanic; [first [ apply bind_nopanic; [apply collect_nfs_nopanic | intros; discriminate]
                                      | apply bind_nopanic; [apply check_outs_nopanic | intros; discriminate] ] | intros ? _]).
  discriminate.
Qed.
Lemma scan_txs_nopanic h keys nfs fin : forall vtx pos,
  (forall t, In t vtx -> flen (x_txid t) = 32) -> scan_txs h keys nfs fin pos vtx <> Panic.
Proof.
  induction vtx as [|a r IH]; intros pos G; cbn; [discriminate|].
  apply bind_nopanic; [apply scan_tx_nopanic; apply G; left; reflexivity|]. intros x _.
  apply bind_nopanic; [apply IH; intros; apply G; right; assumption | intros; discriminate].
Qed.

(** ---- the whole block ---- *)
Lemma tree_sizes_ok c h b prior p s e :
  tree_sizes c h b prior p = Ok (s, e) ->
  h = b_height b -> spec_start c prior b p = Some s /\ e = s + n_outs p b /\ e < U32.
Proof.
  unfold tree_sizes, spec_start, n_outs, all_outs. fold (cnt p (b_vtx b)). intros H ->.
  inv_bind H. destruct (x + cnt p (b_vtx b) <? U32) eqn:B; [|discriminate]. inversion H; subst; clear H.
  split; [|split; [reflexivity | lia]].
  destruct (match prior with Some m => prior_size p m | None => None end); [inversion E; reflexivity|].
  destruct (b_meta b) as [m|].
  - destruct (U32 <=? cnt p (b_vtx b)); [discriminate|].
    destruct (meta_size p m <? cnt p (b_vtx b)) eqn:C; [discriminate|]. inversion E; subst.
    replace (cnt p (b_vtx b) <=? meta_size p m) with true by lia. reflexivity.
  - destruct (activation p c) as [a|]; [|inversion E; reflexivity].
    destruct (b_height b <? a); [inversion E; reflexivity | discriminate].
Qed.

Lemma check_end_ok h b fin : check_end h b fin = Ok tt ->
  forall m, b_meta b = Some m -> forall p, meta_size p m = fin p.
Proof.
  unfold check_end. intros H m M. rewrite M in H.
  destruct (meta_size Sapling m =? fin Sapling) eqn:A; [|discriminate].
  destruct (meta_size Orchard m =? fin Orchard) eqn:B; [|discriminate].
  destruct (meta_size Ironwood m =? fin Ironwood) eqn:C; [|discriminate].
  intros [| |]; lia.
Qed.

Record block_ok (c : params) (prior : option pmeta) (keys : list key) (nfs : nfset) (b : cblock) (r : scanned)
    (start : pool -> N) (l : list txr) : Prop := {
  bo_cont : check_continuity b prior = Ok tt;
  bo_height : b_height b < U32 /\ s_height r = b_height b;
  bo_hash : spec_hash b = Some (s_hash r);
  bo_time : s_time r = b_time b;
  bo_start : forall p, spec_start c prior b p = Some (start p) /\ start p + n_outs p b < U32;
  bo_txs : scan_txs (b_height b) keys nfs (fun p => start p + n_outs p b) start (b_vtx b) = Ok l;
  bo_meta : forall m, b_meta b = Some m -> forall p, meta_size p m = start p + n_outs p b;
  bo_res : s_txs r = filter wtx_nonempty (map tr_wtx l)
           /\ forall p, bundle p r = mk_bundle p (fun p => start p + n_outs p b) l
}.

Lemma scan_txs_ext h keys nfs : forall vtx fin fin' pos pos',
  (forall p, fin p = fin' p) -> (forall p, pos p = pos' p) ->
  scan_txs h keys nfs fin pos vtx = scan_txs h keys nfs fin' pos' vtx.
Proof.
  induction vtx as [|t r IH]; intros fin fin' pos pos' F P; [reflexivity|].
  cbn [Model.scan_txs].
  assert (E : scan_tx h keys nfs fin pos t = scan_tx h keys nfs fin' pos' t).
  { unfold Model.scan_tx, Model.recv_of. rewrite !F, !P. reflexivity. }
  rewrite E. destruct (scan_tx h keys nfs fin' pos' t); cbn [bind]; try reflexivity.
  rewrite (IH fin fin' (advance pos t) (advance pos' t)); auto.
  intros p. unfold advance. rewrite P. reflexivity.
Qed.

Lemma scan_block_inv c prior keys nfs b r :
  scan_block c prior keys nfs b = Ok r -> exists start l, block_ok c prior keys nfs b r start l.
Proof.
  unfold Model.scan_block. intros H.
  inv_bind H. destruct x. rename E into C.
  inv_bind H. unfold block_height in E. destruct (b_height b <? U32) eqn:HB; [|discriminate]. inversion E; subst x; clear E.
  inv_bind H. rename x into hash. rename E into HH.
  inv_bind H. destruct x as [s1 e1]. destruct (tree_sizes_ok _ _ _ _ _ _ _ E eq_refl) as (S1 & -> & B1).
  inv_bind H. destruct x as [s2 e2]. destruct (tree_sizes_ok _ _ _ _ _ _ _ E0 eq_refl) as (S2 & -> & B2).
  inv_bind H. destruct x as [s3 e3]. destruct (tree_sizes_ok _ _ _ _ _ _ _ E1 eq_refl) as (S3 & -> & B3).
  cbn [fst snd] in H.
  inv_bind H. rename x into l. rename E2 into T.
  inv_bind H. destruct x. rename E2 into CE.
  inversion H; subst r; clear H.
  exists (by_pool s1 s2 s3), l.
  assert (FE : forall p, by_pool (s1 + n_outs Sapling b) (s2 + n_outs Orchard b) (s3 + n_outs Ironwood b) p
                         = by_pool s1 s2 s3 p + n_outs p b) by (intros [| |]; reflexivity).
  constructor; cbn [s_height s_hash s_time s_txs].
  - exact C.
  - split; [lia | reflexivity].
  - unfold block_hash in HH. unfold spec_hash, wf32. destruct (b_hdr b); [inversion HH; reflexivity|].
    destruct (flen (b_hash b) =? 32); [inversion HH; reflexivity | discriminate].
  - reflexivity.
  - intros [| |]; cbn [by_pool]; auto.
  - rewrite <- T. apply scan_txs_ext; auto.
  - intros m M p. rewrite (check_end_ok _ _ _ CE m M p). apply FE.
  - split; [reflexivity|]. intros [| |]; cbn [bundle s_sap s_orch s_iw]; unfold mk_bundle; rewrite FE; reflexivity.
Qed.

(** ---- continuity ---- *)
Lemma prev_matches_spec b x : prev_matches b x = true <-> spec_prev b = Some x.
Proof.
  unfold prev_matches, spec_prev, wf32. destruct (b_hdr b) as [hd|].
  - split; [intros H; f_equal; lia | intros H; inversion H; lia].
  - destruct (flen (b_prev b) =? 32); cbn [andb]; [|split; discriminate].
    split; [intros H; f_equal; lia | intros H; inversion H; lia].
Qed.

Lemma continuity_ok b pm :
  check_continuity b (Some pm) = Ok tt -> p_height pm + 1 < U32 ->
  b_height b = p_height pm + 1 /\ spec_prev b = Some (p_hash pm).
Proof.
  unfold check_continuity, block_height, sat_succ. intros H G.
  destruct (b_height b <? U32) eqn:HB; [|discriminate]. cbn [bind] in H.
  replace (p_height pm + 1 <? U32) with true in H by lia.
  destruct (b_height b =? p_height pm + 1) eqn:HE; [|discriminate]. cbn [negb] in H.
  split; [lia|].
  destruct (prev_matches b (p_hash pm)) eqn:PM; [|discriminate]. apply prev_matches_spec; exact PM.
Qed.

Lemma wrong_height_rejected c keys nfs b pm :
  b_height b < U32 -> b_height b <> sat_succ (p_height pm) ->
  scan_block c (Some pm) keys nfs b = Err (BlockHeightDiscontinuity (p_height pm) (b_height b)).
Proof.
  intros HB NE. unfold Model.scan_block, check_continuity, block_height.
  replace (b_height b <? U32) with true by lia. cbn [bind].
  replace (b_height b =? sat_succ (p_height pm)) with false by lia. reflexivity.
Qed.

Lemma wrong_prev_rejected c keys nfs b pm :
  b_height b < U32 -> b_height b = sat_succ (p_height pm) -> spec_prev b <> Some (p_hash pm) ->
  scan_block c (Some pm) keys nfs b = Err (PrevHashMismatch (b_height b)).
Proof.
  intros HB HE NE. unfold Model.scan_block, check_continuity, block_height.
  replace (b_height b <? U32) with true by lia. cbn [bind].
  replace (b_height b =? sat_succ (p_height pm)) with true by lia. cbn [negb].
  destruct (prev_matches b (p_hash pm)) eqn:PM; [apply prev_matches_spec in PM; contradiction | reflexivity].
Qed.

(** inconsistent tree-size metadata is rejected (never accepted) *)
Lemma metadata_consistent c prior keys nfs b r m :
  scan_block c prior keys nfs b = Ok r -> b_meta b = Some m ->
  forall p, meta_size p m = bn_final (bundle p r).
Proof.
  intros H M p. destruct (scan_block_inv _ _ _ _ _ _ H) as (start & l & B).
  destruct (bo_res _ _ _ _ _ _ _ _ B) as [_ R]. rewrite R. cbn [mk_bundle bn_final].
  exact (bo_meta _ _ _ _ _ _ _ _ B m M p).
Qed.

(** ---- no panic ---- *)
Definition no_panic_guard (prior : option pmeta) (b : cblock) : Prop :=
  b_height b < U32
  /\ (b_hdr b <> None \/ flen (b_hash b) = 32)
  /\ (forall t, In t (b_vtx b) -> flen (x_txid t) = 32)
  /\ (forall p, n_outs p b < U32).

Lemma tree_sizes_nopanic c h b prior p : n_outs p b < U32 -> tree_sizes c h b prior p <> Panic.
Proof.
  unfold tree_sizes, n_outs, all_outs. fold (cnt p (b_vtx b)). intros G.
  apply bind_nopanic.
  - destruct (match prior with Some m => prior_size p m | None => None end); [discriminate|].
    destruct (b_meta b) as [m|].
    + replace (U32 <=? cnt p (b_vtx b)) with false by lia.
      destruct (meta_size p m <? cnt p (b_vtx b)); discriminate.
    + destruct (activation p c) as [a|]; [destruct (h <? a)|]; discriminate.
  - intros x _. destruct (x + cnt p (b_vtx b) <? U32); discriminate.
Qed.

Lemma scan_total c prior keys nfs b : no_panic_guard prior b -> scan_block c prior keys nfs b <> Panic.
Proof.
  intros (HB & HH & HT & HN). unfold Model.scan_block.
  apply bind_nopanic.
  - unfold check_continuity. destruct prior as [pm|]; [|discriminate].
    unfold block_height. replace (b_height b <? U32) with true by lia. cbn [bind].
    destruct (negb (b_height b =? sat_succ (p_height pm))); [discriminate|].
    destruct (negb (prev_matches b (p_hash pm))); discriminate.
  - intros _ _. unfold block_height. replace (b_height b <? U32) with true by lia. cbn [bind].
    apply bind_nopanic.
    + unfold block_hash. destruct HH as [X|X].
      * destruct (b_hdr b); [discriminate | congruence].
      * destruct (b_hdr b); [discriminate|]. rewrite X. discriminate.
    + intros hash _.
      apply bind_nopanic; [apply tree_sizes_nopanic; auto | intros s _].
      apply bind_nopanic; [apply tree_sizes_nopanic; auto | intros o _].
      apply bind_nopanic; [apply tree_sizes_nopanic; auto | intros i _].
      apply bind_nopanic; [apply scan_txs_nopanic; auto | intros l _].
      apply bind_nopanic; [|intros; discriminate].
      unfold check_end. destruct (b_meta b); [|discriminate].
      repeat match goal with |- (if ?x then _ else _) <> _ => destruct x; try discriminate end.
Qed.

(** ---- received notes ---- *)
Lemma wtx_nonempty_out p w : wt_out p w <> [] -> wtx_nonempty w = true.
Proof.
  unfold wtx_nonempty. destruct p; cbn [wt_out]; intros H;
    destruct (wt_ss w), (wt_so w), (wt_os w), (wt_oo w), (wt_is w), (wt_io w); try reflexivity; congruence.
Qed.
Lemma wtx_nonempty_sp p w : wt_sp p w <> [] -> wtx_nonempty w = true.
Proof.
  unfold wtx_nonempty. destruct p; cbn [wt_sp]; intros H;
    destruct (wt_ss w), (wt_so w), (wt_os w), (wt_oo w), (wt_is w), (wt_io w); try reflexivity; congruence.
Qed.

Theorem received_complete c prior keys nfs b r :
  scan_block c prior keys nfs b = Ok r ->
  forall p pre t post o1 o o2 k n,
    b_vtx b = pre ++ t :: post -> outs_of p t = o1 ++ o :: o2 -> find_key p keys o = Some (k, n) ->
    exists s wt, spec_start c prior b p = Some s /\ In wt (s_txs r)
      /\ wt_txid wt = fid (x_txid t) /\ wt_index wt = x_index t
      /\ In (mk_wout p (wtx_accounts wt) (s + cnt p pre) (len o1) o k n) (wt_out p wt).
Proof.
  intros H p pre t post o1 o o2 k n V O F.
  destruct (scan_block_inv _ _ _ _ _ _ H) as (start & l & B).
  destruct (bo_start _ _ _ _ _ _ _ _ B p) as [S _].
  pose proof (bo_txs _ _ _ _ _ _ _ _ B) as T. rewrite V in T.
  destruct (scan_txs_split _ _ _ _ _ _ _ _ _ T) as (l1 & x & l2 & -> & _ & X).
  destruct (scan_tx_inv _ _ _ _ _ _ _ X) as (_ & _ & TI & IX & A).
  destruct (A p) as (_ & _ & _ & _ & R). rewrite adv_val in R.
  pose proof (find_received_complete p (b_height b) (start p + cnt p pre + len (outs_of p t) =? start p + n_outs p b)
                (start p + cnt p pre) keys (wtx_accounts (tr_wtx x)) _ 0 o1 o o2 k n O F) as I.
  rewrite <- R in I. cbn [fst] in I. rewrite N.add_0_l in I.
  exists (start p), (tr_wtx x). repeat split; auto.
  destruct (bo_res _ _ _ _ _ _ _ _ B) as [-> _].
  apply filter_In. split.
  - apply in_map. apply in_or_app. right. left. reflexivity.
  - apply (wtx_nonempty_out p). intros Z. rewrite Z in I. destruct I.
Qed.

Theorem received_sound c prior keys nfs b r :
  scan_block c prior keys nfs b = Ok r ->
  forall p wt w, In wt (s_txs r) -> In w (wt_out p wt) ->
    exists s pre t post o1 o o2 k n,
      spec_start c prior b p = Some s /\ b_vtx b = pre ++ t :: post /\ outs_of p t = o1 ++ o :: o2
      /\ find_key p keys o = Some (k, n)
      /\ wt_txid wt = fid (x_txid t) /\ wt_index wt = x_index t
      /\ w = mk_wout p (wtx_accounts wt) (s + cnt p pre) (len o1) o k n.
Proof.
  intros H p wt w IW IO.
  destruct (scan_block_inv _ _ _ _ _ _ H) as (start & l & B).
  destruct (bo_start _ _ _ _ _ _ _ _ B p) as [S _].
  destruct (bo_res _ _ _ _ _ _ _ _ B) as [RT _]. rewrite RT in IW.
  apply filter_In in IW. destruct IW as [IW _]. apply in_map_iff in IW. destruct IW as (x & <- & IX).
  destruct (scan_txs_elem _ _ _ _ _ _ _ _ (bo_txs _ _ _ _ _ _ _ _ B) IX) as (pre & t & post & V & X).
  destruct (scan_tx_inv _ _ _ _ _ _ _ X) as (_ & _ & TI & II & A).
  destruct (A p) as (_ & _ & _ & _ & R). rewrite adv_val in R.
  apply (f_equal fst) in R. cbn [fst] in R. rewrite R in IO.
  destruct (find_received_sound _ _ _ _ _ _ _ _ _ IO) as (o1 & o & o2 & k & n & O & F & ->).
  exists (start p), pre, t, post, o1, o, o2, k, n. rewrite N.add_0_l. repeat split; auto.
Qed.

(** ---- spends ---- *)
Theorem spent_complete c prior keys nfs b r :
  scan_block c prior keys nfs b = Ok r ->
  forall p pre t post n1 f n2 a,
    b_vtx b = pre ++ t :: post -> spend_flds p t = n1 ++ f :: n2 -> first_match (fid f) (tracked p nfs) = Some a ->
    exists wt, In wt (s_txs r) /\ wt_txid wt = fid (x_txid t) /\ wt_index wt = x_index t
               /\ In (len n1, fid f, a) (wt_sp p wt).
Proof.
  intros H p pre t post n1 f n2 a V SP F.
  destruct (scan_block_inv _ _ _ _ _ _ H) as (start & l & B).
  pose proof (bo_txs _ _ _ _ _ _ _ _ B) as T. rewrite V in T.
  destruct (scan_txs_split _ _ _ _ _ _ _ _ _ T) as (l1 & x & l2 & -> & _ & X).
  destruct (scan_tx_inv _ _ _ _ _ _ _ X) as (_ & _ & TI & IX & A).
  destruct (A p) as (S & _).
  assert (I : In (0 + len (map fid n1), fid f, a) (wt_sp p (tr_wtx x))).
  { rewrite S. eapply find_spent_complete; eauto. rewrite SP, map_app. reflexivity. }
  unfold len in I. rewrite map_length in I. rewrite N.add_0_l in I.
  exists (tr_wtx x). repeat split; auto.
  destruct (bo_res _ _ _ _ _ _ _ _ B) as [-> _].
  apply filter_In. split.
  - apply in_map. apply in_or_app. right. left. reflexivity.
  - apply (wtx_nonempty_sp p). intros Z. rewrite Z in I. destruct I.
Qed.

Theorem spent_sound c prior keys nfs b r :
  scan_block c prior keys nfs b = Ok r ->
  forall p wt s, In wt (s_txs r) -> In s (wt_sp p wt) ->
    exists pre t post n1 f n2 a,
      b_vtx b = pre ++ t :: post /\ spend_flds p t = n1 ++ f :: n2
      /\ first_match (fid f) (tracked p nfs) = Some a
      /\ wt_txid wt = fid (x_txid t) /\ wt_index wt = x_index t /\ s = (len n1, fid f, a).
Proof.
  intros H p wt s IW IS.
  destruct (scan_block_inv _ _ _ _ _ _ H) as (start & l & B).
  destruct (bo_res _ _ _ _ _ _ _ _ B) as [RT _]. rewrite RT in IW.
  apply filter_In in IW. destruct IW as [IW _]. apply in_map_iff in IW. destruct IW as (x & <- & IX).
  destruct (scan_txs_elem _ _ _ _ _ _ _ _ (bo_txs _ _ _ _ _ _ _ _ B) IX) as (pre & t & post & V & X).
  destruct (scan_tx_inv _ _ _ _ _ _ _ X) as (_ & _ & TI & II & A).
  destruct (A p) as (S & _). rewrite S in IS.
  destruct (find_spent_sound _ _ _ _ IS) as (m1 & nf & m2 & a & E & F & ->).
  apply map_eq_app in E. destruct E as (n1 & rest & E1 & <- & E2).
  destruct rest as [|f n2]; [discriminate|]. cbn [map] in E2. inversion E2; subst.
  exists pre, t, post, n1, f, n2, a. unfold len. rewrite map_length, N.add_0_l. repeat split; auto.
Qed.

(** ---- commitments and sizes ---- *)
Theorem commitments_complete c prior keys nfs b r :
  scan_block c prior keys nfs b = Ok r ->
  forall p, exists s,
    spec_start c prior b p = Some s
    /\ bn_final (bundle p r) = s + n_outs p b /\ bn_final (bundle p r) < U32
    /\ map fst (bn_comm (bundle p r)) = map (fun o => fid (o_cmx o)) (all_outs p b)
    /\ map (fun x => ret_marked (snd x)) (bn_comm (bundle p r)) = map (found p keys) (all_outs p b)
    /\ map (fun x => ret_ck (snd x)) (bn_comm (bundle p r)) = ck_shape (length (all_outs p b))
    /\ bn_nfmap (bundle p r)
       = map (fun t => (x_index t, fid (x_txid t),
                        filter (fun nf => match first_match nf (tracked p nfs) with Some _ => false | None => true end)
                               (map fid (spend_flds p t)))) (b_vtx b).
Proof.
  intros H p. destruct (scan_block_inv _ _ _ _ _ _ H) as (start & l & B).
  destruct (bo_start _ _ _ _ _ _ _ _ B p) as [S L].
  destruct (bo_res _ _ _ _ _ _ _ _ B) as [_ R]. rewrite R. cbn [mk_bundle bn_final bn_comm bn_nfmap].
  exists (start p). pose proof (bo_txs _ _ _ _ _ _ _ _ B) as T.
  destruct (scan_txs_comm _ _ _ _ p _ _ _ T) as [C1 C2].
  repeat split; auto.
  - apply (scan_txs_ck _ _ _ _ p _ _ _ T). unfold n_outs, all_outs, cnt. reflexivity.
  - apply (scan_txs_nfmap _ _ _ _ p _ _ _ T).
Qed.

Theorem ok_identity c prior keys nfs b r :
  scan_block c prior keys nfs b = Ok r ->
  s_height r = b_height b /\ b_height b < U32 /\ spec_hash b = Some (s_hash r) /\ s_time r = b_time b.
Proof.
  intros H. destruct (scan_block_inv _ _ _ _ _ _ H) as (start & l & B).
  destruct (bo_height _ _ _ _ _ _ _ _ B). repeat split; auto.
  - exact (bo_hash _ _ _ _ _ _ _ _ B).
  - exact (bo_time _ _ _ _ _ _ _ _ B).
Qed.

Theorem ok_connected c pm keys nfs b r :
  scan_block c (Some pm) keys nfs b = Ok r -> p_height pm + 1 < U32 ->
  b_height b = p_height pm + 1 /\ spec_prev b = Some (p_hash pm).
Proof.
  intros H G. destruct (scan_block_inv _ _ _ _ _ _ H) as (start & l & B).
  exact (continuity_ok _ _ (bo_cont _ _ _ _ _ _ _ _ B) G).
Qed.

(** the reported hash and the checked parent come from the SAME encoding: the parsed header if
    there is one, the raw fields otherwise *)
Theorem ok_same_source c pm keys nfs b r :
  scan_block c (Some pm) keys nfs b = Ok r -> p_height pm + 1 < U32 ->
  match b_hdr b with
  | Some hd => s_hash r = fst hd /\ snd hd = p_hash pm
  | None => flen (b_hash b) = 32 /\ s_hash r = fid (b_hash b)
            /\ flen (b_prev b) = 32 /\ fid (b_prev b) = p_hash pm
  end.
Proof.
  intros H G. destruct (ok_identity _ _ _ _ _ _ H) as (_ & _ & HH & _).
  destruct (ok_connected _ _ _ _ _ _ H G) as [_ HP].
  unfold spec_hash, spec_prev, wf32 in *. destruct (b_hdr b) as [hd|].
  - inversion HH; inversion HP; auto.
  - destruct (flen (b_hash b) =? 32) eqn:A; [|discriminate].
    destruct (flen (b_prev b) =? 32) eqn:B; [|discriminate].
    inversion HH; inversion HP. repeat split; auto; lia.
Qed.

(** every transaction of an accepted block has well-formed fields *)
Theorem ok_fields c prior keys nfs b r :
  scan_block c prior keys nfs b = Ok r ->
  forall t, In t (b_vtx b) ->
    flen (x_txid t) = 32 /\ x_index t < U16
    /\ forall p, forallb (nf_ok p) (spend_flds p t) = true /\ forallb (out_ok p) (outs_of p t) = true.
Proof.
  intros H t I. destruct (scan_block_inv _ _ _ _ _ _ H) as (start & l & B).
  apply in_split in I. destruct I as (pre & post & V).
  pose proof (bo_txs _ _ _ _ _ _ _ _ B) as T. rewrite V in T.
  destruct (scan_txs_split _ _ _ _ _ _ _ _ _ T) as (l1 & x & l2 & _ & _ & X).
  destruct (scan_tx_inv _ _ _ _ _ _ _ X) as (L & IX & _ & _ & A).
  repeat split; auto; destruct (A p) as (_ & _ & S & O & _); auto.
Qed.

End Proofs.

(** ---- witnesses: the faithful model still panics on three classes of server-supplied fields
    (documented panics of the CompactBlock / CompactTx accessors), for every oracle ---- *)
Definition empty_nfs := Nfs [] [] [].
Definition cfg1 := Cfg (Some 1) (Some 1) (Some 1) (Some 1).
Definition blk_height_big := Blk 4294967296 (F 32 true 1) (F 32 true 2) 0 None [] None.
Definition blk_hash_short := Blk 10 (F 31 true 1) (F 32 true 2) 0 None [] None.
Definition blk_txid_short := Blk 10 (F 32 true 1) (F 32 true 2) 0 None [Tx 0 (F 31 true 3) [] [] [] []] (Some (0, 0, 0)).
Lemma height_panic_witness dec nf_of : scan_block dec nf_of cfg1 None [] empty_nfs blk_height_big = Panic.
Proof. reflexivity. Qed.
Lemma hash_panic_witness dec nf_of : scan_block dec nf_of cfg1 None [] empty_nfs blk_hash_short = Panic.
Proof. reflexivity. Qed.
Lemma txid_panic_witness dec nf_of : scan_block dec nf_of cfg1 None [] empty_nfs blk_txid_short = Panic.
Proof. reflexivity. Qed.

(** regression witnesses for the three repaired defects (the repaired code returns an error) *)
Definition blk_tx_index := Blk 10 (F 32 true 1) (F 32 true 2) 0 None [Tx 65536 (F 32 true 3) [] [] [] []] (Some (0, 0, 0)).
Definition blk_cmu_short :=
  Blk 10 (F 32 true 1) (F 32 true 2) 0 None
      [Tx 0 (F 32 true 3) [] [O (F 0 false 0) (F 31 false 4) (F 32 true 5) 52 None] [] []] (Some (1, 0, 0)).
Definition blk_one_out :=
  Blk 10 (F 32 true 1) (F 32 true 2) 0 None
      [Tx 0 (F 32 true 3) [] [O (F 0 false 0) (F 32 true 4) (F 32 true 5) 52 None] [] []] None.
Lemma tx_index_fixed dec nf_of :
  scan_block dec nf_of cfg1 None [] empty_nfs blk_tx_index = Err (EncodingInvalid 10 3 Sapling 0).
Proof. reflexivity. Qed.
Lemma cmu_length_fixed dec nf_of :
  scan_block dec nf_of cfg1 None [] empty_nfs blk_cmu_short = Err (EncodingInvalid 10 3 Sapling 0).
Proof. reflexivity. Qed.
Lemma overflow_fixed dec nf_of :
  scan_block dec nf_of cfg1 (Some (Pm 9 2 (Some 4294967295) (Some 0) (Some 0))) [] empty_nfs blk_one_out
  = Err (TreeSizeOverflow Sapling 10).
Proof. reflexivity. Qed.
Lemma prev_hash_fixed dec nf_of :
  scan_block dec nf_of cfg1 (Some (Pm 9 2 (Some 0) (Some 0) (Some 0))) [] empty_nfs
             (Blk 10 (F 32 true 1) (F 31 true 2) 0 None [] None)
  = Err (PrevHashMismatch 10).
Proof. reflexivity. Qed.

Lemma zip212_policy c h :
  zip212_enforcement c h
  = match a_canopy c with
    | None => ZOff
    | Some a => if h <? a then ZOff else if h <? N.min (a + Z.to_N V.Gen.C05Consts.ZIP212_GRACE_PERIOD) (U32 - 1) then ZGrace else ZOn
    end.
Proof. reflexivity. Qed.
Lemma dec_truth_zip212 c h k o n :
  dec_truth c h Sapling k o = Some n ->
  exists t, o_truth o = Some t /\ lead_accepted (zip212_enforcement c h) (t_lead t) = true
            /\ t_acct t = k_acct k /\ t_scope t = k_scope k.
Proof.
  unfold dec_truth. destruct (o_truth o) as [t|]; [|discriminate]. intros H. exists t.
  destruct ((t_acct t =? k_acct k) && (t_scope t =? k_scope k) && lead_accepted (zip212_enforcement c h) (t_lead t)) eqn:E; [|discriminate].
  apply andb_prop in E. destruct E as [E E3]. apply andb_prop in E. destruct E as [E1 E2].
  repeat split; auto; lia.
Qed.
