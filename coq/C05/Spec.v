(** C05 — the property, stated without the scanner's machinery (no running position tracker, no
    accumulators, no order of checks): which blocks must be accepted, and the one result an
    accepted block must produce, in closed form over indices. [check_scan] evaluates it on an
    observed outcome. Only the data types and the by-pool projections of Model.v are used. *)
From V.Lib Require Import Base.
From V.C05 Require Import Model.
Local Open Scope N_scope.

Section Spec.
Variable dec : pool -> key -> cout -> option note.
Variable nf_of : pool -> key -> note -> N -> option N.

Definition pools := [Sapling; Orchard; Ironwood].

(** [(0,x0); (1,x1); ...] *)
Fixpoint indexed_from {A} (i : N) (l : list A) : list (N * A) :=
  match l with [] => [] | x :: r => (i, x) :: indexed_from (i + 1) r end.
Definition indexed {A} (l : list A) := indexed_from 0 l.
Fixpoint filter_map {A B} (f : A -> option B) (l : list A) : list B :=
  match l with [] => [] | x :: r => match f x with Some y => y :: filter_map f r | None => filter_map f r end end.

(** ---- well-formed fields ---- *)
Definition wf32 (f : fld) : bool := flen f =? 32.
Definition wf_elem (f : fld) : bool := wf32 f && fok f.          (* canonical field element *)
Definition wf_output (p : pool) (o : cout) : bool :=
  wf_elem (o_cmx o) && wf32 (o_epk o) && (o_ct o =? 52)
  && match p with Sapling => true | _ => wf_elem (o_nf o) end.
Definition wf_tx (t : ctx) : bool :=
  wf32 (x_txid t) && (x_index t <? 65536) && forallb wf32 (x_spends t)
  && forallb (wf_output Sapling) (x_outs t) && forallb (wf_output Orchard) (x_acts t)
  && forallb (wf_output Ironwood) (x_iw t).

(** ---- identity of the block ---- *)
Definition spec_hash (b : cblock) : option N :=
  match b_hdr b with Some h => Some (fst h) | None => if wf32 (b_hash b) then Some (fid (b_hash b)) else None end.
Definition spec_prev (b : cblock) : option N :=
  match b_hdr b with Some h => Some (snd h) | None => if wf32 (b_prev b) then Some (fid (b_prev b)) else None end.

(** ---- continuity ---- *)
Definition connects (b : cblock) (prior : option pmeta) : bool :=
  match prior with
  | None => true
  | Some pm => (b_height b =? p_height pm + 1)
               && match spec_prev b with Some x => x =? p_hash pm | None => false end
  end.

Definition all_outs (p : pool) (b : cblock) : list cout := flat_map (outs_of p) (b_vtx b).
Definition n_outs (p : pool) (b : cblock) : N := len (all_outs p b).

(** size of the pool's tree before the block, when it is determined *)
Definition spec_start (c : params) (prior : option pmeta) (b : cblock) (p : pool) : option N :=
  match (match prior with Some m => prior_size p m | None => None end) with
  | Some s => Some s
  | None =>
      match b_meta b with
      | Some m => if n_outs p b <=? meta_size p m then Some (meta_size p m - n_outs p b) else None
      | None => match activation p c with
                | None => Some 0
                | Some a => if b_height b <? a then Some 0 else None
                end
      end
  end.
Definition sizes_ok (c : params) (prior : option pmeta) (b : cblock) (p : pool) : bool :=
  match spec_start c prior b p with
  | Some s => (s + n_outs p b <? 4294967296)
              && match b_meta b with Some m => meta_size p m =? s + n_outs p b | None => true end
  | None => false
  end.

(** the blocks that must be accepted; every other block must be rejected with an error *)
Definition acceptable (c : params) (prior : option pmeta) (b : cblock) : bool :=
  (b_height b <? 4294967296)
  && match spec_hash b with Some _ => true | None => false end
  && connects b prior
  && forallb (sizes_ok c prior b) pools
  && forallb wf_tx (b_vtx b).

(** ---- the expected result ---- *)
Definition first_key (p : pool) (keys : list key) (o : cout) : option (key * note) :=
  match find (fun k => match dec p k o with Some _ => true | None => false end) keys with
  | Some k => match dec p k o with Some n => Some (k, n) | None => None end
  | None => None
  end.
Definition owner (nf : N) (tr : list (N * N)) : option N :=
  match find (fun e => snd e =? nf) tr with Some e => Some (fst e) | None => None end.

Definition spend_ids (p : pool) (t : ctx) : list N := map fid (spend_flds p t).
Definition spec_spends (p : pool) (nfs : nfset) (t : ctx) : list wspend :=
  filter_map (fun x => match owner (snd x) (tracked p nfs) with Some a => Some (fst x, snd x, a) | None => None end)
             (indexed (spend_ids p t)).
Definition spec_unlinked (p : pool) (nfs : nfset) (t : ctx) : list N :=
  filter (fun nf => match owner nf (tracked p nfs) with Some _ => false | None => true end) (spend_ids p t).
Definition spec_accounts (nfs : nfset) (t : ctx) : list N :=
  flat_map (fun p => map snd (spec_spends p nfs t)) pools.

(** number of outputs of pool [p] in the first [j] transactions *)
Definition offset (p : pool) (vtx : list ctx) (j : N) : N :=
  len (flat_map (outs_of p) (firstn (N.to_nat j) vtx)).

Definition spec_outs (p : pool) (keys : list key) (accts : list N) (base : N) (t : ctx) : list wout :=
  filter_map (fun x => match first_key p keys (snd x) with
                       | Some (k, n) =>
                           Some (Wo (fst x) (fid (o_epk (snd x))) (nt_value n)
                                    (existsb (N.eqb (k_acct k)) accts) (base + fst x)
                                    (nf_of p k n (base + fst x)) (k_acct k) (Some (k_scope k))
                                    (fid (o_cmx (snd x))))
                       | None => None
                       end)
             (indexed (outs_of p t)).

Definition spec_wtx (keys : list key) (nfs : nfset) (start : pool -> N) (vtx : list ctx) (jt : N * ctx) : wtx :=
  let t := snd jt in
  let accts := spec_accounts nfs t in
  let so p := spec_outs p keys accts (start p + offset p vtx (fst jt)) t in
  Wtx (fid (x_txid t)) (x_index t)
      (spec_spends Sapling nfs t) (so Sapling) (spec_spends Orchard nfs t) (so Orchard)
      (spec_spends Ironwood nfs t) (so Ironwood).
Definition nonempty (w : wtx) : bool :=
  negb (forallb (fun p => match wt_sp p w, wt_out p w with [], [] => true | _, _ => false end) pools).

(** commitments of the whole block in block order: marked iff ours, checkpoint iff last *)
Definition spec_comm (p : pool) (h : N) (keys : list key) (b : cblock) : list (N * retention) :=
  let outs := all_outs p b in
  map (fun x => (fid (o_cmx (snd x)),
                 match first_key p keys (snd x), fst x + 1 =? len outs with
                 | Some _, true => Ck h true
                 | None, true => Ck h false
                 | Some _, false => Mk
                 | None, false => Eph
                 end))
      (indexed outs).

Definition spec_bundle (p : pool) (h : N) (keys : list key) (nfs : nfset) (start : pool -> N) (b : cblock) : bundles :=
  Bn (start p + n_outs p b) (spec_comm p h keys b)
     (map (fun t => (x_index t, fid (x_txid t), spec_unlinked p nfs t)) (b_vtx b)).

Definition expected (c : params) (prior : option pmeta) (keys : list key) (nfs : nfset) (b : cblock) : scanned :=
  let start p := match spec_start c prior b p with Some s => s | None => 0 end in
  let h := b_height b in
  Sc h (match spec_hash b with Some x => x | None => 0 end) (b_time b)
     (filter nonempty (map (spec_wtx keys nfs start (b_vtx b)) (indexed (b_vtx b))))
     (spec_bundle Sapling h keys nfs start b) (spec_bundle Orchard h keys nfs start b)
     (spec_bundle Ironwood h keys nfs start b).

End Spec.

(** ---- tracked nullifiers after a block (Nullifiers::update_with) ---- *)
(** entry [(a, nf)] is tracked after the block iff it was tracked before and [nf] is not revealed
    by a reported spend of that pool, or it is the nullifier of a wallet output found in that
    pool; survivors keep their order and come first, new ones follow in block order *)
Definition spent_in (p : pool) (txs : list wtx) (nf : N) : bool :=
  existsb (fun wt => existsb (fun s => snd (fst s) =? nf) (wt_sp p wt)) txs.
Definition new_entries (p : pool) (txs : list wtx) : list (N * N) :=
  flat_map (fun wt => flat_map (fun w => match w_nf w with Some nf => [(w_acct w, nf)] | None => [] end)
                               (wt_out p wt)) txs.
Definition spec_tracked_after (p : pool) (nfs : nfset) (txs : list wtx) : list (N * N) :=
  filter (fun e => negb (spent_in p txs (snd e))) (tracked p nfs) ++ new_entries p txs.
