(** C05 — executable model of compact-block scanning
    ([zcash_client_backend::scanning::compact::scan_block_with_runners], [find_spent],
    [find_received], [PositionTracker], the field decoders of proto.rs), transcribed branch by
    branch in the order the Rust code evaluates them. No proofs in this file.

    Opaque 32-byte values (hashes, txids, nullifiers, commitments, ephemeral keys) only take part
    in equality tests, so they are numbers here (the harness interns them per case). A
    server-supplied byte field is [F len ok id]: its length, whether it is a canonical field
    element encoding (only consulted where the Rust decoder checks that), and its identity.

    Trial decryption and nullifier derivation are Section variables. *)
From V.Lib Require Import Base.
From V.Gen Require Import C05Consts.
Local Open Scope N_scope.

Inductive pool := Sapling | Orchard | Ironwood.
Definition pool_eqb (a b : pool) : bool :=
  match a, b with Sapling, Sapling | Orchard, Orchard | Ironwood, Ironwood => true | _, _ => false end.

Record fld := F { flen : N; fok : bool; fid : N }.
(** generator ground truth attached to an output (who it was encrypted to) — only read by the
    instantiation of [dec] used for case evaluation, never by the model itself *)
(** [t_lead]: lead byte of the Sapling note plaintext the generator encrypted (1 = pre-ZIP 212,
    2 = ZIP 212); 0 for Orchard-shaped notes *)
Record truth := T { t_acct : N; t_scope : N; t_value : N; t_nfpos : N; t_nf : N; t_lead : N }.
Record cout := O { o_nf : fld; o_cmx : fld; o_epk : fld; o_ct : N; o_truth : option truth }.
Record ctx := Tx { x_index : N; x_txid : fld; x_spends : list fld;
                   x_outs : list cout; x_acts : list cout; x_iw : list cout }.
Record cblock := Blk { b_height : N; b_hash : fld; b_prev : fld; b_time : N;
                       b_hdr : option (N * N); b_vtx : list ctx; b_meta : option (N * N * N) }.
(** activation heights of Sapling, NU5 (Orchard), NU6.3 (Ironwood) *)
Record params := Cfg { a_sapling : option N; a_nu5 : option N; a_nu63 : option N; a_canopy : option N }.
Record pmeta := Pm { p_height : N; p_hash : N; p_s : option N; p_o : option N; p_i : option N }.
Record key := K { k_acct : N; k_scope : N }.
Record nfset := Nfs { n_s : list (N * N); n_o : list (N * N); n_i : list (N * N) }.
Record note := Note { nt_value : N; nt_nfpos : N; nt_nf : N }.

Inductive retention := Eph | Mk | Ck (h : N) (marked : bool).
Record wout := Wo { w_index : N; w_epk : N; w_value : N; w_change : bool; w_pos : N;
                    w_nf : option N; w_acct : N; w_scope : option N; w_cmx : N }.
Definition wspend := (N * N * N)%type. (* index, nullifier, account *)
Record wtx := Wtx { wt_txid : N; wt_index : N; wt_ss : list wspend; wt_so : list wout;
                    wt_os : list wspend; wt_oo : list wout; wt_is : list wspend; wt_io : list wout }.
Record bundles := Bn { bn_final : N; bn_comm : list (N * retention); bn_nfmap : list (N * N * list N) }.
Record scanned := Sc { s_height : N; s_hash : N; s_time : N; s_txs : list wtx;
                       s_sap : bundles; s_orch : bundles; s_iw : bundles }.
Inductive serr :=
| EncodingInvalid (h txid : N) (p : pool) (i : N)
| PrevHashMismatch (h : N)
| BlockHeightDiscontinuity (prev new : N)
| TreeSizeMismatch (p : pool) (h given computed : N)
| TreeSizeUnknown (p : pool) (h : N)
| TreeSizeInvalid (p : pool) (h : N)
| TreeSizeOverflow (p : pool) (h : N)
| OtherError.

Definition res (A : Type) := outcome A serr.
Definition bind {A B} (a : res A) (f : A -> res B) : res B :=
  match a with Ok x => f x | Err e => Err e | Panic => Panic end.
Notation "x <- a ;; b" := (bind a (fun x => b)) (at level 61, a at next level, right associativity).

Definition U32 : N := 4294967296.
Definition U16 : N := 65536.
Definition len {A} (l : list A) : N := N.of_nat (length l).

(** projections by pool *)
Definition outs_of (p : pool) (t : ctx) : list cout :=
  match p with Sapling => x_outs t | Orchard => x_acts t | Ironwood => x_iw t end.
Definition spend_flds (p : pool) (t : ctx) : list fld :=
  match p with Sapling => x_spends t | Orchard => map o_nf (x_acts t) | Ironwood => map o_nf (x_iw t) end.
Definition tracked (p : pool) (n : nfset) : list (N * N) :=
  match p with Sapling => n_s n | Orchard => n_o n | Ironwood => n_i n end.
Definition prior_size (p : pool) (m : pmeta) : option N :=
  match p with Sapling => p_s m | Orchard => p_o m | Ironwood => p_i m end.
Definition meta_size (p : pool) (m : N * N * N) : N :=
  match p with Sapling => fst (fst m) | Orchard => snd (fst m) | Ironwood => snd m end.
Definition activation (p : pool) (c : params) : option N :=
  match p with Sapling => a_sapling c | Orchard => a_nu5 c | Ironwood => a_nu63 c end.
Definition wt_sp (p : pool) (w : wtx) : list wspend :=
  match p with Sapling => wt_ss w | Orchard => wt_os w | Ironwood => wt_is w end.
Definition wt_out (p : pool) (w : wtx) : list wout :=
  match p with Sapling => wt_so w | Orchard => wt_oo w | Ironwood => wt_io w end.
Definition bundle (p : pool) (r : scanned) : bundles :=
  match p with Sapling => s_sap r | Orchard => s_orch r | Ironwood => s_iw r end.
(** number of outputs of pool [p] in a list of transactions *)
Definition cnt (p : pool) (vtx : list ctx) : N := len (flat_map (outs_of p) vtx).

(** ---- CompactBlock accessors (proto.rs) -------------------------------------------------- *)
(** [height()]: [self.height.try_into().unwrap()] — panics above u32. *)
Definition block_height (b : cblock) : res N :=
  if b_height b <? U32 then Ok (b_height b) else Panic.
(** [hash()]: the parsed header's hash if there is one, else [BlockHash::from_slice], which
    panics unless the field has exactly 32 bytes. The previous-block hash is compared as a raw
    field by [check_hash_continuity] (no panic). *)
Definition block_hash (b : cblock) : res N :=
  match b_hdr b with
  | Some h => Ok (fst h)
  | None => if flen (b_hash b) =? 32 then Ok (fid (b_hash b)) else Panic
  end.
(** does the block's previous-hash (header's, else the raw field) equal [x]? *)
Definition prev_matches (b : cblock) (x : N) : bool :=
  match b_hdr b with
  | Some h => snd h =? x
  | None => (flen (b_prev b) =? 32) && (fid (b_prev b) =? x)
  end.
(** [CompactTx::txid()]: [copy_from_slice] — panics unless 32 bytes. *)
Definition txid_of (t : ctx) : res N :=
  if flen (x_txid t) =? 32 then Ok (fid (x_txid t)) else Panic.

(** [BlockHeight + 1] saturates. *)
Definition sat_succ (h : N) : N := if h + 1 <? U32 then h + 1 else U32 - 1.

(** ---- check_hash_continuity -------------------------------------------------------------- *)
Definition check_continuity (b : cblock) (prior : option pmeta) : res unit :=
  match prior with
  | None => Ok tt
  | Some pm =>
      h <- block_height b ;;
      if negb (h =? sat_succ (p_height pm)) then Err (BlockHeightDiscontinuity (p_height pm) h)
      else if negb (prev_matches b (p_hash pm)) then Err (PrevHashMismatch h) else Ok tt
  end.

(** ---- PositionTracker::for_compact_block / tree_sizes_around ----------------------------- *)
Definition tree_sizes (c : params) (h : N) (b : cblock) (prior : option pmeta) (p : pool) : res (N * N) :=
  let n := cnt p (b_vtx b) in
  start <- match (match prior with Some m => prior_size p m | None => None end) with
           | Some s => Ok s
           | None =>
               match b_meta b with
               | Some m =>
                   if U32 <=? n then Panic (* expect("Shielded output count cannot exceed a u32") *)
                   else if meta_size p m <? n then Err (TreeSizeInvalid p h)
                   else Ok (meta_size p m - n)
               | None =>
                   match activation p c with
                   | None => Ok 0
                   | Some a => if h <? a then Ok 0 else Err (TreeSizeUnknown p h)
                   end
               end
           end ;;
  (* checked fold over the per-transaction counts *)
  if start + n <? U32 then Ok (start, start + n) else Err (TreeSizeOverflow p h).

(** ---- per-transaction field validation ---------------------------------------------------- *)
Definition nf_ok (p : pool) (f : fld) : bool :=
  match p with Sapling => flen f =? 32 | _ => (flen f =? 32) && fok f end.
Definition sap_out_ok (o : cout) : bool :=
  (flen (o_cmx o) =? 32) && fok (o_cmx o) && (flen (o_epk o) =? 32) && (o_ct o =? 52).
Definition out_ok (p : pool) (o : cout) : bool :=
  match p with Sapling => sap_out_ok o | _ => nf_ok p (o_nf o) && sap_out_ok o end.

(** [iter().enumerate().map(..).collect::<Result<Vec<_>,_>>()?]: first failing index wins *)
Fixpoint collect_nfs (ok : fld -> bool) (mk : N -> serr) (i : N) (l : list fld) : res (list N) :=
  match l with
  | [] => Ok []
  | f :: r => if ok f then (rest <- collect_nfs ok mk (i + 1) r ;; Ok (fid f :: rest)) else Err (mk i)
  end.
Fixpoint check_outs (ok : cout -> bool) (mk : N -> serr) (i : N) (l : list cout) : res unit :=
  match l with
  | [] => Ok tt
  | o :: r => if ok o then check_outs ok mk (i + 1) r else Err (mk i)
  end.

(** ---- find_spent -------------------------------------------------------------------------- *)
(** The CtOption fold keeps the FIRST tracked entry whose nullifier matches. *)
Definition first_match (nf : N) (tr : list (N * N)) : option N :=
  match find (fun e => snd e =? nf) tr with Some e => Some (fst e) | None => None end.
Fixpoint find_spent (i : N) (nfs : list N) (tr : list (N * N)) : list wspend * list N :=
  match nfs with
  | [] => ([], [])
  | nf :: r =>
      let '(sp, un) := find_spent (i + 1) r tr in
      match first_match nf tr with
      | Some a => ((i, nf, a) :: sp, un)
      | None => (sp, nf :: un)
      end
  end.

Section WithOracles.
Variable dec : pool -> key -> cout -> option note.
Variable nf_of : pool -> key -> note -> N -> option N.

(** first key (in key order) that decrypts the output *)
Fixpoint find_key (p : pool) (keys : list key) (o : cout) : option (key * note) :=
  match keys with
  | [] => None
  | k :: r => match dec p k o with Some n => Some (k, n) | None => find_key p r o end
  end.

(** ---- find_received ------------------------------------------------------------------------ *)
Fixpoint find_received (p : pool) (h : N) (last : bool) (base : N) (keys : list key) (accts : list N)
    (i : N) (outs : list cout) : list wout * list (N * retention) :=
  match outs with
  | [] => ([], [])
  | o :: r =>
      let '(ws, cs) := find_received p h last base keys accts (i + 1) r in
      let d := find_key p keys o in
      let is_ck := (match r with [] => true | _ => false end) && last in
      let ret := match d, is_ck with
                 | Some _, true => Ck h true
                 | None, true => Ck h false
                 | Some _, false => Mk
                 | None, false => Eph
                 end in
      let ws' := match d with
                 | Some (k, n) =>
                     Wo i (fid (o_epk o)) (nt_value n) (existsb (N.eqb (k_acct k)) accts) (base + i)
                        (nf_of p k n (base + i)) (k_acct k) (Some (k_scope k)) (fid (o_cmx o)) :: ws
                 | None => ws
                 end in
      (ws', (fid (o_cmx o), ret) :: cs)
  end.

(** result of one transaction: its WalletTx (kept only when non-empty), and per pool the
    commitments and the unlinked nullifiers *)
Record txr := Txr { tr_wtx : wtx; tr_c : pool -> list (N * retention); tr_u : pool -> list N }.
Definition by_pool {A} (a b c : A) (p : pool) : A := match p with Sapling => a | Orchard => b | Ironwood => c end.

Definition spends_of (p : pool) (h txid : N) (nfs : nfset) (t : ctx) : res (list wspend * list N) :=
  l <- collect_nfs (nf_ok p) (EncodingInvalid h txid p) 0 (spend_flds p t) ;;
  Ok (find_spent 0 l (tracked p nfs)).
Definition recv_of (p : pool) (h txid : N) (keys : list key) (accts : list N) (pos fin : pool -> N) (t : ctx)
    : res (list wout * list (N * retention)) :=
  _ <- check_outs (out_ok p) (EncodingInvalid h txid p) 0 (outs_of p t) ;;
  Ok (find_received p h (pos p + len (outs_of p t) =? fin p) (pos p) keys accts 0 (outs_of p t)).

Definition scan_tx (h : N) (keys : list key) (nfs : nfset) (fin pos : pool -> N) (t : ctx) : res txr :=
  txid <- txid_of t ;;
  idx <- (if x_index t <? U16 then Ok (x_index t) else Err (EncodingInvalid h txid Sapling 0)) ;;
  s1 <- spends_of Sapling h txid nfs t ;;
  s2 <- spends_of Orchard h txid nfs t ;;
  s3 <- spends_of Ironwood h txid nfs t ;;
  let accts := map snd (fst s1 ++ fst s2 ++ fst s3) in
  r1 <- recv_of Sapling h txid keys accts pos fin t ;;
  r2 <- recv_of Orchard h txid keys accts pos fin t ;;
  r3 <- recv_of Ironwood h txid keys accts pos fin t ;;
  Ok (Txr (Wtx txid idx (fst s1) (fst r1) (fst s2) (fst r2) (fst s3) (fst r3))
          (by_pool (snd r1) (snd r2) (snd r3))
          (by_pool (snd s1) (snd s2) (snd s3))).

Definition advance (pos : pool -> N) (t : ctx) : pool -> N := fun p => pos p + len (outs_of p t).

Fixpoint scan_txs (h : N) (keys : list key) (nfs : nfset) (fin pos : pool -> N) (vtx : list ctx) : res (list txr) :=
  match vtx with
  | [] => Ok []
  | t :: r =>
      x <- scan_tx h keys nfs fin pos t ;;
      rest <- scan_txs h keys nfs fin (advance pos t) r ;;
      Ok (x :: rest)
  end.

Definition wtx_nonempty (w : wtx) : bool :=
  negb (match wt_ss w, wt_so w, wt_os w, wt_oo w, wt_is w, wt_io w with
        | [], [], [], [], [], [] => true
        | _, _, _, _, _, _ => false
        end).

(** ---- check_end_of_compact_block_consistency ---------------------------------------------- *)
Definition check_end (h : N) (b : cblock) (fin : pool -> N) : res unit :=
  match b_meta b with
  | None => Ok tt
  | Some m =>
      if negb (meta_size Sapling m =? fin Sapling) then Err (TreeSizeMismatch Sapling h (meta_size Sapling m) (fin Sapling))
      else if negb (meta_size Orchard m =? fin Orchard) then Err (TreeSizeMismatch Orchard h (meta_size Orchard m) (fin Orchard))
      else if negb (meta_size Ironwood m =? fin Ironwood) then Err (TreeSizeMismatch Ironwood h (meta_size Ironwood m) (fin Ironwood))
      else Ok tt
  end.

Definition mk_bundle (p : pool) (fin : pool -> N) (l : list txr) : bundles :=
  Bn (fin p) (flat_map (fun x => tr_c x p) l)
     (map (fun x => (wt_index (tr_wtx x), wt_txid (tr_wtx x), tr_u x p)) l).

(** ---- scan_block_with_runners ------------------------------------------------------------- *)
Definition scan_block (c : params) (prior : option pmeta) (keys : list key) (nfs : nfset) (b : cblock) : res scanned :=
  _ <- check_continuity b prior ;;
  h <- block_height b ;;
  hash <- block_hash b ;;
  s <- tree_sizes c h b prior Sapling ;;
  o <- tree_sizes c h b prior Orchard ;;
  i <- tree_sizes c h b prior Ironwood ;;
  let pos := by_pool (fst s) (fst o) (fst i) in
  let fin := by_pool (snd s) (snd o) (snd i) in
  l <- scan_txs h keys nfs fin pos (b_vtx b) ;;
  _ <- check_end h b fin ;;
  Ok (Sc h hash (b_time b) (filter wtx_nonempty (map tr_wtx l))
         (mk_bundle Sapling fin l) (mk_bundle Orchard fin l) (mk_bundle Ironwood fin l)).

(** ---- Nullifiers::update_with and the in-memory batch loop of scan_cached_blocks ---------- *)
(** per pool: drop the tracked entries whose nullifier was spent in the block, then append
    (account, nullifier) of every wallet output found in THAT pool, in block order *)
Definition spent_nfs (p : pool) (txs : list wtx) : list N :=
  flat_map (fun wt => map (fun s => snd (fst s)) (wt_sp p wt)) txs.
Definition recv_nfs (p : pool) (txs : list wtx) : list (N * N) :=
  flat_map (fun wt => flat_map (fun w => match w_nf w with Some nf => [(w_acct w, nf)] | None => [] end)
                               (wt_out p wt)) txs.
Definition upd_pool (p : pool) (nfs : nfset) (txs : list wtx) : list (N * N) :=
  filter (fun e => negb (existsb (N.eqb (snd e)) (spent_nfs p txs))) (tracked p nfs) ++ recv_nfs p txs.
Definition update_with (nfs : nfset) (txs : list wtx) : nfset :=
  Nfs (upd_pool Sapling nfs txs) (upd_pool Orchard nfs txs) (upd_pool Ironwood nfs txs).
(** ScannedBlock::to_block_metadata *)
Definition meta_of (r : scanned) : pmeta :=
  Pm (s_height r) (s_hash r) (Some (bn_final (s_sap r))) (Some (bn_final (s_orch r))) (Some (bn_final (s_iw r))).
(** the loop of scan_cached_blocks (and of any caller chaining scan_block / update_with): each
    block is scanned against the metadata of the previous one and the updated nullifier set; the
    first rejection aborts the batch and nothing is returned *)
Fixpoint scan_batch (c : params) (prior : option pmeta) (keys : list key) (nfs : nfset) (bs : list cblock)
    : res (list scanned) :=
  match bs with
  | [] => Ok []
  | b :: rest =>
      r <- scan_block c prior keys nfs b ;;
      rs <- scan_batch c (Some (meta_of r)) keys (update_with nfs (s_txs r)) rest ;;
      Ok (r :: rs)
  end.

End WithOracles.

(** ---- ZIP 212 enforcement (zcash_primitives::...::sapling::zip212_enforcement) ------------- *)
(** Sapling trial decryption is done under the policy of the height the block claims: before
    Canopy only plaintexts with lead byte 0x01 are accepted, from the end of the grace period
    (Canopy + ZIP212_GRACE_PERIOD, saturating) only 0x02, in between both. *)
Inductive zip212 := ZOff | ZGrace | ZOn.
Definition GRACE : N := Z.to_N ZIP212_GRACE_PERIOD.
Definition zip212_enforcement (c : params) (h : N) : zip212 :=
  match a_canopy c with
  | None => ZOff
  | Some a => if h <? a then ZOff
              else if h <? N.min (a + GRACE) (U32 - 1) then ZGrace else ZOn
  end.
Definition lead_accepted (e : zip212) (lead : N) : bool :=
  match e with ZOff => lead =? 1 | ZGrace => (lead =? 1) || (lead =? 2) | ZOn => lead =? 2 end.

(** ---- instantiation of the oracles from the generator's ground truth ---------------------- *)
(** [dec_truth c h]: trial decryption of an output of a block claiming height [h]: the key must
    be the one the generator encrypted to and, for Sapling, the plaintext version must be
    accepted by the ZIP 212 policy of THAT block *)
Definition dec_truth (c : params) (h : N) (p : pool) (k : key) (o : cout) : option note :=
  match o_truth o with
  | Some t => if (t_acct t =? k_acct k) && (t_scope t =? k_scope k)
                 && match p with Sapling => lead_accepted (zip212_enforcement c h) (t_lead t) | _ => true end
              then Some (Note (t_value t) (t_nfpos t) (t_nf t)) else None
  | None => None
  end.
(** the Sapling nullifier the generator computed is the one at the true position; at any other
    position the oracle answers 0, which is never a valid identity *)
Definition nf_truth (p : pool) (_ : key) (n : note) (pos : N) : option N :=
  match p with
  | Sapling => if pos =? nt_nfpos n then Some (nt_nf n) else Some 0
  | _ => Some (nt_nf n) (* Orchard-shaped nullifiers do not depend on the position *)
  end.

Definition scan_block_truth (c : params) (prior : option pmeta) (keys : list key) (nfs : nfset) (b : cblock) :=
  scan_block (dec_truth c (b_height b)) nf_truth c prior keys nfs b.
