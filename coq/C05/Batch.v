(** C05 — the in-memory batch: [scan_batch] is the fold of [scan_block] with
    [Nullifiers::update_with] (and [to_block_metadata]) between consecutive blocks, exactly the
    loop of [scan_cached_blocks]. Theorems: every block of an accepted batch is the [scan_block]
    result under the metadata and tracked set accumulated over the blocks before it; the tracked
    set after a block is exactly "survivors ++ nullifiers of the wallet outputs found in that
    pool"; hence a note received in block i and revealed in a later block j of the same batch is
    reported spent there (and is not in the unlinked map), for each pool. *)
From V.Lib Require Import Base.
From V.C05 Require Import Model Spec Corr Proofs Eqb Bridge.
From Coq Require Import ZifyBool.
Local Open Scope N_scope.

Definition nfs_after (nfs : nfset) (rs : list scanned) : nfset :=
  fold_left (fun n r => update_with n (s_txs r)) rs nfs.
Definition prior_after (prior : option pmeta) (rs : list scanned) : option pmeta :=
  fold_left (fun _ r => Some (meta_of r)) rs prior.

Lemma tracked_update p nfs txs : tracked p (update_with nfs txs) = spec_tracked_after p nfs txs.
Proof. rewrite <- upd_pool_spec. destruct p; reflexivity. Qed.

(** membership in the tracked set after a block *)
Theorem tracked_after_iff p nfs txs e :
  In e (tracked p (update_with nfs txs))
  <-> (In e (tracked p nfs) /\ spent_in p txs (snd e) = false) \/ In e (new_entries p txs).
Proof.
  rewrite tracked_update. unfold spec_tracked_after. rewrite in_app_iff, filter_In.
  split; (intros [[A B]|C]; [left; split; [exact A|] | right; exact C]).
  - destruct (spent_in p txs (snd e)); [discriminate | reflexivity].
  - rewrite B. reflexivity.
Qed.

Lemma received_is_new p txs wt w nf :
  In wt txs -> In w (wt_out p wt) -> w_nf w = Some nf -> In (w_acct w, nf) (new_entries p txs).
Proof.
  intros I1 I2 E. unfold new_entries. apply in_flat_map. exists wt. split; [exact I1|].
  apply in_flat_map. exists w. split; [exact I2|]. rewrite E. left; reflexivity.
Qed.

Lemma persists p e : forall mids nfs,
  In e (tracked p nfs) -> (forall m, In m mids -> spent_in p (s_txs m) (snd e) = false) ->
  In e (tracked p (nfs_after nfs mids)).
Proof.
  induction mids as [|m r IH]; intros nfs I H; [exact I|]. cbn [nfs_after fold_left].
  apply IH; [|intros m' I'; apply H; right; exact I'].
  apply tracked_after_iff. left. split; [exact I | apply H; left; reflexivity].
Qed.

Lemma nfs_after_app nfs a b : nfs_after nfs (a ++ b) = nfs_after (nfs_after nfs a) b.
Proof. unfold nfs_after. apply fold_left_app. Qed.

Lemma app_split_len {A} : forall (l1 l1' : list A) x x' l2 l2',
  l1 ++ x :: l2 = l1' ++ x' :: l2' -> length l1 = length l1' -> l1 = l1' /\ x = x' /\ l2 = l2'.
Proof.
  induction l1 as [|a r IH]; intros [|a' r'] x x' l2 l2' E L; cbn in *; try discriminate.
  - inversion E; auto.
  - inversion E; subst. destruct (IH r' x x' l2 l2' H1 ltac:(lia)) as (-> & -> & ->). auto.
Qed.

Lemma first_match_in nf tr a : In (a, nf) tr -> exists a', first_match nf tr = Some a'.
Proof.
  intros I. destruct (first_match nf tr) as [a'|] eqn:F; [eauto|].
  rewrite first_match_none in F. exfalso. exact (F a I).
Qed.

Section Batch.
Variable dec : pool -> key -> cout -> option note.
Variable nf_of : pool -> key -> note -> N -> option N.
Notation scan_block := (scan_block dec nf_of).
Notation scan_batch := (scan_batch dec nf_of).

(** every block of an accepted batch is scanned against the state accumulated before it *)
Theorem scan_batch_split c keys : forall bpre prior nfs rs b bpost,
  scan_batch c prior keys nfs (bpre ++ b :: bpost) = Ok rs ->
  exists rpre r rpost,
    rs = rpre ++ r :: rpost /\ length rpre = length bpre
    /\ scan_batch c prior keys nfs bpre = Ok rpre
    /\ scan_block c (prior_after prior rpre) keys (nfs_after nfs rpre) b = Ok r.
Proof.
  induction bpre as [|a r IH]; intros prior nfs rs b bpost H; cbn [app Model.scan_batch] in H.
  - inv_bind H. inv_bind H. inversion H; subst. exists [], x, x0. repeat split; auto.
  - inv_bind H. inv_bind H. inversion H; subst.
    destruct (IH _ _ _ _ _ E0) as (rpre & r' & rpost & -> & L & B & S).
    exists (x :: rpre), r', rpost. cbn [length app Model.scan_batch prior_after nfs_after fold_left].
    rewrite E. cbn [bind]. rewrite B. cbn [bind]. repeat split; auto.
Qed.
Theorem scan_batch_length c keys : forall bs prior nfs rs,
  scan_batch c prior keys nfs bs = Ok rs -> length rs = length bs.
Proof.
  induction bs as [|b r IH]; intros prior nfs rs H; cbn in H; [inversion H; reflexivity|].
  inv_bind H. inv_bind H. inversion H; subst. cbn. f_equal. eauto.
Qed.
(** a rejected block aborts the batch: nothing is returned *)
Theorem scan_batch_rejects c keys : forall bpre prior nfs rpre b bpost e,
  scan_batch c prior keys nfs bpre = Ok rpre ->
  scan_block c (prior_after prior rpre) keys (nfs_after nfs rpre) b = Err e ->
  scan_batch c prior keys nfs (bpre ++ b :: bpost) = Err e.
Proof.
  induction bpre as [|a r IH]; intros prior nfs rpre b bpost e H S; cbn [app Model.scan_batch] in *.
  - inversion H; subst. cbn [prior_after nfs_after fold_left] in S. rewrite S. reflexivity.
  - inv_bind H. inv_bind H. inversion H; subst. rewrite E. cbn [bind].
    cbn [prior_after nfs_after fold_left] in S. rewrite (IH _ _ _ _ bpost _ E0 S). reflexivity.
Qed.

(** a note received in block i and revealed in a later block j of the same batch is reported
    spent in block j by the first tracked account, and is not left in the unlinked map *)
Theorem batch_spend_reported c prior keys nfs0 bpre bj bpost rs r0s ri mids rj rpost
        p wt w nf pre t post n1 f n2 :
  scan_batch c prior keys nfs0 (bpre ++ bj :: bpost) = Ok rs ->
  rs = (r0s ++ ri :: mids) ++ rj :: rpost -> length (r0s ++ ri :: mids) = length bpre ->
  In wt (s_txs ri) -> In w (wt_out p wt) -> w_nf w = Some nf ->
  (forall m, In m mids -> spent_in p (s_txs m) nf = false) ->
  b_vtx bj = pre ++ t :: post -> spend_flds p t = n1 ++ f :: n2 -> fid f = nf ->
  exists a wtj,
    first_match nf (tracked p (nfs_after nfs0 (r0s ++ ri :: mids))) = Some a
    /\ In wtj (s_txs rj) /\ wt_txid wtj = fid (x_txid t) /\ wt_index wtj = x_index t
    /\ In (len n1, nf, a) (wt_sp p wtj)
    /\ ~ In nf (filter (fun x => match first_match x (tracked p (nfs_after nfs0 (r0s ++ ri :: mids))) with
                                  | Some _ => false | None => true end)
                       (map fid (spend_flds p t))).
Proof.
  intros H RS L IW IO NF MID V SP FE.
  destruct (scan_batch_split _ _ _ _ _ _ _ _ H) as (rpre & r' & rpost' & RS' & L' & _ & S).
  rewrite RS in RS'. destruct (app_split_len _ _ _ _ _ _ RS' ltac:(lia)) as (<- & <- & _).
  assert (TR : In (w_acct w, nf) (tracked p (nfs_after nfs0 (r0s ++ ri :: mids)))).
  { replace (r0s ++ ri :: mids) with ((r0s ++ [ri]) ++ mids) by (rewrite <- app_assoc; reflexivity).
    rewrite nfs_after_app. apply persists; [|exact MID].
    rewrite nfs_after_app. cbn [nfs_after fold_left]. apply tracked_after_iff. right.
    eapply received_is_new; eauto. }
  destruct (first_match_in _ _ _ TR) as [a FM].
  subst nf.
  destruct (spent_complete _ _ _ _ _ _ _ _ S p pre t post n1 f n2 a V SP FM) as (wtj & I1 & I2 & I3 & I4).
  exists a, wtj. repeat split; auto.
  intros X. apply filter_In in X. destruct X as [_ X]. rewrite FM in X. discriminate.
Qed.

End Batch.
