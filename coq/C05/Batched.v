(** C05 — what the batched path must compute (model of the result-collection half of scan.rs and
    of the batched branch of [find_received]).

    A [BatchRunner] keeps, per (block hash, txid), a receiver; worker tasks send, for every output
    some key decrypts, the pair (output index, (key, note)) in whatever order the tasks finish;
    [collect_results] removes the receiver of (block hash, txid) and [into_results] collects what
    arrived into a map keyed by output index; [find_received] then reads indices 0..n-1.

    Theorems: (a) [find_received] is a function of the vector of per-output decryption results;
    (b) for ANY arrival order (any permutation of the successful decryptions of the transaction)
    the collected vector equals the inline one; (c) for ANY order in which the pending map is
    laid out (HashMap order, task completion order), taking the receivers transaction by
    transaction returns each transaction its own arrivals — PROVIDED the (block hash, txid) keys
    are pairwise distinct. The guard is needed: [dup_key_loses_results] shows that with a repeated
    key the first transaction receives the second one's arrivals and the second one nothing,
    which is known-finding class 4 (the real code additionally stops the batch at the first
    failed send). What is NOT modelled: rayon scheduling itself (the arrival order is universally
    quantified instead), and the pre-validation done by [add_block]. *)
From V.Lib Require Import Base.
From V.C05 Require Import Model Spec Proofs Bridge.
From Coq Require Import Permutation ZifyBool.
Local Open Scope N_scope.

Section Batched.
Variable dec : pool -> key -> cout -> option note.
Variable nf_of : pool -> key -> note -> N -> option N.
Notation find_key := (find_key dec).
Notation find_received := (find_received dec nf_of).

Definition kn := (key * note)%type.

(** ---- (a) find_received as a function of the decryption vector ---- *)
Fixpoint find_received_v (p : pool) (h : N) (last : bool) (base : N) (accts : list N) (i : N)
    (outs : list cout) (ds : list (option kn)) : list wout * list (N * retention) :=
  match outs, ds with
  | o :: r, d :: dr =>
      let '(ws, cs) := find_received_v p h last base accts (i + 1) r dr in
      let is_ck := (match r with [] => true | _ => false end) && last in
      let ret := match d, is_ck with
                 | Some _, true => Ck h true
                 | None, true => Ck h false
                 | Some _, false => Mk
                 | None, false => Eph
                 end in
      let ws' := match d with
                 | Some (k, n) => mk_wout nf_of p accts base i o k n :: ws
                 | None => ws
                 end in
      (ws', (fid (o_cmx o), ret) :: cs)
  | _, _ => ([], [])
  end.

Lemma find_received_is_v p h last base keys accts : forall outs i,
  find_received p h last base keys accts i outs
  = find_received_v p h last base accts i outs (map (find_key p keys) outs).
Proof.
  induction outs as [|o r IH]; intros i; [reflexivity|].
  cbn [Model.find_received map find_received_v]. rewrite <- IH.
  destruct (find_received p h last base keys accts (i + 1) r) as [ws cs].
  unfold mk_wout. destruct (find_key p keys o) as [[k n]|]; reflexivity.
Qed.

(** ---- (b) collecting the arrivals of one transaction ---- *)
(** what the workers send for a transaction's outputs, in index order *)
Fixpoint results_from (p : pool) (keys : list key) (i : N) (outs : list cout) : list (N * kn) :=
  match outs with
  | [] => []
  | o :: r => match find_key p keys o with
              | Some x => (i, x) :: results_from p keys (i + 1) r
              | None => results_from p keys (i + 1) r
              end
  end.
Definition results_of p keys outs := results_from p keys 0 outs.

(** [into_results]: a map keyed by output index built from the arrivals (a later arrival for
    the same index would overwrite) *)
Definition lookup (arr : list (N * kn)) (i : N) : option kn :=
  fold_left (fun acc e => if fst e =? i then Some (snd e) else acc) arr None.
Fixpoint indices (i : N) (n : nat) : list N := match n with 0%nat => [] | S m => i :: indices (i + 1) m end.
Definition decrypted_opts (arr : list (N * kn)) (n : nat) : list (option kn) := map (lookup arr) (indices 0 n).

Lemma lookup_fold arr i : forall acc,
  fold_left (fun acc e => if fst e =? i then Some (snd e) else acc) arr acc
  = match lookup arr i with Some v => Some v | None => acc end.
Proof.
  unfold lookup. induction arr as [|e r IH]; intros acc; [reflexivity|]. cbn [fold_left].
  rewrite IH. rewrite (IH (if fst e =? i then Some (snd e) else None)).
  destruct (fold_left _ r None); [reflexivity|]. destruct (fst e =? i); reflexivity.
Qed.
Lemma lookup_cons e arr i :
  lookup (e :: arr) i = match lookup arr i with Some v => Some v | None => if fst e =? i then Some (snd e) else None end.
Proof. unfold lookup at 1. cbn [fold_left]. apply lookup_fold. Qed.

Lemma lookup_none arr i : (forall v, ~ In (i, v) arr) -> lookup arr i = None.
Proof.
  induction arr as [|e r IH]; intros H; [reflexivity|]. rewrite lookup_cons, IH.
  - destruct (fst e =? i) eqn:E; [|reflexivity]. exfalso. apply (H (snd e)). left.
    destruct e as [a b]. cbn in *. f_equal. lia.
  - intros v I. apply (H v). right; exact I.
Qed.
Lemma lookup_in arr i v : NoDup (map fst arr) -> In (i, v) arr -> lookup arr i = Some v.
Proof.
  induction arr as [|e r IH]; intros ND I; [destruct I|]. rewrite lookup_cons.
  cbn [map] in ND. inversion ND as [|? ? NI ND']; subst. destruct I as [->|I].
  - cbn [fst snd]. rewrite N.eqb_refl. rewrite lookup_none; [reflexivity|].
    intros w W. apply NI. apply in_map_iff. exists (i, w). auto.
  - rewrite (IH ND' I). reflexivity.
Qed.

Lemma results_from_ge p keys : forall outs i e, In e (results_from p keys i outs) -> i <= fst e.
Proof.
  induction outs as [|o r IH]; intros i e I; [destruct I|]. cbn [results_from] in I.
  destruct (find_key p keys o); [destruct I as [<-|I]; [cbn; lia|]|]; apply IH in I; lia.
Qed.
Lemma results_from_nodup p keys : forall outs i, NoDup (map fst (results_from p keys i outs)).
Proof.
  induction outs as [|o r IH]; intros i; [constructor|]. cbn [results_from].
  destruct (find_key p keys o); [|apply IH]. cbn [map fst]. constructor; [|apply IH].
  intros I. apply in_map_iff in I. destruct I as (e & E & I). apply results_from_ge in I. lia.
Qed.
Lemma results_from_in p keys : forall outs i pre o post,
  outs = pre ++ o :: post ->
  match find_key p keys o with
  | Some x => In (i + len pre, x) (results_from p keys i outs)
  | None => forall v, ~ In (i + len pre, v) (results_from p keys i outs)
  end.
Proof.
  induction outs as [|a r IH]; intros i pre o post E; [destruct pre; discriminate|].
  destruct pre as [|b pre'].
  - cbn in E. inversion E; subst. rewrite len_nil, N.add_0_r. cbn [results_from].
    destruct (find_key p keys o) as [x|]; [left; reflexivity|].
    intros v I. apply results_from_ge in I. cbn in I. lia.
  - cbn in E. inversion E; subst. specialize (IH (i + 1) pre' o post eq_refl).
    rewrite len_cons. replace (i + (1 + len pre')) with (i + 1 + len pre') by lia.
    cbn [results_from]. destruct (find_key p keys o) as [x|].
    + destruct (find_key p keys b); [right|]; exact IH.
    + intros v I. destruct (find_key p keys b).
      * destruct I as [I|I]; [inversion I; lia | exact (IH v I)].
      * exact (IH v I).
Qed.

Lemma indices_map {A} (f : N -> A) (g : cout -> A) : forall outs i,
  (forall pre o post, outs = pre ++ o :: post -> f (i + len pre) = g o) ->
  map f (indices i (length outs)) = map g outs.
Proof.
  induction outs as [|o r IH]; intros i H; [reflexivity|]. cbn [length indices map]. f_equal.
  - rewrite <- (H [] o r eq_refl), len_nil, N.add_0_r. reflexivity.
  - apply IH. intros pre o' post E. rewrite <- (H (o :: pre) o' post); [|rewrite E; reflexivity].
    rewrite len_cons. f_equal. lia.
Qed.

(** any arrival order yields the inline decryption vector *)
Theorem collected_is_inline p keys outs arr :
  Permutation arr (results_of p keys outs) ->
  decrypted_opts arr (length outs) = map (find_key p keys) outs.
Proof.
  intros P. unfold decrypted_opts. apply indices_map. intros pre o post E. rewrite N.add_0_l.
  pose proof (results_from_in p keys outs 0 pre o post E) as R. rewrite N.add_0_l in R.
  assert (ND : NoDup (map fst arr)).
  { eapply Permutation_NoDup; [apply Permutation_map, Permutation_sym, P | apply results_from_nodup]. }
  destruct (find_key p keys o) as [x|].
  - apply lookup_in; [exact ND|]. eapply Permutation_in; [apply Permutation_sym, P | exact R].
  - apply lookup_none. intros v I. apply (R v). eapply Permutation_in; [exact P | exact I].
Qed.

Theorem batched_tx_equals_inline p h last base keys accts outs arr :
  Permutation arr (results_of p keys outs) ->
  find_received_v p h last base accts 0 outs (decrypted_opts arr (length outs))
  = find_received p h last base keys accts 0 outs.
Proof. intros P. rewrite (collected_is_inline _ _ _ _ P). symmetry. apply find_received_is_v. Qed.

(** ---- (c) the pending-results map, keyed by (block hash, txid) ---- *)
Definition rkey := (N * N)%type.
Definition rkey_eqb (a b : rkey) : bool := (fst a =? fst b) && (snd a =? snd b).
Lemma rkey_eqb_eq a b : rkey_eqb a b = true <-> a = b.
Proof.
  destruct a, b. unfold rkey_eqb. cbn [fst snd]. rewrite andb_true_iff, !N.eqb_eq.
  split; [intros [-> ->]; reflexivity | intros E; inversion E; auto].
Qed.
Definition pending := list (rkey * list (N * kn)).
Definition p_remove (k : rkey) (pd : pending) : pending := filter (fun e => negb (rkey_eqb (fst e) k)) pd.
(** HashMap::insert: replaces an existing entry *)
Definition p_insert (k : rkey) (a : list (N * kn)) (pd : pending) : pending := (k, a) :: p_remove k pd.
Definition p_find (k : rkey) (pd : pending) : option (list (N * kn)) :=
  match find (fun e => rkey_eqb (fst e) k) pd with Some e => Some (snd e) | None => None end.
(** collect_results: remove the receiver; a missing one gives no results (unwrap_or_default) *)
Definition p_take (k : rkey) (pd : pending) : list (N * kn) * pending :=
  (match p_find k pd with Some a => a | None => [] end, p_remove k pd).

(** the runner is given the transactions [(key, tx)] in order; [sched e] is what arrives for [e] *)
Variable E : Type.
Variable ekey : E -> rkey.
Variable sched : E -> list (N * kn).
Definition insert_all (pd : pending) (es : list E) : pending :=
  fold_left (fun pd e => p_insert (ekey e) (sched e) pd) es pd.
Fixpoint process (pd : pending) (es : list E) : list (list (N * kn)) :=
  match es with
  | [] => []
  | e :: r => fst (p_take (ekey e) pd) :: process (snd (p_take (ekey e) pd)) r
  end.

Lemma p_find_remove_other k k' pd : k <> k' -> p_find k (p_remove k' pd) = p_find k pd.
Proof.
  intros NE. unfold p_find, p_remove. induction pd as [|e r IH]; [reflexivity|]. cbn [filter find].
  destruct (rkey_eqb (fst e) k') eqn:A; cbn [negb].
  - destruct (rkey_eqb (fst e) k) eqn:B; [|exact IH].
    apply rkey_eqb_eq in A. apply rkey_eqb_eq in B. congruence.
  - cbn [find]. destruct (rkey_eqb (fst e) k); [reflexivity | exact IH].
Qed.
Lemma p_find_remove_same k pd : p_find k (p_remove k pd) = None.
Proof.
  unfold p_find, p_remove. induction pd as [|e r IH]; [reflexivity|]. cbn [filter].
  destruct (rkey_eqb (fst e) k) eqn:A; cbn [negb]; [exact IH|]. cbn [find]. rewrite A. exact IH.
Qed.
Lemma p_find_insert_same k a pd : p_find k (p_insert k a pd) = Some a.
Proof.
  unfold p_find, p_insert. cbn [find fst]. replace (rkey_eqb k k) with true; [reflexivity|].
  symmetry. apply rkey_eqb_eq. reflexivity.
Qed.
Lemma p_find_insert_other k k' a pd : k <> k' -> p_find k (p_insert k' a pd) = p_find k pd.
Proof.
  intros NE. unfold p_insert. unfold p_find at 1. cbn [find fst].
  destruct (rkey_eqb k' k) eqn:A; [apply rkey_eqb_eq in A; congruence|].
  apply (p_find_remove_other k k' pd NE).
Qed.

Lemma insert_all_other k : forall es pd, ~ In k (map ekey es) -> p_find k (insert_all pd es) = p_find k pd.
Proof.
  induction es as [|e r IH]; intros pd NI; [reflexivity|]. cbn [insert_all fold_left].
  fold (insert_all (p_insert (ekey e) (sched e) pd) r). rewrite IH.
  - apply p_find_insert_other. intros X. apply NI. left. congruence.
  - intros I. apply NI. right; exact I.
Qed.
Lemma insert_all_own : forall es pd e, NoDup (map ekey es) -> In e es ->
  p_find (ekey e) (insert_all pd es) = Some (sched e).
Proof.
  induction es as [|a r IH]; intros pd e ND I; [destruct I|]. cbn [map] in ND. inversion ND as [|? ? NI ND']; subst.
  cbn [insert_all fold_left]. fold (insert_all (p_insert (ekey a) (sched a) pd) r). destruct I as [->|I].
  - rewrite insert_all_other; [apply p_find_insert_same | exact NI].
  - apply IH; assumption.
Qed.

(** with pairwise distinct keys every transaction gets exactly its own arrivals, whatever else
    is pending *)
Lemma process_own : forall es pd, NoDup (map ekey es) ->
  (forall e, In e es -> p_find (ekey e) pd = Some (sched e)) -> process pd es = map sched es.
Proof.
  induction es as [|a r IH]; intros pd ND H; [reflexivity|]. cbn [map] in ND. inversion ND as [|? ? NI ND']; subst.
  cbn [process map p_take fst snd]. rewrite (H a (or_introl eq_refl)). f_equal.
  apply IH; [exact ND'|]. intros e I. rewrite p_find_remove_other; [apply H; right; exact I|].
  intros X. apply NI. rewrite <- X. apply in_map. exact I.
Qed.
Theorem runner_returns_own es : NoDup (map ekey es) -> process (insert_all [] es) es = map sched es.
Proof. intros ND. apply process_own; [exact ND|]. intros e I. apply insert_all_own; assumption. Qed.

(** the layout of the pending map (HashMap order; order in which tasks registered results) is
    irrelevant: a function of the multiset of per-key results *)
Lemma p_find_perm k : forall pd pd', Permutation pd pd' -> NoDup (map fst pd) -> p_find k pd = p_find k pd'.
Proof.
  intros pd pd' P ND.
  assert (F : forall q, NoDup (map fst q) -> forall a, In (k, a) q -> p_find k q = Some a).
  { induction q as [|e r IH]; intros N a I; [destruct I|]. unfold p_find. cbn [find].
    cbn [map] in N. inversion N as [|? ? NI N']; subst. destruct I as [->|I].
    - cbn [fst snd]. replace (rkey_eqb k k) with true by (symmetry; apply rkey_eqb_eq; reflexivity). reflexivity.
    - destruct (rkey_eqb (fst e) k) eqn:A.
      + apply rkey_eqb_eq in A. exfalso. apply NI. rewrite A. apply in_map_iff. exists (k, a). auto.
      + apply (IH N' a I). }
  assert (G : forall q, (forall a, ~ In (k, a) q) -> p_find k q = None).
  { induction q as [|e r IH]; intros H; [reflexivity|]. unfold p_find. cbn [find].
    destruct (rkey_eqb (fst e) k) eqn:A.
    - apply rkey_eqb_eq in A. exfalso. apply (H (snd e)). left. destruct e; cbn in *; congruence.
    - apply IH. intros a I. apply (H a). right; exact I. }
  assert (ND' : NoDup (map fst pd')) by (eapply Permutation_NoDup; [apply Permutation_map, P | exact ND]).
  destruct (p_find k pd) as [a|] eqn:X.
  - symmetry. apply F; [exact ND'|]. eapply Permutation_in; [exact P|].
    unfold p_find in X. destruct (find (fun e => rkey_eqb (fst e) k) pd) as [e|] eqn:Y; [|discriminate].
    apply find_some in Y. destruct Y as [I B]. apply rkey_eqb_eq in B. inversion X; subst. destruct e; cbn in *; subst; exact I.
  - symmetry. apply G. intros a I. apply Permutation_sym in P. pose proof (Permutation_in _ P I) as I'.
    rewrite (F pd ND a I') in X. discriminate.
Qed.

(** the guard is needed: with a repeated key the second insert replaces the first receiver *)
Lemma dup_key_loses_results e1 e2 :
  ekey e1 = ekey e2 -> process (insert_all [] [e1; e2]) [e1; e2] = [sched e2; []].
Proof.
  intros K. cbn [insert_all fold_left process p_take fst snd]. rewrite K.
  rewrite p_find_insert_same, p_find_remove_same. reflexivity.
Qed.

End Batched.
