(** C05 — correspondence cases. One [Scan] per block scanned by the harness: the inputs (with the
    generator's ground truth of who each output was encrypted to), the outcome of the inline
    [scan_block], and every outcome of the batched path ([scan_cached_blocks], rayon pools of
    16/1/2/7 threads) that differs from the inline one ([alts], normally empty). *)
From V.Lib Require Import Base.
From V.C05 Require Import Model Spec.
Local Open Scope N_scope.

Definition oN_eqb := option_eqb N.eqb.
Definition ret_eqb (a b : retention) : bool :=
  match a, b with
  | Eph, Eph | Mk, Mk => true
  | Ck h m, Ck h' m' => (h =? h') && Bool.eqb m m'
  | _, _ => false
  end.
Definition wout_eqb (a b : wout) : bool :=
  (w_index a =? w_index b) && (w_epk a =? w_epk b) && (w_value a =? w_value b)
  && Bool.eqb (w_change a) (w_change b) && (w_pos a =? w_pos b) && oN_eqb (w_nf a) (w_nf b)
  && (w_acct a =? w_acct b) && oN_eqb (w_scope a) (w_scope b) && (w_cmx a =? w_cmx b).
Definition wspend_eqb (a b : wspend) : bool :=
  (fst (fst a) =? fst (fst b)) && (snd (fst a) =? snd (fst b)) && (snd a =? snd b).
Definition wtx_eqb (a b : wtx) : bool :=
  (wt_txid a =? wt_txid b) && (wt_index a =? wt_index b)
  && list_eqb wspend_eqb (wt_ss a) (wt_ss b) && list_eqb wout_eqb (wt_so a) (wt_so b)
  && list_eqb wspend_eqb (wt_os a) (wt_os b) && list_eqb wout_eqb (wt_oo a) (wt_oo b)
  && list_eqb wspend_eqb (wt_is a) (wt_is b) && list_eqb wout_eqb (wt_io a) (wt_io b).
Definition bundles_eqb (a b : bundles) : bool :=
  (bn_final a =? bn_final b)
  && list_eqb (pair_eqb N.eqb ret_eqb) (bn_comm a) (bn_comm b)
  && list_eqb (fun x y => (fst (fst x) =? fst (fst y)) && (snd (fst x) =? snd (fst y)) && list_eqb N.eqb (snd x) (snd y))
              (bn_nfmap a) (bn_nfmap b).
Definition scanned_eqb (a b : scanned) : bool :=
  (s_height a =? s_height b) && (s_hash a =? s_hash b) && (s_time a =? s_time b)
  && list_eqb wtx_eqb (s_txs a) (s_txs b)
  && bundles_eqb (s_sap a) (s_sap b) && bundles_eqb (s_orch a) (s_orch b) && bundles_eqb (s_iw a) (s_iw b).
Definition serr_eqb (a b : serr) : bool :=
  match a, b with
  | EncodingInvalid h t p i, EncodingInvalid h' t' p' i' => (h =? h') && (t =? t') && pool_eqb p p' && (i =? i')
  | PrevHashMismatch h, PrevHashMismatch h' => h =? h'
  | BlockHeightDiscontinuity a1 a2, BlockHeightDiscontinuity b1 b2 => (a1 =? b1) && (a2 =? b2)
  | TreeSizeMismatch p h g c, TreeSizeMismatch p' h' g' c' => pool_eqb p p' && (h =? h') && (g =? g') && (c =? c')
  | TreeSizeUnknown p h, TreeSizeUnknown p' h' => pool_eqb p p' && (h =? h')
  | TreeSizeInvalid p h, TreeSizeInvalid p' h' => pool_eqb p p' && (h =? h')
  | TreeSizeOverflow p h, TreeSizeOverflow p' h' => pool_eqb p p' && (h =? h')
  | OtherError, OtherError => true
  | _, _ => false
  end.
Definition res_eqb := outcome_eqb scanned_eqb serr_eqb.

Inductive case :=
| Scan (c : params) (prior : option pmeta) (keys : list key) (nfs : nfset) (b : cblock)
       (o : outcome scanned serr) (alts : list (N * outcome scanned serr))
(** [Nullifiers::update_with] between two consecutive blocks of a chain: the tracked set before,
    the wallet transactions of the scanned block, the tracked set observed afterwards *)
| Upd (nfs : nfset) (txs : list wtx) (after : nfset).

Definition nfl_eqb := list_eqb (pair_eqb N.eqb N.eqb).
Definition nfset_eqb (a b : nfset) : bool :=
  nfl_eqb (n_s a) (n_s b) && nfl_eqb (n_o a) (n_o b) && nfl_eqb (n_i a) (n_i b).

(** model = implementation (the inline scan) *)
Definition run_case (x : case) : bool :=
  match x with
  | Scan c prior keys nfs b o alts => res_eqb (scan_block_truth c prior keys nfs b) o
  | Upd nfs txs after => nfset_eqb (update_with nfs txs) after
  end.

(** the property on an observed outcome, from Spec.v only *)
Definition check_scan (c : params) (prior : option pmeta) (keys : list key) (nfs : nfset) (b : cblock)
    (o : outcome scanned serr) : bool :=
  match o with
  | Ok r => acceptable c prior b && scanned_eqb r (expected (dec_truth c (b_height b)) nf_truth c prior keys nfs b)
  | Err _ => negb (acceptable c prior b)
  | Panic => false
  end.
Definition prop_case (x : case) : bool :=
  match x with
  | Scan c prior keys nfs b o alts =>
      (* the inline outcome satisfies the specification, and no batched run (any thread count)
         produced anything else *)
      check_scan c prior keys nfs b o && match alts with [] => true | _ => false end
  | Upd nfs txs after =>
      forallb (fun p => nfl_eqb (tracked p after) (spec_tracked_after p nfs txs)) pools
  end.

(** Known-finding classes: server-supplied fields whose malformation still panics the scanner
    (documented panics of the CompactBlock / CompactTx accessors, reached from scan_block).
    A case is in a class only if a panic was observed and the input is in the class.
      1  block height does not fit u32
      2  block hash is not 32 bytes (and there is no parsable header)
      3  a transaction id is not 32 bytes
    and one class of blocks on which the batched path differs from the inline one:
      4  two transactions of the block carry the same txid (the BatchRunner keys its pending
         results by (block hash, txid)); such a block cannot occur on a consensus-valid chain *)
Fixpoint has_dup (l : list N) : bool :=
  match l with [] => false | x :: r => existsb (N.eqb x) r || has_dup r end.
Definition saw_panic (o : outcome scanned serr) (alts : list (N * outcome scanned serr)) : bool :=
  match o with Panic => true | _ => false end
  || existsb (fun a => match snd a with Panic => true | _ => false end) alts.
Definition known_class (x : case) : N :=
  match x with
  | Scan c prior keys nfs b o alts =>
      if match alts with [] => false | _ => true end
         && has_dup (map (fun t => fid (x_txid t)) (b_vtx b)) then 4
      else if negb (saw_panic o alts) then 0
      else if 4294967296 <=? b_height b then 1
      else if match b_hdr b with
              | Some _ => false
              | None => negb (flen (b_hash b) =? 32)
              end then 2
      else if existsb (fun t => negb (flen (x_txid t) =? 32)) (b_vtx b) then 3
      else 0
  | Upd _ _ _ => 0
  end.

(** Path tag: outcome kind (and pool), where the start sizes came from, and what was found. *)
Definition pool_n (p : pool) : N := match p with Sapling => 0 | Orchard => 1 | Ironwood => 2 end.
Definition out_tag (o : outcome scanned serr) : N :=
  match o with
  | Ok r => match s_txs r with [] => 0 | _ => 1 end
  | Err (EncodingInvalid _ _ p _) => 10 + pool_n p
  | Err (PrevHashMismatch _) => 13
  | Err (BlockHeightDiscontinuity _ _) => 14
  | Err (TreeSizeMismatch p _ _ _) => 15 + pool_n p
  | Err (TreeSizeUnknown p _) => 18 + pool_n p
  | Err (TreeSizeInvalid p _) => 21 + pool_n p
  | Err (TreeSizeOverflow p _) => 24 + pool_n p
  | Err OtherError => 27
  | Panic => 28
  end.
Definition tag_case (x : case) : N :=
  match x with
  | Scan c prior keys nfs b o alts =>
      out_tag o * 100
      + (match prior with None => 0 | Some pm => match p_s pm, p_o pm, p_i pm with Some _, Some _, Some _ => 1 | _, _, _ => 2 end end)
      + (match b_meta b with None => 0 | Some _ => 3 end)
      + (match o with
         | Ok r => (if existsb (fun w => negb (match wt_so w, wt_oo w, wt_io w with [], [], [] => true | _, _, _ => false end)) (s_txs r) then 10 else 0)
                   + (if existsb (fun w => negb (match wt_ss w, wt_os w, wt_is w with [], [], [] => true | _, _, _ => false end)) (s_txs r) then 20 else 0)
                   + (if existsb (fun w => existsb w_change (wt_so w ++ wt_oo w ++ wt_io w)) (s_txs r) then 40 else 0)
         | _ => 0
         end)
  | Upd nfs txs after =>
      5000 + (if existsb (fun p => negb (match spent_nfs p txs with [] => true | _ => false end)) pools then 1 else 0)
           + (if existsb (fun p => negb (match recv_nfs p txs with [] => true | _ => false end)) pools then 2 else 0)
  end.
