(** C05 — domain of the theorems: machine ranges of the inputs, and the one arithmetic guard
    (the prior block's height is below u32::MAX, so that "+ 1" does not saturate). *)
From V.Lib Require Import Base.
From V.C05 Require Import Model Spec Corr.
Local Open Scope N_scope.

Definition u32b (x : N) : bool := x <? 4294967296.
Definition u64b (x : N) : bool := x <? 18446744073709551616.
Definition ou32b (x : option N) : bool := match x with Some v => u32b v | None => true end.

Definition wf_prior (prior : option pmeta) : bool :=
  match prior with
  | None => true
  | Some pm => (p_height pm + 1 <? 4294967296) && ou32b (p_s pm) && ou32b (p_o pm) && ou32b (p_i pm)
  end.
Definition wf_block (b : cblock) : bool :=
  u64b (b_height b) && u32b (b_time b)
  && match b_meta b with Some m => u32b (fst (fst m)) && u32b (snd (fst m)) && u32b (snd m) | None => true end
  && forallb (fun t => u64b (x_index t)) (b_vtx b)
  && forallb (fun p => u32b (n_outs p b)) pools.
Definition wf_params (c : params) : bool := ou32b (a_sapling c) && ou32b (a_nu5 c) && ou32b (a_nu63 c).

Definition wf_case (x : case) : bool :=
  match x with
  | Scan c prior keys nfs b o alts => wf_params c && wf_prior prior && wf_block b
  | Upd _ _ _ => true
  end.
