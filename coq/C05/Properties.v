(** C05 — property theorems only. Each is closed by [exact] of a lemma from Proofs.v and audited
    by Print Assumptions. Every theorem holds for ARBITRARY trial-decryption and
    nullifier-derivation oracles [dec], [nf_of] and for all blocks, keys, nullifier sets, prior
    metadata and activation heights; no bound on sizes.

    Vocabulary: [find_key dec p keys o] is the first key of [keys] that decrypts [o] ([find_key_iff]:
    it exists iff SOME key of [keys] decrypts [o]); [spec_start] is the tree size before the block
    (prior metadata, else block metadata minus the block's outputs, else 0 below activation);
    [cnt p pre] is the number of pool-[p] outputs in the transactions [pre];
    [mk_wout nf_of p accts base i o k n] is the wallet output with index [i], position [base + i],
    the note's value, account and scope of key [k], nullifier [nf_of p k n (base + i)], change flag
    "account of [k] is among [accts]", and [o]'s ephemeral key and commitment. *)
From V.Lib Require Import Base.
From V.Gen Require Import C05Consts.
From V.C05 Require Import Model Spec Corr Wf Proofs Eqb Bridge Batched Batch.
From Coq Require Import Permutation.
Local Open Scope N_scope.

(** An output is found by the key search iff some scanning key decrypts it. *)
Theorem C05_found_iff_some_key_decrypts : forall dec p keys o,
  (exists kn, find_key dec p keys o = Some kn) <-> (exists k n, In k keys /\ dec p k o = Some n).
Proof. exact find_key_iff. Qed.

(** received_exact (completeness) + positions: the k-th output of the j-th transaction, when some
    key decrypts it, is reported in that transaction's wallet entry with the first matching key's
    account and scope, the note's value, and position
    prior_size + (outputs of the pool in earlier transactions) + k. *)
Theorem C05_received_complete : forall dec nf_of c prior keys nfs b r,
  scan_block dec nf_of c prior keys nfs b = Ok r ->
  forall p pre t post o1 o o2 k n,
    b_vtx b = pre ++ t :: post -> outs_of p t = o1 ++ o :: o2 -> find_key dec p keys o = Some (k, n) ->
    exists s wt, spec_start c prior b p = Some s /\ In wt (s_txs r)
      /\ wt_txid wt = fid (x_txid t) /\ wt_index wt = x_index t
      /\ In (mk_wout nf_of p (wtx_accounts wt) (s + cnt p pre) (len o1) o k n) (wt_out p wt).
Proof. exact received_complete. Qed.

(** received_exact (soundness) + positions: every reported output is an output of the block that
    a scanning key decrypts, with exactly those attributes and that position — no foreign note. *)
Theorem C05_received_sound : forall dec nf_of c prior keys nfs b r,
  scan_block dec nf_of c prior keys nfs b = Ok r ->
  forall p wt w, In wt (s_txs r) -> In w (wt_out p wt) ->
    exists s pre t post o1 o o2 k n,
      spec_start c prior b p = Some s /\ b_vtx b = pre ++ t :: post /\ outs_of p t = o1 ++ o :: o2
      /\ find_key dec p keys o = Some (k, n)
      /\ wt_txid wt = fid (x_txid t) /\ wt_index wt = x_index t
      /\ w = mk_wout nf_of p (wtx_accounts wt) (s + cnt p pre) (len o1) o k n.
Proof. exact received_sound. Qed.

(** spent_exact: a revealed nullifier that is tracked is reported as spent by the account of its
    first tracked entry, with its index in the transaction ... *)
Theorem C05_spent_complete : forall dec nf_of c prior keys nfs b r,
  scan_block dec nf_of c prior keys nfs b = Ok r ->
  forall p pre t post n1 f n2 a,
    b_vtx b = pre ++ t :: post -> spend_flds p t = n1 ++ f :: n2 -> first_match (fid f) (tracked p nfs) = Some a ->
    exists wt, In wt (s_txs r) /\ wt_txid wt = fid (x_txid t) /\ wt_index wt = x_index t
               /\ In (len n1, fid f, a) (wt_sp p wt).
Proof. exact spent_complete. Qed.
(** ... and nothing else is reported as spent. *)
Theorem C05_spent_sound : forall dec nf_of c prior keys nfs b r,
  scan_block dec nf_of c prior keys nfs b = Ok r ->
  forall p wt s, In wt (s_txs r) -> In s (wt_sp p wt) ->
    exists pre t post n1 f n2 a,
      b_vtx b = pre ++ t :: post /\ spend_flds p t = n1 ++ f :: n2
      /\ first_match (fid f) (tracked p nfs) = Some a
      /\ wt_txid wt = fid (x_txid t) /\ wt_index wt = x_index t /\ s = (len n1, fid f, a).
Proof. exact spent_sound. Qed.
Theorem C05_tracked_iff : forall nf tr, first_match nf tr = None <-> (forall a, ~ In (a, nf) tr).
Proof. exact first_match_none. Qed.

(** commitments_complete: per pool, every note commitment of the block in block order; marked
    exactly where a key decrypts; checkpoint retention on exactly the last one; final size =
    start + number of outputs (< 2^32); and per transaction the untracked nullifiers in order. *)
Theorem C05_commitments_complete : forall dec nf_of c prior keys nfs b r,
  scan_block dec nf_of c prior keys nfs b = Ok r ->
  forall p, exists s,
    spec_start c prior b p = Some s
    /\ bn_final (bundle p r) = s + n_outs p b /\ bn_final (bundle p r) < U32
    /\ map fst (bn_comm (bundle p r)) = map (fun o => fid (o_cmx o)) (all_outs p b)
    /\ map (fun x => ret_marked (snd x)) (bn_comm (bundle p r)) = map (found dec p keys) (all_outs p b)
    /\ map (fun x => ret_ck (snd x)) (bn_comm (bundle p r)) = ck_shape (length (all_outs p b))
    /\ bn_nfmap (bundle p r)
       = map (fun t => (x_index t, fid (x_txid t),
                        filter (fun nf => match first_match nf (tracked p nfs) with Some _ => false | None => true end)
                               (map fid (spend_flds p t)))) (b_vtx b).
Proof. exact commitments_complete. Qed.

(** The result carries the block's own height, hash and time. *)
Theorem C05_ok_identity : forall dec nf_of c prior keys nfs b r,
  scan_block dec nf_of c prior keys nfs b = Ok r ->
  s_height r = b_height b /\ b_height b < U32 /\ spec_hash b = Some (s_hash r) /\ s_time r = b_time b.
Proof. exact ok_identity. Qed.

(** discontinuity_rejected. A function returns either a result or an error, so "Err ⇒ nothing
    applied" is by construction; the content is that a disconnected block is never accepted: *)
Theorem C05_ok_implies_connected : forall dec nf_of c pm keys nfs b r,
  scan_block dec nf_of c (Some pm) keys nfs b = Ok r -> p_height pm + 1 < U32 ->
  b_height b = p_height pm + 1 /\ spec_prev b = Some (p_hash pm).
Proof. exact ok_connected. Qed.
(** The reported hash is the hash whose parent check succeeded: both are read from the parsed
    header when the block carries one, and both from the raw fields otherwise — never mixed. *)
Theorem C05_ok_identity_and_parent_same_source : forall dec nf_of c pm keys nfs b r,
  scan_block dec nf_of c (Some pm) keys nfs b = Ok r -> p_height pm + 1 < U32 ->
  match b_hdr b with
  | Some hd => s_hash r = fst hd /\ snd hd = p_hash pm
  | None => flen (b_hash b) = 32 /\ s_hash r = fid (b_hash b)
            /\ flen (b_prev b) = 32 /\ fid (b_prev b) = p_hash pm
  end.
Proof. exact ok_same_source. Qed.
Theorem C05_ok_implies_metadata_consistent : forall dec nf_of c prior keys nfs b r m,
  scan_block dec nf_of c prior keys nfs b = Ok r -> b_meta b = Some m ->
  forall p, meta_size p m = bn_final (bundle p r).
Proof. exact metadata_consistent. Qed.
(** ... and with which error: *)
Theorem C05_wrong_height_rejected : forall dec nf_of c keys nfs b pm,
  b_height b < U32 -> b_height b <> sat_succ (p_height pm) ->
  scan_block dec nf_of c (Some pm) keys nfs b = Err (BlockHeightDiscontinuity (p_height pm) (b_height b)).
Proof. exact wrong_height_rejected. Qed.
Theorem C05_wrong_prev_hash_rejected : forall dec nf_of c keys nfs b pm,
  b_height b < U32 -> b_height b = sat_succ (p_height pm) -> spec_prev b <> Some (p_hash pm) ->
  scan_block dec nf_of c (Some pm) keys nfs b = Err (PrevHashMismatch (b_height b)).
Proof. exact wrong_prev_rejected. Qed.
(** malformed fields are never accepted *)
Theorem C05_ok_implies_fields_wellformed : forall dec nf_of c prior keys nfs b r,
  scan_block dec nf_of c prior keys nfs b = Ok r ->
  forall t, In t (b_vtx b) ->
    flen (x_txid t) = 32 /\ x_index t < U16
    /\ forall p, forallb (nf_ok p) (spend_flds p t) = true /\ forallb (out_ok p) (outs_of p t) = true.
Proof. exact ok_fields. Qed.

(** scan_total: no panic for arbitrary field lengths, transaction indices, tree sizes and
    metadata, under the visible guard: the height fits u32, the block hash is 32 bytes or there
    is a parsable header, every txid is 32 bytes, and each pool has fewer than 2^32 outputs in
    the block. (A previous-block hash of any length is compared, never parsed.) *)
Theorem C05_scan_total : forall dec nf_of c prior keys nfs b,
  no_panic_guard prior b -> scan_block dec nf_of c prior keys nfs b <> Panic.
Proof. exact scan_total. Qed.

(** The guard of C05_scan_total is needed: the faithful model (like the code) panics on each of
    the three remaining classes — known findings 1–3 of [known_class]. *)
Theorem C05_height_panic_refuted : forall dec nf_of,
  scan_block dec nf_of cfg1 None [] empty_nfs blk_height_big = Panic.
Proof. exact height_panic_witness. Qed.
Theorem C05_hash_length_panic_refuted : forall dec nf_of,
  scan_block dec nf_of cfg1 None [] empty_nfs blk_hash_short = Panic.
Proof. exact hash_panic_witness. Qed.
Theorem C05_txid_length_panic_refuted : forall dec nf_of,
  scan_block dec nf_of cfg1 None [] empty_nfs blk_txid_short = Panic.
Proof. exact txid_panic_witness. Qed.

(** The three repaired defects: the repaired code (and its model) answers with an error. *)
Theorem C05_tx_index_fixed : forall dec nf_of,
  scan_block dec nf_of cfg1 None [] empty_nfs blk_tx_index = Err (EncodingInvalid 10 3 Sapling 0).
Proof. exact tx_index_fixed. Qed.
Theorem C05_cmu_length_fixed : forall dec nf_of,
  scan_block dec nf_of cfg1 None [] empty_nfs blk_cmu_short = Err (EncodingInvalid 10 3 Sapling 0).
Proof. exact cmu_length_fixed. Qed.
Theorem C05_tree_size_overflow_fixed : forall dec nf_of,
  scan_block dec nf_of cfg1 (Some (Pm 9 2 (Some 4294967295) (Some 0) (Some 0))) [] empty_nfs blk_one_out
  = Err (TreeSizeOverflow Sapling 10).
Proof. exact overflow_fixed. Qed.

(** ---- the bridge ------------------------------------------------------------------------- *)
(** The model computes exactly the closed-form specification of Spec.v (no position tracker, no
    order of checks): a block is accepted iff it is [acceptable], the result is then [expected],
    and an error is returned only for a block that is not acceptable. Guard: the prior block's
    height is below u32::MAX ([BlockHeight + 1] saturates). *)
Theorem C05_scan_correct : forall dec nf_of c prior keys nfs b,
  prior_ok prior ->
  (forall r, scan_block dec nf_of c prior keys nfs b = Ok r
             <-> acceptable c prior b = true /\ r = expected dec nf_of c prior keys nfs b)
  /\ (forall e, scan_block dec nf_of c prior keys nfs b = Err e -> acceptable c prior b = false).
Proof. exact scan_correct. Qed.
(** Agreement with the model IS the property: a case in the theorems' domain, outside the
    known-finding classes, on which the implementation's inline outcome equals the model's and no
    batched run differed, passes the property checker. *)
Theorem C05_bridge : forall x,
  wf_case x = true -> known_class x = 0 -> case_alts x = [] -> run_case x = true -> prop_case x = true.
Proof. exact bridge. Qed.
(** The comparisons used by run_case / prop_case decide equality. *)
Theorem C05_res_eqb_sound : forall a b, res_eqb a b = true <-> a = b.
Proof. exact res_eqb_spec. Qed.
Theorem C05_scanned_eqb_sound : forall a b, scanned_eqb a b = true <-> a = b.
Proof. exact scanned_eqb_spec. Qed.
Theorem C05_serr_eqb_sound : forall a b, serr_eqb a b = true <-> a = b.
Proof. exact serr_eqb_spec. Qed.

(** ---- what the batched path must compute (Batched.v) ------------------------------------- *)
(** [find_received] depends on trial decryption only through the vector of per-output results. *)
Theorem C05_find_received_function_of_results : forall dec nf_of p h last base keys accts outs i,
  find_received dec nf_of p h last base keys accts i outs
  = find_received_v nf_of p h last base accts i outs (map (find_key dec p keys) outs).
Proof. exact find_received_is_v. Qed.
(** Whatever order the workers' results for a transaction arrive in (any permutation of its
    successful decryptions), collecting them by output index and scanning gives the inline result. *)
Theorem C05_batched_tx_equals_inline : forall dec nf_of p h last base keys accts outs arr,
  Permutation arr (results_of dec p keys outs) ->
  find_received_v nf_of p h last base accts 0 outs (decrypted_opts arr (length outs))
  = find_received dec nf_of p h last base keys accts 0 outs.
Proof. exact batched_tx_equals_inline. Qed.
(** With pairwise distinct (block hash, txid) keys, taking the receivers transaction by
    transaction returns every transaction exactly its own arrivals ... *)
Theorem C05_runner_returns_own : forall (E : Type) (ekey : E -> rkey) (sched : E -> list (N * kn)) (es : list E),
  NoDup (map ekey es) -> process E ekey (insert_all E ekey sched [] es) es = map sched es.
Proof. exact runner_returns_own. Qed.
(** ... independently of the layout of the pending map (a function of the multiset of entries). *)
Theorem C05_pending_layout_irrelevant : forall k pd pd',
  Permutation pd pd' -> NoDup (map fst pd) -> p_find k pd = p_find k pd'.
Proof. exact p_find_perm. Qed.
(** The distinct-key guard is needed (known-finding class 4): with a repeated key the first
    transaction is handed the second one's arrivals and the second one nothing. *)
Theorem C05_dup_key_refuted : forall (E : Type) (ekey : E -> rkey) (sched : E -> list (N * kn)) (e1 e2 : E),
  ekey e1 = ekey e2 -> process E ekey (insert_all E ekey sched [] [e1; e2]) [e1; e2] = [sched e2; []].
Proof. exact dup_key_loses_results. Qed.

(** The fourth repaired defect: a previous-block hash of the wrong length is a mismatch. *)
Theorem C05_prev_hash_length_fixed : forall dec nf_of,
  scan_block dec nf_of cfg1 (Some (Pm 9 2 (Some 0) (Some 0) (Some 0))) [] empty_nfs
             (Blk 10 (F 32 true 1) (F 31 true 2) 0 None [] None)
  = Err (PrevHashMismatch 10).
Proof. exact prev_hash_fixed. Qed.

(** ---- the in-memory batch (Batch.v): scan_batch = fold of scan_block with update_with ------ *)
(** Tracked nullifiers after a block, per pool: the survivors (tracked before and not revealed by
    a reported spend of that pool) and the nullifiers of the wallet outputs found in THAT pool. *)
Theorem C05_tracked_after_iff : forall p nfs txs e,
  In e (tracked p (update_with nfs txs))
  <-> (In e (tracked p nfs) /\ spent_in p txs (snd e) = false) \/ In e (new_entries p txs).
Proof. exact tracked_after_iff. Qed.
Theorem C05_tracked_after_exact : forall p nfs txs,
  tracked p (update_with nfs txs) = spec_tracked_after p nfs txs.
Proof. exact tracked_update. Qed.
(** Every block of an accepted batch is the scan_block result under the metadata and the tracked
    set accumulated over the blocks before it. *)
Theorem C05_scan_batch_split : forall dec nf_of c keys bpre prior nfs rs b bpost,
  scan_batch dec nf_of c prior keys nfs (bpre ++ b :: bpost) = Ok rs ->
  exists rpre r rpost,
    rs = rpre ++ r :: rpost /\ length rpre = length bpre
    /\ scan_batch dec nf_of c prior keys nfs bpre = Ok rpre
    /\ scan_block dec nf_of c (prior_after prior rpre) keys (nfs_after nfs rpre) b = Ok r.
Proof. exact scan_batch_split. Qed.
(** A rejected block aborts the batch; nothing is returned (never partially applied). *)
Theorem C05_scan_batch_rejects : forall dec nf_of c keys bpre prior nfs rpre b bpost e,
  scan_batch dec nf_of c prior keys nfs bpre = Ok rpre ->
  scan_block dec nf_of c (prior_after prior rpre) keys (nfs_after nfs rpre) b = Err e ->
  scan_batch dec nf_of c prior keys nfs (bpre ++ b :: bpost) = Err e.
Proof. exact scan_batch_rejects. Qed.
(** Spends within the batch: a wallet output of pool p found in block i (nullifier nf), not spent
    in the blocks between, and revealed by the action at index |n1| of transaction t of a later
    block j of the same batch, is reported spent there by the first tracked account, and nf is
    not left among that transaction's unlinked nullifiers. *)
Theorem C05_batch_spend_reported : forall dec nf_of c prior keys nfs0 bpre bj bpost rs r0s ri mids rj rpost
    p wt w nf pre t post n1 f n2,
  scan_batch dec nf_of c prior keys nfs0 (bpre ++ bj :: bpost) = Ok rs ->
  rs = (r0s ++ ri :: mids) ++ rj :: rpost -> length (r0s ++ ri :: mids) = length bpre ->
  In wt (s_txs ri) -> In w (wt_out p wt) -> w_nf w = Some nf ->
  (forall m, In m mids -> spent_in p (s_txs m) nf = false) ->
  b_vtx bj = pre ++ t :: post -> spend_flds p t = n1 ++ f :: n2 -> fid f = nf ->
  exists a wtj,
    first_match nf (tracked p (nfs_after nfs0 (r0s ++ ri :: mids))) = Some a
    /\ In wtj (s_txs rj) /\ wt_txid wtj = fid (x_txid t) /\ wt_index wtj = x_index t
    /\ In (len n1, nf, a) (wt_sp p wtj)
    /\ ~ In nf (filter (fun x => match first_match x (tracked p (nfs_after nfs0 (r0s ++ ri :: mids))) with
                                  | Some _ => false | None => true end)
                       (map fid (spend_flds p t))).
Proof. exact batch_spend_reported. Qed.
Theorem C05_nfset_eqb_sound : forall a b, nfset_eqb a b = true <-> a = b.
Proof. exact nfset_eqb_spec. Qed.

(** ZIP 212: which Sapling plaintext versions the block at height h accepts (the policy is a
    function of THAT block's height, Canopy's activation height and the regenerated
    ZIP212_GRACE_PERIOD), and trial decryption of the ground-truth oracle obeys it. *)
Theorem C05_zip212_policy : forall c h,
  zip212_enforcement c h
  = match a_canopy c with
    | None => ZOff
    | Some a => if h <? a then ZOff else if h <? N.min (a + Z.to_N C05Consts.ZIP212_GRACE_PERIOD) (U32 - 1) then ZGrace else ZOn
    end.
Proof. exact zip212_policy. Qed.
Theorem C05_dec_truth_respects_zip212 : forall c h k o n,
  dec_truth c h Sapling k o = Some n ->
  exists t, o_truth o = Some t /\ lead_accepted (zip212_enforcement c h) (t_lead t) = true
            /\ t_acct t = k_acct k /\ t_scope t = k_scope k.
Proof. exact dec_truth_zip212. Qed.

(** Non-vacuity: a connected block with one Sapling output for key (account 7, external) is
    accepted, and the note is reported at position 10 = prior size with value 5. *)
Example C05_nonvacuous :
  match scan_block_truth cfg1 (Some (Pm 9 2 (Some 10) (Some 0) (Some 0))) [K 7 0; K 7 1] empty_nfs
          (Blk 10 (F 32 true 1) (F 32 true 2) 0 None
               [Tx 0 (F 32 true 3) [] [O (F 0 false 0) (F 32 true 4) (F 32 true 5) 52 (Some (T 7 0 5 10 99 2))] [] []]
               (Some (11, 0, 0))) with
  | Ok r => match s_txs r with
            | [wt] => match wt_so wt with
                      | [w] => (w_pos w =? 10) && (w_value w =? 5) && (w_acct w =? 7) && (bn_final (s_sap r) =? 11)
                      | _ => false
                      end
            | _ => false
            end
  | _ => false
  end = true.
Proof. vm_compute. reflexivity. Qed.
