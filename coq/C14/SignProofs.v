(** C14 — theorems about the symbolic signing step: every input is signed over the signature
    hash for its own index, value and script (sig_index), the multisig scriptSig passes
    OP_CHECKMULTISIG's ordered matching, a signature made for another index is rejected. *)
From V.Lib Require Import Base MachInt.
From V.C14 Require Import Model SignModel.
From Coq Require Import ZifyBool.
Local Open Scope Z_scope.

Section SigningProofs.
  Variable T : Type.
  Variable v5 : bool.
  Variable sh_eqb : sighash T -> sighash T -> bool.
  Hypothesis sh_eqb_spec : forall a b, sh_eqb a b = true <-> a = b.

  Notation verifyb := (verifyb T sh_eqb).
  Notation checkmultisig := (checkmultisig T sh_eqb).
  Notation input_valid := (input_valid T v5 sh_eqb).

  Lemma in_firstn {A} (x : A) : forall n l, In x (firstn n l) -> In x l.
  Proof.
    induction n as [|n IH]; intros l H; [destruct H|].
    destruct l as [|y l]; [destruct H|]. cbn [firstn] in H. destruct H as [->|H]; [now left|right; auto].
  Qed.

  Lemma verify_own k msg : verifyb (Sig T k msg) k msg = true.
  Proof. cbn. rewrite Z.eqb_refl. now apply sh_eqb_spec. Qed.

  Lemma verify_iff k msg key msg' : verifyb (Sig T k msg) key msg' = true <-> k = key /\ msg = msg'.
  Proof. cbn. rewrite andb_true_iff, Z.eqb_eq, sh_eqb_spec. tauto. Qed.

  (** signatures made, in script order, by the first [m] script keys that satisfy [f] pass the
      ordered matching against the script keys *)
  Lemma checkmultisig_filter (f : Z -> bool) msg : forall pks m,
    checkmultisig pks (map (fun k => Sig T k msg) (firstn m (filter f pks))) msg = true.
  Proof.
    induction pks as [|k pks IH]; intros m.
    - cbn [filter]. rewrite firstn_nil. reflexivity.
    - cbn [filter]. destruct (f k) eqn:Fk.
      + destruct m as [|m]; [reflexivity|]. cbn [firstn map checkmultisig].
        rewrite verify_own. apply IH.
      + destruct (firstn m (filter f pks)) as [|k' ks] eqn:E; [reflexivity|].
        cbn [map checkmultisig].
        assert (Fk' : f k' = true).
        { assert (In k' (filter f pks)).
          { assert (In k' (firstn m (filter f pks))) by (rewrite E; now left).
            eapply in_firstn; eauto. }
          apply filter_In in H. tauto. }
        replace (verifyb (Sig T k' msg) k msg) with false.
        2:{ symmetry. apply not_true_is_false. intros V. apply verify_iff in V. destruct V as [-> _]. congruence. }
        specialize (IH m). rewrite E in IH. exact IH.
  Qed.

  Lemma sign_input_valid keys tx i c ss :
    sign_input T v5 keys tx i c = Some ss -> input_valid tx i c ss = true.
  Proof.
    unfold sign_input, input_valid. destruct (c_spend c) as [k|m n|] eqn:Sp.
    - intros H. inversion H. rewrite Z.eqb_refl, verify_own. reflexivity.
    - destruct (len (signing_keys keys m n) =? m) eqn:L; [|discriminate].
      intros H. inversion H. rewrite !Z.eqb_refl. cbn [andb].
      unfold len in *. rewrite map_length, L. cbn [andb].
      unfold signing_keys. apply checkmultisig_filter.
    - discriminate.
  Qed.

  (** every signature inside a scriptSig is over [msg] *)
  Definition sigs_over (ss : script_sig T) (msg : sighash T) : Prop :=
    match ss with
    | SsP2pkh _ (Sig _ _ m) _ => m = msg
    | SsMulti _ sigs _ _ => Forall (fun s => match s with Sig _ _ m => m = msg end) sigs
    end.

  Lemma sign_input_over keys tx i c ss :
    sign_input T v5 keys tx i c = Some ss -> sigs_over ss (msg_for T v5 tx i c).
  Proof.
    unfold sign_input. destruct (c_spend c) as [k|m n|] eqn:Sp.
    - intros H. inversion H. reflexivity.
    - destruct (len (signing_keys keys m n) =? m); [|discriminate].
      intros H. inversion H. cbn [sigs_over]. apply Forall_forall. intros s Hs.
      apply in_map_iff in Hs. destruct Hs as (k & <- & _). reflexivity.
    - discriminate.
  Qed.

  Lemma sign_from_index keys tx : forall cs i0 l,
    sign_from T v5 keys tx i0 cs = Some l ->
    forall j c, nth_error cs j = Some c ->
      exists ss, nth_error l j = Some ss /\ sign_input T v5 keys tx (i0 + j)%nat c = Some ss.
  Proof.
    induction cs as [|c0 cs IH]; intros i0 l H j c N.
    - destruct j; discriminate.
    - cbn [sign_from] in H.
      destruct (sign_input T v5 keys tx i0 c0) as [s|] eqn:S0; [|discriminate].
      destruct (sign_from T v5 keys tx (S i0) cs) as [l'|] eqn:R; [|discriminate].
      inversion H. subst l. destruct j as [|j].
      + cbn in N. inversion N. subst c. exists s. rewrite Nat.add_0_r. split; [reflexivity|exact S0].
      + cbn [nth_error] in *. destruct (IH _ _ R j c N) as (ss & A & B).
        exists ss. split; [exact A|]. replace (i0 + S j)%nat with (S i0 + j)%nat by lia. exact B.
  Qed.

  (** sig_index: input i is signed over the sighash for (i, value_i, script_i, ALL), and the
      resulting scriptSig satisfies the spent coin's script *)
  Lemma sig_index keys tx cs l : apply_signatures T v5 keys tx cs = Some l ->
    length l = length cs /\
    forall i c, nth_error cs i = Some c ->
      exists ss, nth_error l i = Some ss /\
                 sigs_over ss (msg_for T v5 tx i c) /\ input_valid tx i c ss = true.
  Proof.
    intros H. split.
    - unfold apply_signatures in H. revert l H. generalize 0%nat.
      induction cs as [|c cs IH]; intros i0 l H; cbn [sign_from] in H.
      + inversion H. reflexivity.
      + destruct (sign_input T v5 keys tx i0 c); [|discriminate].
        destruct (sign_from T v5 keys tx (S i0) cs) as [l'|] eqn:R; [|discriminate].
        inversion H. cbn [length]. f_equal. eapply IH; eauto.
    - intros i c N. destruct (sign_from_index keys tx cs 0%nat l H i c N) as (ss & A & B).
      cbn [Nat.add] in B. exists ss. split; [exact A|]. split.
      + eapply sign_input_over; eauto.
      + eapply sign_input_valid; eauto.
  Qed.

  (** the sighash of a different input index is a different message: a signature placed on the
      wrong input does not verify *)
  Lemma wrong_index_rejected tx i j c k : i <> j ->
    verifyb (Sig T k (msg_for T v5 tx j c)) k (msg_for T v5 tx i c) = false.
  Proof.
    intros Hne. apply not_true_is_false. intros V. apply verify_iff in V. destruct V as [_ E].
    unfold msg_for in E. destruct (c_spend c); inversion E; congruence.
  Qed.

  (** ... and neither does one over another coin's value *)
  Lemma wrong_value_rejected tx i c c' k : c_spend c = c_spend c' -> c_value c <> c_value c' ->
    verifyb (Sig T k (msg_for T v5 tx i c')) k (msg_for T v5 tx i c) = false.
  Proof.
    intros Hs Hne. apply not_true_is_false. intros V. apply verify_iff in V. destruct V as [_ E].
    unfold msg_for in E. rewrite Hs in E. destruct (c_spend c'); inversion E; congruence.
  Qed.

  (** signatures in key-registration order instead of script order fail the ordered matching *)
  Lemma multisig_order_matters msg k1 k2 : k1 <> k2 ->
    checkmultisig [k1; k2] [Sig T k2 msg; Sig T k1 msg] msg = false.
  Proof.
    intros Hne. cbn [checkmultisig].
    replace (verifyb (Sig T k2 msg) k1 msg) with false.
    2:{ symmetry. apply not_true_is_false. intros V. apply verify_iff in V. destruct V. congruence. }
    rewrite verify_own. reflexivity.
  Qed.

  (** a multisig input can be signed exactly when the builder model says so *)
  Lemma sign_p2sh_iff keys tx i v m n :
    sign_input T v5 keys tx i (mkCoin v (SpP2sh m n)) <> None <-> p2sh_signable keys (m, n) = true.
  Proof.
    unfold sign_input, p2sh_signable. cbn [c_spend fst snd].
    destruct (len (signing_keys keys m n) =? m); split; intros H; try congruence; try discriminate.
  Qed.
End SigningProofs.

(* ------------------------------------------------------------ the observed-selector clause holds of the model's signing step *)
From V.C14 Require Import Spec.

Lemma subseqb_filter (f : Z -> bool) : forall pks m, subseqb pks (firstn m (filter f pks)) = true.
Proof.
  induction pks as [|k pks IH]; intros m.
  - cbn [filter]. rewrite firstn_nil. reflexivity.
  - cbn [filter]. destruct (f k) eqn:Fk.
    + destruct m as [|m]; [reflexivity|]. cbn [firstn subseqb]. rewrite Z.eqb_refl. apply IH.
    + destruct (firstn m (filter f pks)) as [|k' ks] eqn:E; [reflexivity|].
      cbn [subseqb].
      assert (Fk' : f k' = true).
      { assert (In k' (filter f pks)).
        { assert (In k' (firstn m (filter f pks))) by (rewrite E; now left).
          clear - H. revert m H. induction (filter f pks) as [|y l IHl]; intros m H.
          - rewrite firstn_nil in H. destruct H.
          - destruct m; [destruct H|]. cbn [firstn] in H. destruct H as [->|H]; [now left|right; eauto]. }
        apply filter_In in H. tauto. }
      replace (k' =? k) with false by (symmetry; apply Z.eqb_neq; congruence).
      specialize (IH m). rewrite E in IH. exact IH.
Qed.

Lemma script_eqb_refl s : script_eqb s s = true.
Proof. destruct s; cbn; rewrite ?Z.eqb_refl; reflexivity. Qed.
Lemma script_eqb_eq a b : script_eqb a b = true <-> a = b.
Proof.
  destruct a, b; cbn; rewrite ?andb_true_iff, ?Z.eqb_eq; split; intros H; try discriminate;
    try (inversion H; auto); try (destruct H; congruence); congruence.
Qed.
Lemma oscript_eqb_refl o : option_eqb script_eqb o o = true.
Proof. destruct o; cbn; auto using script_eqb_refl. Qed.

Lemma sign_input_sels v5 keys i c ss :
  sign_input unit v5 keys tt i c = Some ss ->
  input_sels_okb v5 (Z.of_nat i) c (sels_of_script_sig ss) = true.
Proof.
  unfold sign_input, input_sels_okb. destruct c as [v sp]. cbn [c_spend c_value].
  destruct sp as [k|m n|]; [| |discriminate].
  - intros H. inversion H. cbn [sels_of_script_sig sel_of_sig forallb].
    unfold sel_okb, msg_for, code_of, coin_script.
    cbn [c_spend c_value s_index s_value s_type s_code s_spk s_key h_index h_value h_type h_code h_spk].
    rewrite !Z.eqb_refl, script_eqb_refl, oscript_eqb_refl. reflexivity.
  - destruct (len (signing_keys keys m n) =? m) eqn:L; [|discriminate].
    intros H. inversion H. cbn [sels_of_script_sig].
    apply andb_true_intro. split.
    + apply forallb_forall. intros s Hs. apply in_map_iff in Hs. destruct Hs as (sg & <- & Hs).
      apply in_map_iff in Hs. destruct Hs as (k & <- & _).
      unfold sel_okb, sel_of_sig, msg_for, code_of, coin_script.
      cbn [c_spend c_value s_index s_value s_type s_code s_spk h_index h_value h_type h_code h_spk].
      rewrite !Z.eqb_refl, script_eqb_refl, oscript_eqb_refl. reflexivity.
    + unfold len in *. rewrite !map_length, L. cbn [andb].
      rewrite !map_map. cbn [sel_of_sig s_key]. rewrite map_id.
      unfold signing_keys. apply subseqb_filter.
Qed.

Lemma sign_from_sels v5 keys : forall cs i0 l,
  sign_from unit v5 keys tt i0 cs = Some l ->
  sels_okb_from v5 (Z.of_nat i0) cs (map sels_of_script_sig l) = true.
Proof.
  induction cs as [|c cs IH]; intros i0 l H; cbn [sign_from] in H.
  - inversion H. reflexivity.
  - destruct (sign_input unit v5 keys tt i0 c) as [s|] eqn:S0; [|discriminate].
    destruct (sign_from unit v5 keys tt (S i0) cs) as [l'|] eqn:R; [|discriminate].
    inversion H. cbn [map sels_okb_from]. rewrite (sign_input_sels _ _ _ _ _ S0). cbn [andb].
    replace (Z.of_nat i0 + 1) with (Z.of_nat (S i0)) by lia. now apply IH.
Qed.

(** the signing step succeeds when every input is of a signable kind *)
Lemma sign_from_total v5 keys : forall ops pos i0,
  forallb (signable_kind keys) (tkinds ops) = true ->
  exists l, sign_from unit v5 keys tt i0 (coins_from pos ops) = Some l.
Proof.
  induction ops as [|o ops IH]; intros pos i0 H; [exists []; reflexivity|].
  destruct o; cbn [coins_from]; try (apply IH; exact H).
  - unfold tkinds in H. cbn [flat_map tk_of app forallb] in H. apply andb_prop in H. destruct H as [_ H2].
    destruct (IH (pos + 1) (S i0) H2) as [l Hl]. cbn [sign_from]. unfold sign_input at 1. cbn [c_spend].
    rewrite Hl. eauto.
  - unfold tkinds in H. cbn [flat_map tk_of app forallb] in H. apply andb_prop in H. destruct H as [H1 H2].
    destruct (IH (pos + 1) (S i0) H2) as [l Hl]. cbn [sign_from]. unfold sign_input at 1. cbn [c_spend].
    cbn [signable_kind] in H1. unfold p2sh_signable in H1. cbn [fst snd] in H1. rewrite H1, Hl. eauto.
  - unfold tkinds in H. cbn [flat_map tk_of app forallb signable_kind] in H. discriminate.
Qed.

Lemma model_sels_ok keys v ops :
  forallb (signable_kind keys) (tkinds ops) = true ->
  sels_okb_from (is_v5 v) 0 (coins_of ops) (model_sels keys v ops) = true.
Proof.
  intros H. unfold model_sels, apply_signatures, coins_of.
  destruct (sign_from_total (is_v5 v) keys ops 0 0%nat H) as [l Hl]. rewrite Hl.
  apply (sign_from_sels _ _ _ 0%nat _ Hl).
Qed.

Lemma sel_eqb_eq a b : sel_eqb a b = true <-> a = b.
Proof.
  destruct a as [a1 a2 a3 a4 a5 a6], b as [b1 b2 b3 b4 b5 b6]. unfold sel_eqb.
  cbn [s_key s_index s_value s_code s_spk s_type].
  rewrite !andb_true_iff, !Z.eqb_eq, script_eqb_eq, (option_eqb_spec script_eqb script_eqb_eq).
  split; [intros (((((-> & ->) & ->) & ->) & ->) & ->); reflexivity|intros H; inversion H; subst; repeat split; reflexivity].
Qed.
